package constraint

import (
	"strconv"
	"testing"

	"github.com/stretchr/testify/assert"

	jschema "github.com/jsightapi/jsight-schema-go-library"
	jbytes "github.com/jsightapi/jsight-schema-go-library/bytes"
	"github.com/jsightapi/jsight-schema-go-library/internal/json"
)

func TestNewAdditionalProperties(t *testing.T) {
	t.Run("positive", func(t *testing.T) {
		cc := map[string]AdditionalProperties{
			"any": {
				mode: AdditionalPropertiesCanBeAny,
			},

			"true": {
				mode: AdditionalPropertiesCanBeAny,
			},

			"false": {
				mode: AdditionalPropertiesNotAllowed,
			},

			"@type": {
				mode:     AdditionalPropertiesMustBeUserType,
				typeName: jbytes.Bytes("@type"),
			},

			"object": {
				mode:       AdditionalPropertiesMustBeSchemaType,
				schemaType: jschema.SchemaTypeObject,
			},
		}

		for v, expected := range cc {
			t.Run(v, func(t *testing.T) {
				t.Parallel()

				actual := NewAdditionalProperties(jbytes.Bytes(v))
				assert.True(t, actual.IsEqual(expected))
			})
		}
	})

	t.Run("negative", func(t *testing.T) {
		assert.PanicsWithError(t, `Unknown JSchema type "foo"`, func() {
			NewAdditionalProperties(jbytes.Bytes("foo"))
		})
	})
}

func TestAdditionalProperties_IsJsonTypeCompatible(t *testing.T) {
	testIsJsonTypeCompatible(t, AdditionalProperties{}, json.TypeObject)
}

func TestAdditionalProperties_Type(t *testing.T) {
	const expected = AdditionalPropertiesConstraintType

	actual := AdditionalProperties{}.Type()
	assert.Equal(t, expected, actual)
}

func TestAdditionalProperties_String(t *testing.T) {
	t.Run("positive", func(t *testing.T) {
		cc := map[string]AdditionalProperties{
			"additionalProperties: any": {
				mode: AdditionalPropertiesCanBeAny,
			},
			"additionalProperties: object": {
				mode:       AdditionalPropertiesMustBeSchemaType,
				schemaType: jschema.SchemaTypeObject,
			},
			"additionalProperties: @foo": {
				mode:     AdditionalPropertiesMustBeUserType,
				typeName: jbytes.Bytes("@foo"),
			},
			"additionalProperties: false": {
				mode: AdditionalPropertiesNotAllowed,
			},
		}

		for expected, p := range cc {
			t.Run(expected, func(t *testing.T) {
				actual := p.String()
				assert.Equal(t, expected, actual)
			})
		}
	})

	t.Run("negative", func(t *testing.T) {
		assert.PanicsWithError(t, "Constraint error", func() {
			_ = AdditionalProperties{
				mode: -1,
			}.String()
		})
	})
}

func TestAdditionalProperties_Mode(t *testing.T) {
	cc := []AdditionalPropertiesMode{
		AdditionalPropertiesCanBeAny,
		AdditionalPropertiesMustBeSchemaType,
		AdditionalPropertiesMustBeUserType,
	}

	for _, m := range cc {
		t.Run(strconv.Itoa(int(m)), func(t *testing.T) {
			actual := AdditionalProperties{mode: m}.Mode()
			assert.Equal(t, m, actual)
		})
	}
}

func TestAdditionalProperties_JsonType(t *testing.T) {
	const expected = jschema.SchemaTypeArray

	actual := AdditionalProperties{schemaType: expected}.SchemaType()
	assert.Equal(t, actual, expected)
}

func TestAdditionalProperties_TypeName(t *testing.T) {
	var expected = jbytes.Bytes("@foo")

	actual := AdditionalProperties{typeName: expected}.TypeName()
	assert.Equal(t, expected, actual)
}

func TestAdditionalProperties_IsEqual(t *testing.T) {
	cc := map[string]struct {
		c1, c2   AdditionalProperties
		expected bool
	}{
		"two empty": {AdditionalProperties{}, AdditionalProperties{}, true},

		"same": {
			AdditionalProperties{
				schemaType: jschema.SchemaTypeObject,
				typeName:   jbytes.Bytes("foo"),
			},
			AdditionalProperties{
				schemaType: jschema.SchemaTypeObject,
				typeName:   jbytes.Bytes("foo"),
			},
			true,
		},

		"same but with different modes": {
			AdditionalProperties{
				mode:       AdditionalPropertiesMustBeUserType,
				schemaType: jschema.SchemaTypeObject,
				typeName:   jbytes.Bytes("foo"),
			},
			AdditionalProperties{
				mode:       AdditionalPropertiesMustBeSchemaType,
				schemaType: jschema.SchemaTypeObject,
				typeName:   jbytes.Bytes("foo"),
			},
			true,
		},

		"different": {
			AdditionalProperties{
				typeName: jbytes.Bytes("foo"),
			},
			AdditionalProperties{
				schemaType: jschema.SchemaTypeObject,
			},
			false,
		},
	}

	for n, c := range cc {
		t.Run(n, func(t *testing.T) {
			t.Parallel()

			actual := c.c1.IsEqual(c.c2)
			assert.Equal(t, c.expected, actual)
		})
	}
}

func TestAdditionalProperties_ASTNode(t *testing.T) {
	cc := map[string]jschema.RuleASTNode{
		`"any"`: {
			TokenType:  jschema.TokenTypeString,
			Value:      "any",
			Properties: &jschema.RuleASTNodes{},
			Source:     jschema.RuleASTNodeSourceManual,
		},

		"true": {
			TokenType:  jschema.TokenTypeBoolean,
			Value:      "true",
			Properties: &jschema.RuleASTNodes{},
			Source:     jschema.RuleASTNodeSourceManual,
		},

		"false": {
			TokenType:  jschema.TokenTypeBoolean,
			Value:      "false",
			Properties: &jschema.RuleASTNodes{},
			Source:     jschema.RuleASTNodeSourceManual,
		},

		`"@foo"`: {
			TokenType:  jschema.TokenTypeString,
			Value:      "@foo",
			Properties: &jschema.RuleASTNodes{},
			Source:     jschema.RuleASTNodeSourceManual,
		},

		`"string"`: {
			TokenType:  jschema.TokenTypeString,
			Value:      "string",
			Properties: &jschema.RuleASTNodes{},
			Source:     jschema.RuleASTNodeSourceManual,
		},

		`"integer"`: {
			TokenType:  jschema.TokenTypeString,
			Value:      "integer",
			Properties: &jschema.RuleASTNodes{},
			Source:     jschema.RuleASTNodeSourceManual,
		},
	}

	for given, expected := range cc {
		t.Run(given, func(t *testing.T) {
			assert.Equal(t, expected, NewAdditionalProperties([]byte(given)).ASTNode())
		})
	}
}
