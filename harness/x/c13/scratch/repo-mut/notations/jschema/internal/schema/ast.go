package schema

import (
	"errors"

	jschema "github.com/jsightapi/jsight-schema-go-library"
	"github.com/jsightapi/jsight-schema-go-library/notations/jschema/internal/schema/constraint"
)

func newASTNode() jschema.ASTNode {
	return jschema.ASTNode{
		Rules: &jschema.RuleASTNodes{},
	}
}

func astNodeFromNode(n Node) jschema.ASTNode {
	an := newASTNode()

	an.TokenType = n.Type().ToTokenType()
	an.SchemaType = getASTNodeSchemaType(n)
	an.Rules = collectASTRules(n.ConstraintMap())
	an.Comment = n.Comment()

	return an
}

func getASTNodeSchemaType(n Node) string {
	if n.Constraint(constraint.EnumConstraintType) != nil {
		return "enum"
	}

	if n.Constraint(constraint.OrConstraintType) != nil {
		return string(jschema.SchemaTypeMixed)
	}

	if c := n.Constraint(constraint.TypeConstraintType); c != nil {
		if tc, ok := c.(*constraint.TypeConstraint); ok {
			return tc.Bytes().Unquote().String()
		}
	}

	if n.Constraint(constraint.PrecisionConstraintType) != nil {
		return string(jschema.SchemaTypeDecimal)
	}

	return n.Type().String()
}

func collectASTRules(cc *Constraints) *jschema.RuleASTNodes {
	nn := &jschema.RuleASTNodes{}

	err := cc.Each(func(k constraint.Type, v constraint.Constraint) error {
		switch k {
		// The `Or` constraint doesn't contain all required values, but they are placed
		// in the `type` constraint.
		case constraint.OrConstraintType:
			types, ok := cc.Get(constraint.TypesListConstraintType)
			if !ok {
				//goland:noinspection GoErrorStringFormat
				return errors.New(`Can't collect rules: "types" constraint is required with "or"" constraint`)
			}

			nn.Set(constraint.OrConstraintType.String(), types.ASTNode())

		case constraint.TypesListConstraintType:
			// do nothing

		default:
			nn.Set(k.String(), v.ASTNode())
		}
		return nil
	})
	if err != nil {
		panic(err)
	}
	return nn
}
