package schema

import (
	"fmt"

	"github.com/jsightapi/jsight-schema-go-library/bytes"
	"github.com/jsightapi/jsight-schema-go-library/errors"
	"github.com/jsightapi/jsight-schema-go-library/fs"
)

type Schema struct {
	// types the map where key is the name of the type (or included Schema).
	types    map[string]Type
	rootNode Node
}

func New() Schema {
	return Schema{
		types: make(map[string]Type, 5),
	}
}

func (s Schema) TypesList() map[string]Type {
	return s.types
}

// MustType returns *Schema or panic if not found.
// Deprecated: use Schema.MustType instead
func (s Schema) MustType(name string) *Schema {
	t, ok := s.types[name]
	if ok {
		return t.schema
	}
	panic(errors.Format(errors.ErrTypeNotFound, name))
}

// Type returns specified type's schema.
func (s Schema) Type(name string) (*Schema, errors.Err) {
	t, ok := s.types[name]
	if ok {
		return t.schema, nil
	}
	return nil, errors.Format(errors.ErrTypeNotFound, name)
}

func (s Schema) RootNode() Node {
	return s.rootNode
}

func (s *Schema) AddNamedType(name string, typ *Schema, rootFile *fs.File, begin bytes.Index) {
	if !bytes.Bytes(name).IsUserTypeName() {
		panic(errors.Format(errors.ErrInvalidSchemaName, name))
	}
	s.addType(name, typ, rootFile, begin)
}

// AddUnnamedType Adds an unnamed TYPE to the SCHEMA. Returns a unique name for the added TYPE.
func (s *Schema) AddUnnamedType(typ *Schema, rootFile *fs.File, begin bytes.Index) string {
	name := fmt.Sprintf("#%p", typ)
	s.addType(name, typ, rootFile, begin)
	return name
}

func (s *Schema) addType(name string, schema *Schema, rootFile *fs.File, begin bytes.Index) {
	if _, ok := s.types[name]; ok {
		panic(errors.Format(errors.ErrDuplicationOfNameOfTypes, name))
	}
	s.types[name] = Type{schema, rootFile, begin}
}

func (s *Schema) AddType(n string, t Type) {
	s.types[n] = t
}

func (s *Schema) SetRootNode(node Node) {
	s.rootNode = node
}
