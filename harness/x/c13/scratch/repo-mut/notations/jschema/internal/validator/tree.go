package validator

import (
	"github.com/jsightapi/jsight-schema-go-library/errors"
	"github.com/jsightapi/jsight-schema-go-library/internal/lexeme"
)

// A Tree of validators.
//
// The tree consists of nodes (validators).
// Each node contains a pointer to the parent and validator from the schema package.
// Leaf, is the node without children.
// Root, is the top node in a tree. The parent of the root node is nil
//
// The "tree" structure contains the leaves in which to pass the LexEvent for
// validation.
type Tree struct {
	// leaves a list of all the leaves of the tree.
	leaves map[int]validator

	// leavesIndexes the list of indexes for the leaves. Defined in struct (not
	// in method) to optimize memory allocation.
	leavesIndexes []int

	// nextIndex the index for next leaf.
	nextIndex int
}

func NewTree(list []validator) Tree {
	t := Tree{
		nextIndex:     0,
		leaves:        make(map[int]validator, 5),
		leavesIndexes: make([]int, 0, 5),
	}
	for _, v := range list {
		t.addLeaf(v)
	}

	return t
}

// FeedLeaves returns true if the validation of the entire tree is completed. There
// are no more validators left in the tree.
func (t *Tree) FeedLeaves(jsonLex lexeme.LexEvent) bool {
	// A new array with the indexes of the leaves of the tree, to iterate on it.
	// The tree will change during the iteration.
	t.setLeavesIndexes()
	errorsCount := 0

	var err error

	for _, indexOfLeaf := range t.leavesIndexes {
		if leaf, ok := t.leaves[indexOfLeaf]; ok {
			err = t.feedLeaf(leaf, jsonLex, indexOfLeaf) // can panic
			if err != nil {
				errorsCount++
			}
		}
	}

	if errorsCount == len(t.leavesIndexes) {
		if len(t.leavesIndexes) == 1 {
			panic(err)
		} else {
			panic(lexeme.NewLexEventError(jsonLex, errors.ErrOrRuleSetValidation))
		}
	}

	if len(t.leaves) == 0 {
		return true
	}
	return false
}

func (t *Tree) setLeavesIndexes() {
	t.leavesIndexes = t.leavesIndexes[:0]
	for i := range t.leaves {
		t.leavesIndexes = append(t.leavesIndexes, i)
	}
}

// feedLeaf passes the LexEvent to the validator. Based on the results changes the
// tree.
// Removes or adds new validators to the tree.
// Returns common.DocumentError if an error is found during node validation.
func (t *Tree) feedLeaf(leaf validator, jsonLex lexeme.LexEvent, indexOfLeaf int) (err error) {
	defer func() {
		if r := recover(); r != nil {
			var ok bool
			err, ok = r.(errors.DocumentError)
			if ok {
				delete(t.leaves, indexOfLeaf)
			} else {
				panic(r)
			}
		}
	}()

	children, done := leaf.feed(jsonLex) // can panic

	if done { // validation of node completed
		parent := leaf.parent()
		leaf.setParent(nil) // remove the pointer to simplify garbage collection in the future
		if parent == nil {
			delete(t.leaves, indexOfLeaf)
		} else if t.hasLeaf(parent) {
			// Another alternative has already stepped back to the same parent.
			delete(t.leaves, indexOfLeaf)
		} else {
			t.leaves[indexOfLeaf] = parent // step back to parent
		}
		return nil
	}

	// children found
	for j, child := range children {
		if j == 0 {
			// Forget/replace the current leaf. He becomes branch, parent for
			// first child.
			t.leaves[indexOfLeaf] = child
		} else {
			t.addLeaf(child) // append new child leaf to tree
		}
	}

	return nil
}

func (t *Tree) hasLeaf(v validator) bool {
	for _, l := range t.leaves {
		if l == v {
			return true
		}
	}
	return false
}

func (t *Tree) addLeaf(v validator) {
	t.leaves[t.nextIndex] = v
	t.nextIndex++
}
