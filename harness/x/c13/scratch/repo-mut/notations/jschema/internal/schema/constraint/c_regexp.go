package constraint

import (
	"encoding/json"
	"regexp"

	jschema "github.com/jsightapi/jsight-schema-go-library"
	"github.com/jsightapi/jsight-schema-go-library/bytes"
	"github.com/jsightapi/jsight-schema-go-library/errors"
	internalJSON "github.com/jsightapi/jsight-schema-go-library/internal/json"
)

type Regex struct {
	re         *regexp.Regexp
	expression string
}

var (
	_ Constraint       = Regex{}
	_ Constraint       = (*Regex)(nil)
	_ LiteralValidator = Regex{}
	_ LiteralValidator = (*Regex)(nil)
)

func NewRegex(value bytes.Bytes) *Regex {
	var str string // decoded json string. JSON "aaa\\bbb" to string "aaa\bbb".
	err := json.Unmarshal(value, &str)
	if err != nil {
		panic(err)
	}

	return &Regex{
		expression: str,
		re:         regexp.MustCompile(str), // can panic
	}
}

func (Regex) IsJsonTypeCompatible(t internalJSON.Type) bool {
	return t == internalJSON.TypeString
}

func (Regex) Type() Type {
	return RegexConstraintType
}

func (c Regex) String() string {
	return RegexConstraintType.String() + ": " + c.expression
}

func (c Regex) Validate(value bytes.Bytes) {
	if !c.re.Match(value.Unquote()) {
		panic(errors.ErrDoesNotMatchRegularExpression)
	}
}

func (c Regex) ASTNode() jschema.RuleASTNode {
	return newRuleASTNode(jschema.TokenTypeString, c.expression, jschema.RuleASTNodeSourceManual)
}
