package schema

import (
	"strings"

	jschema "github.com/jsightapi/jsight-schema-go-library"
	"github.com/jsightapi/jsight-schema-go-library/bytes"
	"github.com/jsightapi/jsight-schema-go-library/errors"
	"github.com/jsightapi/jsight-schema-go-library/internal/json"
	"github.com/jsightapi/jsight-schema-go-library/internal/lexeme"
	"github.com/jsightapi/jsight-schema-go-library/notations/jschema/internal/schema/constraint"
)

type MixedValueNode struct {
	schemaType string
	value      string

	types []string

	baseNode
}

var _ Node = (*MixedValueNode)(nil)

func NewMixedValueNode(lex lexeme.LexEvent) *MixedValueNode {
	n := MixedValueNode{
		baseNode: newBaseNode(lex),
	}
	n.setJsonType(json.TypeMixed)
	n.realType = json.TypeMixed.String()
	return &n
}

func (*MixedValueNode) SetRealType(string) bool {
	// Mixed value node is always have mixed type.
	return true
}

func (n *MixedValueNode) AddConstraint(c constraint.Constraint) {
	switch t := c.(type) {
	case *constraint.TypeConstraint:
		n.addTypeConstraint(t)
		n.types = []string{t.Bytes().String()}

	case *constraint.Or:
		n.addOrConstraint(t)

	case *constraint.TypesList:
		n.types = t.Names()
		n.baseNode.AddConstraint(t)

	default:
		n.baseNode.AddConstraint(t)
	}
}

func (n *MixedValueNode) addTypeConstraint(c *constraint.TypeConstraint) {
	exists, ok := n.constraints.Get(constraint.TypeConstraintType)
	if !ok {
		n.baseNode.AddConstraint(c)
		n.schemaType = c.Bytes().Unquote().String()
		return
	}

	newVal := c.Bytes().Unquote().String()
	existsVal := exists.(constraint.BytesKeeper).Bytes().Unquote().String()
	if newVal != existsVal && newVal != "mixed" {
		panic(errors.Format(errors.ErrDuplicateRule, c.Type().String()))
	}
	n.constraints.Set(c.Type(), c)
	n.schemaType = "mixed"
}

func (n *MixedValueNode) addOrConstraint(c *constraint.Or) {
	if tc, ok := n.constraints.Get(constraint.TypeConstraintType); ok {
		n.addTypeConstraint(constraint.NewType(
			bytes.Bytes(`"mixed"`),
			tc.(*constraint.TypeConstraint).Source(),
		))
	}
	n.baseNode.AddConstraint(c)
}

func (n *MixedValueNode) Grow(lex lexeme.LexEvent) (Node, bool) {
	switch lex.Type() {
	case lexeme.MixedValueBegin:

	case lexeme.MixedValueEnd:
		n.schemaLexEvent = lex
		n.value = lex.Value().TrimSpaces().String()
		n.schemaType = n.value
		return n.parent, false

	default:
		panic(`Unexpected lexical event "` + lex.Type().String() + `" in mixed value node`)
	}

	return n, false
}

func (n *MixedValueNode) ASTNode() (jschema.ASTNode, error) {
	an := astNodeFromNode(n)

	an.SchemaType = n.schemaType
	if strings.ContainsRune(n.value, '|') {
		an.SchemaType = json.TypeMixed.String()
	}
	an.Value = n.value
	return an, nil
}

func (n *MixedValueNode) GetTypes() []string {
	return n.types
}
