package loader

import (
	"sort"

	"github.com/jsightapi/jsight-schema-go-library/errors"
	"github.com/jsightapi/jsight-schema-go-library/internal/lexeme"
	"github.com/jsightapi/jsight-schema-go-library/notations/jschema/internal/schema"
	"github.com/jsightapi/jsight-schema-go-library/notations/jschema/internal/schema/constraint"
)

type allOfConstraintCompiler struct {
	rootSchema *schema.Schema

	// processingTypes a list of schema names that are in the process of compilation
	// (i.e., schemas that contain at least one "allow" rule somewhere inside).
	// Recursive schema processing can occur during compilation.
	processingTypes map[string]struct{}

	// compiledTypes a list of compiled schemas, or schemas that do not need to
	// be compiled (within which the "all Of" rule is not used).
	compiledTypes map[string]struct{}

	foundTypes map[string]schema.Type
}

// CompileAllOf compile "allOf" rules in root schema, and in all types.
// Adds the necessary properties to objects, removes "allOf" rule.
func CompileAllOf(rootSchema *schema.Schema) {
	c := allOfConstraintCompiler{
		rootSchema:      rootSchema,
		processingTypes: make(map[string]struct{}),
		compiledTypes:   make(map[string]struct{}),
		foundTypes:      make(map[string]schema.Type),
	}

	c.processSchema(rootSchema)

	// In case allow is used only in types (not in the root schema).
	// Iterate in a fixed order: which error is reported must not depend on map order.
	names := make([]string, 0, len(rootSchema.TypesList()))
	for name := range rootSchema.TypesList() {
		names = append(names, name)
	}
	sort.Strings(names)
	for _, name := range names {
		c.processType(name)
	}

	for n, t := range c.foundTypes {
		rootSchema.AddType(n, t)
	}
}

// processSchema searches the schema and processes nodes that contain the "allOf"
// rule.
func (c *allOfConstraintCompiler) processSchema(schem *schema.Schema) {
	if node := schem.RootNode(); node != nil {
		c.processNode(node)
	}
}

// processNode recursively searches and processing nodes for the "allOf" rule.
func (c *allOfConstraintCompiler) processNode(node schema.Node) {
	if allOf := node.Constraint(constraint.AllOfConstraintType); allOf != nil {
		c.extend(node, allOf.(*constraint.AllOf).SchemaNames())
		node.DeleteConstraint(constraint.AllOfConstraintType)
	}

	if branchNode, ok := node.(schema.BranchNode); ok {
		for _, childNode := range branchNode.Children() {
			c.processNode(childNode)
		}
	}
}

func (c *allOfConstraintCompiler) extend(node schema.Node, schemaNames []string) {
	defer lexeme.CatchLexEventError(node.BasisLexEventOfSchemaForNode())

	if len(schemaNames) == 0 {
		panic(errors.ErrTypeNameNotFoundInAllOfRule)
	}

	for _, name := range schemaNames {
		c.extendWith(node, name)
	}
}

func (c *allOfConstraintCompiler) extendWith(node schema.Node, name string) {
	lex := node.BasisLexEventOfSchemaForNode()
	defer lexeme.CatchLexEventErrorWithIncorrectUserType(
		lex,
		lex.File().Name(),
	)
	schem := c.processType(name)

	for n, t := range schem.TypesList() {
		c.foundTypes[n] = t
	}

	fromObject, ok := schem.RootNode().(*schema.ObjectNode)
	if !ok {
		panic(errors.Format(errors.ErrUnacceptableUserTypeInAllOfRule, name))
	}

	// It is not obligatory to make a check for casting to type *schema.ObjectNode.
	// The constraint cannot be applied to other types of nodes.
	toObject, ok := node.(*schema.ObjectNode)
	if !ok {
		panic(errors.Format(errors.ErrUnexpectedConstraint, constraint.AllOfConstraintType.String(), node.Type().String())) //nolint:lll
	}

	if fromAdditionalProperties := fromObject.Constraint(constraint.AdditionalPropertiesConstraintType); fromAdditionalProperties != nil { //nolint:lll
		fromAdditionalProperties := fromAdditionalProperties.(*constraint.AdditionalProperties)                                          //nolint:errcheck // We're sure about this type.
		if toAdditionalProperties := toObject.Constraint(constraint.AdditionalPropertiesConstraintType); toAdditionalProperties != nil { //nolint:lll
			toAdditionalProperties := toAdditionalProperties.(*constraint.AdditionalProperties) //nolint:errcheck // We're sure about this type.
			if !fromAdditionalProperties.IsEqual(*toAdditionalProperties) {
				panic(errors.ErrConflictAdditionalProperties)
			}
		} else {
			toObject.AddConstraint(fromAdditionalProperties)
		}
	}

	for i, childNode := range fromObject.Children() {
		key := fromObject.Key(i)
		toObject.AddChild(key, childNode) // can panic ErrDuplicateKeysInSchema
	}

	if requiredKeys := fromObject.Constraint(constraint.RequiredKeysConstraintType); requiredKeys != nil {
		for _, key := range requiredKeys.(*constraint.RequiredKeys).Keys() {
			addRequiredKey(toObject, key)
		}
	}
}

func (c *allOfConstraintCompiler) processType(name string) *schema.Schema {
	if _, ok := c.processingTypes[name]; ok {
		panic(errors.ErrUnacceptableRecursionInAllOfRule)
	}

	typ := c.rootSchema.MustType(name) // can panic

	if _, ok := c.compiledTypes[name]; ok {
		return typ
	}

	c.processingTypes[name] = struct{}{}
	c.processSchema(typ)
	delete(c.processingTypes, name)

	c.compiledTypes[name] = struct{}{}

	return typ
}
