package schema

import (
	"github.com/jsightapi/jsight-schema-go-library/errors"
	"github.com/jsightapi/jsight-schema-go-library/internal/lexeme"
)

type ObjectNodeKeys struct {
	index map[indexKey]int
	Data  []ObjectNodeKey
}

type ObjectNodeKey struct {
	Key        string
	Lex        lexeme.LexEvent
	Index      int
	IsShortcut bool
}

type indexKey struct {
	Key        string
	IsShortcut bool
}

func indexKeyFromObjectNodeKey(k ObjectNodeKey) indexKey {
	return indexKey{
		Key:        k.Key,
		IsShortcut: k.IsShortcut,
	}
}

func newObjectNodeKeys() *ObjectNodeKeys {
	return &ObjectNodeKeys{
		Data:  make([]ObjectNodeKey, 0, 5),
		index: make(map[indexKey]int, 5),
	}
}

func (k *ObjectNodeKeys) Set(v ObjectNodeKey) {
	if k.isDuplicatedKey(v) {
		panic(errors.Format(errors.ErrDuplicateKeysInSchema, v.Key))
	}

	k.index[indexKeyFromObjectNodeKey(v)] = v.Index
	k.Data = append(k.Data, v)
}

func (k *ObjectNodeKeys) isDuplicatedKey(newKey ObjectNodeKey) bool {
	_, ok := k.index[indexKeyFromObjectNodeKey(newKey)]
	return ok
}

func (k ObjectNodeKeys) Find(i int) (ObjectNodeKey, bool) {
	if len(k.Data) > i {
		return k.Data[i], true
	}
	return ObjectNodeKey{}, false
}

func (k ObjectNodeKeys) Get(key string, isShortcut bool) (ObjectNodeKey, bool) {
	if i, ok := k.index[indexKey{
		Key:        key,
		IsShortcut: isShortcut,
	}]; ok {
		return k.Data[i], true
	}
	return ObjectNodeKey{}, false
}
