package constraint

import (
	jschema "github.com/jsightapi/jsight-schema-go-library"
)

func newEmptyRuleASTNode() jschema.RuleASTNode {
	return jschema.RuleASTNode{
		Properties: &jschema.RuleASTNodes{},
		Source:     jschema.RuleASTNodeSourceManual,
	}
}

func newRuleASTNode(t jschema.TokenType, v string, s jschema.RuleASTNodeSource) jschema.RuleASTNode {
	an := newEmptyRuleASTNode()

	an.TokenType = t
	an.Value = v
	an.Source = s

	return an
}
