package constraint

import (
	"testing"

	"github.com/stretchr/testify/assert"

	"github.com/jsightapi/jsight-schema-go-library/bytes"
	"github.com/jsightapi/jsight-schema-go-library/errors"
	"github.com/jsightapi/jsight-schema-go-library/internal/json"
)

func TestNewDateTime(t *testing.T) {
	assert.NotNil(t, NewDateTime())
}

func TestDateTime_IsJsonTypeCompatible(t *testing.T) {
	testIsJsonTypeCompatible(t, NewDateTime(), json.TypeString)
}

func TestDateTime_Type(t *testing.T) {
	assert.Equal(t, DateTimeConstraintType, NewDateTime().Type())
}

func TestDateTime_String(t *testing.T) {
	assert.Equal(t, DateTimeConstraintType.String(), NewDateTime().String())
}

func TestDateTime_Validate(t *testing.T) {
	t.Run("positive", func(t *testing.T) {
		cc := []string{
			"2006-01-02T15:04:05+07:00",
			"2011-10-08T23:11:44-01:00",
			"2011-10-08T23:11:44Z",
		}

		for _, c := range cc {
			t.Run(c, func(t *testing.T) {
				assert.NotPanics(t, func() {
					NewDateTime().Validate(bytes.Bytes(c))
				})
			})
		}
	})

	t.Run("negative", func(t *testing.T) {
		var tests = []string{
			"",
			"12",
			"1.2",
			"true",
			"false",
			"null",
			`"ABC"`,
			" 02 Jan 2006 15:04:05 -0700", // space before date
			"02 Jan 2006 15:04:05 -0700 ", // space after date
			"32 Jan 2006 15:04:05 -07000", // an extra zero after the zone value
			"32 Jan 2006 15:04:05 -0700 ", // day out of range
			"29 Feb 2019 23:59:05 -0300",  // day out of range
			"02 Jan -2006 15:04:05 -0700", // the negative value of the year
			"2 Jan 2006 15:04:05 -0700",   // the leading zero in the date is missing
			"02 Jan 06 15:04:05 -0700",    // year is absent
			"02 Jan 2006 15:04:05 -07:00", // colon
			"02 Jan 2006 15:4:05 -0700",   // cannot parse "4" as "04"
			"02 Jan 2006 3:04:5 -0700",    // cannot parse "5" as "05"
			"02 Jan 2006 15:04:05",        // zone is absent
			"02 Jan 2006",                 // year and zone is absent
			"02 Jan 2006 15:04:05 -07",    // no trailing zeros
			"02 Jan 2006 24:00:00 -0700",  // It's not possible to specify midnight as 24:00
			"2011-10-08T23:11:44",
		}

		for _, value := range tests {
			t.Run(value, func(t *testing.T) {
				assert.PanicsWithValue(t, errors.ErrInvalidDateTime, func() {
					NewDateTime().Validate(bytes.Bytes(value))
				})
			})
		}
	})
}

func TestDateTime_ASTNode(t *testing.T) {
	assert.Equal(t, newEmptyRuleASTNode(), NewDateTime().ASTNode())
}
