package constraint

import (
	"testing"

	"github.com/stretchr/testify/assert"

	"github.com/jsightapi/jsight-schema-go-library/bytes"
	"github.com/jsightapi/jsight-schema-go-library/fs"
	"github.com/jsightapi/jsight-schema-go-library/internal/lexeme"
)

func TestNewConstraintFromRule(t *testing.T) {
	t.Run("positive", func(t *testing.T) {
		cc := map[string]struct {
			val          string
			expectedType Constraint
		}{
			"minLength":            {"1", &MinLength{}},
			"maxLength":            {"1", &MaxLength{}},
			"min":                  {"1", &Min{}},
			"max":                  {"1", &Max{}},
			"exclusiveMinimum":     {"true", &ExclusiveMinimum{}},
			"exclusiveMaximum":     {"true", &ExclusiveMaximum{}},
			"type":                 {"foo", &TypeConstraint{}},
			"precision":            {"1", &Precision{}},
			"optional":             {"true", &Optional{}},
			"minItems":             {"1", &MinItems{}},
			"maxItems":             {"1", &MaxItems{}},
			"additionalProperties": {"true", &AdditionalProperties{}},
			"nullable":             {"true", &Nullable{}},
			"regex":                {`"."`, &Regex{}},
			"const":                {"true", &Const{}},
		}

		for given, c := range cc {
			t.Run(given, func(t *testing.T) {
				constraint := NewConstraintFromRule(
					lexeme.NewLexEvent(
						lexeme.LiteralBegin,
						0,
						bytes.Index(len(given))-1,
						fs.NewFile("", given),
					),
					bytes.Bytes(c.val),
					nil,
				)

				assert.IsType(t, c.expectedType, constraint)
			})
		}
	})

	t.Run("negative", func(t *testing.T) {
		assert.PanicsWithError(t, `ERROR (code 601): Unknown rule "invalid"
	in line 1 on file 
	> invalid
	--^`, func() {
			const given = "invalid"

			NewConstraintFromRule(
				lexeme.NewLexEvent(
					lexeme.LiteralBegin,
					0,
					bytes.Index(len(given))-1,
					fs.NewFile("", given),
				),
				nil,
				nil,
			)
		})
	})
}
