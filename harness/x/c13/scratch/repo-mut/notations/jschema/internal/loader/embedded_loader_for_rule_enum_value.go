package loader

import (
	stdErrors "errors"
	"fmt"
	"strings"

	jschemaLib "github.com/jsightapi/jsight-schema-go-library"
	"github.com/jsightapi/jsight-schema-go-library/errors"
	"github.com/jsightapi/jsight-schema-go-library/internal/lexeme"
	"github.com/jsightapi/jsight-schema-go-library/notations/jschema/internal/schema/constraint"
	"github.com/jsightapi/jsight-schema-go-library/rules/enum"
)

// enumValueLoader loader for "enum" rule value (array of literals).
// Ex: [123, 45.67, "abc", true, null]
type enumValueLoader struct {
	enumConstraint *constraint.Enum

	// stateFunc a function for running a state machine (the current state of the
	// state machine).
	stateFunc func(lexeme.LexEvent)

	// rules a set of all available rules.
	// Will be used for creating enum from one of rule.
	rules map[string]jschemaLib.Rule

	// lastIdx index of last added enum value.
	lastIdx int

	// inProgress true - if loading in progress, false - if loading finisher.
	inProgress bool
}

var _ embeddedLoader = (*enumValueLoader)(nil)

func newEnumValueLoader(
	enumConstraint *constraint.Enum,
	rules map[string]jschemaLib.Rule,
) *enumValueLoader {
	l := &enumValueLoader{
		enumConstraint: enumConstraint,
		inProgress:     true,
		rules:          rules,
	}
	l.stateFunc = l.begin
	return l
}

func (l *enumValueLoader) Load(lex lexeme.LexEvent) bool {
	defer lexeme.CatchLexEventError(lex)
	l.stateFunc(lex)
	return l.inProgress
}

// begin of array "[", or "@"
func (l *enumValueLoader) begin(lex lexeme.LexEvent) {
	switch lex.Type() {
	case lexeme.ArrayBegin:
		l.stateFunc = l.arrayItemBeginOrArrayEnd
	case lexeme.MixedValueBegin:
		l.stateFunc = l.ruleNameBegin
	default:
		panic(errors.ErrInvalidValueInEnumRule)
	}
}

// arrayItemBeginOrArrayEnd begin of array item begin or array end
// ex: [1 <--
// ex: [" <--
// ex: ] <--
func (l *enumValueLoader) arrayItemBeginOrArrayEnd(lex lexeme.LexEvent) {
	switch lex.Type() {
	case lexeme.ArrayItemBegin:
		l.stateFunc = l.literal
	case lexeme.ArrayEnd:
		l.stateFunc = l.endOfLoading
		l.inProgress = false
	case lexeme.InlineAnnotationBegin:
		l.stateFunc = l.commentStart
	default:
		panic(errors.ErrLoader)
	}
}

func (l *enumValueLoader) commentStart(lex lexeme.LexEvent) {
	if lex.Type() != lexeme.InlineAnnotationTextBegin {
		panic(errors.ErrLoader)
	}
	l.stateFunc = l.commentEnd
}

func (l *enumValueLoader) commentEnd(lex lexeme.LexEvent) {
	if lex.Type() != lexeme.InlineAnnotationTextEnd {
		panic(errors.ErrLoader)
	}

	l.enumConstraint.SetComment(l.lastIdx, lex.Value().String())
	l.stateFunc = l.annotationEnd
}

func (l *enumValueLoader) annotationEnd(lex lexeme.LexEvent) {
	if lex.Type() != lexeme.InlineAnnotationEnd {
		panic(errors.ErrLoader)
	}
	l.stateFunc = l.arrayItemBeginOrArrayEnd
}

// array item value (literal)
func (l *enumValueLoader) literal(lex lexeme.LexEvent) {
	switch lex.Type() {
	case lexeme.LiteralBegin:
	case lexeme.LiteralEnd:
		l.lastIdx = l.enumConstraint.Append(constraint.NewEnumItem(lex.Value(), ""))
		l.stateFunc = l.arrayItemEnd
	default:
		panic(errors.ErrIncorrectArrayItemTypeInEnumRule)
	}
}

func (l *enumValueLoader) arrayItemEnd(lex lexeme.LexEvent) {
	if lex.Type() != lexeme.ArrayItemEnd {
		panic(errors.ErrLoader)
	}
	l.stateFunc = l.arrayItemBeginOrArrayEnd
}

// ruleNameBegin process expected rule name.
// ex: @ <--
func (l *enumValueLoader) ruleNameBegin(lex lexeme.LexEvent) {
	if lex.Type() != lexeme.TypesShortcutBegin {
		panic(errors.ErrLoader)
	}
	l.stateFunc = l.ruleName
}

// ruleName process rule name
func (l *enumValueLoader) ruleName(lex lexeme.LexEvent) {
	if lex.Type() != lexeme.TypesShortcutEnd {
		panic(errors.ErrLoader)
	}

	v := strings.TrimSpace(string(lex.Value()))

	r, ok := l.rules[v]
	if !ok {
		panic(errors.Format(errors.ErrEnumRuleNotFound, v))
	}

	e, ok := r.(*enum.Enum)
	if !ok {
		panic(errors.Format(errors.ErrNotAnEnumRule, v))
	}

	vv, err := e.Values()
	if err != nil {
		panic(fmt.Errorf("Invalid enum %q: %s", v, getDetailsFromEnumError(err)))
	}

	l.enumConstraint.SetRuleName(v)
	for _, v := range vv {
		if v.Type == jschemaLib.SchemaTypeComment {
			continue
		}
		l.enumConstraint.Append(constraint.NewEnumItem(v.Value, v.Comment))
	}
	l.stateFunc = l.endOfLoading
	l.inProgress = false
}

func getDetailsFromEnumError(err error) string {
	var de interface{ Message() string }
	if stdErrors.As(err, &de) {
		return de.Message()
	}
	return err.Error()
}

// The endOfLoading method should not be called during normal operation. Ensures
// that the loader will not continue to work after the load is complete.
func (*enumValueLoader) endOfLoading(lexeme.LexEvent) {
	panic(errors.ErrLoader)
}
