package loader

import (
	"sync"

	jschema "github.com/jsightapi/jsight-schema-go-library"
	"github.com/jsightapi/jsight-schema-go-library/internal/lexeme"
	"github.com/jsightapi/jsight-schema-go-library/notations/jschema/internal/scanner"
	"github.com/jsightapi/jsight-schema-go-library/notations/jschema/internal/schema"
)

// mode contains information about the mode in which the loader is located.
// It affects how the received lexical events will be interpreted depending on
// whether they are in the comments or not.
type mode int

const (
	readDefault mode = iota
	readInlineComment
	readMultiLineComment
)

// loader loads the schema from the scanner into the internal view.
// Does not check for the correctness of the branch because it deals with the scanner.
type loader struct {
	// The schema resulting.
	schema schema.Schema

	// rootSchema a scheme into which types can be added from the "or" rule.
	rootSchema *schema.Schema

	// scanner a tool to search for lexical events in a byte sequence containing
	// a schema.
	scanner *scanner.Scanner

	// lastAddedNode the last node added to the internal Schema.
	lastAddedNode schema.Node

	// rules all available rules.
	rules map[string]jschema.Rule

	// The rule is responsible for creating constraints for SCHEMA internal representation
	// nodes from the RULES described in the SCHEMA file.
	rule *ruleLoader

	// The node class is responsible for loading the JSON elements in the nodes
	// of the internal representation of the SCHEMA.
	node *nodeLoader

	// mode used for processing inline comment, multi-line comment, or no comment
	// section.
	mode mode

	// nodesPerCurrentLineCount the number of nodes in a line. To check because
	// the rule cannot be added if there is more than one nodes suitable for this
	// in the row.
	nodesPerCurrentLineCount uint
}

func LoadSchema(scan *scanner.Scanner, rootSchema *schema.Schema) *schema.Schema {
	s := LoadSchemaWithoutCompile(scan, rootSchema, nil)
	CompileBasic(&s, false)
	return &s
}

var loaderPool = sync.Pool{
	New: func() interface{} {
		return &loader{
			schema: schema.New(),
		}
	},
}

func LoadSchemaWithoutCompile(
	scan *scanner.Scanner,
	rootSchema *schema.Schema,
	rules map[string]jschema.Rule,
) schema.Schema {
	l := loaderPool.Get().(*loader) //nolint:errcheck // We're sure about this type.
	defer func() {
		l.reset()
		loaderPool.Put(l)
	}()

	l.scanner = scan
	l.rules = rules

	l.rootSchema = rootSchema
	if rootSchema == nil {
		l.rootSchema = &l.schema
	}

	l.node = newNodeLoader(&l.schema, &l.nodesPerCurrentLineCount)
	l.doLoad()

	return l.schema
}

func (l *loader) reset() {
	l.schema = schema.New()
	l.rootSchema = nil
	l.scanner = nil
	l.lastAddedNode = nil
	l.rules = nil
	l.rule = nil
	l.node = nil
	l.mode = readDefault
	l.nodesPerCurrentLineCount = 0
}

// doLoad the main function, in which there is a cycle of scanning and loading schemas.
func (l *loader) doLoad() {
	for {
		lex, ok := l.scanner.Next()
		if !ok {
			break
		}

		skip, err := l.handleLex(lex)
		if err != nil {
			panic(err)
		}

		if skip {
			continue
		}

		switch l.mode {
		case readMultiLineComment, readInlineComment:
			l.rule.load(lex)
		default:
			if node := l.node.Load(lex); node != nil {
				l.lastAddedNode = node
			}
		}
	}
}

func (l *loader) handleLex(lex lexeme.LexEvent) (bool, error) { //nolint:gocyclo // Pretty readable though.
	switch lex.Type() {
	case lexeme.TypesShortcutBegin, lexeme.KeyShortcutBegin:
		return l.mode != readMultiLineComment && l.mode != readInlineComment, nil

	case lexeme.TypesShortcutEnd:
		if l.mode == readMultiLineComment || l.mode == readInlineComment {
			return false, nil
		}

		l.mode = readDefault
		if err := addShortcutConstraint(l.lastAddedNode, l.rootSchema, lex); err != nil {
			return false, err
		}
		return true, nil

	case lexeme.MultiLineAnnotationBegin:
		l.mode = readMultiLineComment
		l.rule = newRuleLoader(l.lastAddedNode, l.nodesPerCurrentLineCount, l.rootSchema, l.rules)
		return true, nil

	case lexeme.MultiLineAnnotationEnd:
		l.mode = readDefault
		return true, nil

	case lexeme.InlineAnnotationBegin:
		if l.mode == readDefault { // not multiLine comment
			l.mode = readInlineComment
			l.rule = newRuleLoader(l.lastAddedNode, l.nodesPerCurrentLineCount, l.rootSchema, l.rules)
			return true, nil
		}

	case lexeme.InlineAnnotationEnd:
		if l.mode == readInlineComment { // not multiLine comment
			l.mode = readDefault
			return true, nil
		}
	}

	return false, nil
}
