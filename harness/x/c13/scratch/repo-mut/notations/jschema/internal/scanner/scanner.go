package scanner

import (
	"fmt"

	"github.com/jsightapi/jsight-schema-go-library/bytes"
	"github.com/jsightapi/jsight-schema-go-library/errors"
	"github.com/jsightapi/jsight-schema-go-library/fs"
	"github.com/jsightapi/jsight-schema-go-library/internal/ds"
	"github.com/jsightapi/jsight-schema-go-library/internal/lexeme"
)

type stepFunc func(*Scanner, byte) state

// state are returned by the state transition functions assigned to scanner.state.
// They give details about the current state of the scan that callers might be
// interested to know about.
// It is okay to ignore the return value of any particular call to scanner.state.
type state uint8

const (
	// scanContinue indicates an uninteresting byte, so we can keep scanning forward.
	scanContinue state = iota // uninteresting byte

	// scanBeginObject indicates beginning of an object.
	scanBeginObject

	// scanBeginArray indicates beginning of an array.
	scanBeginArray

	// scanBeginLiteral indicates beginning of any value outside an array or object.
	scanBeginLiteral

	// scanBeginTypesShortcut indicates beginning of "TYPE" or "OR" shortcut with
	// user defined types.
	//
	// Examples:
	// {
	//   "foo": @Fizz | @Buzz,
	//   "bar": @Fizz
	// }
	scanBeginTypesShortcut
)

// Scanner represents a scanner is a JSchema scanning state machine.
// Callers call scan.reset() and then pass bytes in one at a time
// by calling scan.step(&scan, c) for each byte.
// The return value, referred to as an opcode, tells the
// caller about significant parsing events like beginning
// and ending literals, objects, and arrays, so that the
// caller can follow along if it wishes.
// The return value scanEnd indicates that a single top-level
// JSON value has been completed, *before* the byte that
// just got passed in.  (The indication must be delayed in order
// to recognize the end of numbers: is 123 a whole value or
// the beginning of 12345e+6?).
type Scanner struct {
	// step is a func to be called to execute the next transition.
	// Also tried using an integer constant and a single func
	// with a switch, but using the func directly was 10% faster
	// on a 64-bit Mac Mini, and it's nicer to read.
	step stepFunc

	// returnToStep a stack of step functions, to preserve the sequence of steps
	// (and return to them) in some cases.
	returnToStep *ds.Stack[stepFunc]

	// stack a stack of found lexical event. The stack is needed for the scanner
	// to take into account the nesting of SCHEME elements.
	stack *ds.Stack[lexeme.LexEvent]

	// prevContextsStack a stack of previous scanner contexts.
	// Used for restoring a previous context after finishing current one.
	prevContextsStack *ds.Stack[context]

	// file a structure containing jSchema data.
	file *fs.File

	// data jSchema content.
	data bytes.Bytes

	// finds a list of found types of lexical event for the current step. Several
	// lexical events can be found in one step (example: ArrayItemBegin and LiteralBegin).
	finds []lexeme.LexEventType

	// context indicates which type of entity we process right now.
	context context

	// index scanned byte index.
	index bytes.Index

	// dataSize a size of schema data in bytes. Count once for optimization.
	dataSize bytes.Index

	// annotation one of the possible States of annotation processing (annotationNone,
	// annotationInline, annotationMultiLine).
	annotation annotation

	// unfinishedLiteral a sign that a literal has been started but not completed.
	unfinishedLiteral bool

	// lengthComputing used when a file contains data after the schema (for example,
	// in jApi).
	lengthComputing bool

	// boundary the character of the bounding lines.
	boundary byte

	// allowAnnotation indicates is annotation is allowed or not.
	allowAnnotation bool

	hasTrailingCharacters bool
}

type context struct {
	Type         contextType
	ArrayHasItem bool
}

func newContext(t contextType) context {
	return context{
		Type: t,
	}
}

type contextType int

const (
	contextTypeInitial contextType = iota
	contextTypeObject
	contextTypeArray
	contextTypeShortcut
)

func New(file *fs.File, oo ...Option) *Scanner {
	content := file.Content()

	s := &Scanner{
		step:              stateFoundRootValue,
		file:              file,
		data:              content,
		dataSize:          bytes.Index(len(content)),
		returnToStep:      &ds.Stack[stepFunc]{},
		stack:             &ds.Stack[lexeme.LexEvent]{},
		prevContextsStack: &ds.Stack[context]{},
		finds:             make([]lexeme.LexEventType, 0, 3),
		context:           newContext(contextTypeInitial),
		allowAnnotation:   true,
	}

	for _, o := range oo {
		o(s)
	}

	return s
}

type Option func(*Scanner)

// ComputeLength switch scanner in length computing mode.
// Scanner in this mode shouldn't be used for parsing.
func ComputeLength(s *Scanner) {
	s.lengthComputing = true
}

func (s *Scanner) Length() uint {
	if !s.lengthComputing {
		panic("Method not allowed")
	}
	var length uint
	for {
		lex, ok := s.Next()
		if !ok {
			break
		}

		if lex.Type() == lexeme.EndTop {
			// Found character after the end of the schema and spaces.
			// Example: char "s" in "{} some text"
			length = uint(lex.End())
			if s.hasTrailingCharacters {
				// The event was delayed by one byte.
				length--
			}
			break
		}

		length = uint(lex.End()) + 1
		if lex.End() == s.dataSize {
			length--
		}
	}
	for ; length > 0; length-- {
		c := s.data[length-1]
		if !bytes.IsBlank(c) {
			break
		}
	}
	return length
}

func (s *Scanner) newDocumentError(code errors.ErrorCode, c byte) errors.DocumentError {
	e := errors.Format(code, bytes.QuoteChar(c))
	err := errors.NewDocumentError(s.file, e)
	err.SetIndex(s.index - 1)
	return err
}

func (s *Scanner) newDocumentErrorAtCharacter(context string) errors.DocumentError {
	// Make runes (utf8 symbols) from current index to last of slice s.data.
	// Get first rune. Then make string with format ' symbol '
	runes := []rune(string(s.data[(s.index - 1):]))
	e := errors.Format(errors.ErrInvalidCharacter, string(runes[0]), context)
	err := errors.NewDocumentError(s.file, e)
	err.SetIndex(s.index - 1)
	return err
}

// Next reads schema byte by byte.
// Panic if an invalid jSchema structure is found.
// Stops if it detects lexical events.
// Returns pointer to found lexeme event, or nil if you have complete reading.
func (s *Scanner) Next() (lexeme.LexEvent, bool) {
	if len(s.finds) != 0 {
		return s.processingFoundLexeme(s.shiftFound()), true
	}

	for s.index < s.dataSize {
		c := s.data[s.index]
		s.index++

		// useful for debugging comment below 1 line for release
		// fmt.Printf("Schema-Next->step %s %c\n", runtime.FuncForPC(reflect.ValueOf(s.step).Pointer()).Name(), c)

		s.step(s, c)

		if len(s.finds) != 0 {
			return s.processingFoundLexeme(s.shiftFound()), true
		}
	}

	if s.stack.Len() != 0 {
		s.index++
		switch s.stack.Peek().Type() { //nolint:exhaustive // We handle all cases.
		case lexeme.LiteralBegin:
			if s.unfinishedLiteral {
				break
			}
			return s.processingFoundLexeme(lexeme.LiteralEnd), true
		case lexeme.InlineAnnotationBegin:
			return s.processingFoundLexeme(lexeme.InlineAnnotationEnd), true
		case lexeme.InlineAnnotationTextBegin:
			return s.processingFoundLexeme(lexeme.InlineAnnotationTextEnd), true
		case lexeme.TypesShortcutBegin:
			if s.unfinishedLiteral {
				break
			}
			s.found(lexeme.MixedValueEnd)
			return s.processingFoundLexeme(lexeme.TypesShortcutEnd), true
		}
		err := errors.NewDocumentError(s.file, errors.ErrUnexpectedEOF)
		err.SetIndex(s.dataSize - 1)
		panic(err)
	}

	return lexeme.LexEvent{}, false
}

func (s *Scanner) isFoundLastObjectEndOnAnnotation() (bool, lexeme.LexEventType) {
	length := s.stack.Len()

	switch {
	case s.isFoundLastObjectEndOnAnnotationInShortcut(length):
		return true, s.stack.Get(length - 5).Type()

	case s.isFoundLastObjectEndOnAnnotationInLiteral(length):
		return true, s.stack.Get(length - 4).Type()

	case s.isFoundLastObjectEndOnAnnotationInObjectValue(length):
		return true, s.stack.Get(length - 3).Type()

	case s.isFoundLastObjectEndOnAnnotationInObject(length):
		return true, s.stack.Get(length - 2).Type()
	}
	return false, lexeme.InlineAnnotationBegin
}

func (s *Scanner) isFoundLastObjectEndOnAnnotationInShortcut(length int) bool {
	return length >= 5 &&
		s.stack.Get(length-1).Type() == lexeme.TypesShortcutBegin &&
		s.stack.Get(length-2).Type() == lexeme.MixedValueBegin &&
		s.stack.Get(length-3).Type() == lexeme.ObjectValueBegin &&
		s.stack.Get(length-4).Type() == lexeme.ObjectBegin &&
		(s.stack.Get(length-5).Type() == lexeme.InlineAnnotationBegin ||
			s.stack.Get(length-5).Type() == lexeme.MultiLineAnnotationBegin)
}

func (s *Scanner) isFoundLastObjectEndOnAnnotationInLiteral(length int) bool {
	return length >= 4 &&
		s.stack.Get(length-1).Type() == lexeme.LiteralBegin &&
		s.stack.Get(length-2).Type() == lexeme.ObjectValueBegin &&
		s.stack.Get(length-3).Type() == lexeme.ObjectBegin &&
		(s.stack.Get(length-4).Type() == lexeme.InlineAnnotationBegin ||
			s.stack.Get(length-4).Type() == lexeme.MultiLineAnnotationBegin)
}

func (s *Scanner) isFoundLastObjectEndOnAnnotationInObjectValue(length int) bool {
	return length >= 3 &&
		s.stack.Get(length-1).Type() == lexeme.ObjectValueBegin &&
		s.stack.Get(length-2).Type() == lexeme.ObjectBegin &&
		(s.stack.Get(length-3).Type() == lexeme.InlineAnnotationBegin ||
			s.stack.Get(length-3).Type() == lexeme.MultiLineAnnotationBegin)
}

func (s *Scanner) isFoundLastObjectEndOnAnnotationInObject(length int) bool {
	return length >= 2 &&
		s.stack.Get(length-1).Type() == lexeme.ObjectBegin &&
		(s.stack.Get(length-2).Type() == lexeme.InlineAnnotationBegin ||
			s.stack.Get(length-2).Type() == lexeme.MultiLineAnnotationBegin)
}

func (s *Scanner) isInsideMultiLineAnnotation() bool {
	for i := s.stack.Len() - 1; i >= 0; i-- {
		if s.stack.Get(i).Type() == lexeme.MultiLineAnnotationBegin {
			return true
		}
	}
	return false
}

func (s *Scanner) found(lexType lexeme.LexEventType) {
	s.finds = append(s.finds, lexType)
}

func (s *Scanner) shiftFound() lexeme.LexEventType {
	length := len(s.finds)
	if length == 0 {
		panic("Empty set of found lexical event")
	}
	lexType := s.finds[0]
	copy(s.finds[0:], s.finds[1:])
	s.finds = s.finds[:length-1]
	return lexType
}

func (s *Scanner) processingFoundLexeme(lexType lexeme.LexEventType) lexeme.LexEvent {
	i := s.index - 1
	if lexType == lexeme.NewLine || lexType == lexeme.EndTop {
		return lexeme.NewLexEvent(lexType, i, i, s.file)
	}

	if lexType.IsOpening() {
		var lex lexeme.LexEvent
		if lexType == lexeme.InlineAnnotationBegin || lexType == lexeme.MultiLineAnnotationBegin {
			lex = lexeme.NewLexEvent(lexType, i-1, i, s.file) // `//` or `/*`
		} else {
			// `{`, `[`, `"` or literal first character (ex: `1` in `123`).
			lex = lexeme.NewLexEvent(lexType, i, i, s.file)
		}
		s.stack.Push(lex)
		return lex
	}

	return s.processingFoundLexemeClosingTag(lexType, i)
}

func (s *Scanner) processingFoundLexemeClosingTag(lexType lexeme.LexEventType, i bytes.Index) lexeme.LexEvent {
	pair := s.stack.Pop()
	pairType := pair.Type()

	switch {
	case isNonScalarPair(pairType, lexType):
		return lexeme.NewLexEvent(lexType, pair.Begin(), i, s.file)

	case isScalarPair(pairType, lexType):
		if lexType == lexeme.MixedValueEnd && s.data[i-1] == ' ' {
			i--
		}
		return lexeme.NewLexEvent(lexType, pair.Begin(), i-1, s.file)
	}
	panic("Incorrect ending of the lexical event")
}

func isNonScalarPair(pairType, lexType lexeme.LexEventType) bool {
	return (pairType == lexeme.ObjectBegin && lexType == lexeme.ObjectEnd) ||
		(pairType == lexeme.ArrayBegin && lexType == lexeme.ArrayEnd) ||
		(pairType == lexeme.MultiLineAnnotationBegin && lexType == lexeme.MultiLineAnnotationEnd)
}

func isScalarPair(pairType, lexType lexeme.LexEventType) bool { //nolint:gocyclo // We can't do anything about it.
	return (pairType == lexeme.LiteralBegin && lexType == lexeme.LiteralEnd) ||
		(pairType == lexeme.ArrayItemBegin && lexType == lexeme.ArrayItemEnd) ||
		(pairType == lexeme.ObjectKeyBegin && lexType == lexeme.ObjectKeyEnd) ||
		(pairType == lexeme.ObjectValueBegin && lexType == lexeme.ObjectValueEnd) ||
		(pairType == lexeme.InlineAnnotationTextBegin && lexType == lexeme.InlineAnnotationTextEnd) ||
		(pairType == lexeme.MultiLineAnnotationTextBegin && lexType == lexeme.MultiLineAnnotationTextEnd) ||
		(pairType == lexeme.InlineAnnotationBegin && lexType == lexeme.InlineAnnotationEnd) ||
		(pairType == lexeme.KeyShortcutBegin && lexType == lexeme.KeyShortcutEnd) ||
		(pairType == lexeme.TypesShortcutBegin && lexType == lexeme.TypesShortcutEnd) ||
		(pairType == lexeme.MixedValueBegin && lexType == lexeme.MixedValueEnd)
}

func (s *Scanner) isNewLine(c byte) bool {
	if !bytes.IsNewLine(c) {
		return false
	}

	if s.annotation == annotationInline {
		panic(s.newDocumentErrorAtCharacter("inside inline annotation"))
	}
	return true
}

func (s *Scanner) setContext(c context) {
	s.prevContextsStack.Push(s.context)
	s.context = c
}

func (s *Scanner) restoreContext() {
	s.context = s.prevContextsStack.Pop()
}

func stateFoundRootValue(s *Scanner, c byte) state {
	if s.isAnnotationStart(c) {
		s.switchToAnnotation()
		return scanContinue
	}
	if s.isCommentStart(c) {
		s.switchToComment()
		return scanContinue
	}

	r := stateBeginValue(s, c)
	switch r { //nolint:exhaustive // It's okay.
	case scanBeginObject:
		s.found(lexeme.ObjectBegin)
		s.setContext(newContext(contextTypeObject))

	case scanBeginArray:
		s.found(lexeme.ArrayBegin)
		s.setContext(newContext(contextTypeArray))

	case scanBeginLiteral:
		s.found(lexeme.LiteralBegin)

	case scanBeginTypesShortcut:
		s.found(lexeme.MixedValueBegin)
		s.found(lexeme.TypesShortcutBegin)
		s.setContext(newContext(contextTypeShortcut))
	}
	return r
}

func stateFoundObjectKeyBeginOrEmpty(s *Scanner, c byte) state {
	if s.isNewLine(c) {
		s.found(lexeme.NewLine)
		return scanContinue
	}
	if bytes.IsBlank(c) {
		return scanContinue
	}
	if s.isAnnotationStart(c) {
		s.switchToAnnotation()
		return scanContinue
	}
	if s.isCommentStart(c) {
		s.switchToComment()
		return scanContinue
	}
	if c == '@' {
		return beginKeyShortcut(s)
	}

	var r state
	if s.annotation == annotationNone {
		r = stateBeginKeyOrEmpty(s, c)
	} else {
		r = stateBeginAnnotationObjectKeyOrEmpty(s, c)
	}
	return r
}

func stateFoundObjectKeyBegin(s *Scanner, c byte) state {
	if s.isNewLine(c) {
		s.found(lexeme.NewLine)
		if s.annotation == annotationNone {
			s.allowAnnotation = true
		}
		s.step = stateFoundObjectKeyBeginAfterNewLine
		return scanContinue
	}
	if bytes.IsBlank(c) {
		return scanContinue
	}
	if s.isAnnotationStart(c) {
		s.switchToAnnotation()
		return scanContinue
	}
	if s.isCommentStart(c) {
		s.switchToComment()
		return scanContinue
	}
	if c == '@' {
		return beginKeyShortcut(s)
	}

	var r state
	if s.annotation == annotationNone {
		r = stateBeginString(s, c)
		s.found(lexeme.ObjectKeyBegin)
	} else {
		// ...OrEmpty because a comma before the closing parenthesis is allowed. Ex: {k:1,}
		r = stateBeginAnnotationObjectKeyOrEmpty(s, c)
	}
	return r
}

func stateFoundObjectKeyBeginAfterNewLine(s *Scanner, c byte) state {
	if s.isNewLine(c) {
		s.found(lexeme.NewLine)
		return scanContinue
	}
	if bytes.IsBlank(c) {
		return scanContinue
	}
	if s.isCommentStart(c) {
		s.switchToComment()
		return scanContinue
	}
	if c == '@' {
		return beginKeyShortcut(s)
	}

	var r state
	if s.annotation == annotationNone {
		r = stateBeginString(s, c)
		s.found(lexeme.ObjectKeyBegin)
	} else {
		// ...OrEmpty because a comma before the closing parenthesis is allowed. Ex: {k:1,}
		r = stateBeginAnnotationObjectKeyOrEmpty(s, c)
	}
	return r
}

func stateFoundObjectValueBegin(s *Scanner, c byte) state {
	r := stateBeginValue(s, c)
	switch r { //nolint:exhaustive // It's okay.
	case scanBeginLiteral:
		s.found(lexeme.ObjectValueBegin)
		s.found(lexeme.LiteralBegin)

	case scanBeginObject:
		s.found(lexeme.ObjectValueBegin)
		s.found(lexeme.ObjectBegin)
		s.setContext(newContext(contextTypeObject))

	case scanBeginArray:
		s.found(lexeme.ObjectValueBegin)
		s.found(lexeme.ArrayBegin)
		s.setContext(newContext(contextTypeArray))

	case scanBeginTypesShortcut:
		s.found(lexeme.ObjectValueBegin)
		s.found(lexeme.MixedValueBegin)
		s.found(lexeme.TypesShortcutBegin)
	}
	return r
}

func stateFoundArrayItemBeginOrEmpty(s *Scanner, c byte) state {
	if s.isNewLine(c) {
		s.found(lexeme.NewLine)
		return scanContinue
	}
	if s.isCommentStart(c) {
		s.switchToComment()
		return scanContinue
	}

	r := stateBeginArrayItemOrEmpty(s, c)
	switch r { //nolint:exhaustive // It's okay.
	case scanBeginLiteral:
		s.found(lexeme.ArrayItemBegin)
		s.found(lexeme.LiteralBegin)

	case scanBeginObject:
		s.found(lexeme.ArrayItemBegin)
		s.found(lexeme.ObjectBegin)
		s.setContext(newContext(contextTypeObject))

	case scanBeginArray:
		s.found(lexeme.ArrayItemBegin)
		s.found(lexeme.ArrayBegin)
		s.setContext(newContext(contextTypeArray))

	case scanBeginTypesShortcut:
		s.found(lexeme.ArrayItemBegin)
		s.found(lexeme.MixedValueBegin)
		s.found(lexeme.TypesShortcutBegin)
	}
	return r
}

func stateFoundArrayItemBegin(s *Scanner, c byte) state {
	if s.isCommentStart(c) {
		s.switchToComment()
		return scanContinue
	}

	r := stateBeginValue(s, c)
	switch r { //nolint:exhaustive // It's okay.
	case scanBeginLiteral:
		s.found(lexeme.ArrayItemBegin)
		s.found(lexeme.LiteralBegin)

	case scanBeginObject:
		s.found(lexeme.ArrayItemBegin)
		s.found(lexeme.ObjectBegin)
		s.setContext(newContext(contextTypeObject))

	case scanBeginArray:
		s.found(lexeme.ArrayItemBegin)
		s.found(lexeme.ArrayBegin)
		s.setContext(newContext(contextTypeArray))

	case scanBeginTypesShortcut:
		s.found(lexeme.ArrayItemBegin)
		s.found(lexeme.MixedValueBegin)
		s.found(lexeme.TypesShortcutBegin)
	}
	return r
}

func beginKeyShortcut(s *Scanner) state {
	if s.annotation != annotationNone {
		panic(s.newDocumentErrorAtCharacter("key shortcut not allowed in annotation"))
	}
	s.found(lexeme.KeyShortcutBegin)
	s.step = stateKeyShortcut
	return scanContinue
}

func stateBeginValue(s *Scanner, c byte) state { //nolint:gocyclo // It's okay.
	if s.isNewLine(c) {
		s.found(lexeme.NewLine)
		return scanContinue
	}
	if bytes.IsBlank(c) {
		return scanContinue
	}
	if s.isAnnotationStart(c) {
		s.switchToAnnotation()
		return scanContinue
	}
	switch c {
	case '{':
		s.step = stateFoundObjectKeyBeginOrEmpty
		return scanBeginObject
	case '[':
		s.step = stateFoundArrayItemBeginOrEmpty
		return scanBeginArray
	case '"':
		s.step = stateInString
		s.unfinishedLiteral = true
		return scanBeginLiteral
	case '-':
		s.step = stateNeg
		s.unfinishedLiteral = true
		return scanBeginLiteral
	case '0': // beginning of 0.123
		s.step = state0
		return scanBeginLiteral
	case 't': // beginning of true
		s.step = stateT
		s.unfinishedLiteral = true
		return scanBeginLiteral
	case 'f': // beginning of false
		s.step = stateF
		s.unfinishedLiteral = true
		return scanBeginLiteral
	case 'n': // beginning of null
		s.step = stateN
		s.unfinishedLiteral = true
		return scanBeginLiteral
	case '@': // beginning of OR shortcut
		s.step = stateTypesShortcutBeginOfSchemaName
		s.unfinishedLiteral = true
		return scanBeginTypesShortcut
	}
	if '1' <= c && c <= '9' { // beginning of 1234.5
		s.step = state1
		return scanBeginLiteral
	}
	panic(s.newDocumentErrorAtCharacter("looking for beginning of value"))
}

// after reading `[`
func stateBeginArrayItemOrEmpty(s *Scanner, c byte) state {
	if c == ']' {
		return stateFoundArrayEnd(s)
	}
	if s.annotation == annotationNone && !bytes.IsBlank(c) {
		s.context.ArrayHasItem = true
	}
	return stateBeginValue(s, c)
}

// after reading `{`
func stateBeginKeyOrEmpty(s *Scanner, c byte) state {
	if s.annotation == annotationNone {
		s.allowAnnotation = true
	}
	if c == '}' {
		return stateFoundObjectEnd(s)
	}
	s.found(lexeme.ObjectKeyBegin)
	return stateBeginString(s, c)
}

// after reading `{"key": value,`
func stateBeginString(s *Scanner, c byte) state {
	if c != '"' {
		panic(s.newDocumentErrorAtCharacter("looking for beginning of string"))
	}
	s.step = stateInString
	return scanBeginLiteral
}

func stateEndValue(s *Scanner, c byte) state { //nolint:gocyclo // Pretty readable though.
	length := s.stack.Len()

	if length == 0 { // json ex `{} `
		s.step = stateEndTop
		return s.step(s, c)
	}

	t := s.stack.Peek().Type()

	if t == lexeme.LiteralBegin {
		s.found(lexeme.LiteralEnd)

		if length == 1 { // json ex `123 `
			s.step = stateEndTop
			return s.step(s, c)
		}

		t = s.stack.Get(length - 2).Type()
	}

	switch t { //nolint:exhaustive // We will throw a panic in over cases.
	case lexeme.ObjectKeyBegin:
		s.found(lexeme.ObjectKeyEnd)
		s.step = stateAfterObjectKey
		return s.step(s, c)
	case lexeme.KeyShortcutBegin:
		s.found(lexeme.KeyShortcutEnd)
		s.step = stateAfterObjectKey
		return s.step(s, c)
	case lexeme.ObjectValueBegin:
		s.found(lexeme.ObjectValueEnd)
		s.step = stateAfterObjectValue
		return s.step(s, c)
	case lexeme.ArrayItemBegin:
		s.found(lexeme.ArrayItemEnd)
		s.step = stateAfterArrayItem
		return s.step(s, c)
	case lexeme.TypesShortcutBegin:
		finishShortcut(s)
		return s.step(s, c)
	}
	if s.lengthComputing && t == lexeme.InlineAnnotationBegin {
		s.annotation = annotationNone
		_ = s.stack.Pop()
		s.step = s.returnToStep.Pop()
		return s.step(s, c)
	}
	panic(s.newDocumentErrorAtCharacter("at the end of value"))
}

func finishShortcut(s *Scanner) {
	s.found(lexeme.TypesShortcutEnd)
	switch s.context.Type {
	case contextTypeObject:
		s.found(lexeme.MixedValueEnd)
		s.found(lexeme.ObjectValueEnd)
		s.step = stateAfterObjectValue

	case contextTypeArray:
		s.found(lexeme.MixedValueEnd)
		s.found(lexeme.ArrayItemEnd)
		s.step = stateAfterArrayItem

	case contextTypeShortcut:
		s.found(lexeme.MixedValueEnd)
		s.step = stateEndTop
		s.restoreContext()

	default:
		panic(fmt.Sprintf("Unexpected context %q", s.context.Type))
	}
}

func stateAfterObjectKey(s *Scanner, c byte) state {
	if s.isNewLine(c) {
		s.found(lexeme.NewLine)
	}
	if bytes.IsBlank(c) {
		return scanContinue
	}
	if s.isAnnotationStart(c) {
		s.switchToAnnotation()
		return scanContinue
	}

	if c == ':' {
		s.step = stateFoundObjectValueBegin
		return scanContinue
	}
	panic(s.newDocumentErrorAtCharacter("after object key"))
}

func stateAfterObjectValue(s *Scanner, c byte) state {
	if s.isNewLine(c) {
		s.found(lexeme.NewLine)
		return scanContinue
	}
	if bytes.IsBlank(c) {
		return scanContinue
	}
	if s.isAnnotationStart(c) {
		s.switchToAnnotation()
		return scanContinue
	}
	if s.isCommentStart(c) {
		s.switchToComment()
		return scanContinue
	}
	if c == ',' {
		s.step = stateFoundObjectKeyBegin
		return scanContinue
	}
	if c == '}' {
		return stateFoundObjectEnd(s)
	}
	panic(s.newDocumentErrorAtCharacter("after object key:value pair"))
}

func stateAfterArrayItem(s *Scanner, c byte) state {
	if s.isNewLine(c) {
		s.found(lexeme.NewLine)
		return scanContinue
	}
	if bytes.IsBlank(c) {
		return scanContinue
	}
	if s.isAnnotationStart(c) {
		s.switchToAnnotation()
		return scanContinue
	}
	if s.isCommentStart(c) {
		s.switchToComment()
		return scanContinue
	}
	if c == ',' {
		s.step = stateFoundArrayItemBegin
		return scanContinue
	}
	if c == ']' {
		return stateFoundArrayEnd(s)
	}
	panic(s.newDocumentErrorAtCharacter("after array item"))
}

func stateFoundObjectEnd(s *Scanner) state {
	s.found(lexeme.ObjectEnd)
	s.restoreContext()
	s.step = stateEndValue
	if s.annotation == annotationNone {
		return scanContinue
	}
	if ok, annotationType := s.isFoundLastObjectEndOnAnnotation(); ok {
		switch annotationType {
		case lexeme.InlineAnnotationBegin:
			s.step = stateInlineAnnotationTextPrefix
		case lexeme.MultiLineAnnotationBegin:
			s.step = stateMultiLineAnnotationTextPrefix
		default:
			panic("Incorrect annotation begin in stack")
		}
	}
	return scanContinue
}

func stateFoundArrayEnd(s *Scanner) state {
	if s.annotation == annotationNone {
		s.allowAnnotation = !s.context.ArrayHasItem
	}
	s.found(lexeme.ArrayEnd)
	s.restoreContext()
	if s.stack.Len() == 0 {
		s.step = stateEndTop
	} else {
		s.step = stateEndValue
	}
	return scanContinue
}

// stateEndTop is the state after finishing the top-level value,
// such as after reading `{}` or `[1,2,3]`.
// Only space characters should be seen now.
func stateEndTop(s *Scanner, c byte) state {
	switch {
	case s.isNewLine(c):
		s.found(lexeme.NewLine)
		return scanContinue

	case s.isAnnotationStart(c):
		s.switchToAnnotation()
		return scanContinue

	case s.isCommentStart(c):
		s.switchToComment()
		return scanContinue

	case !bytes.IsBlank(c):
		if s.lengthComputing {
			if s.stack.Len() > 0 {
				// Looks like we have invalid schema, and we should keep scanning.
				s.hasTrailingCharacters = true
				return scanContinue
			}
			s.found(lexeme.EndTop)
			return scanContinue
		} else if s.annotation == annotationNone {
			panic(s.newDocumentErrorAtCharacter("non-space byte after top-level value"))
		}
	}

	if s.hasTrailingCharacters {
		s.found(lexeme.EndTop)
	}
	return scanContinue
}

// after reading `"`
func stateInString(s *Scanner, c byte) state {
	switch c {
	case '"':
		s.step = stateEndValue
		s.unfinishedLiteral = false
		return scanContinue
	case '\\':
		s.step = stateInStringEsc
		return scanContinue
	}
	if c < 0x20 {
		panic(s.newDocumentErrorAtCharacter("in string literal"))
	}
	return scanContinue
}

// after reading `"\` during a quoted string
func stateInStringEsc(s *Scanner, c byte) state {
	switch c {
	case 'b', 'f', 'n', 'r', 't', '\\', '/', '"':
		s.step = stateInString
		return scanContinue
	case 'u':
		s.returnToStep.Push(stateInString)
		s.step = stateInStringEscU
		return scanContinue
	}
	panic(s.newDocumentErrorAtCharacter("in string escape code"))
}

// after reading `"\u` during a quoted string
func stateInStringEscU(s *Scanner, c byte) state {
	if bytes.IsHexDigit(c) {
		s.step = stateInStringEscU1
		return scanContinue
	}
	panic(s.newDocumentErrorAtCharacter("in \\u hexadecimal character escape"))
}

// after reading `"\u1` during a quoted string
func stateInStringEscU1(s *Scanner, c byte) state {
	if bytes.IsHexDigit(c) {
		s.step = stateInStringEscU12
		return scanContinue
	}
	panic(s.newDocumentErrorAtCharacter("in \\u hexadecimal character escape"))
}

// after reading `"\u12` during a quoted string
func stateInStringEscU12(s *Scanner, c byte) state {
	if bytes.IsHexDigit(c) {
		s.step = stateInStringEscU123
		return scanContinue
	}
	panic(s.newDocumentErrorAtCharacter("in \\u hexadecimal character escape"))
}

// after reading `"\u123` during a quoted string
func stateInStringEscU123(s *Scanner, c byte) state {
	if bytes.IsHexDigit(c) {
		s.step = s.returnToStep.Pop() // = stateInAnnotationObjectKey for AnnotationObject
		return scanContinue
	}
	panic(s.newDocumentErrorAtCharacter("in \\u hexadecimal character escape"))
}

// after reading `-` during a number
func stateNeg(s *Scanner, c byte) state {
	if c == '0' {
		s.step = state0
		s.unfinishedLiteral = false
		return scanContinue
	}
	if '1' <= c && c <= '9' {
		s.step = state1
		s.unfinishedLiteral = false
		return scanContinue
	}
	panic(s.newDocumentErrorAtCharacter("in numeric literal"))
}

// after reading a non-zero integer during a number,
// such as after reading `1` or `100` but not `0`
func state1(s *Scanner, c byte) state {
	if bytes.IsDigit(c) {
		s.step = state1
		return scanContinue
	}
	return state0(s, c)
}

// after reading `0` during a number
func state0(s *Scanner, c byte) state {
	if c == '.' {
		s.unfinishedLiteral = true
		s.step = stateDot
		return scanContinue
	}
	if c == 'e' || c == 'E' {
		panic(s.newDocumentErrorAtCharacter(messageEIsNotAllowed))
	}
	return stateEndValue(s, c)
}

// after reading the integer and decimal point in a number, such as after reading `1.`
func stateDot(s *Scanner, c byte) state {
	if bytes.IsDigit(c) {
		s.unfinishedLiteral = false
		s.step = stateDot0
		return scanContinue
	}
	panic(s.newDocumentErrorAtCharacter("after decimal point in numeric literal"))
}

// after reading the integer, decimal point, and subsequent
// digits of a number, such as after reading `3.14`
func stateDot0(s *Scanner, c byte) state {
	if bytes.IsDigit(c) {
		return scanContinue
	}
	if c == 'e' || c == 'E' {
		panic(s.newDocumentErrorAtCharacter(messageEIsNotAllowed))
	}
	return stateEndValue(s, c)
}

// after reading `t`
func stateT(s *Scanner, c byte) state {
	if c == 'r' {
		s.step = stateTr
		return scanContinue
	}
	panic(s.newDocumentErrorAtCharacter("in literal true (expecting 'r')"))
}

// after reading `tr`
func stateTr(s *Scanner, c byte) state {
	if c == 'u' {
		s.step = stateTru
		return scanContinue
	}
	panic(s.newDocumentErrorAtCharacter("in literal true (expecting 'u')"))
}

// after reading `tru`
func stateTru(s *Scanner, c byte) state {
	if c == 'e' {
		s.step = stateEndValue
		s.unfinishedLiteral = false
		return scanContinue
	}
	panic(s.newDocumentErrorAtCharacter("in literal true (expecting 'e')"))
}

// after reading `f`
func stateF(s *Scanner, c byte) state {
	if c == 'a' {
		s.step = stateFa
		return scanContinue
	}
	panic(s.newDocumentErrorAtCharacter("in literal false (expecting 'a')"))
}

// after reading `fa`
func stateFa(s *Scanner, c byte) state {
	if c == 'l' {
		s.step = stateFal
		return scanContinue
	}
	panic(s.newDocumentErrorAtCharacter("in literal false (expecting 'l')"))
}

// after reading `fal`
func stateFal(s *Scanner, c byte) state {
	if c == 's' {
		s.step = stateFals
		return scanContinue
	}
	panic(s.newDocumentErrorAtCharacter("in literal false (expecting 's')"))
}

// after reading `fals`
func stateFals(s *Scanner, c byte) state {
	if c == 'e' {
		s.step = stateEndValue
		s.unfinishedLiteral = false
		return scanContinue
	}
	panic(s.newDocumentErrorAtCharacter("in literal false (expecting 'e')"))
}

// after reading `n`
func stateN(s *Scanner, c byte) state {
	if c == 'u' {
		s.step = stateNu
		return scanContinue
	}
	panic(s.newDocumentErrorAtCharacter("in literal null (expecting 'u')"))
}

// after reading `nu`
func stateNu(s *Scanner, c byte) state {
	if c == 'l' {
		s.step = stateNul
		return scanContinue
	}
	panic(s.newDocumentErrorAtCharacter("in literal null (expecting 'l')"))
}

// after reading `nul`
func stateNul(s *Scanner, c byte) state {
	if c == 'l' {
		s.step = stateEndValue
		s.unfinishedLiteral = false
		return scanContinue
	}
	panic(s.newDocumentErrorAtCharacter("in literal null (expecting 'l')"))
}

func stateTypesShortcutBeginOfSchemaName(s *Scanner, c byte) state {
	if bytes.IsValidUserTypeNameByte(c) {
		s.unfinishedLiteral = false
		s.step = stateTypesShortcutSchemaName
		return scanContinue
	}
	panic(s.newDocumentErrorAtCharacter("in schema name"))
}

func stateTypesShortcutSchemaName(s *Scanner, c byte) state {
	if s.isAnnotationStart(c) {
		finishShortcut(s)
		s.switchToAnnotation()
		return scanContinue
	}

	if s.isCommentStart(c) {
		finishShortcut(s)
		s.switchToComment()
		return scanContinue
	}

	switch {
	case bytes.IsValidUserTypeNameByte(c):
		s.step = stateTypesShortcutSchemaName

	case bytes.IsSpace(c):
		s.step = stateTypesShortcutBeforePipe

	case c == '|':
		s.unfinishedLiteral = true
		s.step = stateTypesShortcutAfterPipe

	default:
		return stateEndValue(s, c)
	}
	return scanContinue
}

func stateTypesShortcutBeforePipe(s *Scanner, c byte) state {
	if s.isAnnotationStart(c) {
		finishShortcut(s)
		s.switchToAnnotation()
		return scanContinue
	}

	if s.isCommentStart(c) {
		finishShortcut(s)
		s.switchToComment()
		return scanContinue
	}

	switch {
	case bytes.IsSpace(c):
		s.step = stateTypesShortcutBeforePipe

	case c == '|':
		s.unfinishedLiteral = true
		s.step = stateTypesShortcutAfterPipe

	default:
		s.step = stateEndValue
		s.unfinishedLiteral = false
		return s.step(s, c)
	}
	return scanContinue
}

func stateTypesShortcutAfterPipe(s *Scanner, c byte) state {
	switch c {
	case ' ', '\t':
		s.step = stateTypesShortcutAfterPipe

	case '@':
		s.step = stateTypesShortcutBeginOfSchemaName

	default:
		panic(s.newDocumentErrorAtCharacter("expects ' ', '\\t', or '@'"))
	}
	return scanContinue
}

func (s *Scanner) isCommentStart(c byte) bool {
	return (s.annotation == annotationNone || s.annotation == annotationInline) && c == '#'
}

func (s *Scanner) switchToComment() {
	if s.annotation != annotationNone && s.annotation != annotationInline {
		panic(s.newDocumentErrorAtCharacter("inside user inline comment"))
	}
	s.returnToStep.Push(s.step)
	s.step = stateAnyCommentStart
}

func stateAnyCommentStart(s *Scanner, c byte) state {
	if c != '#' {
		// any symbol inline user comment
		s.annotation = annotationNone
		s.step = stateInlineComment
		if bytes.IsNewLine(c) {
			// Empty comment: the line break ends it.
			return stateInlineComment(s, c)
		}
		return scanContinue
	} else if s.index < s.dataSize && s.data[s.index] == '#' { // third #
		s.annotation = annotationNone
		s.step = stateMultiLineComment
		return scanContinue
	}

	panic(s.newDocumentErrorAtCharacter("after first #"))
}

func stateInlineComment(s *Scanner, c byte) state {
	if bytes.IsNewLine(c) {
		s.step = s.returnToStep.Pop()
		s.found(lexeme.NewLine)
		s.index--
	}
	return scanContinue
}

func stateMultiLineComment(s *Scanner, c byte) state {
	if (s.index + 1) < s.dataSize {
		if c == '#' && s.data[s.index] == '#' && s.data[s.index+1] == '#' {
			s.index++ // skip second #
			s.index++ // skip third #
			s.step = s.returnToStep.Pop()
		}
	}
	return scanContinue
}

func stateKeyShortcut(s *Scanner, c byte) state {
	switch {
	case bytes.IsValidUserTypeNameByte(c):
		s.step = stateKeyShortcut
	default:
		return stateEndValue(s, c)
	}
	return scanContinue
}

const messageEIsNotAllowed = "isn't allowed 'cause not obvious it's a float or an integer"
