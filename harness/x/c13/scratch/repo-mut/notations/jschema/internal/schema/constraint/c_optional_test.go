package constraint

import (
	"strconv"
	"testing"

	"github.com/stretchr/testify/assert"

	jschema "github.com/jsightapi/jsight-schema-go-library"
	"github.com/jsightapi/jsight-schema-go-library/bytes"
)

func TestNewOptional(t *testing.T) {
	t.Run("positive", func(t *testing.T) {
		cc := map[string]bool{
			"true":  true,
			"false": false,
		}

		for given, expected := range cc {
			t.Run(given, func(t *testing.T) {
				c := NewOptional([]byte(given))
				assert.Equal(t, expected, c.value)
			})
		}
	})

	t.Run("negative", func(t *testing.T) {
		assert.PanicsWithError(t, `Invalid value of "optional" constraint`, func() {
			NewOptional([]byte("foo"))
		})
	})
}

func TestOptional_IsJsonTypeCompatible(t *testing.T) {
	testIsJsonTypeCompatible(t, Optional{}, allJSONTypes...)
}

func TestOptional_Type(t *testing.T) {
	assert.Equal(t, OptionalConstraintType, NewOptional(bytes.Bytes("true")).Type())
}

func TestOptional_String(t *testing.T) {
	cc := map[string]string{
		"false": "[ UNVERIFIABLE CONSTRAINT ] optional: false",
		"true":  "[ UNVERIFIABLE CONSTRAINT ] optional: true",
	}

	for given, expected := range cc {
		t.Run(given, func(t *testing.T) {
			assert.Equal(t, expected, NewOptional([]byte(given)).String())
		})
	}
}

func TestOptional_Bool(t *testing.T) {
	cc := map[string]bool{
		"false": false,
		"true":  true,
	}

	for given, expected := range cc {
		t.Run(given, func(t *testing.T) {
			assert.Equal(t, expected, NewOptional([]byte(given)).Bool())
		})
	}
}

func TestOptional_ASTNode(t *testing.T) {
	cc := []bool{true, false}

	for _, c := range cc {
		t.Run(strconv.FormatBool(c), func(t *testing.T) {
			assert.Equal(t, jschema.RuleASTNode{
				TokenType:  jschema.TokenTypeBoolean,
				Value:      strconv.FormatBool(c),
				Properties: &jschema.RuleASTNodes{},
				Source:     jschema.RuleASTNodeSourceManual,
			}, Optional{value: c}.ASTNode())
		})
	}
}
