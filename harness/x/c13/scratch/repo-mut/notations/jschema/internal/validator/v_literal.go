package validator

import (
	"github.com/jsightapi/jsight-schema-go-library/errors"
	"github.com/jsightapi/jsight-schema-go-library/internal/lexeme"
	"github.com/jsightapi/jsight-schema-go-library/notations/jschema/internal/schema"
)

// Validates json according to jSchema's LiteralNode.

type literalValidator struct {
	node_   schema.Node
	parent_ validator
}

func newLiteralValidator(node schema.Node, parent validator) *literalValidator {
	switch node.(type) {
	case *schema.LiteralNode, *schema.MixedNode, *schema.MixedValueNode, *schema.ObjectNode, *schema.ArrayNode:
		v := literalValidator{
			node_:   node,
			parent_: parent,
		}
		return &v
	default:
		panic(errors.ErrValidator)
	}
}

func (v literalValidator) node() schema.Node {
	return v.node_
}

func (v literalValidator) parent() validator {
	return v.parent_
}

func (v *literalValidator) setParent(parent validator) {
	v.parent_ = parent
}

// return array (pointers to validators, or nil if not found) and bool (true if validator is done)
func (v *literalValidator) feed(jsonLexeme lexeme.LexEvent) ([]validator, bool) {
	defer lexeme.CatchLexEventError(jsonLexeme)

	switch jsonLexeme.Type() { //nolint:exhaustive // We will throw a panic in over cases.
	case lexeme.LiteralBegin:
		return nil, false
	case lexeme.LiteralEnd:
		ValidateLiteralValue(v.node_, jsonLexeme.Value()) // can panic
		return nil, true
	}

	panic(errors.ErrUnexpectedLexInLiteralValidator)
}
