package checker

import (
	"fmt"

	"github.com/jsightapi/jsight-schema-go-library/errors"
	"github.com/jsightapi/jsight-schema-go-library/internal/lexeme"
	"github.com/jsightapi/jsight-schema-go-library/notations/jschema/internal/schema"
	"github.com/jsightapi/jsight-schema-go-library/notations/jschema/internal/validator"
)

type mixedChecker struct {
	node schema.Node
}

func newMixedChecker(node schema.Node) mixedChecker {
	return mixedChecker{
		node: node,
	}
}

func (c mixedChecker) Check(nodeLex lexeme.LexEvent) (err errors.Error) {
	defer func() {
		if r := recover(); r != nil {
			switch val := r.(type) {
			case errors.DocumentError:
				err = val
			case errors.Err:
				err = lexeme.NewLexEventError(nodeLex, val)
			default:
				err = lexeme.NewLexEventError(nodeLex, errors.Format(errors.ErrGeneric, fmt.Sprintf("%s", r)))
			}
		}
	}()

	if nodeLex.Type() == lexeme.LiteralEnd {
		validator.ValidateLiteralValue(c.node, nodeLex.Value()) // can panic
	}

	return nil
}
