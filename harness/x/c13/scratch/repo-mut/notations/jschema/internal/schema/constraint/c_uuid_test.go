package constraint

import (
	"fmt"
	"testing"

	"github.com/stretchr/testify/assert"

	"github.com/jsightapi/jsight-schema-go-library/bytes"
	"github.com/jsightapi/jsight-schema-go-library/internal/json"
)

func TestUUID_IsJsonTypeCompatible(t *testing.T) {
	testIsJsonTypeCompatible(t, UUID{}, json.TypeString)
}

func TestUUID_Type(t *testing.T) {
	assert.Equal(t, UuidConstraintType, NewUuid().Type())
}

func TestUUID_String(t *testing.T) {
	assert.Equal(t, "uuid", NewUuid().String())
}

func TestUUID_Validate(t *testing.T) {
	t.Run("positive", func(t *testing.T) {
		var tests = []string{
			`550e8400-e29b-41d4-a716-446655440000`,
			`urn:uuid:550e8400-e29b-41d4-a716-446655440000`,
			`URN:UUID:550e8400-e29b-41d4-a716-446655440000`,
			`{550e8400-e29b-41d4-a716-446655440000}`,
			`550e8400e29b41d4a716446655440000`,
			`aaaaaaaa-bbbb-cccc-dddd-eeeeeeeeeeee`,
			`AAAAAAAA-BBBB-CCCC-DDDD-EEEEEEEEEEEE`,
		}

		for _, value := range tests {
			t.Run(value, func(t *testing.T) {
				NewUuid().Validate(bytes.Bytes(value))
			})
		}
	})

	t.Run("negative", func(t *testing.T) {
		var tests = map[string]string{
			"":      "invalid UUID length: 0",
			"12":    "invalid UUID length: 2",
			"1.2":   "invalid UUID length: 3",
			"true":  "invalid UUID length: 4",
			"false": "invalid UUID length: 5",
			"null":  "invalid UUID length: 4",
			`"ABC"`: "invalid UUID length: 3",
			// leading symbol " "
			" 550e8400e29b41d4a716446655440000": "invalid UUID length: 33",
			// leading symbol " "
			" 550e8400-e29b-41d4-a716-446655440000": "invalid UUID length: 37",
			// trailing symbol " "
			"550e8400e29b41d4a716446655440000 ": "invalid UUID length: 33",
			// trailing symbol " "
			"550e8400-e29b-41d4-a716-446655440000 ": "invalid UUID length: 37",
			// leading  and trailing symbol " "
			" 550e8400e29b41d4a716446655440000 ": "invalid UUID length: 34",
			// leading  and trailing symbol " "
			" 550e8400-e29b-41d4-a716-446655440000 ": "invalid prefix: braces expected",
			// additional trailing symbol "9"
			"550e8400e29b41d4a7164466554400009": "invalid UUID length: 33",
			// invalid symbol "-" location
			"550e840-0e29b-41d4-a716-446655440000": "invalid UUID format",
			// invalid symbol "z"
			"z50e8400-e29b-41d4-a716-446655440000":          "invalid UUID format",
			"not:uuid:550e8400-e29b-41d4-a716-446655440000": `invalid urn prefix: "not:uuid:"`,
		}

		for given, expected := range tests {
			t.Run(given, func(t *testing.T) {
				assert.PanicsWithError(t, fmt.Sprintf("UUID parsing error: %s", expected), func() {
					NewUuid().Validate([]byte(given))
				})
			})
		}
	})
}

func TestUUID_ASTNode(t *testing.T) {
	assert.Equal(t, newEmptyRuleASTNode(), UUID{}.ASTNode())
}
