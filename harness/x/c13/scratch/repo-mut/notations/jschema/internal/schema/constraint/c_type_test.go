package constraint

import (
	"strconv"
	"testing"

	"github.com/stretchr/testify/assert"

	jschema "github.com/jsightapi/jsight-schema-go-library"
	"github.com/jsightapi/jsight-schema-go-library/bytes"
)

func TestNewType(t *testing.T) {
	ruleValue := bytes.Bytes("@foo")
	c := NewType(ruleValue, jschema.RuleASTNodeSourceGenerated)

	assert.Equal(t, ruleValue, c.value)
	assert.Equal(t, jschema.RuleASTNodeSourceGenerated, c.source)
}

func TestTypeConstraint_IsGenerated(t *testing.T) {
	cc := map[jschema.RuleASTNodeSource]bool{
		jschema.RuleASTNodeSourceUnknown:   false,
		jschema.RuleASTNodeSourceManual:    false,
		jschema.RuleASTNodeSourceGenerated: true,
	}

	for source, expected := range cc {
		t.Run(strconv.Itoa(int(source)), func(t *testing.T) {
			assert.Equal(t, expected, NewType([]byte("@foo"), source).IsGenerated())
		})
	}
}

func TestTypeConstraint_IsJsonTypeCompatible(t *testing.T) {
	testIsJsonTypeCompatible(t, TypeConstraint{}, allJSONTypes...)
}

func TestTypeConstraint_Type(t *testing.T) {
	assert.Equal(t,
		TypeConstraintType,
		NewType(bytes.Bytes("foo"), jschema.RuleASTNodeSourceGenerated).Type(),
	)
}

func TestTypeConstraint_String(t *testing.T) {
	assert.Equal(t, "type: @foo", NewType([]byte("@foo"), jschema.RuleASTNodeSourceGenerated).String())
}

func TestTypeConstraint_Bytes(t *testing.T) {
	ruleValue := bytes.Bytes("@foo")
	c := NewType(ruleValue, jschema.RuleASTNodeSourceManual)

	assert.Equal(t, ruleValue, c.Bytes())
}

func TestTypeConstraint_ASTNode(t *testing.T) {
	cc := map[string]jschema.RuleASTNode{
		"foo": {
			TokenType:  jschema.TokenTypeString,
			Value:      "foo",
			Properties: &jschema.RuleASTNodes{},
			Source:     jschema.RuleASTNodeSourceGenerated,
		},

		"@foo": {
			TokenType:  jschema.TokenTypeShortcut,
			Value:      "@foo",
			Properties: &jschema.RuleASTNodes{},
			Source:     jschema.RuleASTNodeSourceGenerated,
		},
	}

	for given, expected := range cc {
		t.Run(given, func(t *testing.T) {
			assert.Equal(
				t,
				expected,
				NewType([]byte(given), jschema.RuleASTNodeSourceGenerated).ASTNode(),
			)
		})
	}
}

func TestTypeConstraint_Source(t *testing.T) {
	assert.Equal(
		t,
		jschema.RuleASTNodeSourceManual,
		NewType([]byte("@foo"), jschema.RuleASTNodeSourceManual).Source(),
	)
}
