package schema

//go:generate mockery --name Node --output ../mocks

import (
	"sync"

	jschema "github.com/jsightapi/jsight-schema-go-library"
	"github.com/jsightapi/jsight-schema-go-library/bytes"
	"github.com/jsightapi/jsight-schema-go-library/internal/json"
	"github.com/jsightapi/jsight-schema-go-library/internal/lexeme"
	"github.com/jsightapi/jsight-schema-go-library/notations/jschema/internal/schema/constraint"
)

// The Node of the internal representation of the scheme.
// Roughly corresponds to the JSON element in the EXAMPLE of schema.
// Contains information about the constraints imposed on the node.
type Node interface {
	// Type returns type of this node.
	Type() json.Type

	SetRealType(string) bool
	RealType() string

	// Parent returns a parent of this node.
	Parent() Node

	// SetParent sets a parent for this node.
	SetParent(Node)

	// BasisLexEventOfSchemaForNode returns a LexEvent from the scheme on the
	// basis of which the node is created. It is used to check on the schemes for
	// compliance with the example and the list of constraints. Also used to display
	// an error.
	BasisLexEventOfSchemaForNode() lexeme.LexEvent

	// Grow this method receives the input lexical event from the scanner, fill
	// yourself with data from them. If necessary, creates children. Returns the
	// node to which you want to pass the next lexeme (yourself, child, or parent).
	Grow(lexeme.LexEvent) (Node, bool)

	// Constraint returns a constraint by its type.
	Constraint(constraint.Type) constraint.Constraint

	// AddConstraint adds a constraint to this node.
	AddConstraint(constraint.Constraint)

	// DeleteConstraint removes a constraint from this node.
	DeleteConstraint(constraint.Type)

	// ConstraintMap returns a list of constraints or nil (if empty).
	ConstraintMap() *Constraints

	// NumberOfConstraints returns the number of constraints.
	NumberOfConstraints() int

	// Value returns this node's value.
	Value() bytes.Bytes

	// ASTNode returns proper ASTNode for this node.
	ASTNode() (jschema.ASTNode, error)

	// SetComment sets a comment for this node.
	SetComment(string)

	// Comment returns this node comment.
	Comment() string
}

// Constraints an ordered map of node constraints.
// gen:OrderedMap
type Constraints struct {
	data  map[constraint.Type]constraint.Constraint
	order []constraint.Type
	mx    sync.RWMutex
}

// BranchNode that can contain child elements (an array or an object).
type BranchNode interface {
	Children() []Node
	Len() int
}

func NewNode(lex lexeme.LexEvent) Node {
	switch lex.Type() { //nolint:exhaustive // We will throw a panic in over cases.
	case lexeme.LiteralBegin:
		return newLiteralNode(lex)
	case lexeme.ObjectBegin:
		return newObjectNode(lex)
	case lexeme.ArrayBegin:
		return newArrayNode(lex)
	case lexeme.MixedValueBegin:
		return NewMixedValueNode(lex)
	}
	panic(`Can not create node from the lexical event "` + lex.Type().String() + `"`)
}

// IsOptionalNode returns true is node is optional.
func IsOptionalNode(n Node) bool {
	c := n.Constraint(constraint.OptionalConstraintType)
	if c == nil {
		return false
	}

	bk, ok := c.(constraint.BoolKeeper)
	if !ok {
		return false
	}

	return bk.Bool()
}
