package checker

import (
	"github.com/jsightapi/jsight-schema-go-library/errors"
	"github.com/jsightapi/jsight-schema-go-library/internal/lexeme"
	"github.com/jsightapi/jsight-schema-go-library/notations/jschema/internal/schema"
)

type nodeChecker interface {
	Check(lexeme.LexEvent) errors.Error
}

func newNodeChecker(node schema.Node) (nodeChecker, error) {
	switch node.(type) {
	case *schema.LiteralNode:
		return newLiteralChecker(node), nil

	case *schema.ObjectNode:
		return newObjectChecker(), nil

	case *schema.ArrayNode:
		return newArrayChecker(), nil

	case *schema.MixedNode:
		return newMixedChecker(node), nil

	default:
		return nil, errors.ErrImpossible
	}
}
