package loader

import (
	jschema "github.com/jsightapi/jsight-schema-go-library"
	"github.com/jsightapi/jsight-schema-go-library/errors"
	"github.com/jsightapi/jsight-schema-go-library/internal/lexeme"
	"github.com/jsightapi/jsight-schema-go-library/notations/jschema/internal/schema"
	"github.com/jsightapi/jsight-schema-go-library/notations/jschema/internal/schema/constraint"
)

// orRuleSetLoader loads data from rule-set into the type. Specifies the name of
// this user type in the parent node (in types list constraint).
type orRuleSetLoader struct {
	// The node.
	node schema.Node

	// A rootSchema to which the type from the "or" rule will be added.
	rootSchema *schema.Schema

	// embeddedValueLoader a loader for "enum" value.
	embeddedValueLoader embeddedLoader

	// rules all available rules.
	rules map[string]jschema.Rule

	// stateFunc a function for running a state machine (the current state of the
	// state machine).
	stateFunc func(lexeme.LexEvent)

	// typeRoot a node (type mixed) to which constraints from rule-set are
	// added. This node will become the root node for the type created from
	// the rule-set.
	typeRoot *schema.MixedNode

	// ruleNameLex the last found key in rule-set.
	ruleNameLex lexeme.LexEvent

	// inProgress indicates are we already done or not.
	inProgress bool
}

var _ embeddedLoader = (*orRuleSetLoader)(nil)

// Loader for rule-set value. Ex: {type: "integer", min: 0}
func newOrRuleSetLoader(
	node schema.Node,
	rootSchema *schema.Schema,
	rules map[string]jschema.Rule,
) *orRuleSetLoader {
	if _, ok := node.(*schema.MixedValueNode); ok {
		panic(errors.ErrCannotSpecifyOtherRulesWithTypeReference)
	}

	s := &orRuleSetLoader{
		node:       node,
		rootSchema: rootSchema,
		rules:      rules,
		typeRoot:   schema.NewMixedNode(node.BasisLexEventOfSchemaForNode()),
		inProgress: true,
	}
	s.stateFunc = s.objectBegin
	return s
}

func (s *orRuleSetLoader) Load(lex lexeme.LexEvent) bool {
	defer lexeme.CatchLexEventError(lex)
	s.stateFunc(lex)
	return s.inProgress
}

func (s *orRuleSetLoader) embeddedLoad(lex lexeme.LexEvent) {
	if !s.embeddedValueLoader.Load(lex) {
		s.embeddedValueLoader = nil
		s.stateFunc = s.valueEnd
		if lex.Type() == lexeme.TypesShortcutEnd {
			s.stateFunc = s.afterShortcutEnd
		}
	}
}

func (s *orRuleSetLoader) afterShortcutEnd(lex lexeme.LexEvent) {
	if lex.Type() != lexeme.MixedValueEnd {
		panic(errors.ErrLoader)
	}
	s.stateFunc = s.valueEnd
}

// objectBegin begin of object "{"
func (s *orRuleSetLoader) objectBegin(lex lexeme.LexEvent) {
	if lex.Type() != lexeme.ObjectBegin {
		panic(errors.ErrLoader)
	}
	s.stateFunc = s.keyOrObjectEnd
}

// keyOrObjectEnd object key or object end
// ex: {"key" <--
// ex: {...} <--
func (s *orRuleSetLoader) keyOrObjectEnd(lex lexeme.LexEvent) {
	switch lex.Type() {
	case lexeme.ObjectKeyBegin:
		return
	case lexeme.ObjectKeyEnd:
		s.ruleNameLex = lex
		s.stateFunc = s.valueBegin
		if s.ruleNameLex.Value().String() == "enum" {
			s.stateFunc = s.enumValueBegin
		}
	case lexeme.ObjectEnd:
		s.stateFunc = s.endOfLoading
		s.inProgress = false
		s.makeTypeFromRuleSet()
	default:
		panic(errors.ErrLoader)
	}
}

// valueBegin object value begin
// ex: {"key": <--
func (s *orRuleSetLoader) valueBegin(lex lexeme.LexEvent) {
	if lex.Type() != lexeme.ObjectValueBegin {
		panic(errors.ErrLoader)
	}
	s.stateFunc = s.valueLiteral
}

func (s *orRuleSetLoader) enumValueBegin(lex lexeme.LexEvent) {
	if lex.Type() != lexeme.ObjectValueBegin {
		panic(errors.ErrLoader)
	}
	enumConstraint := constraint.NewEnum()
	s.typeRoot.AddConstraint(enumConstraint)
	s.embeddedValueLoader = newEnumValueLoader(enumConstraint, s.rules)
	s.stateFunc = s.embeddedLoad
}

// valueLiteral literal value
// ex: {"key": ... <--
func (s *orRuleSetLoader) valueLiteral(lex lexeme.LexEvent) {
	switch lex.Type() {
	case lexeme.LiteralBegin:
		return
	case lexeme.LiteralEnd:
		c := constraint.NewConstraintFromRule(s.ruleNameLex, lex.Value(), s.node.Value()) // can panic
		s.typeRoot.AddConstraint(c)
		s.stateFunc = s.valueEnd
	default:
		panic(errors.ErrLiteralValueExpected)
	}
}

// valueEnd object value end
// ex: {"key": "value" <--
func (s *orRuleSetLoader) valueEnd(lex lexeme.LexEvent) {
	if lex.Type() != lexeme.ObjectValueEnd {
		panic(errors.ErrLoader)
	}
	s.stateFunc = s.keyOrObjectEnd
}

// endOfLoading the method should not be called during normal operation. Ensures
// that the loader will not continue to work after the load is complete.
func (*orRuleSetLoader) endOfLoading(lexeme.LexEvent) {
	panic(errors.ErrLoader)
}

// return TypesList constraint for node
func (s *orRuleSetLoader) nodeTypesListConstraint() *constraint.TypesList {
	c := s.node.Constraint(constraint.TypesListConstraintType)
	if c == nil {
		panic(errors.ErrLoader) // constraint not found
	}
	return c.(*constraint.TypesList)
}

// makeTypeFromRuleSet appends new type based on rule-set.
func (s *orRuleSetLoader) makeTypeFromRuleSet() {
	if s.typeRoot.NumberOfConstraints() == 0 {
		panic(errors.ErrEmptyRuleSet)
	}

	c := s.nodeTypesListConstraint()
	an := s.makeTypeASTNode(c.Source())

	typeConstraint := s.typeRoot.Constraint(constraint.TypeConstraintType)
	if typeConstraint != nil && s.typeRoot.NumberOfConstraints() == 1 {
		typeValue := typeConstraint.(constraint.BytesKeeper).Bytes().Unquote()
		if typeValue.IsUserTypeName() {
			c.AddNameWithASTNode(typeValue.String(), typeValue.String(), an)
			return
		}
	}

	typ := schema.New()
	typ.SetRootNode(s.typeRoot)

	CompileBasic(&typ, false)

	lex := s.node.BasisLexEventOfSchemaForNode()
	name := s.rootSchema.AddUnnamedType(&typ, lex.File(), 0)

	c.AddNameWithASTNode(name, s.typeRoot.Type().String(), an)
}

func (s *orRuleSetLoader) makeTypeASTNode(
	source jschema.RuleASTNodeSource,
) jschema.RuleASTNode {
	cc := s.typeRoot.ConstraintMap()

	an := jschema.RuleASTNode{
		TokenType:  jschema.TokenTypeObject,
		Properties: jschema.MakeRuleASTNodes(cc.Len()),
		Source:     source,
	}

	cc.EachSafe(func(k constraint.Type, v constraint.Constraint) {
		an.Properties.Set(k.String(), v.ASTNode())
	})
	return an
}
