package constraint

import (
	"strconv"
	"testing"

	"github.com/stretchr/testify/assert"

	jschema "github.com/jsightapi/jsight-schema-go-library"
	"github.com/jsightapi/jsight-schema-go-library/bytes"
	"github.com/jsightapi/jsight-schema-go-library/internal/json"
)

func TestNewConst(t *testing.T) {
	t.Run("positive", func(t *testing.T) {
		cc := map[string]bool{
			"true":  true,
			"false": false,
		}

		for given, expected := range cc {
			t.Run(given, func(t *testing.T) {
				c := fakeConst(given, "foo")
				assert.Equal(t, expected, c.apply)
				assert.Equal(t, "foo", string(c.nodeValue))
			})
		}
	})

	t.Run("negative", func(t *testing.T) {
		assert.PanicsWithError(t, `Invalid value of "const" constraint`, func() {
			fakeConst("foo", "")
		})
	})
}

func TestConst_IsJsonTypeCompatible(t *testing.T) {
	testIsJsonTypeCompatible(
		t,
		Const{},
		json.TypeUndefined,
		json.TypeString,
		json.TypeInteger,
		json.TypeFloat,
		json.TypeBoolean,
		json.TypeNull,
		json.TypeMixed,
	)
}

func TestConst_Type(t *testing.T) {
	assert.Equal(t, ConstConstraintType, Const{}.Type())
}

func TestConst_String(t *testing.T) {
	cc := map[string]string{
		"false": "const: false",
		"true":  "const: true",
	}

	for given, expected := range cc {
		t.Run(given, func(t *testing.T) {
			assert.Equal(t, expected, fakeConst(given, "").String())
		})
	}
}

func TestConst_Bool(t *testing.T) {
	cc := map[string]bool{
		"false": false,
		"true":  true,
	}

	for given, expected := range cc {
		t.Run(given, func(t *testing.T) {
			assert.Equal(t, expected, fakeConst(given, "").Bool())
		})
	}
}

func TestConst_Validate(t *testing.T) {
	t.Run("positive", func(t *testing.T) {
		t.Run("apply - true", func(t *testing.T) {
			fakeConst("true", "foo").Validate(bytes.Bytes("foo"))
		})

		t.Run("apply - false", func(t *testing.T) {
			t.Run("valid", func(t *testing.T) {
				fakeConst("false", "foo").Validate(bytes.Bytes("foo"))
			})

			t.Run("invalid", func(t *testing.T) {
				fakeConst("false", "foo").Validate(bytes.Bytes("bar"))
			})
		})
	})

	t.Run("negative", func(t *testing.T) {
		assert.PanicsWithError(t, "Does not match expected value (foo)", func() {
			fakeConst("true", "foo").Validate(bytes.Bytes("bar"))
		})
	})
}

func TestConst_ASTNode(t *testing.T) {
	cc := []bool{true, false}

	for _, c := range cc {
		t.Run(strconv.FormatBool(c), func(t *testing.T) {
			assert.Equal(t, jschema.RuleASTNode{
				TokenType:  jschema.TokenTypeBoolean,
				Value:      strconv.FormatBool(c),
				Properties: &jschema.RuleASTNodes{},
				Source:     jschema.RuleASTNodeSourceManual,
			}, Const{apply: c}.ASTNode())
		})
	}
}

func fakeConst(v, nv string) *Const {
	return NewConst(bytes.Bytes(v), bytes.Bytes(nv))
}
