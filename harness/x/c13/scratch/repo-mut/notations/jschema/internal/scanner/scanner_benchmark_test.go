package scanner

import (
	"path/filepath"
	"testing"

	"github.com/jsightapi/jsight-schema-go-library/reader"
	"github.com/jsightapi/jsight-schema-go-library/test"
)

func BenchmarkScanner(b *testing.B) {
	file := reader.Read(filepath.Join(test.GetProjectRoot(), "testdata", "big.jschema"))

	b.ReportAllocs()
	b.ResetTimer()

	for i := 0; i < b.N; i++ {
		s := New(file)
		for {
			if _, ok := s.Next(); ok == false {
				break
			}
		}
	}
}
