package constraint

import (
	"strconv"
	"testing"

	"github.com/stretchr/testify/assert"

	jschema "github.com/jsightapi/jsight-schema-go-library"
)

func TestNewOr(t *testing.T) {
	c := NewOr(jschema.RuleASTNodeSourceGenerated)
	assert.Equal(t, jschema.RuleASTNodeSourceGenerated, c.source)
}

func TestOr_IsGenerated(t *testing.T) {
	cc := map[jschema.RuleASTNodeSource]bool{
		jschema.RuleASTNodeSourceUnknown:   false,
		jschema.RuleASTNodeSourceManual:    false,
		jschema.RuleASTNodeSourceGenerated: true,
	}

	for source, expected := range cc {
		t.Run(strconv.Itoa(int(source)), func(t *testing.T) {
			assert.Equal(t, expected, NewOr(source).IsGenerated())
		})
	}
}

func TestOr_IsJsonTypeCompatible(t *testing.T) {
	testIsJsonTypeCompatible(t, Or{}, allJSONTypes...)
}

func TestOr_Type(t *testing.T) {
	assert.Equal(t, OrConstraintType, NewOr(jschema.RuleASTNodeSourceGenerated).Type())
}

func TestOr_String(t *testing.T) {
	assert.Equal(t, "[ UNVERIFIABLE CONSTRAINT ] or", Or{}.String())
}

func TestOr_ASTNode(t *testing.T) {
	assert.Equal(t, newEmptyRuleASTNode(), NewOr(jschema.RuleASTNodeSourceManual).ASTNode())
}
