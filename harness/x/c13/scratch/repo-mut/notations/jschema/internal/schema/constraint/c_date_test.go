package constraint

import (
	"testing"

	"github.com/stretchr/testify/assert"

	"github.com/jsightapi/jsight-schema-go-library/bytes"
	"github.com/jsightapi/jsight-schema-go-library/internal/json"
)

func TestNewDate(t *testing.T) {
	assert.NotNil(t, NewDate())
}

func TestDate_IsJsonTypeCompatible(t *testing.T) {
	testIsJsonTypeCompatible(t, NewDate(), json.TypeString)
}

func TestDate_Type(t *testing.T) {
	assert.Equal(t, DateConstraintType, NewDate().Type())
}

func TestDate_String(t *testing.T) {
	assert.Equal(t, DateConstraintType.String(), NewDate().String())
}

func TestDate_Validate(t *testing.T) {
	t.Run("positive", func(t *testing.T) {
		NewDate().Validate(bytes.Bytes("2021-01-08"))
	})

	t.Run("negative", func(t *testing.T) {
		assert.PanicsWithError(t, `Date parsing error (parsing time "2021-21-21": month out of range)`, func() {
			NewDate().Validate(bytes.Bytes("2021-21-21"))
		})
	})
}

func TestDate_ASTNode(t *testing.T) {
	assert.Equal(t, newEmptyRuleASTNode(), NewDate().ASTNode())
}
