package constraint //nolint:dupl // Duplicates exclusive minimum with small differences.

import (
	"strconv"

	jschema "github.com/jsightapi/jsight-schema-go-library"
	"github.com/jsightapi/jsight-schema-go-library/bytes"
	"github.com/jsightapi/jsight-schema-go-library/errors"
	"github.com/jsightapi/jsight-schema-go-library/internal/json"
)

type ExclusiveMaximum struct {
	exclusive bool
}

var (
	_ Constraint = ExclusiveMaximum{}
	_ Constraint = (*ExclusiveMaximum)(nil)
)

func NewExclusiveMaximum(ruleValue bytes.Bytes) *ExclusiveMaximum {
	c := ExclusiveMaximum{}
	var err error
	if c.exclusive, err = ruleValue.ParseBool(); err != nil {
		panic(errors.Format(errors.ErrInvalidValueOfConstraint, ExclusiveMaximumConstraintType.String()))
	}
	return &c
}

func (ExclusiveMaximum) IsJsonTypeCompatible(t json.Type) bool {
	return t == json.TypeInteger || t == json.TypeFloat
}

func (ExclusiveMaximum) Type() Type {
	return ExclusiveMaximumConstraintType
}

func (c ExclusiveMaximum) String() string {
	str := "[ UNVERIFIABLE CONSTRAINT ] " + ExclusiveMaximumConstraintType.String()
	if c.exclusive {
		str += ": true"
	} else {
		str += ": false"
	}
	return str
}

func (c ExclusiveMaximum) IsExclusive() bool {
	return c.exclusive
}

func (c ExclusiveMaximum) ASTNode() jschema.RuleASTNode {
	return newRuleASTNode(jschema.TokenTypeBoolean, strconv.FormatBool(c.exclusive), jschema.RuleASTNodeSourceManual)
}
