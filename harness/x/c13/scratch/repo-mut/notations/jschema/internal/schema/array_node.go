package schema

import (
	jschema "github.com/jsightapi/jsight-schema-go-library"
	"github.com/jsightapi/jsight-schema-go-library/errors"
	"github.com/jsightapi/jsight-schema-go-library/internal/json"
	"github.com/jsightapi/jsight-schema-go-library/internal/lexeme"
)

type ArrayNode struct {
	// children a children node list.
	children []Node

	baseNode

	// waitingForChild indicates that we should add children.
	// The Grow method will create a child node by getting the next lexical event.
	waitingForChild bool
}

var _ Node = &ArrayNode{}

func newArrayNode(lex lexeme.LexEvent) *ArrayNode {
	n := ArrayNode{
		baseNode: newBaseNode(lex),
		children: make([]Node, 0, 10),
	}
	n.setJsonType(json.TypeArray)
	return &n
}

func (n *ArrayNode) Grow(lex lexeme.LexEvent) (Node, bool) {
	if n.waitingForChild {
		n.waitingForChild = false
		child := NewNode(lex)
		n.addChild(child)
		return child, true
	}

	switch lex.Type() {
	case lexeme.ArrayBegin, lexeme.ArrayItemEnd:

	case lexeme.ArrayItemBegin:
		n.waitingForChild = true

	case lexeme.ArrayEnd:
		return n.parent, false

	default:
		panic(`Unexpected lexical event "` + lex.Type().String() + `" in array node`)
	}

	return n, false
}

func (n *ArrayNode) addChild(child Node) {
	child.SetParent(n)
	n.children = append(n.children, child)
}

func (n ArrayNode) Children() []Node {
	return n.children
}

func (n ArrayNode) Len() int {
	return len(n.children)
}

func (n ArrayNode) Child(i uint) Node {
	length := uint(len(n.children))
	if length == 0 {
		panic(errors.ErrElementNotFoundInArray)
	} else if i >= length {
		i = length - 1
	}
	return n.children[i]
}

func (n *ArrayNode) ASTNode() (jschema.ASTNode, error) {
	an := astNodeFromNode(n)
	l := len(n.children)

	if l > 0 {
		an.Children = make([]jschema.ASTNode, 0, l)
	}

	for _, c := range n.children {
		cn, err := c.ASTNode()
		if err != nil {
			return jschema.ASTNode{}, err
		}
		an.Children = append(an.Children, cn)
	}

	return an, nil
}
