package constraint

import (
	"testing"

	"github.com/stretchr/testify/assert"

	jschema "github.com/jsightapi/jsight-schema-go-library"
	"github.com/jsightapi/jsight-schema-go-library/internal/json"
)

func TestNewRequiredKeys(t *testing.T) {
	c := NewRequiredKeys()
	assert.NotNil(t, c.keys)
}

func TestRequiredKeys_IsJsonTypeCompatible(t *testing.T) {
	testIsJsonTypeCompatible(t, RequiredKeys{}, json.TypeObject)
}

func TestRequiredKeys_Type(t *testing.T) {
	assert.Equal(t, RequiredKeysConstraintType, NewRequiredKeys().Type())
}

func TestRequiredKeys_String(t *testing.T) {
	c := NewRequiredKeys()
	c.AddKey("foo")
	c.AddKey("bar")

	assert.Equal(t, "required-keys: foo, bar", c.String())
}

func TestRequiredKeys_Keys(t *testing.T) {
	c := NewRequiredKeys()
	c.AddKey("foo")
	c.AddKey("bar")

	assert.Equal(t, []string{"foo", "bar"}, c.Keys())
}

func TestRequiredKeys_AddKey(t *testing.T) {
	c := NewRequiredKeys()
	assert.Equal(t, []string{}, c.keys)

	c.AddKey("foo")
	assert.Equal(t, []string{"foo"}, c.keys)

	c.AddKey("bar")
	assert.Equal(t, []string{"foo", "bar"}, c.keys)
}

func TestRequiredKeys_ASTNode(t *testing.T) {
	c := NewRequiredKeys()
	c.AddKey("foo")
	c.AddKey("bar")

	assert.Equal(t, jschema.RuleASTNode{
		TokenType:  jschema.TokenTypeArray,
		Properties: &jschema.RuleASTNodes{},
		Items: []jschema.RuleASTNode{
			{
				TokenType:  jschema.TokenTypeString,
				Value:      "foo",
				Properties: &jschema.RuleASTNodes{},
				Source:     jschema.RuleASTNodeSourceManual,
			},
			{
				TokenType:  jschema.TokenTypeString,
				Value:      "bar",
				Properties: &jschema.RuleASTNodes{},
				Source:     jschema.RuleASTNodeSourceManual,
			},
		},
		Source: jschema.RuleASTNodeSourceManual,
	}, c.ASTNode())
}
