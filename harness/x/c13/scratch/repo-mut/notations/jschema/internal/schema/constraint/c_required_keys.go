package constraint

import (
	"strings"

	jschema "github.com/jsightapi/jsight-schema-go-library"
	"github.com/jsightapi/jsight-schema-go-library/internal/json"
)

// RequiredKeys constraint is specific constraint. It cannot be created directly by jSchema language rule.
// It is indirectly influenced by rule "optional" in object's children. All the children keys, that are not marked as
// "optional"=true, are treated as required and go to the RequiredKeys constraint of the parent object.
type RequiredKeys struct {
	keys []string
}

var (
	_ Constraint = RequiredKeys{}
	_ Constraint = (*RequiredKeys)(nil)
)

func NewRequiredKeys() *RequiredKeys {
	return &RequiredKeys{
		keys: make([]string, 0, 10),
	}
}

func (RequiredKeys) IsJsonTypeCompatible(t json.Type) bool {
	return t == json.TypeObject
}

func (RequiredKeys) Type() Type {
	return RequiredKeysConstraintType
}

func (c RequiredKeys) String() string {
	return RequiredKeysConstraintType.String() + ": " + strings.Join(c.keys, ", ")
}

func (c RequiredKeys) Keys() []string {
	return c.keys
}

func (c *RequiredKeys) AddKey(key string) {
	c.keys = append(c.keys, key)
}

func (c RequiredKeys) ASTNode() jschema.RuleASTNode {
	const source = jschema.RuleASTNodeSourceManual

	n := newRuleASTNode(jschema.TokenTypeArray, "", source)
	n.Items = make([]jschema.RuleASTNode, 0, len(c.keys))

	for _, s := range c.keys {
		n.Items = append(n.Items, newRuleASTNode(jschema.TokenTypeString, s, source))
	}

	return n
}
