package jschema

import (
	"fmt"

	"github.com/jsightapi/jsight-schema-go-library/bytes"
	"github.com/jsightapi/jsight-schema-go-library/errors"
	"github.com/jsightapi/jsight-schema-go-library/internal/sync"
	internalSchema "github.com/jsightapi/jsight-schema-go-library/notations/jschema/internal/schema"
	"github.com/jsightapi/jsight-schema-go-library/notations/jschema/internal/schema/constraint"
)

type exampleBuilder struct {
	// types all user types used in this schema.
	types map[string]internalSchema.Type

	// processedTypes an unordered set of processed types required for handling
	// recursion.
	// Infinity recursion can't happen here 'cause we check it before building
	// example, but optional recursion can be there.
	processedTypes map[string]int
}

func newExampleBuilder(types map[string]internalSchema.Type) *exampleBuilder {
	return &exampleBuilder{
		types:          types,
		processedTypes: map[string]int{},
	}
}

func (b *exampleBuilder) Build(node internalSchema.Node) ([]byte, error) {
	switch typedNode := node.(type) {
	case *internalSchema.ObjectNode:
		return b.buildExampleForObjectNode(typedNode)

	case *internalSchema.ArrayNode:
		return b.buildExampleForArrayNode(typedNode)

	case *internalSchema.LiteralNode:
		return typedNode.BasisLexEventOfSchemaForNode().Value(), nil

	case *internalSchema.MixedValueNode:
		return b.buildExampleForMixedValueNode(typedNode)

	default:
		return nil, fmt.Errorf("unhandled node type %T", node)
	}
}

func (b *exampleBuilder) buildExampleForObjectNode(node *internalSchema.ObjectNode) ([]byte, error) {
	if node.Constraint(constraint.TypesListConstraintType) != nil {
		return nil, errors.ErrUserTypeFound
	}

	buf := exampleBufferPool.Get()
	defer exampleBufferPool.Put(buf)

	buf.WriteRune('{')
	children := node.Children()
	first := true
	for i, childNode := range children {
		ex, err := b.Build(childNode)
		if err != nil {
			return nil, err
		}

		if ex == nil {
			continue
		}

		k, err := b.buildObjectKey(node.Key(i))
		if err != nil {
			return nil, err
		}

		if !first {
			buf.WriteRune(',')
		}
		first = false
		buf.Write(k)
		buf.WriteRune(':')
		buf.Write(ex)
	}
	buf.WriteRune('}')
	return copyBytes(buf.Bytes()), nil
}

func (b *exampleBuilder) buildObjectKey(k internalSchema.ObjectNodeKey) ([]byte, error) {
	if !k.IsShortcut {
		return k.Lex.Value(), nil
	}

	typ, ok := b.types[k.Key]
	if !ok {
		return nil, errors.Format(errors.ErrUnknownType, k.Key)
	}

	return b.Build(typ.Schema().RootNode())
}

func copyBytes(b []byte) []byte {
	return append([]byte(nil), b...)
}

func (b *exampleBuilder) buildExampleForArrayNode(node *internalSchema.ArrayNode) ([]byte, error) {
	if node.Constraint(constraint.TypesListConstraintType) != nil {
		return nil, errors.ErrUserTypeFound
	}

	buf := exampleBufferPool.Get()
	defer exampleBufferPool.Put(buf)

	buf.WriteRune('[')
	first := true
	for _, childNode := range node.Children() {
		ex, err := b.Build(childNode)
		if err != nil {
			return nil, err
		}

		if ex == nil {
			continue
		}

		if !first {
			buf.WriteRune(',')
		}
		first = false
		buf.Write(ex)
	}
	buf.WriteRune(']')
	return copyBytes(buf.Bytes()), nil
}

func (b *exampleBuilder) buildExampleForMixedValueNode(node *internalSchema.MixedValueNode) ([]byte, error) {
	tt := node.GetTypes()
	if len(tt) == 0 {
		// Normally this shouldn't happen, but we still have to handle this case.
		return nil, errors.ErrLoader
	}

	typeName := tt[0]
	if !bytes.Bytes(typeName).IsUserTypeName() {
		return node.Value(), nil
	}

	if cnt := b.processedTypes[typeName]; cnt > 1 {
		// Do not process already processed type more than twice.
		return nil, nil
	}

	b.processedTypes[typeName]++
	defer func() {
		b.processedTypes[typeName]--
	}()

	t, ok := b.types[typeName]
	if !ok {
		return nil, errors.Format(errors.ErrTypeNotFound, typeName)
	}
	return b.Build(t.Schema().RootNode())
}

func buildExample(node internalSchema.Node, types map[string]internalSchema.Type) ([]byte, error) {
	switch typedNode := node.(type) {
	case *internalSchema.ObjectNode:
		return buildExampleForObjectNode(typedNode, types)

	case *internalSchema.ArrayNode:
		return buildExampleForArrayNode(typedNode, types)

	case *internalSchema.LiteralNode:
		return typedNode.BasisLexEventOfSchemaForNode().Value(), nil

	case *internalSchema.MixedValueNode:
		return buildExampleForMixedValueNode(typedNode, types)

	default:
		return nil, fmt.Errorf("unhandled node type %T", node)
	}
}

func buildExampleForObjectNode(
	node *internalSchema.ObjectNode,
	types map[string]internalSchema.Type,
) ([]byte, error) {
	if node.Constraint(constraint.TypesListConstraintType) != nil {
		return nil, errors.ErrUserTypeFound
	}

	b := exampleBufferPool.Get()
	defer exampleBufferPool.Put(b)

	b.WriteRune('{')
	children := node.Children()
	length := len(children)
	for i, childNode := range children {
		key := node.Key(i)
		b.WriteRune('"')
		b.WriteString(key.Key)
		b.WriteString(`":`)

		ex, err := buildExample(childNode, types)
		if err != nil {
			return nil, err
		}
		b.Write(ex)
		if i+1 != length {
			b.WriteRune(',')
		}
	}
	b.WriteRune('}')
	return b.Bytes(), nil
}

func buildExampleForArrayNode(
	node *internalSchema.ArrayNode,
	types map[string]internalSchema.Type,
) ([]byte, error) {
	if node.Constraint(constraint.TypesListConstraintType) != nil {
		return nil, errors.ErrUserTypeFound
	}

	b := exampleBufferPool.Get()
	defer exampleBufferPool.Put(b)

	b.WriteRune('[')
	children := node.Children()
	length := len(children)
	for i, childNode := range children {
		ex, err := buildExample(childNode, types)
		if err != nil {
			return nil, err
		}
		b.Write(ex)
		if i+1 != length {
			b.WriteRune(',')
		}
	}
	b.WriteRune(']')
	return b.Bytes(), nil
}

var exampleBufferPool = sync.NewBufferPool(512)

func buildExampleForMixedValueNode(
	node *internalSchema.MixedValueNode,
	types map[string]internalSchema.Type,
) ([]byte, error) {
	tt := node.GetTypes()
	if len(tt) == 0 {
		// Normally this shouldn't happen, but we still have to handle this case.
		return nil, errors.ErrLoader
	}

	typeName := tt[0]
	if !bytes.Bytes(typeName).IsUserTypeName() {
		return node.Value(), nil
	}

	t, ok := types[typeName]
	if !ok {
		return nil, errors.Format(errors.ErrTypeNotFound, typeName)
	}
	return buildExample(t.Schema().RootNode(), types)
}
