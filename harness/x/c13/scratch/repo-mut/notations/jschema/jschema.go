package jschema

import (
	stdErrors "errors"
	"fmt"
	"io"
	"strings"

	jschema "github.com/jsightapi/jsight-schema-go-library"
	"github.com/jsightapi/jsight-schema-go-library/errors"
	"github.com/jsightapi/jsight-schema-go-library/formats/json"
	"github.com/jsightapi/jsight-schema-go-library/fs"
	"github.com/jsightapi/jsight-schema-go-library/internal/panics"
	"github.com/jsightapi/jsight-schema-go-library/internal/sync"
	"github.com/jsightapi/jsight-schema-go-library/notations/internal"
	"github.com/jsightapi/jsight-schema-go-library/notations/jschema/internal/checker"
	"github.com/jsightapi/jsight-schema-go-library/notations/jschema/internal/loader"
	"github.com/jsightapi/jsight-schema-go-library/notations/jschema/internal/scanner"
	internalSchema "github.com/jsightapi/jsight-schema-go-library/notations/jschema/internal/schema"
	"github.com/jsightapi/jsight-schema-go-library/notations/jschema/internal/schema/constraint"
	"github.com/jsightapi/jsight-schema-go-library/notations/jschema/internal/validator"
	"github.com/jsightapi/jsight-schema-go-library/notations/regex"
)

type Schema struct {
	file  *fs.File
	inner *internalSchema.Schema

	rules map[string]jschema.Rule

	usedUserTypes []string

	lenOnce     sync.ErrOnceWithValue[uint]
	loadOnce    sync.ErrOnce
	compileOnce sync.ErrOnce

	astNode                  jschema.ASTNode
	areKeysOptionalByDefault bool
}

var _ jschema.Schema = (*Schema)(nil)

// New creates a Jsight schema with specified name and content.
func New[T fs.FileContent](name string, content T, oo ...Option) *Schema {
	return FromFile(fs.NewFile(name, content), oo...)
}

// FromFile creates a Jsight schema from file.
func FromFile(f *fs.File, oo ...Option) *Schema {
	s := &Schema{
		file:  f,
		rules: map[string]jschema.Rule{},
	}

	for _, o := range oo {
		o(s)
	}

	return s
}

type Option func(s *Schema)

func KeysAreOptionalByDefault() Option {
	return func(s *Schema) {
		s.areKeysOptionalByDefault = true
	}
}

func (s *Schema) Len() (uint, error) {
	return s.lenOnce.Do(func() (uint, error) {
		return s.computeLen()
	})
}

func (s *Schema) computeLen() (length uint, err error) {
	// Iterate through all lexemes until we reach the end
	// We should rewind here in case we call NextLexeme method.
	defer func() {
		err = panics.Handle(recover(), err)
	}()

	return scanner.New(s.file, scanner.ComputeLength).Length(), err
}

func (s *Schema) Example() (b []byte, err error) {
	defer func() {
		err = panics.Handle(recover(), err)
	}()

	if err := s.compile(); err != nil {
		return nil, err
	}

	if s.inner.RootNode() == nil {
		return nil, errors.NewDocumentError(s.file, errors.ErrEmptySchema)
	}

	return newExampleBuilder(s.inner.TypesList()).Build(s.inner.RootNode())
}

func (s *Schema) AddType(name string, sc jschema.Schema) (err error) {
	defer func() {
		err = panics.Handle(recover(), err)
	}()

	if err := s.load(); err != nil {
		return err
	}

	switch typ := sc.(type) {
	case *Schema:
		if err := typ.load(); err != nil {
			return fmt.Errorf("load added type: %w", err)
		}

		if typ.inner.RootNode() == nil {
			return errors.NewDocumentError(typ.file, errors.Format(errors.ErrEmptyType, name))
		}

		s.inner.AddNamedType(name, typ.inner, typ.file, 0)
	case *regex.Schema:
		pattern, err := typ.Pattern()
		if err != nil {
			return err
		}

		example, err := typ.Example()
		if err != nil {
			return fmt.Errorf("generate example for Regex type: %w", err)
		}

		typSc := New(name, fmt.Sprintf("%q // {regex: %q}", example, pattern))
		if err := typSc.load(); err != nil {
			return fmt.Errorf("load added type: %w", err)
		}

		s.inner.AddNamedType(name, typSc.inner, typSc.file, 0)

	default:
		return fmt.Errorf("schema should be JSight or Regex schema, but %T given", sc)
	}

	return nil
}

func (s *Schema) AddRule(n string, r jschema.Rule) error {
	if s.inner != nil {
		return stdErrors.New("schema is already compiled")
	}

	if r == nil {
		return stdErrors.New("rule is nil")
	}

	if err := r.Check(); err != nil {
		return err
	}
	s.rules[n] = r
	return nil
}

func (s *Schema) Check() (err error) {
	defer func() {
		err = panics.Handle(recover(), err)
	}()
	return s.compile()
}

func (s *Schema) Validate(document jschema.Document) (err error) {
	defer func() {
		err = panics.Handle(recover(), err)
	}()
	if err := s.compile(); err != nil {
		return err
	}

	if s.inner.RootNode() == nil {
		return errors.NewDocumentError(s.file, errors.ErrEmptySchema)
	}

	if _, ok := document.(*json.Document); !ok {
		return fmt.Errorf("support only JSON documents, but got %T", document)
	}

	return s.validate(document)
}

func (s *Schema) validate(document jschema.Document) error {
	tree := validator.NewTree(
		validator.NodeValidatorList(s.inner.RootNode(), *s.inner, nil),
	)

	empty := true

	for {
		jsonLex, err := document.NextLexeme()
		if err != nil {
			if stdErrors.Is(err, io.EOF) {
				break
			}
			return err
		}

		empty = false
		if tree.FeedLeaves(jsonLex) { // can panic: error of validation
			break
		}
	}

	if empty {
		return internal.NewValidatorError(errors.ErrEmptyJson, errors.Format(errors.ErrEmptyJson).Error())
	}

	// check for error: Invalid non-space byte after top-level value
	for {
		_, err := document.NextLexeme()
		if err != nil {
			if stdErrors.Is(err, io.EOF) {
				break
			}
			return err
		}
	}
	return nil
}

func (s *Schema) GetAST() (an jschema.ASTNode, err error) {
	if err := s.compile(); err != nil {
		return jschema.ASTNode{}, err
	}

	return s.astNode, nil
}

func (s *Schema) UsedUserTypes() ([]string, error) {
	if err := s.load(); err != nil {
		return nil, err
	}
	return s.usedUserTypes, nil
}

func (s *Schema) load() error {
	return s.loadOnce.Do(func() (err error) {
		defer func() {
			err = panics.Handle(recover(), err)
		}()
		sc := loader.LoadSchemaWithoutCompile(
			scanner.New(s.file),
			nil,
			s.rules,
		)
		s.inner = &sc
		s.astNode = s.buildASTNode()
		s.collectUserTypes()
		loader.CompileBasic(s.inner, s.areKeysOptionalByDefault)
		return nil
	})
}

func (s *Schema) Build() error {
	return s.compile()
}

func (s *Schema) collectUserTypes() {
	node := s.inner.RootNode()
	// This is possible when schema isn't valid.
	if node == nil {
		return
	}

	s.usedUserTypes = collectUserTypes(node)
}

func collectUserTypes(node internalSchema.Node) []string {
	c := &userTypesCollector{
		alreadyProcessed: map[string]struct{}{},
	}
	c.collect(node)
	return c.userTypes
}

type userTypesCollector struct {
	alreadyProcessed map[string]struct{}
	userTypes        []string
}

func (c *userTypesCollector) collect(node internalSchema.Node) {
	c.collectUserTypesFromTypesListConstraint(node)
	c.collectUserTypesFromTypeConstraint(node)
	c.collectUserTypesFromAllOfConstraint(node)

	switch n := node.(type) {
	case *internalSchema.ObjectNode:
		c.collectUserTypesFromAdditionalPropertiesOfConstraint(node)
		c.collectUserTypesObjectNode(n)

	case *internalSchema.ArrayNode:
		for _, child := range n.Children() {
			c.collect(child)
		}

	case *internalSchema.MixedValueNode:
		for _, ut := range strings.Split(n.Value().String(), "|") {
			s := strings.TrimSpace(ut)
			if s[0] == '@' {
				c.addType(s)
			}
		}
	}
}

func (c *userTypesCollector) collectUserTypesFromTypesListConstraint(node internalSchema.Node) {
	cnstr := node.Constraint(constraint.TypesListConstraintType)
	if cnstr == nil {
		return
	}

	list, ok := cnstr.(*constraint.TypesList)
	if !ok {
		return
	}

	for _, name := range list.Names() {
		if name[0] == '@' {
			c.addType(name)
		}
	}
}

func (c *userTypesCollector) collectUserTypesFromTypeConstraint(node internalSchema.Node) {
	cnstr := node.Constraint(constraint.TypeConstraintType)
	if cnstr == nil {
		return
	}

	typ, ok := cnstr.(*constraint.TypeConstraint)
	if !ok {
		return
	}

	name := typ.Bytes().Unquote().String()
	if strings.HasPrefix(name, "@") {
		c.addType(name)
	}
}

func (c *userTypesCollector) collectUserTypesFromAllOfConstraint(node internalSchema.Node) {
	cnstr := node.Constraint(constraint.AllOfConstraintType)
	if c == nil {
		return
	}

	allOf, ok := cnstr.(*constraint.AllOf)
	if !ok {
		return
	}

	for _, name := range allOf.SchemaNames() {
		if name[0] == '@' {
			c.addType(name)
		}
	}
}

func (c *userTypesCollector) collectUserTypesFromAdditionalPropertiesOfConstraint(node internalSchema.Node) {
	cnstr := node.Constraint(constraint.AdditionalPropertiesConstraintType)
	if c == nil {
		return
	}

	ap, ok := cnstr.(*constraint.AdditionalProperties)
	if !ok {
		return
	}

	if ap.Mode() == constraint.AdditionalPropertiesMustBeUserType {
		c.addType(ap.TypeName().String())
	}
}

func (c *userTypesCollector) collectUserTypesObjectNode(node *internalSchema.ObjectNode) {
	for _, v := range node.Keys().Data {
		k := v.Key

		if v.IsShortcut {
			if k[0] == '@' {
				c.addType(k)
			}
		}

		child, ok := node.Child(k, v.IsShortcut)
		if ok {
			c.collect(child)
		}
	}
}

func (c *userTypesCollector) addType(n string) {
	if _, ok := c.alreadyProcessed[n]; ok {
		return
	}
	c.alreadyProcessed[n] = struct{}{}
	c.userTypes = append(c.userTypes, n)
}

func (s *Schema) buildASTNode() jschema.ASTNode {
	root := s.inner.RootNode()
	if root == nil {
		// This case will be handled in loader.CompileBasic.
		return jschema.ASTNode{
			Rules: &jschema.RuleASTNodes{},
		}
	}

	an, err := root.ASTNode()
	if err != nil {
		panic(err)
	}
	return an
}

func (s *Schema) compile() error {
	return s.compileOnce.Do(func() (err error) {
		defer func() {
			err = panics.Handle(recover(), err)
		}()
		if err := s.load(); err != nil {
			return err
		}
		loader.CompileAllOf(s.inner)
		loader.AddUnnamedTypes(s.inner)
		checker.CheckRootSchema(s.inner)
		return checker.CheckRecursion(s.file.Name(), s.inner)
	})
}
