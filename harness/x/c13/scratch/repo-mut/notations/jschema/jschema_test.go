package jschema

import (
	stdErrors "errors"
	"fmt"
	"testing"

	"github.com/davecgh/go-spew/spew"
	"github.com/stretchr/testify/assert"
	"github.com/stretchr/testify/require"

	jschema "github.com/jsightapi/jsight-schema-go-library"
	"github.com/jsightapi/jsight-schema-go-library/formats/json"
	"github.com/jsightapi/jsight-schema-go-library/internal/mocks"
	schemaMocks "github.com/jsightapi/jsight-schema-go-library/notations/jschema/internal/mocks"
	internalSchema "github.com/jsightapi/jsight-schema-go-library/notations/jschema/internal/schema"
	"github.com/jsightapi/jsight-schema-go-library/notations/regex"
	"github.com/jsightapi/jsight-schema-go-library/rules/enum"
)

func ExampleSchema() {
	s := New("root", `{"foo": @Fizz,"bar": @Buzz}`)

	l, err := s.Len()
	if err != nil {
		fmt.Printf("Error: %s\n", err)
		return
	}
	fmt.Println(l)

	err = s.AddType("@Fizz", New("fizz", `{"fizz": 1}`))
	if err != nil {
		fmt.Printf("Error: %s\n", err)
		return
	}

	err = s.AddType("@Buzz", New("buzz", `{"buzz": 2}`))
	if err != nil {
		fmt.Printf("Error: %s\n", err)
		return
	}

	err = s.Check()
	if err != nil {
		fmt.Printf("Error: %s\n", err)
		return
	}

	err = s.Validate(json.New("json", `{"foo":{"fizz":42},"bar":{"buzz":42}}`))
	if err != nil {
		fmt.Printf("Error: %s\n", err)
		return
	}
	// Output: 27
}

func TestSchema_Len(t *testing.T) {
	t.Run("positive", func(t *testing.T) {
		cc := map[string]uint{
			`
{
	"key": 123 // {min: 1}
}
some extra text
`: 28,
			`@pig // {or: ["@dog", "@pig"]}`:  30,
			`@pig, // {or: ["@dog", "@pig"]}`: 4,
			`@pig, // {or: ["@dog", "@pig"]}
some extra text`: 4,
			`42 /*
	{nullable: true}
*/
some extra text`: 26,
			"[]  // {minItems: 0} - Description":                                  34,
			"[]  // {minItems: 0} - Description ":                                 34,
			"[]  // {minItems: 0} - Description  ":                                34,
			"[]  // {minItems: 0} - Description \n some data":                     34,
			`"userType2": 12 // {type: "@catId", optional: true, nullable: true}`: 11,
			`[
	{} // {type: @json}
]`: 24,
		}

		for given, expected := range cc {
			t.Run(given, func(t *testing.T) {
				l, err := New("foo", given).Len()
				require.NoError(t, err)
				assert.Equal(t, int(expected), int(l))
			})
		}
	})

	t.Run("negative", func(t *testing.T) {
		_, err := New("foo", "invalid").Len()
		assert.EqualError(t, err, `ERROR (code 301): Invalid character "i" looking for beginning of value
	in line 1 on file foo
	> invalid
	--^`)
	})
}

func BenchmarkSchema_Len(b *testing.B) {
	b.ReportAllocs()

	for i := 0; i < b.N; i++ {
		b.StopTimer()
		s := New("foo", `[
  {
    "id": 1,
    "first_name": "Cecilia",
    "last_name": "Maudson",
    "email": "cmaudson0@dedecms.com",
    "gender": "Female",
    "ip_address": "14.224.72.249"
  }
]`)
		b.StartTimer()
		l, err := s.Len()
		require.NoError(b, err)
		assert.Equal(b, 177, int(l))
	}
}

func TestSchema_Example(t *testing.T) {
	t.Run("positive", func(t *testing.T) {
		cc := map[string]struct {
			enums    map[string]string
			types    map[string]string
			expected string
		}{
			`
{ //{allOf: ["@allOf1", "@allOf2"]}
	"i": 123, // {min: 1}
	"s": "str",
	"b": true,
	"n": null,
	"a": [1, "str", false, null],
	"o": {
		"ii": 999 // {max: 999}
	},
	"or_full": "foo", // {or: [{"type": "string"}, {"type": "integer"}]}
	"or_short": "foo", // {or: ["string", "integer"]}
	"shortcut": @foo,
	"shortcut_or": @foo | @bar,
	"enum": 1, // {enum: [1, 2, 3]}
	"enum_rule": 2, // {enum: @enum}
	"recursion": @recursion,
	"deep_recursion": @deep_recursion,
	@keyName: 100500,
	"@keyName": "should not change"
}
`: {
				enums: map[string]string{
					"@enum": "[1, 2, 3]",
				},
				types: map[string]string{
					"@foo": `{
	"foo": 42
}`,
					"@bar": `{
	"bar": 42
}`,
					"@recursion": `{
	"recursion": @recursion // {optional: true}
}`,
					"@deep_recursion": `{
	"bar": @nested
}`,
					"@nested": `{
	"fizz": @deep_recursion
}`,
					"@keyName": `"key_name_1" // {regex: "key_name_\\d+"}`,
					"@allOf1": `{
	"allOf1": 42
}`,
					"@allOf2": `{
	"allOf2": @recursion // {optional: true}
}`,
				},
				expected: `{
	"i": 123,
	"s": "str",
	"b": true,
	"n": null,
	"a": [
		1,
		"str",
		false,
		null
	],
	"o": {
		"ii": 999
	},
	"or_full": "foo",
	"or_short": "foo",
	"shortcut": {
		"foo": 42
	},
	"shortcut_or": {
		"foo": 42
	},
	"enum": 1,
	"enum_rule": 2,
	"recursion": {
		"recursion": {}
	},
	"deep_recursion": {
		"bar": {
			"fizz": {
				"bar": {}
			}
		}
	},
	"key_name_1": 100500,
	"@keyName": "should not change",
	"allOf1": 42,
	"allOf2": {
		"recursion": {}
	}
}`,
			},

			`{
	"main1": @main, // {optional: true}
	"main2": @main // {optional: true}
}`: {
				expected: `{
	"main1": {
		"main1": {},
		"main2": {}
	},
	"main2": {
		"main1": {},
		"main2": {}
	}
}`,
			},

			`"\" \\ /"`: {
				expected: `"\" \\ /"`,
			},
		}

		for given, c := range cc {
			t.Run(given, func(t *testing.T) {
				s := New("@main", given)

				for n, b := range c.enums {
					require.NoError(t, s.AddRule(n, enum.New(n, b)))
				}

				for n, b := range c.types {
					require.NoError(t, s.AddType(n, New(n, b)))
				}
				require.NoError(t, s.AddType("@main", s))

				actual, err := s.Example()
				require.NoError(t, err)
				assert.JSONEq(t, c.expected, string(actual))
			})
		}
	})

	t.Run("negative", func(t *testing.T) {
		_, err := New("schema", "invalid").
			Example()
		assert.EqualError(t, err, `ERROR (code 301): Invalid character "i" looking for beginning of value
	in line 1 on file schema
	> invalid
	--^`)
	})
}

func TestSchema_AddType(t *testing.T) {
	t.Run("positive", func(t *testing.T) {
		t.Run("jschema", func(t *testing.T) {
			root := New("", `{"foo": @foo}`)
			typ := New("", "123")
			err := root.AddType("@foo", typ)
			require.NoError(t, err)

			require.NotNil(t, root.inner)
			actualType, err := root.inner.Type("@foo")
			require.NoError(t, err)
			assert.Equal(t, typ.inner, actualType)
		})

		t.Run("regex", func(t *testing.T) {
			root := New("", `{"foo": @foo}`)
			typ := regex.New("", "/foo-\\d/")
			err := root.AddType("@foo", typ)
			require.NoError(t, err)

			require.NotNil(t, root.inner)
		})
	})

	t.Run("negative", func(t *testing.T) {
		t.Run("invalid schema", func(t *testing.T) {
			err := New("", "42").AddType("invalid", nil)
			assert.EqualError(t, err, "schema should be JSight or Regex schema, but <nil> given")
		})

		t.Run("invalid schema name", func(t *testing.T) {
			err := New("", "42").AddType("invalid", New("invalid", "42"))
			assert.EqualError(t, err, "Invalid schema name (invalid)")
		})
	})
}

func TestSchema_AddRule(t *testing.T) {
	t.Run("positive", func(t *testing.T) {
		const name = "foo"
		r := mocks.NewRule(t)
		r.On("Check").Return(nil)
		s := New("", "content")

		err := s.AddRule(name, r)

		require.NoError(t, err)
		assert.Len(t, s.rules, 1)
		assert.Contains(t, s.rules, name)
		assert.Same(t, r, s.rules[name])
	})

	t.Run("negative", func(t *testing.T) {
		t.Run("already compiled", func(t *testing.T) {
			s := New("foo", "content")
			s.inner = &internalSchema.Schema{}

			err := s.AddRule("foo", mocks.NewRule(t))

			assert.EqualError(t, err, "schema is already compiled")
			assert.Len(t, s.rules, 0)
		})

		t.Run("nil rule", func(t *testing.T) {
			s := New("", "content")

			err := s.AddRule("", nil)

			assert.EqualError(t, err, "rule is nil")
			assert.Len(t, s.rules, 0)
		})

		t.Run("invalid rule", func(t *testing.T) {
			r := mocks.NewRule(t)
			r.On("Check").Return(stdErrors.New("fake error"))
			s := New("", "content")

			err := s.AddRule("", r)

			assert.EqualError(t, err, "fake error")
			assert.Len(t, s.rules, 0)
		})
	})
}

//goland:noinspection HttpUrlsUsage
func TestSchema_Check(t *testing.T) {
	t.Run("positive", func(t *testing.T) {
		cc := map[string]struct {
			types map[string]string
			enums map[string]string
		}{
			`{"foo": "bar"}`:         {},
			`{} // {type: "object"}`: {},
			`[] // {type: "array"}`:  {},
			"@foo": {
				types: map[string]string{
					"@foo": `{"foo": "bar"}`,
				},
			},
			`{} // {or: [{type: "object"}, {type: "array"}]}`:     {},
			`[] // {or: [{type: "object"}, {type: "array"}]}`:     {},
			`{} // {or: [{type: "object"}, {type: "string"}]}`:    {},
			`"foo" // {or: [{type: "object"}, {type: "string"}]}`: {},
			`[] // {or: [{type: "array"}, {type: "string"}]}`:     {},
			`"foo" // {or: [{type: "array"}, {type: "string"}]}`:  {},
			`"CAT-123" // {type: "@catId"}`: {
				types: map[string]string{
					"@catId": `"CAT-123"`,
				},
			},
			`"foo" // {or: [{type: "string"}, {type: "@foo"}]}`: {
				types: map[string]string{
					"@foo": `{"key": "value"}`,
				},
			},
			"@foo | @bar": {
				types: map[string]string{
					"@foo": `{"foo": "bar"}`,
					"@bar": `{"foo": "bar"}`,
				},
			},
			`{"myCat": @cat}`: {
				types: map[string]string{
					"@cat": `{"foo": "bar"}`,
				},
			},
			`{
				"myCatList": [
					@cat
				]
			}`: {
				types: map[string]string{
					"@cat": `{"foo": "bar"}`,
				},
			},
			`{
				"myCat": @cat // {optional: true}
			}`: {
				types: map[string]string{
					"@cat": "42",
				},
			},
			`[
				@cat | @dog | @frog
			]`: {
				types: map[string]string{
					"@cat":  `{"foo": "bar"}`,
					"@dog":  `{"foo": "bar"}`,
					"@frog": `{"foo": "bar"}`,
				},
			},
			`{
				"myPet": @cat | @dog // {optional: true}
			}`: {
				types: map[string]string{
					"@cat": `{"foo": "bar"}`,
					"@dog": `{"foo": "bar"}`,
				},
			},
			`{
				"myPetId": "CAT-123" // {or: ["@catId", "@dogId"]}
			}`: {
				types: map[string]string{
					"@catId": `"CAT-123"`,
					"@dogId": `"DOG-123"`,
				},
			},
			`{
				"@catsEmail" : @cat
			}`: {
				types: map[string]string{
					"@cat": `{"foo": "bar"}`,
				},
			},
			`{
				@catsEmail : @cat
			}`: {
				types: map[string]string{
					"@cat":       `{"foo": "bar"}`,
					"@catsEmail": `"email@address.com"`,
				},
			},
			"42 // {const: true}":  {},
			"{} // {const: false}": {},
			`{ // {const: false}
				"foo": "bar"
			}`: {},
			"[] // {const: false}": {},
			`[ // {const: false}
				1,
				2,
				3
			]`: {},
			`42 // {type: "@foo", const: false}`: {
				types: map[string]string{
					"@foo": "42",
				},
			},
			"@foo // {const: false}": {
				types: map[string]string{
					"@foo": `{"foo": "bar"}`,
				},
			},
			"@foo | @bar // {const: false}": {
				types: map[string]string{
					"@foo": `{"foo": "bar"}`,
					"@bar": `{"foo": "bar"}`,
				},
			},
			`{
				"data": "abc" /* {
					or: [
						{type: "string" , maxLength: 3},
						{type: "integer", min: 0}
					]
				} */
			}`: {},
			`[ // {type: "array", maxItems: 100}
		1, // {type: "mixed", or: [{type: "integer"}, {type: "string"}]}
		2 // {or: [{type: "integer"}, {type: "string"}]}
]`: {
				types: map[string]string{
					"@dog": `{"foo": "bar"}`,
					"@pig": `{"foo": "bar"}`,
				},
			},
			`[ // {type: "array", maxItems: 100}
		@dog | @pig
]`: {
				types: map[string]string{
					"@dog": `{"foo": "bar"}`,
					"@pig": `{"foo": "bar"}`,
				},
			},
			`{
	"tags": [
		"@cats"
	],
	"query"  : @query,
	"request": @httpRequest
}`: {
				types: map[string]string{
					"@query":       `{"foo": "bar"}`,
					"@httpRequest": `{"foo": "bar"}`,
				},
			},

			`"2021-01-08" // {type: "date"}`: {},
			`[
	"2021-01-08" // {type: "date"}
]`: {},
			`{
	"foo": "2021-01-08" // {type: "date"}
}`: {},

			`"2021-01-08T12:50:45+06:00" // {type: "datetime"}`: {},
			`[
	"2021-01-08T12:50:45+06:00" // {type: "datetime"}
]`: {},
			`{
	"foo": "2021-01-08T12:50:45+06:00" // {type: "datetime"}
}`: {},

			`{
  "id1": 1, // {type: "@id", nullable: true}
  "id2": @id, // {nullable: true}
  "id3": @id1 | @id2, // {nullable: true}
  "size": 1, // {enum: [1,2,3], nullable: true}
  "choice": 1 // {or: [{type: "integer"}, {type: "string"}]}
}`: {
				types: map[string]string{
					"@id":  "123",
					"@id1": "[]",
					"@id2": "{}",
				},
			},
			`42 // {type: "any", nullable: true}`: {},
			`{
	"foo": 123 /* {or: [
		{min: 100},
		{type: "string"}
	]} */
}`: {},
			`42 // {or: ["integer", "string"]}`: {},
			"@bar": {
				types: map[string]string{
					"@bar": `42 // {or: ["integer", "string"]}`,
				},
			},
			"1 // {enum : [1]}": {},
			`{
	"foo": 2 // {nullable: false, optional: true}
}`: {},
			`"5" // {enum: ["5", 5]}`: {},
			`{ // {allOf: "@bar"}
	"foo": 1
}`: {
				types: map[string]string{
					"@bar": `{ // {allOf: "@fizz"}
	"bar": 2 // {or: ["integer", "string"]}
}`,
					"@fizz": `{
	"fizz": 3 // {or: ["integer", "string"]}
}`,
				},
			},

			`"foo" // {enum: @enum}`: {
				enums: map[string]string{
					"@enum": `["foo", "bar"]`,
				},
			},

			`{
	"foo": "foo" // {enum: @enum}
}`: {
				enums: map[string]string{
					"@enum": `["foo", "bar"]`,
				},
			},

			`3.14 // {type: "decimal", precision: 2}`: {},

			// Valid recursions.
			`{
	"foo": @bar
}`: {
				types: map[string]string{
					"@bar": `{
	"bar": @main // {optional: true}
}`,
				},
			},

			`{
	"foo": [@main]
}`: {},

			`{
	"foo": @fizz | @buzz
}`: {
				types: map[string]string{
					"@fizz": `{
	"fizz": @main
}`,
					"@buzz": `{
	"buzz": 42
}`,
				},
			},

			`1 /* {or: [
	{type: "string"},
	{enum: [1,2,3]}
]} */`: {},

			`"foo" /* {or: [
	{type: "string"},
	{enum: [1,2,3]}
]} */`: {},

			`1 /* {or: [
	{type: "string"},
	{enum: @enum}
]} */`: {
				enums: map[string]string{
					"@enum": "[1, 2, 3]",
				},
			},

			`"foo" /* {or: [
	{type: "string"},
	{enum: @enum}
]} */`: {
				enums: map[string]string{
					"@enum": "[1, 2, 3]",
				},
			},

			`"foo" /* {or: [
	{type: "string"},
	{enum: @enum}
]} - comment */`: {
				enums: map[string]string{
					"@enum": "[1, 2, 3]",
				},
			},

			`"foo" /* {or: [
	{type: "string"},
	{enum: @enum}
]} - multi
	line
	comment */`: {
				enums: map[string]string{
					"@enum": "[1, 2, 3]",
				},
			},

			`{
  @catId: 1,
  "@catId": 1
}`: {
				types: map[string]string{
					"@catId": `"foo"`,
				},
			},

			`"a" // {enum: ["a", "\u0062"]}`: {},

			`"b" // {enum: ["a", "\u0062"]}`: {},

			`"\u0061" // {enum: ["a", "\u0062"]}`: {},

			`"\u0062" // {enum: ["a", "\u0062"]}`: {},

			`"a" // {enum: @foo}`: {
				enums: map[string]string{
					"@foo": `["a", "\u0062"]`,
				},
			},

			`"b" // {enum: @foo}`: {
				enums: map[string]string{
					"@foo": `["a", "\u0062"]`,
				},
			},

			`"\u0061" // {enum: @foo}`: {
				enums: map[string]string{
					"@foo": `["a", "\u0062"]`,
				},
			},

			`"\u0062" // {enum: @foo}`: {
				enums: map[string]string{
					"@foo": `["a", "\u0062"]`,
				},
			},

			`
{
  "interactions": {
    @interactionId : 123
  }
}`: {
				types: map[string]string{
					"@interactionId":        `@httpInteractionId | @jsonRpcInteractionId`,
					"@httpInteractionId":    `"http GET /cats/{id}" // {regex: "^http (?:GET|POST|PUT|PATCH|DELETE) \/.*"}`,
					"@jsonRpcInteractionId": `"json-rpc-2.0 /cats foo" // {regex: "^json-rpc-2.0 \/.* .+"}`,
				},
			},
		}

		for content, c := range cc {
			t.Run(content, func(t *testing.T) {
				s := New("@main", content)

				for n, c := range c.enums {
					require.NoError(t, s.AddRule(n, enum.New(n, c)))
				}

				for n, c := range c.types {
					require.NoError(t, s.AddType(n, New(n, c)))
				}
				require.NoError(t, s.AddType("@main", s))

				require.NoError(t, s.Check())
			})
		}
	})

	t.Run("negative", func(t *testing.T) {
		cc := map[string]struct {
			types map[string]string
			rules map[string]string
			given string
		}{
			`ERROR (code 301): Invalid character "i" looking for beginning of value
	in line 1 on file 
	> invalid
	--^`: {
				given: "invalid",
			},
			`ERROR (code 1302): Type "@int" not found
	in line 2 on file 
	> "aaa": 111 // {type: "@int"}
	---------^`: {
				given: `{
		"aaa": 111 // {type: "@int"}
	}`,
			},

			`ERROR (code 1302): Type "@foo" not found
	in line 1 on file 
	> @foo
	--^`: {
				given: "@foo",
			},

			`ERROR (code 1302): Type "@foo" not found
	in line 1 on file 
	> 42 // {type: "@foo"}
	--^`: {
				given: `42 // {type: "@foo"}`,
			},

			`ERROR (code 804): You cannot place a RULE on lines that contain more than one EXAMPLE node to which any RULES can apply. The only exception is when an object key and its value are found in one line.
	in line 1 on file 
	> {"foo": "bar"} // {const: false}
	----------------------------^`: {
				given: `{"foo": "bar"} // {const: false}`,
			},

			`ERROR (code 304): Annotation not allowed here
	in line 1 on file 
	> [1, 2, 3] // {const: false}
	------------^`: {
				given: "[1, 2, 3] // {const: false}",
			},

			`ERROR (code 1117): The "const" constraint can't be used for the "object" type
	in line 1 on file 
	> {} // {const: true}
	--^`: {
				given: "{} // {const: true}",
			},

			`ERROR (code 1117): The "const" constraint can't be used for the "object" type
	in line 1 on file 
	> { // {const: true}
	--^`: {
				given: `{ // {const: true}
	"foo": "bar"
}`,
			},

			`ERROR (code 1117): The "const" constraint can't be used for the "array" type
	in line 1 on file 
	> [] // {const: true}
	--^`: {
				given: "[] // {const: true}",
			},

			`ERROR (code 1117): The "const" constraint can't be used for the "array" type
	in line 1 on file 
	> [ // {const: true}
	--^`: {
				given: `[ // {const: true}
	1,
	2,
	3
]`,
			},

			`ERROR (code 1102): Invalid rule set shared with a type reference
	in line 1 on file 
	> @foo // {const: true}
	--^`: {
				given: "@foo // {const: true}",
			},

			`ERROR (code 1103): Invalid rule set shared with "or"
	in line 1 on file 
	> @foo | @bar // {const: true}
	--^`: {
				given: "@foo | @bar // {const: true}",
			},

			`ERROR (code 1114): Not found the rule "or" for the "mixed" type
	in line 1 on file 
	> 42 // {type: "mixed", const: true}
	--^`: {
				given: `42 // {type: "mixed", const: true}`,
			},

			`ERROR (code 1103): Invalid rule set shared with "or"
	in line 1 on file 
	> 42 // {type: "mixed", or: ["@foo", "@bar"], const: true}
	--^`: {
				given: `42 // {type: "mixed", or: ["@foo", "@bar"], const: true}`,
			},

			`ERROR (code 1103): Invalid rule set shared with "or"
	in line 1 on file 
	> 42 // {or: [{type: "integer"}, {type: "string"}], const: true}
	--^`: {
				given: `42 // {or: [{type: "integer"}, {type: "string"}], const: true}`,
			},

			`ERROR (code 1102): Invalid rule set shared with a type reference
	in line 1 on file 
	> 42 // {type: "@foo", const: true}
	--^`: {
				given: `42 // {type: "@foo", const: true}`,
			},

			`ERROR (code 301): Invalid character "/" looking for beginning of string
	in line 3 on file 
	> // inline comment
	--^`: {
				given: `{
	"foo": "bar",
	// inline comment
	"fizz": "buzz"
}`,
			},

			`ERROR (code 301): Invalid character "/" after inline annotation
	in line 3 on file 
	> // inline comment
	--^`: {
				given: `{
	"foo": "bar", // foo comment
	// inline comment
	"fizz": "buzz"
}`,
			},

			`ERROR (code 802): Incorrect rule value type
	in line 2 on file 
	> {} // {type: @json}
	---------------^`: {
				given: `[
	{} // {type: @json}
]`,
			},

			`ERROR (code 301): Invalid character "@" key shortcut not allowed in annotation
	in line 2 on file 
	> {} // {@type: "foo"}
	---------^`: {
				given: `[
	{} // {@type: "foo"}
]`,
			},

			`ERROR (code 616): Date parsing error (parsing time "abc" as "2006-01-02": cannot parse "abc" as "2006")
	in line 2 on file 
	> "data": "abc" // {type: "date"}
	----------^`: {
				given: `{
	"data": "abc" // {type: "date"}
}`,
			},

			`ERROR (code 1302): Type "@petName" not found
	in line 3 on file 
	> @petName: @cat
	--^`: {
				types: map[string]string{
					"@cat": "{}",
				},
				given: `{
	"@notAShortCutKey": @cat,
	@petName: @cat
}`,
			},

			`ERROR (code 1301): Incorrect type of user type
	in line 1 on file 
	> 123 // {or: ["@cat", "@dog"]}
	--^`: {
				given: `123 // {or: ["@cat", "@dog"]}`,
				types: map[string]string{
					"@cat": `"cat"`,
					"@dog": `"dog"`,
				},
			},

			`ERROR (code 1117): The "minLength" constraint can't be used for the "email" type
	in line 1 on file 
	> "user@example.com" // {type: "email", minLength: 2}
	--^`: {
				given: `"user@example.com" // {type: "email", minLength: 2}`,
			},

			`ERROR (code 1117): The "maxLength" constraint can't be used for the "email" type
	in line 1 on file 
	> "user@example.com" // {type: "email", maxLength: 256}
	--^`: {
				given: `"user@example.com" // {type: "email", maxLength: 256}`,
			},

			`ERROR (code 1117): The "minLength" constraint can't be used for the "uri" type
	in line 1 on file 
	> "http://example.com" // {type: "uri", minLength: 2}
	--^`: {
				given: `"http://example.com" // {type: "uri", minLength: 2}`,
			},

			`ERROR (code 1117): The "maxLength" constraint can't be used for the "uri" type
	in line 1 on file 
	> "http://example.com" // {type: "uri", maxLength: 256}
	--^`: {
				given: `"http://example.com" // {type: "uri", maxLength: 256}`,
			},

			`ERROR (code 1117): The "minLength" constraint can't be used for the "date" type
	in line 1 on file 
	> "2022-02-27" // {type: "date", minLength: 2}
	--^`: {
				given: `"2022-02-27" // {type: "date", minLength: 2}`,
			},

			`ERROR (code 1117): The "maxLength" constraint can't be used for the "date" type
	in line 1 on file 
	> "2022-02-27" // {type: "date", maxLength: 256}
	--^`: {
				given: `"2022-02-27" // {type: "date", maxLength: 256}`,
			},

			`ERROR (code 1117): The "minLength" constraint can't be used for the "datetime" type
	in line 1 on file 
	> "2022-02-27T10:19:48+06:00" // {type: "datetime", minLength: 2}
	--^`: {
				given: `"2022-02-27T10:19:48+06:00" // {type: "datetime", minLength: 2}`,
			},

			`ERROR (code 1117): The "maxLength" constraint can't be used for the "datetime" type
	in line 1 on file 
	> "2022-02-27T10:19:48+06:00" // {type: "datetime", maxLength: 256}
	--^`: {
				given: `"2022-02-27T10:19:48+06:00" // {type: "datetime", maxLength: 256}`,
			},

			`ERROR (code 1117): The "minLength" constraint can't be used for the "uuid" type
	in line 1 on file 
	> "95f362d6-87df-4dd4-a948-9f84f65a3468" // {type: "uuid", minLength: 2}
	--^`: {
				given: `"95f362d6-87df-4dd4-a948-9f84f65a3468" // {type: "uuid", minLength: 2}`,
			},

			`ERROR (code 1117): The "maxLength" constraint can't be used for the "uuid" type
	in line 1 on file 
	> "95f362d6-87df-4dd4-a948-9f84f65a3468" // {type: "uuid", maxLength: 256}
	--^`: {
				given: `"95f362d6-87df-4dd4-a948-9f84f65a3468" // {type: "uuid", maxLength: 256}`,
			},

			`ERROR (code 1117): The "regex" constraint can't be used for the "uuid" type
	in line 1 on file 
	> "95f362d6-87df-4dd4-a948-9f84f65a3468" // {type: "uuid", regex: ".+"}
	--^`: {
				given: `"95f362d6-87df-4dd4-a948-9f84f65a3468" // {type: "uuid", regex: ".+"}`,
			},

			`ERROR (code 1117): The "const" constraint can't be used for the "any" type
	in line 1 on file 
	> 42 // {type: "any", const: true}
	--^`: {
				given: `42 // {type: "any", const: true}`,
			},

			`ERROR (code 1302): Type "@cat" not found
	in line 10 on file 
	> "bar": @cat
	---------^`: {
				given: `{
  "k1": 1,
  "k2": 2,
  "k3": 3,
  "k4": 4,
  "k5": 5,
  "k6": 6,
  "topFriends": {
    "foo": 42,
    "bar": @cat
  }
}`,
			},

			`ERROR (code 1302): Type "@petName" not found
	in line 10 on file 
	> @petName: @cat
	--^`: {
				given: `{
  "k1": 1,
  "k2": 2,
  "k3": 3,
  "k4": 4,
  "k5": 5,
  "k6": 6,
  "topFriends": {
    "foo": 42,
    @petName: @cat
  }
}`,
			},

			`ERROR (code 1117): The "minLength" constraint can't be used for the "float" type
	in line 1 on file 
	> 1.23 /* {precision: 2,
	--^`: {
				given: `1.23 /* {precision: 2,
                            minLength: 0,
                }*/`,
			},

			`ERROR (code 1117): The "minLength" constraint can't be used for the "decimal" type
	in line 1 on file 
	> 1.23 /* {type: "decimal", precision: 2,
	--^`: {
				given: `1.23 /* {type: "decimal", precision: 2,
                            minLength: 0,
                }*/`,
			},

			`ERROR (code 1117): The "precision" constraint can't be used for the "string" type
	in line 1 on file 
	> "user@example.com" // {precision: 2}
	--^`: {
				given: `"user@example.com" // {precision: 2}`,
			},

			`ERROR (code 1117): The "precision" constraint can't be used for the "email" type
	in line 1 on file 
	> "user@example.com" // {type: "email", precision: 2}
	--^`: {
				given: `"user@example.com" // {type: "email", precision: 2}`,
			},

			`ERROR (code 1117): The "precision" constraint can't be used for the "string" type
	in line 1 on file 
	> "2022-02-27" // {precision: 2}
	--^`: {
				given: `"2022-02-27" // {precision: 2}`,
			},

			`ERROR (code 1117): The "precision" constraint can't be used for the "date" type
	in line 1 on file 
	> "2022-02-27" // {type: "date", precision: 2}
	--^`: {
				given: `"2022-02-27" // {type: "date", precision: 2}`,
			},

			`ERROR (code 1117): The "precision" constraint can't be used for the "string" type
	in line 1 on file 
	> "2021-02-27T16:40:00+06:00" // {precision: 2}
	--^`: {
				given: `"2021-02-27T16:40:00+06:00" // {precision: 2}`,
			},

			`ERROR (code 1117): The "precision" constraint can't be used for the "datetime" type
	in line 1 on file 
	> "2021-02-27T16:40:00+06:00" // {type: "datetime", precision: 2}
	--^`: {
				given: `"2021-02-27T16:40:00+06:00" // {type: "datetime", precision: 2}`,
			},

			`ERROR (code 1117): The "precision" constraint can't be used for the "string" type
	in line 1 on file 
	> "https://example.com" // {precision: 2}
	--^`: {
				given: `"https://example.com" // {precision: 2}`,
			},

			`ERROR (code 1117): The "precision" constraint can't be used for the "uri" type
	in line 1 on file 
	> "https://example.com" // {type: "uri", precision: 2}
	--^`: {
				given: `"https://example.com" // {type: "uri", precision: 2}`,
			},

			`ERROR (code 1117): The "precision" constraint can't be used for the "string" type
	in line 1 on file 
	> "bea58dd8-5f05-4350-9705-18bcf10e70fa" // {precision: 2}
	--^`: {
				given: `"bea58dd8-5f05-4350-9705-18bcf10e70fa" // {precision: 2}`,
			},

			`ERROR (code 1117): The "precision" constraint can't be used for the "uuid" type
	in line 1 on file 
	> "bea58dd8-5f05-4350-9705-18bcf10e70fa" // {type: "uuid", precision: 2}
	--^`: {
				given: `"bea58dd8-5f05-4350-9705-18bcf10e70fa" // {type: "uuid", precision: 2}`,
			},

			`ERROR (code 301): Invalid character "e" isn't allowed 'cause not obvious it's a float or an integer
	in line 1 on file 
	> 2e2
	---^`: {
				given: `2e2`,
			},

			`ERROR (code 301): Invalid character "E" isn't allowed 'cause not obvious it's a float or an integer
	in line 1 on file 
	> 2E-2
	---^`: {
				given: `2E-2`,
			},

			`ERROR (code 301): Invalid character "E" isn't allowed 'cause not obvious it's a float or an integer
	in line 1 on file 
	> 2E+2
	---^`: {
				given: `2E+2`,
			},

			`ERROR (code 301): Invalid character "e" isn't allowed 'cause not obvious it's a float or an integer
	in line 1 on file 
	> 3.14e2
	------^`: {
				given: "3.14e2",
			},

			`ERROR (code 301): Invalid character "e" isn't allowed 'cause not obvious it's a float or an integer
	in line 1 on file 
	> 3.14e-2
	------^`: {
				given: "3.14e-2",
			},

			`ERROR (code 301): Invalid character "e" isn't allowed 'cause not obvious it's a float or an integer
	in line 1 on file 
	> 3.14e+2
	------^`: {
				given: "3.14e+2",
			},

			`ERROR (code 301): Invalid character "e" isn't allowed 'cause not obvious it's a float or an integer
	in line 1 on file 
	> 3.14e2 // {type: "decimal"}
	------^`: {
				given: `3.14e2 // {type: "decimal"}`,
			},

			`ERROR (code 301): Invalid character "e" isn't allowed 'cause not obvious it's a float or an integer
	in line 1 on file 
	> 3.14e-2 // {type: "decimal"}
	------^`: {
				given: `3.14e-2 // {type: "decimal"}`,
			},

			`ERROR (code 301): Invalid character "e" isn't allowed 'cause not obvious it's a float or an integer
	in line 1 on file 
	> 3.14e+2 // {type: "decimal"}
	------^`: {
				given: `3.14e+2 // {type: "decimal"}`,
			},

			`ERROR (code 301): Invalid character "e" isn't allowed 'cause not obvious it's a float or an integer
	in line 1 on file 
	> 2e2 // {type: "integer"}
	---^`: {
				given: `2e2 // {type: "integer"}`,
			},

			`ERROR (code 301): Invalid character "e" isn't allowed 'cause not obvious it's a float or an integer
	in line 1 on file 
	> 2e-2 // {type: "integer"}
	---^`: {
				given: `2e-2 // {type: "integer"}`,
			},

			`ERROR (code 301): Invalid character "e" isn't allowed 'cause not obvious it's a float or an integer
	in line 1 on file 
	> 2e+2 // {type: "integer"}
	---^`: {
				given: `2e+2 // {type: "integer"}`,
			},

			`ERROR (code 301): Invalid character "e" isn't allowed 'cause not obvious it's a float or an integer
	in line 1 on file 
	> 2e2 // {type: "float"}
	---^`: {
				given: `2e2 // {type: "float"}`,
			},

			`ERROR (code 301): Invalid character "e" isn't allowed 'cause not obvious it's a float or an integer
	in line 1 on file 
	> 2e-2 // {type: "float"}
	---^`: {
				given: `2e-2 // {type: "float"}`,
			},

			`ERROR (code 301): Invalid character "e" isn't allowed 'cause not obvious it's a float or an integer
	in line 1 on file 
	> 2e+2 // {type: "float"}
	---^`: {
				given: `2e+2 // {type: "float"}`,
			},

			`ERROR (code 301): Invalid character "e" isn't allowed 'cause not obvious it's a float or an integer
	in line 1 on file 
	> 2e2 // {type: "decimal"}
	---^`: {
				given: `2e2 // {type: "decimal"}`,
			},

			`ERROR (code 301): Invalid character "e" isn't allowed 'cause not obvious it's a float or an integer
	in line 1 on file 
	> 2e-2 // {type: "decimal"}
	---^`: {
				given: `2e-2 // {type: "decimal"}`,
			},

			`ERROR (code 301): Invalid character "e" isn't allowed 'cause not obvious it's a float or an integer
	in line 1 on file 
	> 2e+2 // {type: "decimal"}
	---^`: {
				given: `2e+2 // {type: "decimal"}`,
			},

			`ERROR (code 810): 42 value duplicates in "enum"
	in line 1 on file 
	> 42 // {enum: [42, 43, 42]}
	------------------------^`: {
				given: "42 // {enum: [42, 43, 42]}",
			},

			`ERROR (code 810): "bar" value duplicates in "enum"
	in line 1 on file 
	> "foo" // {enum: ["foo", "bar", "bar"]}
	---------------------------------^`: {
				given: `"foo" // {enum: ["foo", "bar", "bar"]}`,
			},

			`ERROR (code 302): Invalid character '2' in object key (inside comment)
	in line 2 on file 
	> "one": 1 // {min 25}
	-------------------^`: {
				given: `{
	"one": 1 // {min 25}
}`,
			},

			`ERROR (code 301): Invalid character "1" after object key
	in line 2 on file 
	> "one" 1
	--------^`: {
				given: `{
	"one" 1
}`,
			},

			`ERROR (code 1602): Enum rule "@enum" not found
	in line 1 on file 
	> "foo" // {enum: @enum}
	------------------^`: {
				given: `"foo" // {enum: @enum}`,
			},

			`ERROR (code 610): Does not match any of the enumeration values
	in line 1 on file 
	> 42 // {enum: @enum}
	--^`: {
				given: `42 // {enum: @enum}`,
				rules: map[string]string{
					"@enum": `["foo", "bar"]`,
				},
			},

			`ERROR (code 610): Does not match any of the enumeration values
	in line 2 on file 
	> "foo": 42 // {enum: @enum}
	---------^`: {
				given: `{
	"foo": 42 // {enum: @enum}
}`,
				rules: map[string]string{
					"@enum": `["foo", "bar"]`,
				},
			},

			`ERROR (code 806): An array or rule name was expected as a value for the "enum"
	in line 1 on file 
	> 42 // {enum: "@enum"}
	---------------^`: {
				given: `42 // {enum: "@enum"}`,
			},

			`ERROR (code 301): Invalid character "c" after object in inline annotation
	in line 2 on file 
	> "field": "value" // {optional: true} comment after rules without using dash
	---------------------------------------^`: {
				given: `{
    "field": "value" // {optional: true} comment after rules without using dash
  }`,
			},

			`ERROR (code 301): Invalid character "c" after object in multi-line annotation
	in line 4 on file 
	> comment after rules without using dash */
	--^`: {
				given: `{
    "field": "value" /*
                    {optional: true}
                    comment after rules without using dash */
  }`,
			},

			`ERROR (code 1115): Incompatible value of example and "type" rule (decimal)
	in line 1 on file 
	> "2" // {type: "decimal", precision: 2}
	--^`: {
				given: `"2" // {type: "decimal", precision: 2}`,
			},

			`ERROR (code 1115): Incompatible value of example and "type" rule (decimal)
	in line 1 on file 
	> 2 // {type: "decimal", precision: 2}
	--^`: {
				given: `2 // {type: "decimal", precision: 2}`,
			},

			`ERROR (code 1115): Incompatible value of example and "type" rule (email)
	in line 1 on file 
	> 10 // {type: "email"}
	--^`: {
				given: `10 // {type: "email"}`,
			},

			`ERROR (code 1115): Incompatible value of example and "type" rule (uri)
	in line 1 on file 
	> 10 // {type: "uri"}
	--^`: {
				given: `10 // {type: "uri"}`,
			},

			`ERROR (code 1115): Incompatible value of example and "type" rule (uuid)
	in line 1 on file 
	> 10 // {type: "uuid"}
	--^`: {
				given: `10 // {type: "uuid"}`,
			},

			`ERROR (code 1115): Incompatible value of example and "type" rule (date)
	in line 1 on file 
	> 10 // {type: "date"}
	--^`: {
				given: `10 // {type: "date"}`,
			},

			`ERROR (code 1115): Incompatible value of example and "type" rule (datetime)
	in line 1 on file 
	> 10 // {type: "datetime"}
	--^`: {
				given: `10 // {type: "datetime"}`,
			},

			`ERROR (code 402): Duplicate keys (@catId) in the schema
	in line 3 on file 
	> "@catId": 2
	--^`: {
				given: `{
  "@catId": 1,
  "@catId": 2
}`,
			},

			`ERROR (code 617): Value of constraint "min" should be less or equal to value of "max" constraint
	in line 1 on file 
	> 42 // {min: 45, max: 42}
	--^`: {
				given: "42 // {min: 45, max: 42}",
			},

			`ERROR (code 617): Value of constraint "minItems" should be less or equal to value of "maxItems" constraint
	in line 1 on file 
	> [ // {minItems: 2, maxItems: 1}
	--^`: {
				given: `[ // {minItems: 2, maxItems: 1}
    1,2
  ]`,
			},

			`ERROR (code 617): Value of constraint "minLength" should be less or equal to value of "maxLength" constraint
	in line 1 on file 
	> "foo" // {minLength: 2, maxLength: 1}
	--^`: {
				given: `"foo" // {minLength: 2, maxLength: 1}`,
			},

			`ERROR (code 602): Invalid value for "min" = 43 constraint 
	in line 1 on file 
	> 42 // {min: 43, max: 44}
	--^`: {
				given: "42 // {min: 43, max: 44}",
			},

			`ERROR (code 602): Invalid value for "max" = 41 constraint 
	in line 1 on file 
	> 42 // {min: 30, max: 41}
	--^`: {
				given: "42 // {min: 30, max: 41}",
			},

			`ERROR (code 608): The number of array elements does not match the "minItems" rule
	in line 1 on file 
	> [ // {minItems: 2, maxItems: 3}
	--^`: {
				given: `[ // {minItems: 2, maxItems: 3}
    1
  ]`,
			},

			`ERROR (code 609): The number of array elements does not match the "maxItems" rule
	in line 1 on file 
	> [ // {minItems: 1, maxItems: 2}
	--^`: {
				given: `[ // {minItems: 1, maxItems: 2}
    1,2,3
  ]`,
			},

			`ERROR (code 603): Invalid string length for "minLength" = "4" constraint
	in line 1 on file 
	> "foo" // {minLength: 4, maxLength: 5}
	--^`: {
				given: `"foo" // {minLength: 4, maxLength: 5}`,
			},

			`ERROR (code 603): Invalid string length for "maxLength" = "2" constraint
	in line 1 on file 
	> "foo" // {minLength: 1, maxLength: 2}
	--^`: {
				given: `"foo" // {minLength: 1, maxLength: 2}`,
			},

			`ERROR (code 1304): Key shortcut "@foo" should be string but "integer" given
	in line 2 on file 
	> @foo: 42
	--^`: {
				given: `{
	@foo: 42
}`,
				types: map[string]string{
					"@foo": "42",
				},
			},

			`ERROR (code 1304): Key shortcut "@foo" should be string but "float" given
	in line 2 on file 
	> @foo: 42
	--^`: {
				given: `{
	@foo: 42
}`,
				types: map[string]string{
					"@foo": "3.14",
				},
			},

			`ERROR (code 1304): Key shortcut "@foo" should be string but "boolean" given
	in line 2 on file 
	> @foo: 42
	--^`: {
				given: `{
	@foo: 42
}`,
				types: map[string]string{
					"@foo": "true",
				},
			},

			`ERROR (code 1304): Key shortcut "@foo" should be string but "null" given
	in line 2 on file 
	> @foo: 42
	--^`: {
				given: `{
	@foo: 42
}`,
				types: map[string]string{
					"@foo": "null",
				},
			},

			`ERROR (code 1304): Key shortcut "@foo" should be string but "array" given
	in line 2 on file 
	> @foo: 42
	--^`: {
				given: `{
	@foo: 42
}`,
				types: map[string]string{
					"@foo": "[1,2,3]",
				},
			},

			`ERROR (code 1304): Key shortcut "@foo" should be string but "object" given
	in line 2 on file 
	> @foo: 42
	--^`: {
				given: `{
	@foo: 42
}`,
				types: map[string]string{
					"@foo": `{"fizz": "buzz"}`,
				},
			},

			`ERROR (code 402): Duplicate keys (@catId) in the schema
	in line 4 on file 
	> "@catId": 3,
	--^`: {
				given: `{
  "@catId": 1,
  @catId: 2,
  "@catId": 3,
  @catId: 4
}`,
				types: map[string]string{
					"@catId": `"12" // A cat's id.`,
				},
			},

			`ERROR (code 810): "\u0061" value duplicates in "enum"
	in line 1 on file 
	> "a" // {enum: ["a", "\u0061"]}
	----------------------^`: {
				given: `"a" // {enum: ["a", "\u0061"]}`,
			},

			`ERROR (code 610): Does not match any of the enumeration values
	in line 1 on file 
	> "c" // {enum: ["a", "\u0062"]}
	--^`: {
				given: `"c" // {enum: ["a", "\u0062"]}`,
			},

			`ERROR (code 1302): Type "@unknown" not found
	in line 1 on file 
	> { // {additionalProperties: "@unknown"}
	--^`: {
				given: `{ // {additionalProperties: "@unknown"}
  "key" : 123 // {type: "@num"}
}`,
				types: map[string]string{
					"@num": `12`,
				},
			},
		}

		for expected, c := range cc {
			t.Run(expected, func(t *testing.T) {
				s := New("", c.given)

				for n, b := range c.rules {
					require.NoError(t, s.AddRule(n, enum.New(n, b)))
				}

				for n, b := range c.types {
					err := s.AddType(n, New(n, b))
					if err != nil {
						require.EqualError(t, err, expected)
					}
				}

				err := s.Check()
				assert.EqualError(t, err, expected)
			})
		}

		t.Run("req.jschema.rules.type.reference 0.2", func(t *testing.T) {
			cc := map[string]string{
				`ERROR (code 1107): You cannot specify child node if you use a type reference
	in line 2 on file 
	> "myCat": { // {type: "@cat"}
	-----------^`: `{
	"myCat": { // {type: "@cat"}
		"id"  : 123,
		"name": "Tom"
	}
}`,
				`ERROR (code 1107): You cannot specify child node if you use a type reference
	in line 2 on file 
	> "myCatList": [ // {type: "@catList"}
	---------------^`: `{
					"myCatList": [ // {type: "@catList"}
						@cat
					]
				}`,
				`ERROR (code 1107): You cannot specify child node if you use a type reference
	in line 1 on file 
	> {} // {type: "@foo"}
	--^`: `{} // {type: "@foo"}`,
				`ERROR (code 1107): You cannot specify child node if you use a type reference
	in line 1 on file 
	> [] // {type: "@foo"}
	--^`: `[] // {type: "@foo"}`,
			}

			for expected, schema := range cc {
				t.Run(expected, func(t *testing.T) {
					assert.EqualError(t, New("", schema).Check(), expected)
				})
			}
		})

		t.Run("req.jschema.rules.or 0.2", func(t *testing.T) {
			cc := map[string]string{
				`ERROR (code 1108): You cannot specify child node if you use a "or" rule
	in line 2 on file 
	> "myPet1": { // {or: ["@cat", "@dog"]}
	------------^`: `{
	"myPet1": { // {or: ["@cat", "@dog"]}
		"id": 1,
		"name": "Tom"
	}
}`,

				`ERROR (code 1108): You cannot specify child node if you use a "or" rule
	in line 2 on file 
	> "myPets": [ // {or: ["@catList", "@dogList"]}
	------------^`: `{
	"myPets": [ // {or: ["@catList", "@dogList"]}
		@cat
	]
}`,

				`ERROR (code 501): Duplicate "types" rule
	in line 2 on file 
	> "myPet4" : @cat | @dog // {or: ["@cat", "@dog"]}
	---------------------------------^`: `{
	"myPet4" : @cat | @dog // {or: ["@cat", "@dog"]}
}`,

				`ERROR (code 1108): You cannot specify child node if you use a "or" rule
	in line 2 on file 
	> "id": {} // {or: ["@cat", "@dog"]}
	--------^`: `{
	"id": {} // {or: ["@cat", "@dog"]}
}`,

				`ERROR (code 1108): You cannot specify child node if you use a "or" rule
	in line 2 on file 
	> "myPet3" : @cat // {or: ["@cat", "@dog"]}  # --ERROR! It is wrong.
	-------------^`: `{
	"myPet3" : @cat // {or: ["@cat", "@dog"]}  # --ERROR! It is wrong.
}`,
			}

			for expected, schema := range cc {
				t.Run(expected, func(t *testing.T) {
					assert.EqualError(t, New("", schema).Check(), expected)
				})
			}
		})

		t.Run("invalid recursion", func(t *testing.T) {
			cc := map[string]struct {
				given string
				types map[string]string
			}{
				"Infinity recursion detected @main -> @bar -> @main": {
					given: `{
	"foo": @bar
}`,
					types: map[string]string{
						"@bar": `{
	"bar": @main
}`,
					},
				},

				"Infinity recursion detected @main -> @fizz -> @main": {
					given: `{
	"foo": @fizz | @buzz
}`,
					types: map[string]string{
						"@fizz": `{
	"fizz": @main
}`,
						"@buzz": `{
	"buzz": @main
}`,
					},
				},

				"Infinity recursion detected @main -> @main": {
					given: `{ // {allOf: ["@foo", "@bar"]}
}`,
					types: map[string]string{
						"@foo": `{
	"foo": 42
}`,
						"@bar": `{
	"bar": @main
}`,
					},
				},
			}

			for expected, c := range cc {
				t.Run(expected, func(t *testing.T) {
					s := New("@main", c.given)

					for n, b := range c.types {
						require.NoError(t, s.AddType(n, New(n, b)))
					}
					require.NoError(t, s.AddType("@main", s))

					err := s.Check()
					assert.EqualError(t, err, expected)
				})
			}
		})
	})
}

func TestSchema_Validate(t *testing.T) {
	t.Run("positive", func(t *testing.T) {
		cc := map[string]struct {
			schema string
			types  map[string]string
			jsons  []string
		}{
			"object": {
				schema: `
{
	"foo": 1,
	"bar": "string"
}`,
				jsons: []string{`
{
	"foo": 42,
	"bar": "fizz"
}`},
			},

			"allOf": {
				schema: `
{ // {allOf: "@aaa"}
	"bbb": 222
}
`,
				types: map[string]string{
					"@aaa": `{"aaa": 111}`,
				},
				jsons: []string{
					`{"aaa": 1, "bbb": 2}`,
					`{"aaa": 1}`,
					`{"bbb": 2}`,
					`{}`,
				},
			},

			"user type nullable": {
				schema: `{
	"foo": 1 // {type: "@bar", nullable: true}
}`,
				types: map[string]string{
					"@bar": "123",
				},
				jsons: []string{
					`{"foo": 42}`,
					`{"foo": null}`,
				},
			},

			"shortcut nullable": {
				schema: `{
	"foo": @bar // {nullable: true}
}`,
				types: map[string]string{
					"@bar": "123",
				},
				jsons: []string{
					`{"foo": 24}`,
					`{"foo": null}`,
				},
			},

			"or nullable": {
				schema: `{
	"foo": @fizz | @buzz // {nullable: true}
}`,
				types: map[string]string{
					"@fizz": "[]",
					"@buzz": "{}",
				},
				jsons: []string{
					`{"foo": []}`,
					`{"foo": {}}`,
					`{"foo": null}`,
				},
			},

			"enum nullable": {
				schema: `{
	"foo": 1 // {enum: [1, 2, 3], nullable: true}
}`,
				jsons: []string{
					`{"foo": 1}`,
					`{"foo": 2}`,
					`{"foo": 3}`,
					`{"foo": null}`,
				},
			},

			"or with types (objects)": {
				schema: `42 /* {or: [
	{type: "boolean"},
	{type: "integer"},
	{type: "float"},
	{type: "null"},
	{type: "string"},
	{type: "@foo"}
]} */`,
				types: map[string]string{
					"@foo": `"foo-1" // {regex: "foo-[0-9]+"}`,
				},
				jsons: []string{
					"42",
					"3.14",
					"true",
					"null",
					"false",
					`"foo-42"`,
					`"fizz"`,
				},
			},

			"or with types (mixed)": {
				schema: `42 /* {or: [
	{type: "boolean"},
	"integer",
	{type: "float"},
	"null",
	{type: "string"},
	"@foo"
]} */`,
				types: map[string]string{
					"@foo": `"foo-1" // {regex: "foo-[0-9]+"}`,
				},
				jsons: []string{
					"42",
					"3.14",
					"true",
					"null",
					"false",
					`"foo-42"`,
					`"fizz"`,
				},
			},

			"or with types (flat)": {
				schema: `42 /* {or: [
	"boolean",
	"integer",
	"float",
	"null",
	"string",
	"@foo"
]} */`,
				types: map[string]string{
					"@foo": `"foo-1" // {regex: "foo-[0-9]+"}`,
				},
				jsons: []string{
					"42",
					"3.14",
					"true",
					"null",
					"false",
					`"foo-42"`,
					`"fizz"`,
				},
			},

			"Or without type": {
				schema: `{
	"foo": 123 /* {or: [
		{min: 100},
		{type: "string"}
	]} */
}`,
				jsons: []string{
					`{"foo": 1000}`,
					`{"foo": "bar"}`,
				},
			},
		}

		for name, c := range cc {
			t.Run(name, func(t *testing.T) {
				schema := New("schema", c.schema, KeysAreOptionalByDefault())

				for n, s := range c.types {
					require.NoError(t, schema.AddType(n, New(s, s, KeysAreOptionalByDefault())))
				}

				for _, s := range c.jsons {
					t.Run(s, func(t *testing.T) {
						err := schema.Validate(json.New("json", s))
						require.NoError(t, err)
					})
				}
			})
		}
	})

	t.Run("negative", func(t *testing.T) {
		cc := map[string]struct {
			schema string
			types  map[string]string
			json   string
		}{
			`ERROR (code 1302): Type "@int" not found
	in line 2 on file schema
	> "aaa": 111 // {type: "@int"}
	---------^`: {
				schema: `{
		"aaa": 111 // {type: "@int"}
	}`,
			},

			`ERROR (code 1301): Incorrect type of user type
	in line 2 on file schema
	> "aaa": 111 // {type: "@int"}
	---------^`: {
				schema: `{
		"aaa": 111 // {type: "@int"}
	}`,
				types: map[string]string{
					"@int": `"abc"`,
				},
			},

			`ERROR (code 204): None of the rules in the "OR" set has been validated
	in line 1 on file json
	> {"foo": 10}
	----------^`: {
				schema: `{
	"foo": 123 /* {or: [
		{min: 100},
		{type: "string"}
	]} */
}`,
				json: `{"foo": 10}`,
			},

			`ERROR (code 204): None of the rules in the "OR" set has been validated
	in line 1 on file json
	> {"foo": true}
	----------^`: {
				schema: `{
	"foo": 123 /* {or: [
		{min: 100},
		{type: "string"}
	]} */
}`,
				json: `{"foo": true}`,
			},

			`ERROR (code 1117): The "precision" constraint can't be used for the "float" type
	in line 1 on file schema
	> 1.1 // {type: "float", precision: 2}
	--^`: {
				schema: `1.1 // {type: "float", precision: 2}`,
				json:   "3.14",
			},
		}

		for expected, c := range cc {
			t.Run(expected, func(t *testing.T) {
				schema := New("schema", c.schema, KeysAreOptionalByDefault())

				for n, s := range c.types {
					require.NoError(t, schema.AddType(n, New(s, s, KeysAreOptionalByDefault())))
				}

				err := schema.Validate(json.New("json", c.json))
				assert.EqualError(t, err, expected)
			})
		}

		t.Run("not a JSON document", func(t *testing.T) {
			err := New("schema", "42").Validate(&mocks.Document{})
			assert.EqualError(t, err, "support only JSON documents, but got *mocks.Document")
		})
	})
}

func TestSchema_GetAST(t *testing.T) {
	t.Run("positive", func(t *testing.T) {
		cc := map[string]struct {
			expected jschema.ASTNode
			types    map[string]string
			rules    map[string]string
		}{
			"@foo": {
				expected: jschema.ASTNode{
					TokenType:  jschema.TokenTypeShortcut,
					SchemaType: "@foo",
					Value:      "@foo",
					Rules: jschema.NewRuleASTNodes(
						map[string]jschema.RuleASTNode{
							"type": {
								TokenType:  jschema.TokenTypeShortcut,
								Value:      "@foo",
								Properties: &jschema.RuleASTNodes{},
								Source:     jschema.RuleASTNodeSourceGenerated,
							},
						},
						[]string{"type"},
					),
				},
				types: map[string]string{
					"@foo": `"foo"`,
				},
			},

			"   @foo   ": {
				expected: jschema.ASTNode{
					TokenType:  jschema.TokenTypeShortcut,
					SchemaType: "@foo",
					Value:      "@foo",
					Rules: jschema.NewRuleASTNodes(
						map[string]jschema.RuleASTNode{
							"type": {
								TokenType:  jschema.TokenTypeShortcut,
								Value:      "@foo",
								Properties: &jschema.RuleASTNodes{},
								Source:     jschema.RuleASTNodeSourceGenerated,
							},
						},
						[]string{"type"},
					),
				},
				types: map[string]string{
					"@foo": `"foo"`,
				},
			},

			"   @foo | @bar   ": {
				expected: jschema.ASTNode{
					TokenType:  jschema.TokenTypeShortcut,
					SchemaType: string(jschema.SchemaTypeMixed),
					Value:      "@foo | @bar",
					Rules: jschema.NewRuleASTNodes(
						map[string]jschema.RuleASTNode{
							"or": {
								TokenType:  jschema.TokenTypeArray,
								Properties: &jschema.RuleASTNodes{},
								Items: []jschema.RuleASTNode{
									{
										TokenType:  jschema.TokenTypeString,
										Value:      "@foo",
										Properties: &jschema.RuleASTNodes{},
										Source:     jschema.RuleASTNodeSourceGenerated,
									},
									{
										TokenType:  jschema.TokenTypeString,
										Value:      "@bar",
										Properties: &jschema.RuleASTNodes{},
										Source:     jschema.RuleASTNodeSourceGenerated,
									},
								},
								Source: jschema.RuleASTNodeSourceGenerated,
							},
						},
						[]string{"or"},
					),
				},
				types: map[string]string{
					"@foo": `"foo"`,
					"@bar": `"bar"`,
				},
			},

			`{
				"data": "abc" /* {
					or: [
						"@foo",
						{type: "@bar"}
					]
				} */
			}`: {
				expected: jschema.ASTNode{
					TokenType:  jschema.TokenTypeObject,
					SchemaType: string(jschema.SchemaTypeObject),
					Rules:      &jschema.RuleASTNodes{},
					Children: []jschema.ASTNode{
						{
							Key:        "data",
							TokenType:  jschema.TokenTypeString,
							SchemaType: string(jschema.SchemaTypeMixed),
							Value:      "abc",
							Rules: jschema.NewRuleASTNodes(
								map[string]jschema.RuleASTNode{
									"or": {
										TokenType:  jschema.TokenTypeArray,
										Properties: &jschema.RuleASTNodes{},
										Items: []jschema.RuleASTNode{
											{
												TokenType:  jschema.TokenTypeShortcut,
												Value:      "@foo",
												Properties: &jschema.RuleASTNodes{},
												Source:     jschema.RuleASTNodeSourceManual,
											},
											{
												TokenType: jschema.TokenTypeObject,
												Properties: jschema.NewRuleASTNodes(
													map[string]jschema.RuleASTNode{
														"type": {
															TokenType:  jschema.TokenTypeShortcut,
															Value:      "@bar",
															Properties: &jschema.RuleASTNodes{},
															Source:     jschema.RuleASTNodeSourceManual,
														},
													},
													[]string{"type"},
												),
												Source: jschema.RuleASTNodeSourceManual,
											},
										},
										Source: jschema.RuleASTNodeSourceManual,
									},
								},
								[]string{"or"},
							),
						},
					},
				},
				types: map[string]string{
					"@foo": `"foo"`,
					"@bar": `"bar"`,
				},
			},

			`{
				"data": "abc" /* {
					or: [
						{type: "@foo"},
						{type: "@bar"}
					]
				} */
			}`: {
				expected: jschema.ASTNode{
					TokenType:  jschema.TokenTypeObject,
					SchemaType: string(jschema.SchemaTypeObject),
					Rules:      &jschema.RuleASTNodes{},
					Children: []jschema.ASTNode{
						{
							Key:        "data",
							TokenType:  jschema.TokenTypeString,
							SchemaType: string(jschema.SchemaTypeMixed),
							Value:      "abc",
							Rules: jschema.NewRuleASTNodes(
								map[string]jschema.RuleASTNode{
									"or": {
										TokenType:  jschema.TokenTypeArray,
										Properties: &jschema.RuleASTNodes{},
										Items: []jschema.RuleASTNode{
											{
												TokenType: jschema.TokenTypeObject,
												Properties: jschema.NewRuleASTNodes(
													map[string]jschema.RuleASTNode{
														"type": {
															TokenType:  jschema.TokenTypeShortcut,
															Value:      "@foo",
															Properties: &jschema.RuleASTNodes{},
															Source:     jschema.RuleASTNodeSourceManual,
														},
													},
													[]string{"type"},
												),
												Source: jschema.RuleASTNodeSourceManual,
											},
											{
												TokenType: jschema.TokenTypeObject,
												Properties: jschema.NewRuleASTNodes(
													map[string]jschema.RuleASTNode{
														"type": {
															TokenType:  jschema.TokenTypeShortcut,
															Value:      "@bar",
															Properties: &jschema.RuleASTNodes{},
															Source:     jschema.RuleASTNodeSourceManual,
														},
													},
													[]string{"type"},
												),
												Source: jschema.RuleASTNodeSourceManual,
											},
										},
										Source: jschema.RuleASTNodeSourceManual,
									},
								},
								[]string{"or"},
							),
						},
					},
				},
				types: map[string]string{
					"@foo": `"foo"`,
					"@bar": `"bar"`,
				},
			},

			`{
				"data": "abc" /* {
					or: [
						{type: "string" , maxLength: 3},
						{type: "integer", min: 0}
					]
				} */
			}`: {
				expected: jschema.ASTNode{
					TokenType:  jschema.TokenTypeObject,
					SchemaType: string(jschema.SchemaTypeObject),
					Children: []jschema.ASTNode{
						{
							Key:        "data",
							TokenType:  jschema.TokenTypeString,
							SchemaType: string(jschema.SchemaTypeMixed),
							Value:      "abc",
							Rules: jschema.NewRuleASTNodes(
								map[string]jschema.RuleASTNode{
									"or": {
										TokenType:  jschema.TokenTypeArray,
										Properties: &jschema.RuleASTNodes{},
										Items: []jschema.RuleASTNode{
											{
												TokenType: jschema.TokenTypeObject,
												Properties: jschema.NewRuleASTNodes(
													map[string]jschema.RuleASTNode{
														"type": {
															TokenType:  jschema.TokenTypeString,
															Value:      "string",
															Properties: &jschema.RuleASTNodes{},
															Source:     jschema.RuleASTNodeSourceManual,
														},
														"maxLength": {
															TokenType:  jschema.TokenTypeNumber,
															Value:      "3",
															Properties: &jschema.RuleASTNodes{},
															Source:     jschema.RuleASTNodeSourceManual,
														},
													},
													[]string{"type", "maxLength"},
												),
												Source: jschema.RuleASTNodeSourceManual,
											},
											{
												TokenType: jschema.TokenTypeObject,
												Properties: jschema.NewRuleASTNodes(
													map[string]jschema.RuleASTNode{
														"type": {
															TokenType:  jschema.TokenTypeString,
															Value:      "integer",
															Properties: &jschema.RuleASTNodes{},
															Source:     jschema.RuleASTNodeSourceManual,
														},
														"min": {
															TokenType:  jschema.TokenTypeNumber,
															Value:      "0",
															Properties: &jschema.RuleASTNodes{},
															Source:     jschema.RuleASTNodeSourceManual,
														},
													},
													[]string{"type", "min"},
												),
												Source: jschema.RuleASTNodeSourceManual,
											},
										},
										Source: jschema.RuleASTNodeSourceManual,
									},
								},
								[]string{"or"},
							),
						},
					},
					Rules: &jschema.RuleASTNodes{},
				},
			},

			`1 // {type: "mixed", or: ["@foo", "@bar"]}`: {
				expected: jschema.ASTNode{
					TokenType:  jschema.TokenTypeNumber,
					SchemaType: string(jschema.SchemaTypeMixed),
					Value:      "1",
					Rules: jschema.NewRuleASTNodes(
						map[string]jschema.RuleASTNode{
							"type": {
								TokenType:  jschema.TokenTypeString,
								Value:      "mixed",
								Properties: &jschema.RuleASTNodes{},
								Source:     jschema.RuleASTNodeSourceManual,
							},
							"or": {
								TokenType:  jschema.TokenTypeArray,
								Properties: &jschema.RuleASTNodes{},
								Items: []jschema.RuleASTNode{
									{
										TokenType:  jschema.TokenTypeShortcut,
										Value:      "@foo",
										Properties: &jschema.RuleASTNodes{},
										Source:     jschema.RuleASTNodeSourceManual,
									},
									{
										TokenType:  jschema.TokenTypeShortcut,
										Value:      "@bar",
										Properties: &jschema.RuleASTNodes{},
										Source:     jschema.RuleASTNodeSourceManual,
									},
								},
								Source: jschema.RuleASTNodeSourceManual,
							},
						},
						[]string{"type", "or"},
					),
				},
				types: map[string]string{
					"@foo": `42`,
					"@bar": `"bar"`,
				},
			},

			`"section0" // {regex: "section[0-9]"}`: {
				expected: jschema.ASTNode{
					TokenType:  jschema.TokenTypeString,
					SchemaType: string(jschema.SchemaTypeString),
					Value:      "section0",
					Rules: jschema.NewRuleASTNodes(
						map[string]jschema.RuleASTNode{
							"regex": {
								TokenType:  jschema.TokenTypeString,
								Value:      "section[0-9]",
								Properties: &jschema.RuleASTNodes{},
								Source:     jschema.RuleASTNodeSourceManual,
							},
						},
						[]string{"regex"},
					),
				},
			},

			`
123 /*
        {min: 0}
      */
`: {
				expected: jschema.ASTNode{
					TokenType:  jschema.TokenTypeNumber,
					SchemaType: string(jschema.SchemaTypeInteger),
					Value:      "123",
					Rules: jschema.NewRuleASTNodes(
						map[string]jschema.RuleASTNode{
							"min": {
								TokenType:  jschema.TokenTypeNumber,
								Value:      "0",
								Properties: &jschema.RuleASTNodes{},
								Source:     jschema.RuleASTNodeSourceManual,
							},
						},
						[]string{"min"},
					),
				},
			},

			`{
  "id1": 1, // {type: "@id", nullable: true}
  "id2": @id, // {nullable: true}
  "id3": @id1 | @id2, // {nullable: true}
  "size": 1, // {enum: [1,2,3], nullable: true}
  "choice": 1 // {or: [{type: "integer"}, {type: "string"}]}
}`: {
				expected: jschema.ASTNode{
					TokenType:  jschema.TokenTypeObject,
					SchemaType: string(jschema.SchemaTypeObject),
					Children: []jschema.ASTNode{
						{
							Key:        "id1",
							TokenType:  jschema.TokenTypeNumber,
							SchemaType: "@id",
							Value:      "1",
							Rules: jschema.NewRuleASTNodes(
								map[string]jschema.RuleASTNode{
									"type": {
										TokenType:  jschema.TokenTypeShortcut,
										Properties: &jschema.RuleASTNodes{},
										Value:      "@id",
										Source:     jschema.RuleASTNodeSourceManual,
									},
									"nullable": {
										TokenType:  jschema.TokenTypeBoolean,
										Properties: &jschema.RuleASTNodes{},
										Value:      "true",
										Source:     jschema.RuleASTNodeSourceManual,
									},
								},
								[]string{"type", "nullable"},
							),
						},
						{
							Key:        "id2",
							TokenType:  jschema.TokenTypeShortcut,
							SchemaType: "@id",
							Value:      "@id",
							Rules: jschema.NewRuleASTNodes(
								map[string]jschema.RuleASTNode{
									"type": {
										TokenType:  jschema.TokenTypeShortcut,
										Value:      "@id",
										Properties: &jschema.RuleASTNodes{},
										Source:     jschema.RuleASTNodeSourceGenerated,
									},
									"nullable": {
										TokenType:  jschema.TokenTypeBoolean,
										Properties: &jschema.RuleASTNodes{},
										Value:      "true",
										Source:     jschema.RuleASTNodeSourceManual,
									},
								},
								[]string{"type", "nullable"},
							),
						},
						{
							Key:        "id3",
							TokenType:  jschema.TokenTypeShortcut,
							SchemaType: string(jschema.SchemaTypeMixed),
							Value:      "@id1 | @id2",
							Rules: jschema.NewRuleASTNodes(
								map[string]jschema.RuleASTNode{
									"or": {
										TokenType:  jschema.TokenTypeArray,
										Properties: &jschema.RuleASTNodes{},
										Items: []jschema.RuleASTNode{
											{
												TokenType:  jschema.TokenTypeString,
												Value:      "@id1",
												Properties: &jschema.RuleASTNodes{},
												Source:     jschema.RuleASTNodeSourceGenerated,
											},
											{
												TokenType:  jschema.TokenTypeString,
												Value:      "@id2",
												Properties: &jschema.RuleASTNodes{},
												Source:     jschema.RuleASTNodeSourceGenerated,
											},
										},
										Source: jschema.RuleASTNodeSourceGenerated,
									},
									"nullable": {
										TokenType:  jschema.TokenTypeBoolean,
										Properties: &jschema.RuleASTNodes{},
										Value:      "true",
										Source:     jschema.RuleASTNodeSourceManual,
									},
								},
								[]string{"or", "nullable"},
							),
						},
						{
							Key:        "size",
							TokenType:  jschema.TokenTypeNumber,
							SchemaType: string(jschema.SchemaTypeEnum),
							Value:      "1",
							Rules: jschema.NewRuleASTNodes(
								map[string]jschema.RuleASTNode{
									"enum": {
										TokenType:  jschema.TokenTypeArray,
										Properties: &jschema.RuleASTNodes{},
										Items: []jschema.RuleASTNode{
											{
												TokenType:  jschema.TokenTypeNumber,
												Value:      "1",
												Properties: &jschema.RuleASTNodes{},
												Source:     jschema.RuleASTNodeSourceManual,
											},
											{
												TokenType:  jschema.TokenTypeNumber,
												Value:      "2",
												Properties: &jschema.RuleASTNodes{},
												Source:     jschema.RuleASTNodeSourceManual,
											},
											{
												TokenType:  jschema.TokenTypeNumber,
												Value:      "3",
												Properties: &jschema.RuleASTNodes{},
												Source:     jschema.RuleASTNodeSourceManual,
											},
										},
										Source: jschema.RuleASTNodeSourceManual,
									},
									"nullable": {
										TokenType:  jschema.TokenTypeBoolean,
										Properties: &jschema.RuleASTNodes{},
										Value:      "true",
										Source:     jschema.RuleASTNodeSourceManual,
									},
								},
								[]string{"enum", "nullable"},
							),
						},
						{
							Key:        "choice",
							TokenType:  jschema.TokenTypeNumber,
							SchemaType: string(jschema.SchemaTypeMixed),
							Value:      "1",
							Rules: jschema.NewRuleASTNodes(
								map[string]jschema.RuleASTNode{
									"or": {
										TokenType:  jschema.TokenTypeArray,
										Properties: &jschema.RuleASTNodes{},
										Items: []jschema.RuleASTNode{
											{
												TokenType: jschema.TokenTypeObject,
												Properties: jschema.NewRuleASTNodes(
													map[string]jschema.RuleASTNode{
														"type": {
															TokenType:  jschema.TokenTypeString,
															Value:      "integer",
															Properties: &jschema.RuleASTNodes{},
															Source:     jschema.RuleASTNodeSourceManual,
														},
													},
													[]string{"type"},
												),
												Source: jschema.RuleASTNodeSourceManual,
											},
											{
												TokenType: jschema.TokenTypeObject,
												Properties: jschema.NewRuleASTNodes(
													map[string]jschema.RuleASTNode{
														"type": {
															TokenType:  jschema.TokenTypeString,
															Value:      "string",
															Properties: &jschema.RuleASTNodes{},
															Source:     jschema.RuleASTNodeSourceManual,
														},
													},
													[]string{"type"},
												),
												Source: jschema.RuleASTNodeSourceManual,
											},
										},
										Source: jschema.RuleASTNodeSourceManual,
									},
								},
								[]string{"or"},
							),
						},
					},
					Rules: &jschema.RuleASTNodes{},
				},
				types: map[string]string{
					"@id":  "1",
					"@id1": "2",
					"@id2": "3",
				},
			},

			"[]  // {minItems: 0} - Description": {
				expected: jschema.ASTNode{
					TokenType:  jschema.TokenTypeArray,
					SchemaType: string(jschema.SchemaTypeArray),
					Rules: jschema.NewRuleASTNodes(
						map[string]jschema.RuleASTNode{
							"minItems": {
								TokenType:  jschema.TokenTypeNumber,
								Value:      "0",
								Properties: &jschema.RuleASTNodes{},
								Source:     jschema.RuleASTNodeSourceManual,
							},
						},
						[]string{"minItems"},
					),
					Comment: "Description",
				},
			},

			`{
	"foo": [1],
	"bar": 42 // number
}`: {
				expected: jschema.ASTNode{
					TokenType:  jschema.TokenTypeObject,
					SchemaType: string(jschema.SchemaTypeObject),
					Children: []jschema.ASTNode{
						{
							Key:        "foo",
							TokenType:  jschema.TokenTypeArray,
							SchemaType: string(jschema.SchemaTypeArray),
							Rules:      &jschema.RuleASTNodes{},
							Children: []jschema.ASTNode{
								{
									TokenType:  jschema.TokenTypeNumber,
									SchemaType: string(jschema.SchemaTypeInteger),
									Value:      "1",
									Rules:      &jschema.RuleASTNodes{},
								},
							},
						},
						{
							Key:        "bar",
							TokenType:  jschema.TokenTypeNumber,
							SchemaType: string(jschema.SchemaTypeInteger),
							Value:      "42",
							Rules:      &jschema.RuleASTNodes{},
							Comment:    "number",
						},
					},
					Rules: &jschema.RuleASTNodes{},
				},
			},

			`[ // Comment
	1
]`: {
				expected: jschema.ASTNode{
					TokenType:  jschema.TokenTypeArray,
					SchemaType: string(jschema.SchemaTypeArray),
					Rules:      &jschema.RuleASTNodes{},
					Children: []jschema.ASTNode{
						{
							TokenType:  jschema.TokenTypeNumber,
							SchemaType: string(jschema.SchemaTypeInteger),
							Value:      "1",
							Rules:      &jschema.RuleASTNodes{},
						},
					},
					Comment: "Comment",
				},
			},

			"[] // Comment": {
				expected: jschema.ASTNode{
					TokenType:  jschema.TokenTypeArray,
					SchemaType: string(jschema.SchemaTypeArray),
					Rules:      &jschema.RuleASTNodes{},
					Comment:    "Comment",
				},
			},

			`[
	[],
	2 // Annotation
]`: {
				expected: jschema.ASTNode{
					TokenType:  jschema.TokenTypeArray,
					SchemaType: string(jschema.SchemaTypeArray),
					Rules:      &jschema.RuleASTNodes{},
					Children: []jschema.ASTNode{
						{
							TokenType:  jschema.TokenTypeArray,
							SchemaType: string(jschema.SchemaTypeArray),
							Rules:      &jschema.RuleASTNodes{},
						},
						{
							TokenType:  jschema.TokenTypeNumber,
							SchemaType: string(jschema.SchemaTypeInteger),
							Value:      "2",
							Rules:      &jschema.RuleASTNodes{},
							Comment:    "Annotation",
						},
					},
				},
			},

			`"A" // {or: ["string", "integer"]}`: {
				expected: jschema.ASTNode{
					TokenType:  jschema.TokenTypeString,
					SchemaType: string(jschema.SchemaTypeMixed),

					Value: "A",
					Rules: jschema.NewRuleASTNodes(
						map[string]jschema.RuleASTNode{
							"or": {
								TokenType:  jschema.TokenTypeArray,
								Properties: &jschema.RuleASTNodes{},
								Items: []jschema.RuleASTNode{
									{
										TokenType:  jschema.TokenTypeString,
										Value:      "string",
										Properties: &jschema.RuleASTNodes{},
										Source:     jschema.RuleASTNodeSourceManual,
									},
									{
										TokenType:  jschema.TokenTypeString,
										Value:      "integer",
										Properties: &jschema.RuleASTNodes{},
										Source:     jschema.RuleASTNodeSourceManual,
									},
								},
								Source: jschema.RuleASTNodeSourceManual,
							},
						},
						[]string{"or"},
					),
				},
			},

			`{
	"foo": 123 /* {or: [
		{min: 100},
		{type: "string"}
	]} */
}`: {
				expected: jschema.ASTNode{
					TokenType:  jschema.TokenTypeObject,
					SchemaType: string(jschema.SchemaTypeObject),
					Children: []jschema.ASTNode{
						{
							Key:        "foo",
							TokenType:  jschema.TokenTypeNumber,
							SchemaType: string(jschema.SchemaTypeMixed),
							Value:      "123",
							Rules: jschema.NewRuleASTNodes(
								map[string]jschema.RuleASTNode{
									"or": {
										TokenType:  jschema.TokenTypeArray,
										Properties: &jschema.RuleASTNodes{},
										Items: []jschema.RuleASTNode{
											{
												TokenType: jschema.TokenTypeObject,
												Properties: jschema.NewRuleASTNodes(
													map[string]jschema.RuleASTNode{
														"min": {
															TokenType:  jschema.TokenTypeNumber,
															Value:      "100",
															Properties: &jschema.RuleASTNodes{},
															Source:     jschema.RuleASTNodeSourceManual,
														},
													},
													[]string{"min"},
												),
												Source: jschema.RuleASTNodeSourceManual,
											},
											{
												TokenType: jschema.TokenTypeObject,
												Properties: jschema.NewRuleASTNodes(
													map[string]jschema.RuleASTNode{
														"type": {
															TokenType:  jschema.TokenTypeString,
															Value:      "string",
															Properties: &jschema.RuleASTNodes{},
															Source:     jschema.RuleASTNodeSourceManual,
														},
													},
													[]string{"type"},
												),
												Source: jschema.RuleASTNodeSourceManual,
											},
										},
										Source: jschema.RuleASTNodeSourceManual,
									},
								},
								[]string{"or"},
							),
						},
					},
					Rules: &jschema.RuleASTNodes{},
				},
			},

			`{
  "enabled": { // {additionalProperties: true, nullable: false}
  },
  "disabled": { // {additionalProperties: false, nullable: false}
  },
  "string": { // {additionalProperties: "string", nullable: false}
  },
  "integer": { // {additionalProperties: "integer", nullable: false}
  },
  "float": { // {additionalProperties: "float", nullable: false}
  },
  "decimal": { // {additionalProperties: "decimal", nullable: false}
  },
  "boolean": { // {additionalProperties: "boolean", nullable: false}
  },
  "object": { // {additionalProperties: "object", nullable: false}
  },
  "array": { // {additionalProperties: "array", nullable: false}
  },
  "null": { // {additionalProperties: "null", nullable: false}
  },
  "email": { // {additionalProperties: "email", nullable: false}
  },
  "uri": { // {additionalProperties: "uri", nullable: false}
  },
  "uuid": { // {additionalProperties: "uuid", nullable: false}
  },
  "date": { // {additionalProperties: "date", nullable: false}
  },
  "datetime": { // {additionalProperties: "datetime", nullable: false}
  },
  "enum": { // {additionalProperties: "enum", nullable: false}
  },
  "mixed": { // {additionalProperties: "mixed", nullable: false}
  },
  "any": { // {additionalProperties: "any", nullable: false}
  },
  "userType": { // {additionalProperties: "@cat", nullable: false}
  }
}`: {
				expected: jschema.ASTNode{
					TokenType:  jschema.TokenTypeObject,
					SchemaType: string(jschema.SchemaTypeObject),
					Children: []jschema.ASTNode{
						{
							Key:        "enabled",
							TokenType:  jschema.TokenTypeObject,
							SchemaType: string(jschema.SchemaTypeObject),
							Rules: jschema.NewRuleASTNodes(
								map[string]jschema.RuleASTNode{
									"additionalProperties": {
										TokenType:  jschema.TokenTypeBoolean,
										Value:      "true",
										Properties: &jschema.RuleASTNodes{},
										Source:     jschema.RuleASTNodeSourceManual,
									},
									"nullable": {
										TokenType:  jschema.TokenTypeBoolean,
										Value:      "false",
										Properties: &jschema.RuleASTNodes{},
										Source:     jschema.RuleASTNodeSourceManual,
									},
								},
								[]string{"additionalProperties", "nullable"},
							),
						},
						{
							Key:        "disabled",
							TokenType:  jschema.TokenTypeObject,
							SchemaType: string(jschema.SchemaTypeObject),
							Rules: jschema.NewRuleASTNodes(
								map[string]jschema.RuleASTNode{
									"additionalProperties": {
										TokenType:  jschema.TokenTypeBoolean,
										Value:      "false",
										Properties: &jschema.RuleASTNodes{},
										Source:     jschema.RuleASTNodeSourceManual,
									},
									"nullable": {
										TokenType:  jschema.TokenTypeBoolean,
										Value:      "false",
										Properties: &jschema.RuleASTNodes{},
										Source:     jschema.RuleASTNodeSourceManual,
									},
								},
								[]string{"additionalProperties", "nullable"},
							),
						},
						{
							Key:        "string",
							TokenType:  jschema.TokenTypeObject,
							SchemaType: string(jschema.SchemaTypeObject),
							Rules: jschema.NewRuleASTNodes(
								map[string]jschema.RuleASTNode{
									"additionalProperties": {
										TokenType:  jschema.TokenTypeString,
										Value:      "string",
										Properties: &jschema.RuleASTNodes{},
										Source:     jschema.RuleASTNodeSourceManual,
									},
									"nullable": {
										TokenType:  jschema.TokenTypeBoolean,
										Value:      "false",
										Properties: &jschema.RuleASTNodes{},
										Source:     jschema.RuleASTNodeSourceManual,
									},
								},
								[]string{"additionalProperties", "nullable"},
							),
						},
						{
							Key:        "integer",
							TokenType:  jschema.TokenTypeObject,
							SchemaType: string(jschema.SchemaTypeObject),
							Rules: jschema.NewRuleASTNodes(
								map[string]jschema.RuleASTNode{
									"additionalProperties": {
										TokenType:  jschema.TokenTypeString,
										Value:      "integer",
										Properties: &jschema.RuleASTNodes{},
										Source:     jschema.RuleASTNodeSourceManual,
									},
									"nullable": {
										TokenType:  jschema.TokenTypeBoolean,
										Value:      "false",
										Properties: &jschema.RuleASTNodes{},
										Source:     jschema.RuleASTNodeSourceManual,
									},
								},
								[]string{"additionalProperties", "nullable"},
							),
						},
						{
							Key:        "float",
							TokenType:  jschema.TokenTypeObject,
							SchemaType: string(jschema.SchemaTypeObject),
							Rules: jschema.NewRuleASTNodes(
								map[string]jschema.RuleASTNode{
									"additionalProperties": {
										TokenType:  jschema.TokenTypeString,
										Value:      "float",
										Properties: &jschema.RuleASTNodes{},
										Source:     jschema.RuleASTNodeSourceManual,
									},
									"nullable": {
										TokenType:  jschema.TokenTypeBoolean,
										Value:      "false",
										Properties: &jschema.RuleASTNodes{},
										Source:     jschema.RuleASTNodeSourceManual,
									},
								},
								[]string{"additionalProperties", "nullable"},
							),
						},
						{
							Key:        "decimal",
							TokenType:  jschema.TokenTypeObject,
							SchemaType: string(jschema.SchemaTypeObject),
							Rules: jschema.NewRuleASTNodes(
								map[string]jschema.RuleASTNode{
									"additionalProperties": {
										TokenType:  jschema.TokenTypeString,
										Value:      "decimal",
										Properties: &jschema.RuleASTNodes{},
										Source:     jschema.RuleASTNodeSourceManual,
									},
									"nullable": {
										TokenType:  jschema.TokenTypeBoolean,
										Value:      "false",
										Properties: &jschema.RuleASTNodes{},
										Source:     jschema.RuleASTNodeSourceManual,
									},
								},
								[]string{"additionalProperties", "nullable"},
							),
						},
						{
							Key:        "boolean",
							TokenType:  jschema.TokenTypeObject,
							SchemaType: string(jschema.SchemaTypeObject),
							Rules: jschema.NewRuleASTNodes(
								map[string]jschema.RuleASTNode{
									"additionalProperties": {
										TokenType:  jschema.TokenTypeString,
										Value:      "boolean",
										Properties: &jschema.RuleASTNodes{},
										Source:     jschema.RuleASTNodeSourceManual,
									},
									"nullable": {
										TokenType:  jschema.TokenTypeBoolean,
										Value:      "false",
										Properties: &jschema.RuleASTNodes{},
										Source:     jschema.RuleASTNodeSourceManual,
									},
								},
								[]string{"additionalProperties", "nullable"},
							),
						},
						{
							Key:        "object",
							TokenType:  jschema.TokenTypeObject,
							SchemaType: string(jschema.SchemaTypeObject),
							Rules: jschema.NewRuleASTNodes(
								map[string]jschema.RuleASTNode{
									"additionalProperties": {
										TokenType:  jschema.TokenTypeString,
										Value:      "object",
										Properties: &jschema.RuleASTNodes{},
										Source:     jschema.RuleASTNodeSourceManual,
									},
									"nullable": {
										TokenType:  jschema.TokenTypeBoolean,
										Value:      "false",
										Properties: &jschema.RuleASTNodes{},
										Source:     jschema.RuleASTNodeSourceManual,
									},
								},
								[]string{"additionalProperties", "nullable"},
							),
						},
						{
							Key:        "array",
							TokenType:  jschema.TokenTypeObject,
							SchemaType: string(jschema.SchemaTypeObject),
							Rules: jschema.NewRuleASTNodes(
								map[string]jschema.RuleASTNode{
									"additionalProperties": {
										TokenType:  jschema.TokenTypeString,
										Value:      "array",
										Properties: &jschema.RuleASTNodes{},
										Source:     jschema.RuleASTNodeSourceManual,
									},
									"nullable": {
										TokenType:  jschema.TokenTypeBoolean,
										Value:      "false",
										Properties: &jschema.RuleASTNodes{},
										Source:     jschema.RuleASTNodeSourceManual,
									},
								},
								[]string{"additionalProperties", "nullable"},
							),
						},
						{
							Key:        "null",
							TokenType:  jschema.TokenTypeObject,
							SchemaType: string(jschema.SchemaTypeObject),
							Rules: jschema.NewRuleASTNodes(
								map[string]jschema.RuleASTNode{
									"additionalProperties": {
										TokenType:  jschema.TokenTypeString,
										Value:      "null",
										Properties: &jschema.RuleASTNodes{},
										Source:     jschema.RuleASTNodeSourceManual,
									},
									"nullable": {
										TokenType:  jschema.TokenTypeBoolean,
										Value:      "false",
										Properties: &jschema.RuleASTNodes{},
										Source:     jschema.RuleASTNodeSourceManual,
									},
								},
								[]string{"additionalProperties", "nullable"},
							),
						},
						{
							Key:        "email",
							TokenType:  jschema.TokenTypeObject,
							SchemaType: string(jschema.SchemaTypeObject),
							Rules: jschema.NewRuleASTNodes(
								map[string]jschema.RuleASTNode{
									"additionalProperties": {
										TokenType:  jschema.TokenTypeString,
										Value:      "email",
										Properties: &jschema.RuleASTNodes{},
										Source:     jschema.RuleASTNodeSourceManual,
									},
									"nullable": {
										TokenType:  jschema.TokenTypeBoolean,
										Value:      "false",
										Properties: &jschema.RuleASTNodes{},
										Source:     jschema.RuleASTNodeSourceManual,
									},
								},
								[]string{"additionalProperties", "nullable"},
							),
						},
						{
							Key:        "uri",
							TokenType:  jschema.TokenTypeObject,
							SchemaType: string(jschema.SchemaTypeObject),
							Rules: jschema.NewRuleASTNodes(
								map[string]jschema.RuleASTNode{
									"additionalProperties": {
										TokenType:  jschema.TokenTypeString,
										Value:      "uri",
										Properties: &jschema.RuleASTNodes{},
										Source:     jschema.RuleASTNodeSourceManual,
									},
									"nullable": {
										TokenType:  jschema.TokenTypeBoolean,
										Value:      "false",
										Properties: &jschema.RuleASTNodes{},
										Source:     jschema.RuleASTNodeSourceManual,
									},
								},
								[]string{"additionalProperties", "nullable"},
							),
						},
						{
							Key:        "uuid",
							TokenType:  jschema.TokenTypeObject,
							SchemaType: string(jschema.SchemaTypeObject),
							Rules: jschema.NewRuleASTNodes(
								map[string]jschema.RuleASTNode{
									"additionalProperties": {
										TokenType:  jschema.TokenTypeString,
										Value:      "uuid",
										Properties: &jschema.RuleASTNodes{},
										Source:     jschema.RuleASTNodeSourceManual,
									},
									"nullable": {
										TokenType:  jschema.TokenTypeBoolean,
										Value:      "false",
										Properties: &jschema.RuleASTNodes{},
										Source:     jschema.RuleASTNodeSourceManual,
									},
								},
								[]string{"additionalProperties", "nullable"},
							),
						},
						{
							Key:        "date",
							TokenType:  jschema.TokenTypeObject,
							SchemaType: string(jschema.SchemaTypeObject),
							Rules: jschema.NewRuleASTNodes(
								map[string]jschema.RuleASTNode{
									"additionalProperties": {
										TokenType:  jschema.TokenTypeString,
										Value:      "date",
										Properties: &jschema.RuleASTNodes{},
										Source:     jschema.RuleASTNodeSourceManual,
									},
									"nullable": {
										TokenType:  jschema.TokenTypeBoolean,
										Value:      "false",
										Properties: &jschema.RuleASTNodes{},
										Source:     jschema.RuleASTNodeSourceManual,
									},
								},
								[]string{"additionalProperties", "nullable"},
							),
						},
						{
							Key:        "datetime",
							TokenType:  jschema.TokenTypeObject,
							SchemaType: string(jschema.SchemaTypeObject),
							Rules: jschema.NewRuleASTNodes(
								map[string]jschema.RuleASTNode{
									"additionalProperties": {
										TokenType:  jschema.TokenTypeString,
										Value:      "datetime",
										Properties: &jschema.RuleASTNodes{},
										Source:     jschema.RuleASTNodeSourceManual,
									},
									"nullable": {
										TokenType:  jschema.TokenTypeBoolean,
										Value:      "false",
										Properties: &jschema.RuleASTNodes{},
										Source:     jschema.RuleASTNodeSourceManual,
									},
								},
								[]string{"additionalProperties", "nullable"},
							),
						},
						{
							Key:        "enum",
							TokenType:  jschema.TokenTypeObject,
							SchemaType: string(jschema.SchemaTypeObject),
							Rules: jschema.NewRuleASTNodes(
								map[string]jschema.RuleASTNode{
									"additionalProperties": {
										TokenType:  jschema.TokenTypeString,
										Value:      "enum",
										Properties: &jschema.RuleASTNodes{},
										Source:     jschema.RuleASTNodeSourceManual,
									},
									"nullable": {
										TokenType:  jschema.TokenTypeBoolean,
										Value:      "false",
										Properties: &jschema.RuleASTNodes{},
										Source:     jschema.RuleASTNodeSourceManual,
									},
								},
								[]string{"additionalProperties", "nullable"},
							),
						},
						{
							Key:        "mixed",
							TokenType:  jschema.TokenTypeObject,
							SchemaType: string(jschema.SchemaTypeObject),
							Rules: jschema.NewRuleASTNodes(
								map[string]jschema.RuleASTNode{
									"additionalProperties": {
										TokenType:  jschema.TokenTypeString,
										Value:      "mixed",
										Properties: &jschema.RuleASTNodes{},
										Source:     jschema.RuleASTNodeSourceManual,
									},
									"nullable": {
										TokenType:  jschema.TokenTypeBoolean,
										Value:      "false",
										Properties: &jschema.RuleASTNodes{},
										Source:     jschema.RuleASTNodeSourceManual,
									},
								},
								[]string{"additionalProperties", "nullable"},
							),
						},
						{
							Key:        "any",
							TokenType:  jschema.TokenTypeObject,
							SchemaType: string(jschema.SchemaTypeObject),
							Rules: jschema.NewRuleASTNodes(
								map[string]jschema.RuleASTNode{
									"additionalProperties": {
										TokenType:  jschema.TokenTypeString,
										Value:      "any",
										Properties: &jschema.RuleASTNodes{},
										Source:     jschema.RuleASTNodeSourceManual,
									},
									"nullable": {
										TokenType:  jschema.TokenTypeBoolean,
										Value:      "false",
										Properties: &jschema.RuleASTNodes{},
										Source:     jschema.RuleASTNodeSourceManual,
									},
								},
								[]string{"additionalProperties", "nullable"},
							),
						},
						{
							Key:        "userType",
							TokenType:  jschema.TokenTypeObject,
							SchemaType: string(jschema.SchemaTypeObject),
							Rules: jschema.NewRuleASTNodes(
								map[string]jschema.RuleASTNode{
									"additionalProperties": {
										TokenType:  jschema.TokenTypeString,
										Value:      "@cat",
										Properties: &jschema.RuleASTNodes{},
										Source:     jschema.RuleASTNodeSourceManual,
									},
									"nullable": {
										TokenType:  jschema.TokenTypeBoolean,
										Value:      "false",
										Properties: &jschema.RuleASTNodes{},
										Source:     jschema.RuleASTNodeSourceManual,
									},
								},
								[]string{"additionalProperties", "nullable"},
							),
						},
					},
					Rules: &jschema.RuleASTNodes{},
				},
				types: map[string]string{
					"@cat": `"cat"`,
				},
			},

			`{
	@fooKey: @foo
}`: {
				expected: jschema.ASTNode{
					TokenType:  jschema.TokenTypeObject,
					SchemaType: string(jschema.SchemaTypeObject),
					Children: []jschema.ASTNode{
						{
							Key:           "@fooKey",
							IsKeyShortcut: true,
							TokenType:     jschema.TokenTypeShortcut,
							SchemaType:    "@foo",
							Value:         "@foo",
							Rules: jschema.NewRuleASTNodes(
								map[string]jschema.RuleASTNode{
									"type": {
										TokenType:  jschema.TokenTypeShortcut,
										Value:      "@foo",
										Properties: &jschema.RuleASTNodes{},
										Source:     jschema.RuleASTNodeSourceGenerated,
									},
								},
								[]string{"type"},
							),
						},
					},
					Rules: &jschema.RuleASTNodes{},
				},
				types: map[string]string{
					"@fooKey": `"key"`,
					"@foo":    `"foo"`,
				},
			},

			`"foo" /* {or: [
                  {type: "string"},
                  {type: "boolean"},
                  {type: "integer"},
                  {type: "float"},
                  {type: "object"},
                  {type: "array"},
                  {type: "decimal", precision: 1}
                ]} 
            */`: {
				expected: jschema.ASTNode{
					TokenType:  jschema.TokenTypeString,
					SchemaType: string(jschema.SchemaTypeMixed),
					Value:      "foo",
					Rules: jschema.NewRuleASTNodes(
						map[string]jschema.RuleASTNode{
							"or": {
								TokenType:  jschema.TokenTypeArray,
								Properties: &jschema.RuleASTNodes{},
								Items: []jschema.RuleASTNode{
									{
										TokenType: jschema.TokenTypeObject,
										Properties: jschema.NewRuleASTNodes(
											map[string]jschema.RuleASTNode{
												"type": {
													TokenType:  jschema.TokenTypeString,
													Value:      "string",
													Properties: &jschema.RuleASTNodes{},
													Source:     jschema.RuleASTNodeSourceManual,
												},
											},
											[]string{"type"},
										),
										Source: jschema.RuleASTNodeSourceManual,
									},
									{
										TokenType: jschema.TokenTypeObject,
										Properties: jschema.NewRuleASTNodes(
											map[string]jschema.RuleASTNode{
												"type": {
													TokenType:  jschema.TokenTypeString,
													Value:      "boolean",
													Properties: &jschema.RuleASTNodes{},
													Source:     jschema.RuleASTNodeSourceManual,
												},
											},
											[]string{"type"},
										),
										Source: jschema.RuleASTNodeSourceManual,
									},
									{
										TokenType: jschema.TokenTypeObject,
										Properties: jschema.NewRuleASTNodes(
											map[string]jschema.RuleASTNode{
												"type": {
													TokenType:  jschema.TokenTypeString,
													Value:      "integer",
													Properties: &jschema.RuleASTNodes{},
													Source:     jschema.RuleASTNodeSourceManual,
												},
											},
											[]string{"type"},
										),
										Source: jschema.RuleASTNodeSourceManual,
									},
									{
										TokenType: jschema.TokenTypeObject,
										Properties: jschema.NewRuleASTNodes(
											map[string]jschema.RuleASTNode{
												"type": {
													TokenType:  jschema.TokenTypeString,
													Value:      "float",
													Properties: &jschema.RuleASTNodes{},
													Source:     jschema.RuleASTNodeSourceManual,
												},
											},
											[]string{"type"},
										),
										Source: jschema.RuleASTNodeSourceManual,
									},
									{
										TokenType: jschema.TokenTypeObject,
										Properties: jschema.NewRuleASTNodes(
											map[string]jschema.RuleASTNode{
												"type": {
													TokenType:  jschema.TokenTypeString,
													Value:      "object",
													Properties: &jschema.RuleASTNodes{},
													Source:     jschema.RuleASTNodeSourceManual,
												},
											},
											[]string{"type"},
										),
										Source: jschema.RuleASTNodeSourceManual,
									},
									{
										TokenType: jschema.TokenTypeObject,
										Properties: jschema.NewRuleASTNodes(
											map[string]jschema.RuleASTNode{
												"type": {
													TokenType:  jschema.TokenTypeString,
													Value:      "array",
													Properties: &jschema.RuleASTNodes{},
													Source:     jschema.RuleASTNodeSourceManual,
												},
											},
											[]string{"type"},
										),
										Source: jschema.RuleASTNodeSourceManual,
									},
									{
										TokenType: jschema.TokenTypeObject,
										Properties: jschema.NewRuleASTNodes(
											map[string]jschema.RuleASTNode{
												"type": {
													TokenType:  jschema.TokenTypeString,
													Value:      "decimal",
													Properties: &jschema.RuleASTNodes{},
													Source:     jschema.RuleASTNodeSourceManual,
												},
												"precision": {
													TokenType:  jschema.TokenTypeNumber,
													Value:      "1",
													Properties: &jschema.RuleASTNodes{},
													Source:     jschema.RuleASTNodeSourceManual,
												},
											},
											[]string{"type", "precision"},
										),
										Source: jschema.RuleASTNodeSourceManual,
									},
								},
								Source: jschema.RuleASTNodeSourceManual,
							},
						},
						[]string{"or"},
					),
				},
			},

			`1.2 // {precision: 2}`: {
				expected: jschema.ASTNode{
					TokenType:  jschema.TokenTypeNumber,
					SchemaType: string(jschema.SchemaTypeDecimal),

					Value: "1.2",
					Rules: jschema.NewRuleASTNodes(
						map[string]jschema.RuleASTNode{
							"precision": {
								TokenType:  jschema.TokenTypeNumber,
								Value:      "2",
								Properties: &jschema.RuleASTNodes{},
								Source:     jschema.RuleASTNodeSourceManual,
							},
						},
						[]string{"precision"},
					),
				},
			},

			`"a" // {or: ["string", "integer"]}`: {
				expected: jschema.ASTNode{
					TokenType:  jschema.TokenTypeString,
					SchemaType: string(jschema.SchemaTypeMixed),

					Value: "a",
					Rules: jschema.NewRuleASTNodes(
						map[string]jschema.RuleASTNode{
							"or": {
								TokenType:  jschema.TokenTypeArray,
								Properties: &jschema.RuleASTNodes{},
								Items: []jschema.RuleASTNode{
									{
										TokenType:  jschema.TokenTypeString,
										Value:      "string",
										Properties: &jschema.RuleASTNodes{},
										Source:     jschema.RuleASTNodeSourceManual,
									},
									{
										TokenType:  jschema.TokenTypeString,
										Value:      "integer",
										Properties: &jschema.RuleASTNodes{},
										Source:     jschema.RuleASTNodeSourceManual,
									},
								},
								Source: jschema.RuleASTNodeSourceManual,
							},
						},
						[]string{"or"},
					),
				},
			},

			`"cat" /*
            {enum: [
              "cat", // The cat
              "dog", // The dog
              "pig", // The pig
              "frog" // The frog
            ]}
        */`: {
				expected: jschema.ASTNode{
					TokenType:  jschema.TokenTypeString,
					SchemaType: string(jschema.SchemaTypeEnum),

					Value: "cat",
					Rules: jschema.NewRuleASTNodes(
						map[string]jschema.RuleASTNode{
							"enum": {
								TokenType:  jschema.TokenTypeArray,
								Properties: &jschema.RuleASTNodes{},
								Items: []jschema.RuleASTNode{
									{
										TokenType:  jschema.TokenTypeString,
										Value:      "cat",
										Properties: &jschema.RuleASTNodes{},
										Source:     jschema.RuleASTNodeSourceManual,
										Comment:    "The cat",
									},
									{
										TokenType:  jschema.TokenTypeString,
										Value:      "dog",
										Properties: &jschema.RuleASTNodes{},
										Source:     jschema.RuleASTNodeSourceManual,
										Comment:    "The dog",
									},
									{
										TokenType:  jschema.TokenTypeString,
										Value:      "pig",
										Properties: &jschema.RuleASTNodes{},
										Source:     jschema.RuleASTNodeSourceManual,
										Comment:    "The pig",
									},
									{
										TokenType:  jschema.TokenTypeString,
										Value:      "frog",
										Properties: &jschema.RuleASTNodes{},
										Source:     jschema.RuleASTNodeSourceManual,
										Comment:    "The frog",
									},
								},
								Source: jschema.RuleASTNodeSourceManual,
							},
						},
						[]string{"enum"},
					),
				},
			},

			`"foo" // {type: "string"} - annotation # should not be a comment in AST node`: {
				expected: jschema.ASTNode{
					TokenType:  jschema.TokenTypeString,
					SchemaType: string(jschema.SchemaTypeString),

					Value: "foo",
					Rules: jschema.NewRuleASTNodes(
						map[string]jschema.RuleASTNode{
							"type": {
								TokenType:  jschema.TokenTypeString,
								Properties: &jschema.RuleASTNodes{},
								Value:      "string",
								Source:     jschema.RuleASTNodeSourceManual,
							},
						},
						[]string{"type"},
					),
					Comment: "annotation",
				},
			},

			`"#" // {regex: "#"} - annotation # comment`: {
				expected: jschema.ASTNode{
					TokenType:  jschema.TokenTypeString,
					SchemaType: string(jschema.SchemaTypeString),

					Value: "#",
					Rules: jschema.NewRuleASTNodes(
						map[string]jschema.RuleASTNode{
							"regex": {
								TokenType:  jschema.TokenTypeString,
								Properties: &jschema.RuleASTNodes{},
								Value:      "#",
								Source:     jschema.RuleASTNodeSourceManual,
							},
						},
						[]string{"regex"},
					),
					Comment: "annotation",
				},
			},

			`"#" // {enum: ["#", "##"]} - annotation # comment`: {
				expected: jschema.ASTNode{
					TokenType:  jschema.TokenTypeString,
					SchemaType: string(jschema.SchemaTypeEnum),

					Value: "#",
					Rules: jschema.NewRuleASTNodes(
						map[string]jschema.RuleASTNode{
							"enum": {
								TokenType:  jschema.TokenTypeArray,
								Properties: &jschema.RuleASTNodes{},
								Items: []jschema.RuleASTNode{
									{
										TokenType:  jschema.TokenTypeString,
										Value:      "#",
										Properties: &jschema.RuleASTNodes{},
										Source:     jschema.RuleASTNodeSourceManual,
									},
									{
										TokenType:  jschema.TokenTypeString,
										Value:      "##",
										Properties: &jschema.RuleASTNodes{},
										Source:     jschema.RuleASTNodeSourceManual,
									},
								},
								Source: jschema.RuleASTNodeSourceManual,
							},
						},
						[]string{"enum"},
					),
					Comment: "annotation",
				},
			},

			`{
  "id": 5,
  "name": "John" # single-line COMMENT
}`: {
				expected: jschema.ASTNode{
					TokenType:  jschema.TokenTypeObject,
					SchemaType: string(jschema.SchemaTypeObject),
					Children: []jschema.ASTNode{
						{
							Key:        "id",
							TokenType:  jschema.TokenTypeNumber,
							SchemaType: string(jschema.SchemaTypeInteger),
							Value:      "5",
							Rules:      &jschema.RuleASTNodes{},
						},
						{
							Key:        "name",
							TokenType:  jschema.TokenTypeString,
							SchemaType: string(jschema.SchemaTypeString),
							Value:      "John",
							Rules:      &jschema.RuleASTNodes{},
						},
					},
					Rules: &jschema.RuleASTNodes{},
				},
			},

			`{
  "id": 5,
  "name": "John"
  ###
  block
  COMMENT
  ###
}`: {
				expected: jschema.ASTNode{
					TokenType:  jschema.TokenTypeObject,
					SchemaType: string(jschema.SchemaTypeObject),
					Children: []jschema.ASTNode{
						{
							Key:        "id",
							TokenType:  jschema.TokenTypeNumber,
							SchemaType: string(jschema.SchemaTypeInteger),
							Value:      "5",
							Rules:      &jschema.RuleASTNodes{},
						},
						{
							Key:        "name",
							TokenType:  jschema.TokenTypeString,
							SchemaType: string(jschema.SchemaTypeString),
							Value:      "John",
							Rules:      &jschema.RuleASTNodes{},
						},
					},
					Rules: &jschema.RuleASTNodes{},
				},
			},

			`{
  "id": 5,
  "name": "John" /*
  # comment
*/
}`: {
				expected: jschema.ASTNode{
					TokenType:  jschema.TokenTypeObject,
					SchemaType: string(jschema.SchemaTypeObject),
					Children: []jschema.ASTNode{
						{
							Key:        "id",
							TokenType:  jschema.TokenTypeNumber,
							SchemaType: string(jschema.SchemaTypeInteger),
							Value:      "5",
							Rules:      &jschema.RuleASTNodes{},
						},
						{
							Key:        "name",
							TokenType:  jschema.TokenTypeString,
							SchemaType: string(jschema.SchemaTypeString),
							Value:      "John",
							Rules:      &jschema.RuleASTNodes{},
							Comment:    "# comment",
						},
					},
					Rules: &jschema.RuleASTNodes{},
				},
			},

			`{
  "id": 5,
  "name": "John" /* {type: "string"} - annotation
  # comment
*/
}`: {
				expected: jschema.ASTNode{
					TokenType:  jschema.TokenTypeObject,
					SchemaType: string(jschema.SchemaTypeObject),
					Children: []jschema.ASTNode{
						{
							Key:        "id",
							TokenType:  jschema.TokenTypeNumber,
							SchemaType: string(jschema.SchemaTypeInteger),
							Value:      "5",
							Rules:      &jschema.RuleASTNodes{},
						},
						{
							Key:        "name",
							TokenType:  jschema.TokenTypeString,
							SchemaType: string(jschema.SchemaTypeString),
							Value:      "John",
							Rules: jschema.NewRuleASTNodes(
								map[string]jschema.RuleASTNode{
									"type": {
										TokenType:  jschema.TokenTypeString,
										Value:      "string",
										Properties: &jschema.RuleASTNodes{},
										Source:     jschema.RuleASTNodeSourceManual,
									},
								},
								[]string{"type"},
							),
							Comment: `annotation
  # comment`,
						},
					},
					Rules: &jschema.RuleASTNodes{},
				},
			},

			`{
  "id": 5,
  "name": "John" /* {type: "string"} - annotation # comment
*/
}`: {
				expected: jschema.ASTNode{
					TokenType:  jschema.TokenTypeObject,
					SchemaType: string(jschema.SchemaTypeObject),
					Children: []jschema.ASTNode{
						{
							Key:        "id",
							TokenType:  jschema.TokenTypeNumber,
							SchemaType: string(jschema.SchemaTypeInteger),
							Value:      "5",
							Rules:      &jschema.RuleASTNodes{},
						},
						{
							Key:        "name",
							TokenType:  jschema.TokenTypeString,
							SchemaType: string(jschema.SchemaTypeString),
							Value:      "John",
							Rules: jschema.NewRuleASTNodes(
								map[string]jschema.RuleASTNode{
									"type": {
										TokenType:  jschema.TokenTypeString,
										Value:      "string",
										Properties: &jschema.RuleASTNodes{},
										Source:     jschema.RuleASTNodeSourceManual,
									},
								},
								[]string{"type"},
							),
							Comment: `annotation # comment`,
						},
					},
					Rules: &jschema.RuleASTNodes{},
				},
			},

			`{
  "id": 5,
  "name": "John" // {type: "string"} - annotation # comment
}`: {
				expected: jschema.ASTNode{
					TokenType:  jschema.TokenTypeObject,
					SchemaType: string(jschema.SchemaTypeObject),
					Children: []jschema.ASTNode{
						{
							Key:        "id",
							TokenType:  jschema.TokenTypeNumber,
							SchemaType: string(jschema.SchemaTypeInteger),
							Value:      "5",
							Rules:      &jschema.RuleASTNodes{},
						},
						{
							Key:        "name",
							TokenType:  jschema.TokenTypeString,
							SchemaType: string(jschema.SchemaTypeString),
							Value:      "John",
							Rules: jschema.NewRuleASTNodes(
								map[string]jschema.RuleASTNode{
									"type": {
										TokenType:  jschema.TokenTypeString,
										Value:      "string",
										Properties: &jschema.RuleASTNodes{},
										Source:     jschema.RuleASTNodeSourceManual,
									},
								},
								[]string{"type"},
							),
							Comment: `annotation`,
						},
					},
					Rules: &jschema.RuleASTNodes{},
				},
			},

			`{
  "id": 5,
  "name": "John" /*
  ###
  block
  COMMENT
  ###
*/
}`: {
				expected: jschema.ASTNode{
					TokenType:  jschema.TokenTypeObject,
					SchemaType: string(jschema.SchemaTypeObject),
					Children: []jschema.ASTNode{
						{
							Key:        "id",
							TokenType:  jschema.TokenTypeNumber,
							SchemaType: string(jschema.SchemaTypeInteger),
							Value:      "5",
							Rules:      &jschema.RuleASTNodes{},
						},
						{
							Key:        "name",
							TokenType:  jschema.TokenTypeString,
							SchemaType: string(jschema.SchemaTypeString),
							Value:      "John",
							Rules:      &jschema.RuleASTNodes{},
							Comment: `###
  block
  COMMENT
  ###`,
						},
					},
					Rules: &jschema.RuleASTNodes{},
				},
			},

			`{
  "id": 5,
  "name": "John" /* {type: "string"} - annotation
  ###
  block
  COMMENT
  ###
*/
}`: {
				expected: jschema.ASTNode{
					TokenType:  jschema.TokenTypeObject,
					SchemaType: string(jschema.SchemaTypeObject),
					Children: []jschema.ASTNode{
						{
							Key:        "id",
							TokenType:  jschema.TokenTypeNumber,
							SchemaType: string(jschema.SchemaTypeInteger),
							Value:      "5",
							Rules:      &jschema.RuleASTNodes{},
						},
						{
							Key:        "name",
							TokenType:  jschema.TokenTypeString,
							SchemaType: string(jschema.SchemaTypeString),
							Value:      "John",
							Rules: jschema.NewRuleASTNodes(
								map[string]jschema.RuleASTNode{
									"type": {
										TokenType:  jschema.TokenTypeString,
										Value:      "string",
										Properties: &jschema.RuleASTNodes{},
										Source:     jschema.RuleASTNodeSourceManual,
									},
								},
								[]string{"type"},
							),
							Comment: `annotation
  ###
  block
  COMMENT
  ###`,
						},
					},
					Rules: &jschema.RuleASTNodes{},
				},
			},

			`# {
#  "id": 5,
#  "name": "John"
# }`: {
				expected: jschema.ASTNode{
					Rules: &jschema.RuleASTNodes{},
				},
			},

			`"foo" // {enum: @enum}`: {
				expected: jschema.ASTNode{
					TokenType:  jschema.TokenTypeString,
					SchemaType: string(jschema.SchemaTypeEnum),
					Value:      "foo",
					Rules: jschema.NewRuleASTNodes(
						map[string]jschema.RuleASTNode{
							"enum": {
								TokenType:  jschema.TokenTypeShortcut,
								Value:      "@enum",
								Properties: &jschema.RuleASTNodes{},
								Source:     jschema.RuleASTNodeSourceManual,
							},
						},
						[]string{"enum"},
					),
				},
				rules: map[string]string{
					"@enum": `[
// Comment 1
"foo", // Comment 2
// Comment 3
"bar"  // Comment 4
// Comment 5
]`,
				},
			},

			`"foo" /* {
	type: "string"
} - comment
*/`: {
				expected: jschema.ASTNode{
					TokenType:  jschema.TokenTypeString,
					SchemaType: string(jschema.SchemaTypeString),
					Value:      "foo",
					Rules: jschema.NewRuleASTNodes(
						map[string]jschema.RuleASTNode{
							"type": {
								TokenType:  jschema.TokenTypeString,
								Value:      "string",
								Properties: &jschema.RuleASTNodes{},
								Source:     jschema.RuleASTNodeSourceManual,
							},
						},
						[]string{"type"},
					),
					Comment: "comment",
				},
			},

			`"foo" /* {
	type: "string"
} - multi
line
	comment
*/`: {
				expected: jschema.ASTNode{
					TokenType:  jschema.TokenTypeString,
					SchemaType: string(jschema.SchemaTypeString),
					Value:      "foo",
					Rules: jschema.NewRuleASTNodes(
						map[string]jschema.RuleASTNode{
							"type": {
								TokenType:  jschema.TokenTypeString,
								Value:      "string",
								Properties: &jschema.RuleASTNodes{},
								Source:     jschema.RuleASTNodeSourceManual,
							},
						},
						[]string{"type"},
					),
					Comment: "multi\nline\n\tcomment",
				},
			},

			`"foo" /* {or: [
	"any",
	"array",
	"boolean",
	"date",
	"datetime",
	"email",
	"float",
	"integer",
	"null",
	"object",
	"string",
	"uri",
	"uuid"
]}
*/`: {
				expected: jschema.ASTNode{
					TokenType:  jschema.TokenTypeString,
					SchemaType: string(jschema.SchemaTypeMixed),
					Value:      "foo",
					Rules: jschema.NewRuleASTNodes(
						map[string]jschema.RuleASTNode{
							"or": {
								TokenType:  jschema.TokenTypeArray,
								Properties: &jschema.RuleASTNodes{},
								Items: []jschema.RuleASTNode{
									{
										TokenType:  jschema.TokenTypeString,
										Value:      "any",
										Properties: &jschema.RuleASTNodes{},
										Source:     jschema.RuleASTNodeSourceManual,
									},
									{
										TokenType:  jschema.TokenTypeString,
										Value:      "array",
										Properties: &jschema.RuleASTNodes{},
										Source:     jschema.RuleASTNodeSourceManual,
									},
									{
										TokenType:  jschema.TokenTypeString,
										Value:      "boolean",
										Properties: &jschema.RuleASTNodes{},
										Source:     jschema.RuleASTNodeSourceManual,
									},
									{
										TokenType:  jschema.TokenTypeString,
										Value:      "date",
										Properties: &jschema.RuleASTNodes{},
										Source:     jschema.RuleASTNodeSourceManual,
									},
									{
										TokenType:  jschema.TokenTypeString,
										Value:      "datetime",
										Properties: &jschema.RuleASTNodes{},
										Source:     jschema.RuleASTNodeSourceManual,
									},
									{
										TokenType:  jschema.TokenTypeString,
										Value:      "email",
										Properties: &jschema.RuleASTNodes{},
										Source:     jschema.RuleASTNodeSourceManual,
									},
									{
										TokenType:  jschema.TokenTypeString,
										Value:      "float",
										Properties: &jschema.RuleASTNodes{},
										Source:     jschema.RuleASTNodeSourceManual,
									},
									{
										TokenType:  jschema.TokenTypeString,
										Value:      "integer",
										Properties: &jschema.RuleASTNodes{},
										Source:     jschema.RuleASTNodeSourceManual,
									},
									{
										TokenType:  jschema.TokenTypeString,
										Value:      "null",
										Properties: &jschema.RuleASTNodes{},
										Source:     jschema.RuleASTNodeSourceManual,
									},
									{
										TokenType:  jschema.TokenTypeString,
										Value:      "object",
										Properties: &jschema.RuleASTNodes{},
										Source:     jschema.RuleASTNodeSourceManual,
									},
									{
										TokenType:  jschema.TokenTypeString,
										Value:      "string",
										Properties: &jschema.RuleASTNodes{},
										Source:     jschema.RuleASTNodeSourceManual,
									},
									{
										TokenType:  jschema.TokenTypeString,
										Value:      "uri",
										Properties: &jschema.RuleASTNodes{},
										Source:     jschema.RuleASTNodeSourceManual,
									},
									{
										TokenType:  jschema.TokenTypeString,
										Value:      "uuid",
										Properties: &jschema.RuleASTNodes{},
										Source:     jschema.RuleASTNodeSourceManual,
									},
								},
								Source: jschema.RuleASTNodeSourceManual,
							},
						},
						[]string{"or"},
					),
				},
			},

			`123 // {or: ["@dogId", "@catId"]}`: {
				expected: jschema.ASTNode{
					TokenType:  jschema.TokenTypeNumber,
					SchemaType: string(jschema.SchemaTypeMixed),
					Value:      "123",
					Rules: jschema.NewRuleASTNodes(
						map[string]jschema.RuleASTNode{
							"or": {
								TokenType:  jschema.TokenTypeArray,
								Properties: &jschema.RuleASTNodes{},
								Items: []jschema.RuleASTNode{
									{
										TokenType:  jschema.TokenTypeShortcut,
										Value:      "@dogId",
										Properties: &jschema.RuleASTNodes{},
										Source:     jschema.RuleASTNodeSourceManual,
									},
									{
										TokenType:  jschema.TokenTypeShortcut,
										Value:      "@catId",
										Properties: &jschema.RuleASTNodes{},
										Source:     jschema.RuleASTNodeSourceManual,
									},
								},
								Source: jschema.RuleASTNodeSourceManual,
							},
						},
						[]string{"or"},
					),
				},
				types: map[string]string{
					"@catId": "12 // {min: 1}",
					"@dogId": `"DOG-123" // Dog's id.`,
				},
			},

			`"\n" // {enum: ["\u0001", "\u0002", "\n", "\t", "n \n nn n", "b \n b", "a \\n a"]}`: {
				expected: jschema.ASTNode{
					TokenType:  jschema.TokenTypeString,
					SchemaType: string(jschema.SchemaTypeEnum),
					Value:      "\n",
					Rules: jschema.NewRuleASTNodes(
						map[string]jschema.RuleASTNode{
							"enum": {
								TokenType:  jschema.TokenTypeArray,
								Properties: &jschema.RuleASTNodes{},
								Items: []jschema.RuleASTNode{
									{
										TokenType:  jschema.TokenTypeString,
										Value:      "\u0001",
										Properties: &jschema.RuleASTNodes{},
										Source:     jschema.RuleASTNodeSourceManual,
									},
									{
										TokenType:  jschema.TokenTypeString,
										Value:      "\u0002",
										Properties: &jschema.RuleASTNodes{},
										Source:     jschema.RuleASTNodeSourceManual,
									},
									{
										TokenType:  jschema.TokenTypeString,
										Value:      "\n",
										Properties: &jschema.RuleASTNodes{},
										Source:     jschema.RuleASTNodeSourceManual,
									},
									{
										TokenType:  jschema.TokenTypeString,
										Value:      "\t",
										Properties: &jschema.RuleASTNodes{},
										Source:     jschema.RuleASTNodeSourceManual,
									},
									{
										TokenType:  jschema.TokenTypeString,
										Value:      "n \n nn n",
										Properties: &jschema.RuleASTNodes{},
										Source:     jschema.RuleASTNodeSourceManual,
									},
									{
										TokenType:  jschema.TokenTypeString,
										Value:      "b \n b",
										Properties: &jschema.RuleASTNodes{},
										Source:     jschema.RuleASTNodeSourceManual,
									},
									{
										TokenType:  jschema.TokenTypeString,
										Value:      "a \\n a",
										Properties: &jschema.RuleASTNodes{},
										Source:     jschema.RuleASTNodeSourceManual,
									},
								},
								Source: jschema.RuleASTNodeSourceManual,
							},
						},
						[]string{"enum"},
					),
				},
			},
		}

		for given, c := range cc {
			t.Run(given, func(t *testing.T) {
				s := New("", given)

				for n, r := range c.rules {
					require.NoError(t, s.AddRule(n, enum.New(n, r)))
				}

				for n, c := range c.types {
					require.NoError(t, s.AddType(n, New(n, c)))
				}

				actual, err := s.GetAST()
				require.NoError(t, err)
				assert.Equalf(
					t,
					c.expected,
					actual,
					fmt.Sprintf("Expected: %s\nActual: %s", spew.Sdump(c.expected), spew.Sdump(actual)),
				)
			})
		}
	})

	t.Run("negative", func(t *testing.T) {
		cc := map[string]struct {
			schema string
			types  map[string]string
		}{
			`ERROR (code 102): Unknown type "foo"
	in line 1 on file 
	> 42 // {type: "foo"}
	--^`: {
				schema: `42 // {type: "foo"}`,
			},

			`ERROR (code 616): Date parsing error (parsing time "abc" as "2006-01-02": cannot parse "abc" as "2006")
	in line 2 on file 
	> "data": "abc" // {type: "date"}
	----------^`: {
				schema: `{
	"data": "abc" // {type: "date"}
}`,
			},

			`ERROR (code 301): Invalid character "," non-space byte after top-level value
	in line 1 on file 
	> @pig, // {or: ["@dog", "@pig"]}
	------^`: {
				schema: `@pig, // {or: ["@dog", "@pig"]}`,
			},

			`ERROR (code 304): Annotation not allowed here
	in line 2 on file 
	> "ids": [1] // Ids
	-------------^`: {
				schema: `{
	"ids": [1] // Ids
}`,
			},

			`ERROR (code 304): Annotation not allowed here
	in line 3 on file 
	> 1] // Ids
	-----^`: {
				schema: `{
	"ids": [
1] // Ids
}`,
			},

			`ERROR (code 304): Annotation not allowed here
	in line 4 on file 
	> ] // Ids
	----^`: {
				schema: `{
	"ids": [
	1
] // Ids
}`,
			},

			`ERROR (code 1108): You cannot specify child node if you use a "or" rule
	in line 2 on file 
	> "foo" : @fizz // {or: ["@fizz", "@buzz"]}
	----------^`: {
				schema: `{
	"foo" : @fizz // {or: ["@fizz", "@buzz"]}
}`,
			},

			`ERROR (code 1108): You cannot specify child node if you use a "or" rule
	in line 2 on file 
	> "foo": {} // {or: ["@fizz", "@buzz"]}
	---------^`: {
				schema: `{
	"foo": {} // {or: ["@fizz", "@buzz"]}
}`,
			},

			`ERROR (code 1107): You cannot specify child node if you use a type reference
	in line 2 on file 
	> "foo" : @fizz // {type: "@fizz"}
	----------^`: {
				schema: `{
	"foo" : @fizz // {type: "@fizz"}
}`,
			},

			`ERROR (code 1107): You cannot specify child node if you use a type reference
	in line 2 on file 
	> "foo": {} // {type: "@fizz"}
	---------^`: {
				schema: `{
	"foo": {} // {type: "@fizz"}
}`,
			},

			`ERROR (code 303): Unexpected end of file
	in line 1 on file 
	> 1.
	---^`: {
				schema: "1.",
			},

			`ERROR (code 301): Invalid character "\n" after decimal point in numeric literal
	in line 1 on file 
	> 1.
	----^`: {
				schema: "1.\n",
			},

			`ERROR (code 1117): The "precision" constraint can't be used for the "float" type
	in line 1 on file 
	> 1.1 // {type: "float", precision: 2}
	--^`: {
				schema: `1.1 // {type: "float", precision: 2}`,
			},

			`ERROR (code 1302): Type "@foo" not found
	in line 1 on file 
	> @foo
	--^`: {
				schema: "@foo",
			},

			`ERROR (code 1301): Incorrect type of user type
	in line 1 on file 
	> 123 // {or: ["@cat", "@dog"]}
	--^`: {
				schema: `123 // {or: ["@cat", "@dog"]}`,
				types: map[string]string{
					"@cat": `"cat"`,
					"@dog": `"dog"`,
				},
			},
		}

		for expected, c := range cc {
			t.Run(expected, func(t *testing.T) {
				s := New("", c.schema)

				for n, c := range c.types {
					require.NoError(t, s.AddType(n, New(n, c)))
				}

				_, err := s.GetAST()
				assert.EqualError(t, err, expected)
			})
		}
	})
}

func TestSchema_UsedUserTypes(t *testing.T) {
	t.Run("positive", func(t *testing.T) {
		cc := map[string][]string{
			"@foo":        {"@foo"},
			"@foo | @bar": {"@foo", "@bar"},
			`{
	"foo": @foo,
	"bar": { // {additionalProperties: "@addProp"}
		"fizz": @bar | @fizz,
		"buzz": 42, // {type: "@buzz"}
		"foobar": 42 // {or: ["@foobar", {type: "@fizzbuzz"}]}
	},
	"fizzbuzz": [
		@foobarfizzbuzz
	],
	"scalar": 3.14, // {type: "decimal", precision: 2}
	"scalar_or": 42, // {or: ["string", {type: "integer"}]}
	"allof": { // {allOf: "@base"}
	},
	"allof_array": { // {allOf: ["@base1", "@base2"]}
	},
	"@notAShortcut": 42,
	@shortcut: 42
}`: {
				"@foo",
				"@bar",
				"@fizz",
				"@buzz",
				"@foobar",
				"@fizzbuzz",
				"@foobarfizzbuzz",
				"@base",
				"@base1",
				"@base2",
				"@shortcut",
				"@addProp",
			},
		}

		for given, expected := range cc {
			t.Run(given, func(t *testing.T) {
				ss, err := New("", given).UsedUserTypes()
				require.NoError(t, err)
				assert.ElementsMatch(t, expected, ss)
			})
		}
	})

	t.Run("negative", func(t *testing.T) {
		_, err := New("", "foo").UsedUserTypes()
		assert.EqualError(t, err, `ERROR (code 301): Invalid character "o" in literal false (expecting 'a')
	in line 1 on file 
	> foo
	---^`)
	})
}

func TestSchema_Build(t *testing.T) {
	t.Run("positive", func(t *testing.T) {
		err := New("", "42").Build()
		assert.NoError(t, err)
	})

	t.Run("negative", func(t *testing.T) {
		err := New("", "foo").Build()
		assert.EqualError(t, err, `ERROR (code 301): Invalid character "o" in literal false (expecting 'a')
	in line 1 on file 
	> foo
	---^`)
	})
}

func TestSchema_buildASTNode(t *testing.T) {
	t.Run("root node nil", func(t *testing.T) {
		s := &Schema{
			inner: &internalSchema.Schema{},
		}

		n := s.buildASTNode()
		assert.Equal(t, jschema.ASTNode{
			Rules: &jschema.RuleASTNodes{},
		}, n)
	})

	t.Run("root node isn't nil", func(t *testing.T) {
		newSchema := func(rootNode internalSchema.Node) *Schema {
			inner := internalSchema.New()
			inner.SetRootNode(rootNode)
			return &Schema{
				inner: &inner,
			}
		}

		t.Run("positive", func(t *testing.T) {
			expected := jschema.ASTNode{
				TokenType: jschema.TokenTypeString,
				Rules:     &jschema.RuleASTNodes{},
			}

			root := &schemaMocks.Node{}
			root.On("ASTNode").Return(expected, nil)

			s := newSchema(root)

			n := s.buildASTNode()
			assert.Equal(t, expected, n)
		})

		t.Run("negative", func(t *testing.T) {
			root := &schemaMocks.Node{}
			root.On("ASTNode").Return(jschema.ASTNode{}, stdErrors.New("fake error"))

			s := newSchema(root)

			assert.PanicsWithError(t, "fake error", func() {
				s.buildASTNode()
			})
		})
	})
}
