package kit

import (
	"fmt"

	lib "github.com/jsightapi/jsight-schema-go-library"
	"github.com/jsightapi/jsight-schema-go-library/errors"
	"github.com/jsightapi/jsight-schema-go-library/fs"
)

type Error interface {
	Filename() string
	Position() uint
	Message() string
	ErrCode() int
	IncorrectUserType() string
}

// ConvertError converts error to Error interface.
// Added for BC
func ConvertError(f *fs.File, err error) Error {
	switch e := err.(type) { //nolint:errorlint // This is okay.
	case errors.ErrorCode:
		return sdkError{
			filename: f.Name(),
			position: 0,
			message:  e.Error(),
			errCode:  int(e.Code()),
		}

	case errors.DocumentError:
		return e

	case lib.ParsingError:
		return sdkError{
			filename: f.Name(),
			position: e.Position(),
			message:  e.Message(),
			errCode:  e.ErrCode(),
		}

	case lib.ValidationError:
		return sdkError{
			filename: f.Name(),
			position: 0,
			message:  e.Message(),
			errCode:  e.ErrCode(),
		}
	}
	return errors.NewDocumentError(f, errors.Format(errors.ErrGeneric, fmt.Sprintf("%s", err)))
}

type sdkError struct {
	filename          string
	message           string
	incorrectUserType string
	position          uint
	errCode           int
}

func (s sdkError) Filename() string          { return s.filename }
func (s sdkError) Position() uint            { return s.position }
func (s sdkError) Message() string           { return s.message }
func (s sdkError) ErrCode() int              { return s.errCode }
func (s sdkError) IncorrectUserType() string { return s.incorrectUserType }
