package jschema

import (
	"fmt"
	"testing"

	"github.com/stretchr/testify/assert"
	"github.com/stretchr/testify/require"
)

func TestIsValidType(t *testing.T) {
	for _, typ := range allSchemaTypes {
		if typ == SchemaTypeUndefined {
			continue
		}

		typ := string(typ)
		t.Run(typ, func(t *testing.T) {
			assert.True(t, IsValidType(typ))
		})
	}

	t.Run("invalid", func(t *testing.T) {
		assert.False(t, IsValidType("invalid"))
	})
}

func TestSchemaType_IsOneOf(t *testing.T) {
	t.Run("true", func(t *testing.T) {
		ttt := [][]SchemaType{
			{SchemaTypeString},
			{SchemaTypeObject, SchemaTypeString, SchemaTypeArray},
		}

		for _, tt := range ttt {
			t.Run(fmt.Sprintf("%v", tt), func(t *testing.T) {
				assert.True(t, SchemaTypeString.IsOneOf(tt...))
			})
		}
	})

	t.Run("false", func(t *testing.T) {
		ttt := [][]SchemaType{
			{},
			{SchemaTypeObject},
			{SchemaTypeObject, SchemaTypeInteger, SchemaTypeArray},
		}

		for _, tt := range ttt {
			t.Run(fmt.Sprintf("%v", tt), func(t *testing.T) {
				assert.False(t, SchemaTypeString.IsOneOf(tt...))
			})
		}

		t.Run("undefined", func(t *testing.T) {
			assert.False(t, SchemaTypeUndefined.IsOneOf(SchemaTypeUndefined))
		})
	})
}

func TestSchemaType_IsEqualSoft(t *testing.T) {
	type testCase struct {
		left     SchemaType
		right    SchemaType
		expected bool
	}

	toString := func(c testCase) string {
		sign := "=="
		if !c.expected {
			sign = "!="
		}
		return fmt.Sprintf("%s %s %s", c.left, sign, c.right)
	}

	notListed := func(ss []SchemaType) []SchemaType {
		if len(ss) == 0 {
			return allSchemaTypes
		}

		ssMap := map[SchemaType]struct{}{}
		for _, s := range ss {
			ssMap[s] = struct{}{}
		}

		res := make([]SchemaType, 0, len(allSchemaTypes)-len(ss))
		for _, s := range allSchemaTypes {
			if _, ok := ssMap[s]; !ok {
				res = append(res, s)
			}
		}
		return res
	}

	var cc []testCase

	for l, rr := range schemaTypeComparisonMap {
		for _, r := range rr {
			cc = append(cc, testCase{l, r, true})
		}
		for _, r := range notListed(rr) {
			cc = append(cc, testCase{l, r, false})
		}
	}

	for _, c := range cc {
		t.Run(toString(c), func(t *testing.T) {
			actual := c.left.IsEqualSoft(c.right)
			assert.Equal(t, c.expected, actual)
		})
	}
}

func TestGuessSchemaType(t *testing.T) {
	t.Run("positive", func(t *testing.T) {
		cc := map[string]SchemaType{
			"42":    SchemaTypeInteger,
			"3.14":  SchemaTypeFloat,
			`"foo"`: SchemaTypeString,
			"true":  SchemaTypeBoolean,
			"false": SchemaTypeBoolean,
			"{":     SchemaTypeObject,
			"[":     SchemaTypeArray,
			"null":  SchemaTypeNull,
		}

		for given, expected := range cc {
			t.Run(given, func(t *testing.T) {
				actual, err := GuessSchemaType([]byte(given))
				require.NoError(t, err)
				assert.Equal(t, expected, actual)
			})
		}
	})

	t.Run("negative", func(t *testing.T) {
		_, err := GuessSchemaType([]byte("invalid"))
		assert.ErrorIs(t, err, ErrUnknownSchemaType)
	})
}

var allSchemaTypes = []SchemaType{
	SchemaTypeUndefined,
	SchemaTypeString,
	SchemaTypeInteger,
	SchemaTypeFloat,
	SchemaTypeDecimal,
	SchemaTypeBoolean,
	SchemaTypeObject,
	SchemaTypeArray,
	SchemaTypeNull,
	SchemaTypeEmail,
	SchemaTypeURI,
	SchemaTypeUUID,
	SchemaTypeDate,
	SchemaTypeDateTime,
	SchemaTypeEnum,
	SchemaTypeMixed,
	SchemaTypeAny,
	SchemaTypeComment,
}
