package enum

import (
	stdErrors "errors"

	"github.com/jsightapi/jsight-schema-go-library/bytes"
	"github.com/jsightapi/jsight-schema-go-library/errors"
	"github.com/jsightapi/jsight-schema-go-library/fs"
	"github.com/jsightapi/jsight-schema-go-library/internal/ds"
	"github.com/jsightapi/jsight-schema-go-library/internal/lexeme"
)

type stepFunc func(byte) (state, error)

// state values are returned by the state transition functions assigned to
// scanner.state and the method scanner.eof.
// They give details about the current state of the scan that callers might be
// interested to know about.
// It is okay to ignore the return value of any particular call to scanner.state.
type state uint8

const (
	// scanSkip indicates an uninteresting byte, so we can keep scanning forward.
	scanSkip state = iota

	// scanBeginLiteral indicates beginning of any value outside an array or object.
	scanBeginLiteral
)

// scanner represents a scanner is a JSchema scanning state machine.
// Callers call scan.reset() and then pass bytes in one at a time
// by calling scan.step(&scan, c) for each byte.
// The return value, referred to as an opcode, tells the
// caller about significant parsing events like beginning
// and ending literals, objects, and arrays, so that the
// caller can follow along if it wishes.
// The return value scanEnd indicates that a single top-level
// JSON value has been completed, *before* the byte that
// just got passed in.  (The indication must be delayed in order
// to recognize the end of numbers: is 123 a whole value or
// the beginning of 12345e+6?).
type scanner struct {
	// step is a func to be called to execute the next transition.
	// Also tried using an integer constant and a single func
	// with a switch, but using the func directly was 10% faster
	// on a 64-bit Mac Mini, and it's nicer to read.
	step stepFunc

	// returnToStep a stack of step functions, to preserve the sequence of steps
	// (and return to them) in some cases.
	returnToStep *ds.Stack[stepFunc]

	// stack a stack of found lexical event. The stack is needed for the scanner
	// to take into account the nesting of SCHEME elements.
	stack *ds.Stack[lexeme.LexEvent]

	// uniqueValues represent a map of found values.
	// Useful for duplication tracking.
	uniqueValues map[enumItemValue]struct{}

	// file a structure containing jSchema data.
	file *fs.File

	// data jSchema content.
	data bytes.Bytes

	// finds a list of found types of lexical event for the current step. Several
	// lexical events can be found in one step (example: ArrayItemBegin and LiteralBegin).
	finds []lexeme.LexEventType

	// index scanned byte index.
	index bytes.Index

	// dataSize a size of schema data in bytes. Count once for optimization.
	dataSize bytes.Index

	// annotation one of the possible States of annotation processing (annotationNone,
	// annotationInline).
	annotation bool

	// unfinishedLiteral a sign that a literal has been started but not completed.
	unfinishedLiteral bool

	// lengthComputing used when a file contains data after the schema (for example,
	// in jApi).
	lengthComputing bool

	hasTrailingCharacters bool
}

func newScanner(file *fs.File, oo ...scannerOption) *scanner {
	content := file.Content()

	s := &scanner{
		file:         file,
		data:         content,
		dataSize:     bytes.Index(len(content)),
		returnToStep: &ds.Stack[stepFunc]{},
		stack:        &ds.Stack[lexeme.LexEvent]{},
		uniqueValues: map[enumItemValue]struct{}{},
		finds:        make([]lexeme.LexEventType, 0, 3),
	}

	s.step = s.stateBegin

	for _, o := range oo {
		o(s)
	}

	return s
}

type scannerOption func(*scanner)

// scannerComputeLength switch scanner in length computing mode.
// scanner in this mode shouldn't be used for parsing.
func scannerComputeLength(s *scanner) {
	s.lengthComputing = true
}

func (s *scanner) Length() (uint, error) {
	if !s.lengthComputing {
		return 0, stdErrors.New("method not allowed")
	}
	var length uint
	for {
		lex, err := s.Next()
		if stdErrors.Is(err, errEOS) {
			break
		}
		if err != nil {
			return 0, err
		}

		if lex.Type() == lexeme.EndTop {
			// Found character after the end of the schema and spaces.
			// Example: char "s" in "{} some text"
			length = uint(lex.End()) - 1
			break
		}

		length = uint(lex.End()) + 1
		if lex.End() >= s.dataSize {
			length = uint(s.dataSize)
		}
	}
	for ; length > 0; length-- {
		c := s.data[length-1]
		if !bytes.IsBlank(c) {
			break
		}
	}
	return length, nil
}

var errEOS = stdErrors.New("end of stream")

// Next reads schema byte by byte.
// Stops if it detects lexical events.
// Returns pointer to found lexeme event, or nil if you have complete reading.
func (s *scanner) Next() (lexeme.LexEvent, error) {
	if len(s.finds) != 0 {
		lex, err := s.shiftFound()
		if err != nil {
			return lexeme.LexEvent{}, err
		}
		return s.processingFoundLexeme(lex)
	}

	for s.index < s.dataSize {
		c := s.data[s.index]
		s.index++

		_, err := s.step(c)
		if err != nil {
			return lexeme.LexEvent{}, err
		}

		if len(s.finds) != 0 {
			lex, err := s.shiftFound()
			if err != nil {
				return lexeme.LexEvent{}, err
			}
			return s.processingFoundLexeme(lex)
		}
	}

	return s.processTail()
}

func (s *scanner) processTail() (lexeme.LexEvent, error) {
	if s.stack.Len() == 0 {
		return lexeme.LexEvent{}, errEOS
	}

	s.index++
	switch s.stack.Peek().Type() {
	case lexeme.LiteralBegin:
		if s.unfinishedLiteral {
			break
		}
		return s.processingFoundLexeme(lexeme.LiteralEnd)

	case lexeme.InlineAnnotationBegin:
		return s.processingFoundLexeme(lexeme.InlineAnnotationEnd)

	case lexeme.InlineAnnotationTextBegin:
		return s.processingFoundLexeme(lexeme.InlineAnnotationTextEnd)

	case lexeme.MultiLineAnnotationBegin:
		return s.processingFoundLexeme(lexeme.MultiLineAnnotationEnd)

	case lexeme.MultiLineAnnotationTextBegin:
		return s.processingFoundLexeme(lexeme.MultiLineAnnotationTextEnd)
	}

	err := errors.NewDocumentError(s.file, errors.ErrUnexpectedEOF)
	err.SetIndex(s.dataSize - 1)
	return lexeme.LexEvent{}, err
}

// stateBegin first state of the scanner.
// Expects open square brace as the start of the enum values.
func (s *scanner) stateBegin(c byte) (state, error) {
	if bytes.IsBlank(c) {
		return scanSkip, nil
	}

	if c != '[' {
		err := errors.NewDocumentError(s.file, errors.ErrEnumArrayExpected)
		err.SetIndex(s.index - 1)
		return scanSkip, err
	}

	s.found(lexeme.ArrayBegin)
	s.step = s.stateFoundArrayItemBeginOrEmpty
	return scanSkip, nil
}

func (s *scanner) stateFoundArrayItemBeginOrEmpty(c byte) (state, error) {
	if bytes.IsNewLine(c) {
		if s.annotation {
			return scanSkip, s.newDocumentErrorAtCharacter("inside inline annotation")
		}
		s.found(lexeme.NewLine)
		return scanSkip, nil
	}

	if c == ']' {
		return s.stateFoundArrayEnd()
	}

	r, err := s.stateBeginArrayItemOrEmpty(c)
	if err != nil {
		return scanSkip, err
	}
	if r == scanBeginLiteral {
		s.found(lexeme.ArrayItemBegin)
		s.found(lexeme.LiteralBegin)
	}
	return r, nil
}

func (s *scanner) stateFoundArrayItemBegin(c byte) (state, error) {
	r, err := s.stateBeginValue(c)
	if err != nil {
		return scanSkip, err
	}

	if r == scanBeginLiteral {
		s.found(lexeme.ArrayItemBegin)
		s.found(lexeme.LiteralBegin)
	}
	return r, nil
}

func (s *scanner) stateBeginValue(c byte) (state, error) { //nolint:gocyclo // It's okay.
	if bytes.IsNewLine(c) {
		if s.annotation {
			return scanSkip, s.newDocumentErrorAtCharacter("inside inline annotation")
		}
		s.found(lexeme.NewLine)
		return scanSkip, nil
	}
	if bytes.IsBlank(c) {
		return scanSkip, nil
	}
	if s.isAnnotationStart(c) {
		return scanSkip, s.switchToAnnotation()
	}
	switch c {
	case '"':
		s.step = s.stateInString
		s.unfinishedLiteral = true
		return scanBeginLiteral, nil
	case '-':
		s.step = s.stateNeg
		s.unfinishedLiteral = true
		return scanBeginLiteral, nil
	case '0': // beginning of 0.123
		s.step = s.state0
		return scanBeginLiteral, nil
	case 't': // beginning of true
		s.step = s.stateT
		s.unfinishedLiteral = true
		return scanBeginLiteral, nil
	case 'f': // beginning of false
		s.step = s.stateF
		s.unfinishedLiteral = true
		return scanBeginLiteral, nil
	case 'n': // beginning of null
		s.step = s.stateN
		s.unfinishedLiteral = true
		return scanBeginLiteral, nil
	}
	if '1' <= c && c <= '9' { // beginning of 1234.5
		s.step = s.state1
		return scanBeginLiteral, nil
	}
	return scanSkip, s.newDocumentErrorAtCharacter("looking for beginning of value")
}

// After reading `[`.
func (s *scanner) stateBeginArrayItemOrEmpty(c byte) (state, error) {
	if c == ']' {
		return s.stateFoundArrayEnd()
	}
	return s.stateBeginValue(c)
}

func (s *scanner) stateEndValue(c byte) (state, error) {
	length := s.stack.Len()

	if length == 0 { // json ex `{} `
		s.step = s.stateEndTop
		return s.step(c)
	}

	t := s.stack.Peek().Type()

	if t == lexeme.LiteralBegin {
		s.found(lexeme.LiteralEnd)

		if err := s.validateValue(); err != nil {
			return scanSkip, err
		}

		if length == 1 { // json ex `123 `
			s.step = s.stateEndTop
			return s.step(c)
		}

		t = s.stack.Get(length - 2).Type()
	}

	if t == lexeme.ArrayItemBegin {
		s.found(lexeme.ArrayItemEnd)
		s.step = s.stateAfterArrayItem
		return s.step(c)
	}
	if s.lengthComputing && t == lexeme.InlineAnnotationBegin {
		s.annotation = false
		_ = s.stack.Pop()
		s.step = s.returnToStep.Pop()
		return s.step(c)
	}

	return scanSkip, s.newDocumentErrorAtCharacter("at the end of value")
}

func (s *scanner) validateValue() error {
	begin := s.stack.Peek().Begin()

	v := s.file.Content().Slice(begin, s.index-2)
	key := newEnumItem(v)
	if _, ok := s.uniqueValues[key]; ok {
		e := errors.Format(errors.ErrDuplicationInEnumRule, v.String())
		err := errors.NewDocumentError(s.file, e)
		err.SetIndex(begin)
		return err
	}
	s.uniqueValues[key] = struct{}{}
	return nil
}

func (s *scanner) stateAfterArrayItem(c byte) (state, error) {
	if bytes.IsNewLine(c) {
		if s.annotation {
			return scanSkip, s.newDocumentErrorAtCharacter("inside inline annotation")
		}
		s.found(lexeme.NewLine)
		return scanSkip, nil
	}
	if bytes.IsBlank(c) {
		return scanSkip, nil
	}
	if s.isAnnotationStart(c) {
		return scanSkip, s.switchToAnnotation()
	}
	if c == ',' {
		s.step = s.stateFoundArrayItemBegin
		return scanSkip, nil
	}
	if c == ']' {
		return s.stateFoundArrayEnd()
	}
	return scanSkip, s.newDocumentErrorAtCharacter("after array item")
}

func (s *scanner) stateFoundArrayEnd() (state, error) {
	s.found(lexeme.ArrayEnd)
	if s.stack.Len() == 0 {
		s.step = s.stateEndTop
	} else {
		s.step = s.stateEndValue
	}
	return scanSkip, nil
}

// stateEndTop is the state after finishing the top-level value,
// such as after reading `{}` or `[1,2,3]`.
// Only space characters should be seen now.
func (s *scanner) stateEndTop(c byte) (state, error) {
	switch {
	case bytes.IsNewLine(c):
		if s.annotation {
			return scanSkip, s.newDocumentErrorAtCharacter("inside inline annotation")
		}
		s.found(lexeme.NewLine)
		return scanSkip, nil

	case s.isAnnotationStart(c):
		return scanSkip, s.switchToAnnotation()

	case !bytes.IsBlank(c):
		if s.lengthComputing {
			if s.stack.Len() > 0 {
				// Looks like we have invalid schema, and we should keep scanning.
				s.hasTrailingCharacters = true
				return scanSkip, nil
			}
			s.found(lexeme.EndTop)
			return scanSkip, errEOS
		} else if !s.annotation {
			return scanSkip, s.newDocumentErrorAtCharacter("non-space byte after top-level value")
		}
	}

	if s.hasTrailingCharacters {
		s.found(lexeme.EndTop)
		return scanSkip, errEOS
	}
	return scanSkip, nil
}

// After reading `"`.
func (s *scanner) stateInString(c byte) (state, error) {
	switch c {
	case '"':
		s.step = s.stateEndValue
		s.unfinishedLiteral = false
		return scanSkip, nil
	case '\\':
		s.step = s.stateInStringEsc
		return scanSkip, nil
	}
	if c < 0x20 {
		return scanSkip, s.newDocumentErrorAtCharacter("in string literal")
	}
	return scanSkip, nil
}

// After reading `"\` during a quoted string.
func (s *scanner) stateInStringEsc(c byte) (state, error) {
	switch c {
	case 'b', 'f', 'n', 'r', 't', '\\', '/', '"':
		s.step = s.stateInString
		return scanSkip, nil
	case 'u':
		s.returnToStep.Push(s.stateInString)
		s.step = s.stateInStringEscU
		return scanSkip, nil
	}
	return scanSkip, s.newDocumentErrorAtCharacter("in string escape code")
}

// After reading `"\u` during a quoted string.
func (s *scanner) stateInStringEscU(c byte) (state, error) {
	if bytes.IsHexDigit(c) {
		s.step = s.stateInStringEscU1
		return scanSkip, nil
	}
	return scanSkip, s.newDocumentErrorAtCharacter("in \\u hexadecimal character escape")
}

// After reading `"\u1` during a quoted string.
func (s *scanner) stateInStringEscU1(c byte) (state, error) {
	if bytes.IsHexDigit(c) {
		s.step = s.stateInStringEscU12
		return scanSkip, nil
	}
	return scanSkip, s.newDocumentErrorAtCharacter("in \\u hexadecimal character escape")
}

// After reading `"\u12` during a quoted string.
func (s *scanner) stateInStringEscU12(c byte) (state, error) {
	if bytes.IsHexDigit(c) {
		s.step = s.stateInStringEscU123
		return scanSkip, nil
	}
	return scanSkip, s.newDocumentErrorAtCharacter("in \\u hexadecimal character escape")
}

// After reading `"\u123` during a quoted string.
func (s *scanner) stateInStringEscU123(c byte) (state, error) {
	if bytes.IsHexDigit(c) {
		s.step = s.returnToStep.Pop()
		return scanSkip, nil
	}
	return scanSkip, s.newDocumentErrorAtCharacter("in \\u hexadecimal character escape")
}

// After reading `-` during a number.
func (s *scanner) stateNeg(c byte) (state, error) {
	if c == '0' {
		s.step = s.state0
		s.unfinishedLiteral = false
		return scanSkip, nil
	}
	if '1' <= c && c <= '9' {
		s.step = s.state1
		s.unfinishedLiteral = false
		return scanSkip, nil
	}
	return scanSkip, s.newDocumentErrorAtCharacter("in numeric literal")
}

// After reading a non-zero integer during a number, such as after reading `1` or
// `100` but not `0`.
func (s *scanner) state1(c byte) (state, error) {
	if bytes.IsDigit(c) {
		s.step = s.state1
		return scanSkip, nil
	}
	return s.state0(c)
}

// After reading `0` during a number.
func (s *scanner) state0(c byte) (state, error) {
	if c == '.' {
		s.unfinishedLiteral = true
		s.step = s.stateDot
		return scanSkip, nil
	}
	if c == 'e' || c == 'E' {
		return scanSkip, s.newDocumentErrorAtCharacter(messageEIsNotAllowed)
	}
	return s.stateEndValue(c)
}

// After reading the integer and decimal point in a number, such as after reading `1.`.
func (s *scanner) stateDot(c byte) (state, error) {
	if bytes.IsDigit(c) {
		s.unfinishedLiteral = false
		s.step = s.stateDot0
		return scanSkip, nil
	}
	return scanSkip, s.newDocumentErrorAtCharacter("after decimal point in numeric literal")
}

// After reading the integer, decimal point, and subsequent digits of a number,
// such as after reading `3.14`.
func (s *scanner) stateDot0(c byte) (state, error) {
	if bytes.IsDigit(c) {
		return scanSkip, nil
	}
	if c == 'e' || c == 'E' {
		return scanSkip, s.newDocumentErrorAtCharacter(messageEIsNotAllowed)
	}
	return s.stateEndValue(c)
}

// After reading `t`.
func (s *scanner) stateT(c byte) (state, error) {
	if c == 'r' {
		s.step = s.stateTr
		return scanSkip, nil
	}
	return scanSkip, s.newDocumentErrorAtCharacter("in literal true (expecting 'r')")
}

// After reading `tr`.
func (s *scanner) stateTr(c byte) (state, error) {
	if c == 'u' {
		s.step = s.stateTru
		return scanSkip, nil
	}
	return scanSkip, s.newDocumentErrorAtCharacter("in literal true (expecting 'u')")
}

// After reading `tru`.
func (s *scanner) stateTru(c byte) (state, error) {
	if c == 'e' {
		s.step = s.stateEndValue
		s.unfinishedLiteral = false
		return scanSkip, nil
	}
	return scanSkip, s.newDocumentErrorAtCharacter("in literal true (expecting 'e')")
}

// After reading `f`.
func (s *scanner) stateF(c byte) (state, error) {
	if c == 'a' {
		s.step = s.stateFa
		return scanSkip, nil
	}
	return scanSkip, s.newDocumentErrorAtCharacter("in literal false (expecting 'a')")
}

// After reading `fa`.
func (s *scanner) stateFa(c byte) (state, error) {
	if c == 'l' {
		s.step = s.stateFal
		return scanSkip, nil
	}
	return scanSkip, s.newDocumentErrorAtCharacter("in literal false (expecting 'l')")
}

// After reading `fal`.
func (s *scanner) stateFal(c byte) (state, error) {
	if c == 's' {
		s.step = s.stateFals
		return scanSkip, nil
	}
	return scanSkip, s.newDocumentErrorAtCharacter("in literal false (expecting 's')")
}

// After reading `fals`.
func (s *scanner) stateFals(c byte) (state, error) {
	if c == 'e' {
		s.step = s.stateEndValue
		s.unfinishedLiteral = false
		return scanSkip, nil
	}
	return scanSkip, s.newDocumentErrorAtCharacter("in literal false (expecting 'e')")
}

// After reading `n`.
func (s *scanner) stateN(c byte) (state, error) {
	if c == 'u' {
		s.step = s.stateNu
		return scanSkip, nil
	}
	return scanSkip, s.newDocumentErrorAtCharacter("in literal null (expecting 'u')")
}

// After reading `nu`.
func (s *scanner) stateNu(c byte) (state, error) {
	if c == 'l' {
		s.step = s.stateNul
		return scanSkip, nil
	}
	return scanSkip, s.newDocumentErrorAtCharacter("in literal null (expecting 'l')")
}

// After reading `nul`.
func (s *scanner) stateNul(c byte) (state, error) {
	if c == 'l' {
		s.step = s.stateEndValue
		s.unfinishedLiteral = false
		return scanSkip, nil
	}
	return scanSkip, s.newDocumentErrorAtCharacter("in literal null (expecting 'l')")
}

func (s *scanner) stateAnyAnnotationStart(c byte) (st state, err error) {
	switch c {
	case '/':
		s.annotation = true
		s.found(lexeme.InlineAnnotationBegin)
		s.step = s.stateInlineAnnotation
	case '*':
		s.annotation = true
		s.found(lexeme.MultiLineAnnotationBegin)
		s.step = s.stateMultiLineAnnotation
	default:
		err = s.newDocumentErrorAtCharacter("after first slash")
	}
	return scanSkip, err
}

func (s *scanner) stateInlineAnnotation(c byte) (state, error) {
	if bytes.IsBlank(c) {
		return scanSkip, nil
	}

	s.found(lexeme.InlineAnnotationTextBegin)
	s.step = s.stateInlineAnnotationText
	return s.step(c)
}

func (s *scanner) stateMultiLineAnnotation(c byte) (state, error) {
	if bytes.IsNewLine(c) {
		s.found(lexeme.NewLine)
		return scanSkip, nil
	}
	if bytes.IsBlank(c) {
		return scanSkip, nil
	}
	s.found(lexeme.MultiLineAnnotationTextBegin)
	s.step = s.stateMultiLineAnnotationText
	return s.step(c)
}

func (s *scanner) stateMultiLineAnnotationText(c byte) (state, error) {
	if c == '*' && s.index < s.dataSize && s.data[s.index] == '/' {
		s.found(lexeme.MultiLineAnnotationTextEnd)
		s.step = s.stateMultiLineAnnotationEnd
	}
	return scanSkip, nil
}

func (s *scanner) stateMultiLineAnnotationEnd(c byte) (state, error) {
	if c != '/' {
		return scanSkip, s.newDocumentErrorAtCharacter("in multi-line annotation after \"*\" character")
	}
	// after *
	s.found(lexeme.MultiLineAnnotationEnd)
	s.step = s.returnToStep.Pop()
	s.annotation = false
	return scanSkip, nil
}

func (s *scanner) stateInlineAnnotationText(c byte) (state, error) {
	if bytes.IsNewLine(c) {
		s.found(lexeme.InlineAnnotationTextEnd)
		s.found(lexeme.InlineAnnotationEnd)
		s.found(lexeme.NewLine)
		s.step = s.returnToStep.Pop()
		s.annotation = false
	}
	return scanSkip, nil
}

const messageEIsNotAllowed = "isn't allowed 'cause not obvious it's a float or an integer"

func (s *scanner) found(lexType lexeme.LexEventType) {
	s.finds = append(s.finds, lexType)
}

func (s *scanner) shiftFound() (lexeme.LexEventType, error) {
	length := len(s.finds)
	if length == 0 {
		return 0, stdErrors.New("empty set of found lexical event")
	}
	lexType := s.finds[0]
	copy(s.finds[0:], s.finds[1:])
	s.finds = s.finds[:length-1]
	return lexType, nil
}

func (s *scanner) newDocumentErrorAtCharacter(context string) errors.DocumentError {
	// Make runes (utf8 symbols) from current index to last of slice s.data.
	// Get first rune. Then make string with format ' symbol '
	runes := []rune(string(s.data[(s.index - 1):]))
	e := errors.Format(errors.ErrInvalidCharacter, string(runes[0]), context)
	err := errors.NewDocumentError(s.file, e)
	err.SetIndex(s.index - 1)
	return err
}

func (s *scanner) processingFoundLexeme(lexType lexeme.LexEventType) (lexeme.LexEvent, error) {
	i := s.index - 1
	switch {
	case lexType == lexeme.NewLine || lexType == lexeme.EndTop:
		return lexeme.NewLexEvent(lexType, i, i, s.file), nil

	case lexType.IsOpening():
		// `[`, `"` or literal first character (ex: `1` in `123`).
		lex := lexeme.NewLexEvent(lexType, i, i, s.file)
		s.stack.Push(lex)
		return lex, nil
	}

	return s.processingFoundLexemeClosingTag(lexType, i)
}

func (s *scanner) processingFoundLexemeClosingTag(lexType lexeme.LexEventType, i bytes.Index) (lexeme.LexEvent, error) {
	pair := s.stack.Pop()
	pairType := pair.Type()

	switch {
	case isNonScalarPair(pairType, lexType):
		return lexeme.NewLexEvent(lexType, pair.Begin(), i, s.file), nil

	case isScalarPair(pairType, lexType):
		if lexType == lexeme.MixedValueEnd && s.data[i-1] == ' ' {
			i--
		}
		return lexeme.NewLexEvent(lexType, pair.Begin(), i-1, s.file), nil
	}
	return lexeme.LexEvent{}, stdErrors.New("incorrect ending of the lexical event")
}

func isNonScalarPair(pairType, lexType lexeme.LexEventType) bool {
	return (pairType == lexeme.ArrayBegin && lexType == lexeme.ArrayEnd) ||
		(pairType == lexeme.MultiLineAnnotationBegin && lexType == lexeme.MultiLineAnnotationEnd)
}

func isScalarPair(pairType, lexType lexeme.LexEventType) bool { //nolint:gocyclo // We can't do anything about it.
	return (pairType == lexeme.LiteralBegin && lexType == lexeme.LiteralEnd) ||
		(pairType == lexeme.ArrayItemBegin && lexType == lexeme.ArrayItemEnd) ||
		(pairType == lexeme.MultiLineAnnotationTextBegin && lexType == lexeme.MultiLineAnnotationTextEnd) ||
		(pairType == lexeme.InlineAnnotationTextBegin && lexType == lexeme.InlineAnnotationTextEnd) ||
		(pairType == lexeme.InlineAnnotationBegin && lexType == lexeme.InlineAnnotationEnd) ||
		(pairType == lexeme.MixedValueBegin && lexType == lexeme.MixedValueEnd)
}

func (*scanner) isAnnotationStart(c byte) bool {
	return c == '/'
}

func (s *scanner) switchToAnnotation() error {
	if s.annotation {
		return s.newDocumentErrorAtCharacter("inside inline annotation")
	}
	s.returnToStep.Push(s.step)
	s.step = s.stateAnyAnnotationStart
	return nil
}
