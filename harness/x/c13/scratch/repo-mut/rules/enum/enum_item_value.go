package enum

import (
	jbytes "github.com/jsightapi/jsight-schema-go-library/bytes"
	jjson "github.com/jsightapi/jsight-schema-go-library/internal/json"
)

type enumItemValue struct {
	value    string
	jsonType jjson.Type
}

func newEnumItem(b jbytes.Bytes) enumItemValue {
	b = b.TrimSpaces()
	t := jjson.Guess(b).JsonType()
	if t == jjson.TypeString {
		b = b.Unquote()
	}
	return enumItemValue{
		value:    b.String(),
		jsonType: t,
	}
}
