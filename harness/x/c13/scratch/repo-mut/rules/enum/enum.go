package enum

import (
	stdErrors "errors"

	jschema "github.com/jsightapi/jsight-schema-go-library"
	"github.com/jsightapi/jsight-schema-go-library/bytes"
	"github.com/jsightapi/jsight-schema-go-library/fs"
	"github.com/jsightapi/jsight-schema-go-library/internal/lexeme"
	"github.com/jsightapi/jsight-schema-go-library/internal/sync"
)

// The Enum rule.
type Enum struct {
	file   *fs.File
	values []Value

	compileOnce       sync.ErrOnce
	computeLengthOnce sync.ErrOnceWithValue[uint]
	buildASTNodeOnce  sync.ErrOnceWithValue[jschema.ASTNode]
}

// Value represents single enum's value.
type Value struct {
	// Comment value's comment.
	Comment string

	// Type value type.
	Type jschema.SchemaType

	// Value enum value.
	Value bytes.Bytes
}

var _ jschema.Rule = (*Enum)(nil)

// New creates new Enum rule with specified name and content.
func New[T fs.FileContent](name string, content T) *Enum {
	return FromFile(fs.NewFile(name, content))
}

// FromFile creates Enum rule from specified file.
func FromFile(f *fs.File) *Enum {
	return &Enum{file: f}
}

func (e *Enum) Len() (uint, error) {
	return e.computeLengthOnce.Do(func() (uint, error) {
		return newScanner(e.file, scannerComputeLength).Length()
	})
}

// Check checks that enum is valid.
func (e *Enum) Check() error {
	return e.compile()
}

func (e *Enum) GetAST() (jschema.ASTNode, error) {
	if err := e.compile(); err != nil {
		return jschema.ASTNode{}, err
	}

	return e.buildASTNode()
}

func (e *Enum) buildASTNode() (jschema.ASTNode, error) {
	return e.buildASTNodeOnce.Do(func() (jschema.ASTNode, error) {
		an := jschema.ASTNode{
			TokenType:  jschema.TokenTypeArray,
			SchemaType: string(jschema.SchemaTypeEnum),
		}

		if len(e.values) == 0 {
			return an, nil
		}

		an.Children = make([]jschema.ASTNode, 0, len(e.values))

		for _, v := range e.values {
			n := jschema.ASTNode{
				Value:   v.Value.String(),
				Comment: v.Comment,
			}

			if v.Value == nil {
				n.TokenType = jschema.TokenTypeNull
				n.SchemaType = string(jschema.SchemaTypeComment)
			} else {
				n.TokenType = v.Type.ToTokenType()
				n.SchemaType = string(v.Type)
			}

			an.Children = append(an.Children, n)
		}

		return an, nil
	})
}

// Values returns a list of values defined in this enum.
func (e *Enum) Values() ([]Value, error) {
	if err := e.compile(); err != nil {
		return nil, err
	}
	return e.values, nil
}

func (e *Enum) compile() error {
	return e.compileOnce.Do(func() error {
		return e.doCompile()
	})
}

func (e *Enum) doCompile() (err error) {
	scan := newScanner(e.file)

	collectLiteral := false
	inAnnotation := false
	for {
		lex, err := scan.Next()
		if stdErrors.Is(err, errEOS) {
			break
		}
		if err != nil {
			return err
		}

		// Collect enum values.
		switch lex.Type() {
		case lexeme.LiteralEnd:
			collectLiteral = true
			if err := e.handleLiteralEnd(lex); err != nil {
				return err
			}

		case lexeme.NewLine:
			if !inAnnotation {
				collectLiteral = false
			}

		case lexeme.MultiLineAnnotationTextBegin:
			inAnnotation = true

		case lexeme.InlineAnnotationTextEnd, lexeme.MultiLineAnnotationTextEnd:
			e.handleEndOfComment(lex, collectLiteral)
			inAnnotation = false
		}
	}
	return nil
}

func (e *Enum) handleLiteralEnd(lex lexeme.LexEvent) error {
	v := lex.Value()
	t, err := jschema.GuessSchemaType(v)
	if err != nil {
		return err
	}

	e.values = append(e.values, Value{
		Value: v,
		Type:  t,
	})
	return nil
}

func (e *Enum) handleEndOfComment(lex lexeme.LexEvent, collectLiteral bool) {
	comment := lex.Value().TrimSpaces().String()
	if collectLiteral {
		e.values[len(e.values)-1].Comment = comment
	} else {
		e.values = append(e.values, Value{
			Comment: comment,
			Type:    jschema.SchemaTypeComment,
		})
	}
}
