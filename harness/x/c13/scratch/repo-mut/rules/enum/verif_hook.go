//go:build verif

package enum

import (
	stdErrors "errors"
	"fmt"
	"strings"

	"github.com/jsightapi/jsight-schema-go-library/errors"
	"github.com/jsightapi/jsight-schema-go-library/fs"
)

func verifErrStr(err error) string {
	var de errors.DocumentError
	if stdErrors.As(err, &de) {
		return fmt.Sprintf("ERR %d %d", de.ErrCode(), de.Position())
	}
	return "OTHER " + err.Error()
}

// VerifEnumEvents returns the lexical events of the enum-rule scanner in a
// canonical form. Verification hook, build tag verif.
func VerifEnumEvents(content []byte) (out string) {
	defer func() {
		if r := recover(); r != nil {
			out = fmt.Sprintf("CRASH %v", r)
		}
	}()
	s := newScanner(fs.NewFile("x", content))
	var sb []string
	for {
		lex, err := s.Next()
		if stdErrors.Is(err, errEOS) {
			break
		}
		if err != nil {
			return verifErrStr(err)
		}
		sb = append(sb, fmt.Sprintf("%s[%d:%d]", lex.Type().String(), lex.Begin(), lex.End()))
	}
	return strings.Join(sb, " ")
}

// VerifEnumLen returns the result of the enum-rule scanner's length mode.
func VerifEnumLen(content []byte) (out string) {
	defer func() {
		if r := recover(); r != nil {
			out = fmt.Sprintf("CRASH %v", r)
		}
	}()
	l, err := newScanner(fs.NewFile("x", content), scannerComputeLength).Length()
	if err != nil {
		return verifErrStr(err)
	}
	return fmt.Sprintf("LEN %d", l)
}
