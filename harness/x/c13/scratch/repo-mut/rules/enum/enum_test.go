package enum

import (
	"testing"

	"github.com/stretchr/testify/assert"
	"github.com/stretchr/testify/require"

	jschema "github.com/jsightapi/jsight-schema-go-library"
)

func TestEnum_Len(t *testing.T) {
	t.Run("positive", func(t *testing.T) {
		cc := map[string]uint{
			"[]":               2,
			"[]   \t  \n  \r ": 2,
			`[
				42,
				3.14,
				"foo",
				true,
				false,
				null
			]`: 65,
			"[42] something": 4,
			"":               0,
			`[
	// Interline comment 1
	1, // Comment for 1
	2, // Comment for 2

	// Interline comment 2
	3, // Comment for 3
	4  // Comment for 4
]`: 136,
			`[
		/* My
		   Pets */
		"CAT", /* My
		          Cat */
		"DOG", // Dog
		"PIG", // Pig

		// Wild animals
		"WOLF", // Wolf
		"LION", // Lion
		"TIGER" // Tiger
]`: 164,

			`["\u0061"]`: 10,
		}

		for given, expected := range cc {
			t.Run(given, func(t *testing.T) {
				actual, err := New("", given).Len()
				require.NoError(t, err)
				assert.Equal(t, expected, actual)
			})
		}
	})

	t.Run("negative", func(t *testing.T) {
		cc := map[string]string{
			`ERROR (code 1600): An array was expected as a value for the "enum"
	in line 1 on file 
	> 42
	--^`: "42",

			`ERROR (code 1600): An array was expected as a value for the "enum"
	in line 1 on file 
	> 42 [] foo
	--^`: "42 [] foo",

			`ERROR (code 303): Unexpected end of file
	in line 1 on file 
	> [
	--^`: "[",
		}

		for expected, given := range cc {
			t.Run(expected, func(t *testing.T) {
				_, err := New("", given).Len()
				assert.EqualError(t, err, expected)
			})
		}
	})
}

func TestEnum_Check(t *testing.T) {
	t.Run("positive", func(t *testing.T) {
		testList := []string{
			"[]",
			"[1]",
			"[1,2]",
			"[1,2,3]",
			"   [1,2,3]   ",
			"   [1,  2,  3]   ",
			"\n[1,2]",
			"[\n1,2]",
			"[1\n,2]",
			"[1,\n2]",
			"[1,2\n]",
			"[1,2]\n",
			`["aaa", "bbb", "ccc"]`,
			`[123, 45.67, "abc", true, false, null]`,
			`[
	123,
	45.67,
	"abc",
	true,
	false,
	null
]`,
			`[
	// Interline comment 1
	1, // Comment for 1
	2, // Comment for 2

	// Interline comment 2
	3, // Comment for 3
	4  // Comment for 4
]`,
			`[
		/* My
		   Pets */
		"CAT", /* My
		          Cat */
		"DOG", // Dog
		"PIG", // Pig

		// Wild animals
		"WOLF", // Wolf
		"LION", // Lion
		"TIGER" // Tiger
]`,
			`[3.14, 3.146]`,
			`["foo", "Foo"]`,
			`["a", "\u0062"]`,
			`["a", "\\u0061"]`,
		}

		for _, enum := range testList {
			t.Run(enum, func(t *testing.T) {
				err := New("enum", enum).Check()
				require.NoError(t, err)
			})
		}
	})

	t.Run("negative", func(t *testing.T) {
		cc := map[string]string{
			"123": `ERROR (code 1600): An array was expected as a value for the "enum"
	in line 1 on file enum
	> 123
	--^`,
			`"abc"`: `ERROR (code 1600): An array was expected as a value for the "enum"
	in line 1 on file enum
	> "abc"
	--^`,
			"true": `ERROR (code 1600): An array was expected as a value for the "enum"
	in line 1 on file enum
	> true
	--^`,
			"false": `ERROR (code 1600): An array was expected as a value for the "enum"
	in line 1 on file enum
	> false
	--^`,
			"null": `ERROR (code 1600): An array was expected as a value for the "enum"
	in line 1 on file enum
	> null
	--^`,
			"{}": `ERROR (code 1600): An array was expected as a value for the "enum"
	in line 1 on file enum
	> {}
	--^`,
			"[1,2,3] xxx": `ERROR (code 301): Invalid character "x" non-space byte after top-level value
	in line 1 on file enum
	> [1,2,3] xxx
	----------^`,
			"xxx [1,2,3]": `ERROR (code 1600): An array was expected as a value for the "enum"
	in line 1 on file enum
	> xxx [1,2,3]
	--^`,
			"[1,]": `ERROR (code 301): Invalid character "]" looking for beginning of value
	in line 1 on file enum
	> [1,]
	-----^`,
			"[,1]": `ERROR (code 301): Invalid character "," looking for beginning of value
	in line 1 on file enum
	> [,1]
	---^`,
			"[ {} ]": `ERROR (code 301): Invalid character "{" looking for beginning of value
	in line 1 on file enum
	> [ {} ]
	----^`,
			"[ [] ]": `ERROR (code 301): Invalid character "[" looking for beginning of value
	in line 1 on file enum
	> [ [] ]
	----^`,

			"[1, 1]": `ERROR (code 810): 1 value duplicates in "enum"
	in line 1 on file enum
	> [1, 1]
	------^`,

			"[3.14, 3.14]": `ERROR (code 810): 3.14 value duplicates in "enum"
	in line 1 on file enum
	> [3.14, 3.14]
	---------^`,

			`["foo", "bar", "foo"]`: `ERROR (code 810): "foo" value duplicates in "enum"
	in line 1 on file enum
	> ["foo", "bar", "foo"]
	-----------------^`,

			"[true, true]": `ERROR (code 810): true value duplicates in "enum"
	in line 1 on file enum
	> [true, true]
	---------^`,

			"[null, null]": `ERROR (code 810): null value duplicates in "enum"
	in line 1 on file enum
	> [null, null]
	---------^`,

			"[   1\t,\n\n  1\t]": `ERROR (code 810): 1 value duplicates in "enum"
	in line 3 on file enum
	> 1	]
	--^`,

			`["a", "\u0061"]`: `ERROR (code 810): "\u0061" value duplicates in "enum"
	in line 1 on file enum
	> ["a", "\u0061"]
	--------^`,
		}

		for enum, expected := range cc {
			t.Run(enum, func(t *testing.T) {
				err := New("enum", enum).Check()
				assert.EqualError(t, err, expected)
			})
		}
	})
}

func TestEnum_GetAST(t *testing.T) {
	t.Run("positive", func(t *testing.T) {
		actual, err := New("", `[
	// first comment
	"foo",
	42, // 42 comment
	3.14,
	true,
	false, // false comment
	// before null comment
	null // null comment
	// last comment
]`).
			GetAST()

		require.NoError(t, err)
		assert.Equal(t, jschema.ASTNode{
			TokenType:  jschema.TokenTypeArray,
			SchemaType: string(jschema.SchemaTypeEnum),
			Children: []jschema.ASTNode{
				{
					TokenType:  jschema.TokenTypeNull,
					SchemaType: string(jschema.SchemaTypeComment),
					Comment:    "first comment",
				},
				{
					TokenType:  jschema.TokenTypeString,
					SchemaType: string(jschema.SchemaTypeString),
					Value:      `"foo"`,
				},
				{
					TokenType:  jschema.TokenTypeNumber,
					SchemaType: string(jschema.SchemaTypeInteger),
					Value:      "42",
					Comment:    "42 comment",
				},
				{
					TokenType:  jschema.TokenTypeNumber,
					SchemaType: string(jschema.SchemaTypeFloat),
					Value:      "3.14",
				},
				{
					TokenType:  jschema.TokenTypeBoolean,
					SchemaType: string(jschema.SchemaTypeBoolean),
					Value:      "true",
				},
				{
					TokenType:  jschema.TokenTypeBoolean,
					SchemaType: string(jschema.SchemaTypeBoolean),
					Value:      "false",
					Comment:    "false comment",
				},
				{
					TokenType:  jschema.TokenTypeNull,
					SchemaType: string(jschema.SchemaTypeComment),
					Comment:    "before null comment",
				},
				{
					TokenType:  jschema.TokenTypeNull,
					SchemaType: string(jschema.SchemaTypeNull),
					Value:      "null",
					Comment:    "null comment",
				},
				{
					TokenType:  jschema.TokenTypeNull,
					SchemaType: string(jschema.SchemaTypeComment),
					Comment:    "last comment",
				},
			},
		}, actual)
	})
}

func TestEnum_Values(t *testing.T) {
	t.Run("positive", func(t *testing.T) {
		cc := map[string][]Value{
			`[
	"foo",
	42,
	3.14,
	true,
	false,
	null
]`: {
				{Value: []byte(`"foo"`), Type: jschema.SchemaTypeString},
				{Value: []byte("42"), Type: jschema.SchemaTypeInteger},
				{Value: []byte("3.14"), Type: jschema.SchemaTypeFloat},
				{Value: []byte("true"), Type: jschema.SchemaTypeBoolean},
				{Value: []byte("false"), Type: jschema.SchemaTypeBoolean},
				{Value: []byte("null"), Type: jschema.SchemaTypeNull},
			},

			`[
	// Interline comment 1
	"foo", // Foo comment
	"bar", // Bar comment

	// Interline comment 2
	"fizz", // Fizz comment
	"buzz"  // Buzz comment

	// Interline comment 3
]`: {
				{Comment: "Interline comment 1", Type: jschema.SchemaTypeComment},
				{Value: []byte(`"foo"`), Type: jschema.SchemaTypeString, Comment: "Foo comment"},
				{Value: []byte(`"bar"`), Type: jschema.SchemaTypeString, Comment: "Bar comment"},
				{Comment: "Interline comment 2", Type: jschema.SchemaTypeComment},
				{Value: []byte(`"fizz"`), Type: jschema.SchemaTypeString, Comment: "Fizz comment"},
				{Value: []byte(`"buzz"`), Type: jschema.SchemaTypeString, Comment: "Buzz comment"},
				{Comment: "Interline comment 3", Type: jschema.SchemaTypeComment},
			},

			`[
		/* My
		   Pets */
		"CAT", /* My
		          Cat */
		"DOG", // Dog
		"PIG", // Pig

		// Wild animals
		"WOLF", // Wolf
		"LION", // Lion
		"TIGER" // Tiger
]`: {
				{Comment: "My\n\t\t   Pets", Type: jschema.SchemaTypeComment},
				{Value: []byte(`"CAT"`), Type: jschema.SchemaTypeString, Comment: "My\n\t\t          Cat"},
				{Value: []byte(`"DOG"`), Type: jschema.SchemaTypeString, Comment: "Dog"},
				{Value: []byte(`"PIG"`), Type: jschema.SchemaTypeString, Comment: "Pig"},
				{Comment: "Wild animals", Type: jschema.SchemaTypeComment},
				{Value: []byte(`"WOLF"`), Type: jschema.SchemaTypeString, Comment: "Wolf"},
				{Value: []byte(`"LION"`), Type: jschema.SchemaTypeString, Comment: "Lion"},
				{Value: []byte(`"TIGER"`), Type: jschema.SchemaTypeString, Comment: "Tiger"},
			},
		}

		for given, expected := range cc {
			t.Run(given, func(t *testing.T) {
				actual, err := New("", given).Values()

				require.NoError(t, err)
				assert.Equal(t, expected, actual)
			})
		}
	})

	t.Run("negative", func(t *testing.T) {
		_, err := New("", "123").Values()
		assert.EqualError(t, err, `ERROR (code 1600): An array was expected as a value for the "enum"
	in line 1 on file 
	> 123
	--^`)
	})
}
