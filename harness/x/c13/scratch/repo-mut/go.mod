module github.com/jsightapi/jsight-schema-go-library

go 1.19

require (
	github.com/davecgh/go-spew v1.1.0
	github.com/lucasjones/reggen v0.0.0-20200904144131-37ba4fa293bb
	github.com/stretchr/testify v1.7.0
	golang.org/x/text v0.3.7
)

require (
	github.com/pmezard/go-difflib v1.0.0 // indirect
	github.com/stretchr/objx v0.1.0 // indirect
	gopkg.in/yaml.v3 v3.0.0-20200313102051-9f266ea9e77c // indirect
)
