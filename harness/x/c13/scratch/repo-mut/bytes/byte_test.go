package bytes

import (
	"bytes"
	"testing"

	"github.com/stretchr/testify/assert"
)

func TestIsBlank(t *testing.T) {
	testByteIsserFunction(t, IsBlank, ' ', '\t', '\n', '\r')
}

func TestIsSpace(t *testing.T) {
	testByteIsserFunction(t, IsSpace, ' ', '\t')
}

func TestIsNewLine(t *testing.T) {
	testByteIsserFunction(t, IsNewLine, '\n', '\r')
}

func TestIsDigit(t *testing.T) {
	testByteIsserFunction(t, IsDigit, '0', '1', '2', '3', '4', '5', '6', '7', '8', '9')
}

func TestIsHexDigit(t *testing.T) {
	testByteIsserFunction(t, IsHexDigit,
		'0', '1', '2', '3', '4', '5', '6', '7', '8', '9',
		'a', 'b', 'c', 'd', 'e', 'f',
		'A', 'B', 'C', 'D', 'E', 'F',
	)
}

func TestIsValidUserTypeNameByte(t *testing.T) {
	testByteIsserFunction(t, IsValidUserTypeNameByte,
		// Allowed special symbols.
		'-', '_',

		// Any english lower letters.
		'a', 'b', 'c', 'd', 'e', 'f', 'g', 'h', 'i', 'j', 'k', 'l', 'm', 'n', 'o',
		'p', 'q', 'r', 's', 't', 'u', 'v', 'w', 'x', 'y', 'z',

		// Any english capital letters.
		'A', 'B', 'C', 'D', 'E', 'F', 'G', 'H', 'I', 'J', 'K', 'L', 'M', 'N', 'O',
		'P', 'Q', 'R', 'S', 'T', 'U', 'V', 'W', 'X', 'Y', 'Z',

		// Any digits.
		'0', '1', '2', '3', '4', '5', '6', '7', '8', '9',
	)
}

func TestQuoteChar(t *testing.T) {
	cc := map[byte]string{
		'\'': "'\\''",
		'"':  `'"'`,
		'c':  "'c'",
	}

	for given, expected := range cc {
		t.Run(string(given), func(t *testing.T) {
			actual := QuoteChar(given)
			assert.Equal(t, expected, actual)
		})
	}
}

func BenchmarkQuoteChar(b *testing.B) {
	cc := []byte{
		'\'',
		'"',
		'c',
	}

	b.ReportAllocs()

	for _, c := range cc {
		b.Run(string(c), func(b *testing.B) {
			for i := 0; i < b.N; i++ {
				QuoteChar(c)
			}
		})
	}
}

func testByteIsserFunction(t *testing.T, tested func(byte) bool, valid ...byte) {
	t.Helper()

	for c := byte(0); c < 255; c++ {
		t.Run(string(c), func(t *testing.T) {
			actual := tested(c)
			assert.Equal(t, bytes.Contains(valid, []byte{c}), actual)
		})
	}
}
