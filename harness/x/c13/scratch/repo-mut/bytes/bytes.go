package bytes

import (
	"bytes"
	"errors"
	"fmt"
	"math"
)

type Index uint
type Bytes []byte

func (b Bytes) Equals(bb Bytes) bool {
	return bytes.Equal(b, bb)
}

func (b Bytes) Slice(begin, end Index) Bytes {
	return b[begin : end+1]
}

// InQuotes the function is only needed in order not to modify the library function unquoteBytes()
func (b Bytes) InQuotes() bool {
	return len(b) >= 2 && b[0] == '"' && b[len(b)-1] == '"'
}

func (b Bytes) Unquote() Bytes {
	if b.InQuotes() {
		bb, ok := unquoteBytes(b)
		if !ok {
			return b // Can this happen?
		}
		return bb
	}
	return b
}

func (b Bytes) TrimSquareBrackets() Bytes {
	lastCharIndex := len(b) - 1
	if lastCharIndex > 0 && b[0] == '[' && b[lastCharIndex] == ']' {
		return b[1:lastCharIndex]
	}
	return b
}

func (b Bytes) TrimSpaces() Bytes {
	blen := len(b)

	left := 0
	right := blen - 1

	for ; left < blen && IsBlank(b[left]); left++ {
	}

	if left >= blen {
		return Bytes{}
	}

	for ; right > 0 && IsBlank(b[right]); right-- {
	}

	return b[left : right+1]
}

func (b Bytes) TrimSpacesFromLeft() Bytes {
	for i, c := range b {
		if !IsBlank(c) {
			return b[i:]
		}
	}
	return b
}

func (b Bytes) CountSpacesFromLeft() int {
	for i, c := range b {
		if !IsBlank(c) {
			return i
		}
	}
	return 0
}

// OneOf checks current bytes sequence equal to at least one of specified strings.
func (b Bytes) OneOf(ss ...string) bool {
	// It's the fastest solution.
	for _, s := range ss {
		if string(b) == s {
			return true
		}
	}
	return false
}

func (b Bytes) ParseBool() (bool, error) {
	switch string(b) {
	case "true":
		return true, nil
	case "false":
		return false, nil
	}
	return false, errors.New("invalid bool value")
}

func (b Bytes) ParseUint() (uint, error) {
	if len(b) == 0 {
		return 0, errors.New("not enough data in ParseUint")
	}

	var u uint
	for _, c := range b {
		if !IsDigit(c) {
			return 0, fmt.Errorf("invalid byte (%s) found in ParseUint (%s)", string(c), b)
		}
		u = u*10 + uint(c-'0')
	}
	return u, nil
}

func (b Bytes) ParseInt() (int, error) {
	var (
		negative bool
		u        uint
		err      error
	)

	if b[0] == '-' {
		negative = true
		u, err = b[1:].ParseUint()
	} else {
		u, err = b.ParseUint()
	}

	if err != nil {
		return 0, err
	}

	if u > math.MaxInt {
		return 0, errors.New("too much data for int")
	}

	i := int(u)
	if negative {
		return -i, nil
	}
	return i, nil
}

func (b Bytes) IsUserTypeName() bool {
	if len(b) < 2 || b[0] != '@' {
		return false
	}
	for _, c := range b[1:] {
		if !IsValidUserTypeNameByte(c) {
			return false
		}
	}
	return true
}

func (b Bytes) String() string {
	return string(b)
}

func (b Bytes) Len() int {
	return len(b)
}

func (b Bytes) LineFrom(start Index) (Bytes, error) {
	l := Index(len(b))
	if start > l {
		return b, errors.New("can't get a line from a slice")
	}
	for i := start; i < l; i++ {
		if b[i] == '\n' {
			return b[start:i], nil
		}
	}
	return b[start:], nil
}
