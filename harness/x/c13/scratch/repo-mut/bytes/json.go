package bytes

import (
	"unicode"
	"unicode/utf16"
	"unicode/utf8"
)

// unquoteBytes converts a quoted JSON string literal s into an actual string.
// The copy of the function from the encoding/json package.
func unquoteBytes(s []byte) (t []byte, ok bool) { //nolint:gocyclo // It's ok.
	if len(s) < 2 || s[0] != '"' || s[len(s)-1] != '"' {
		return
	}
	s = s[1 : len(s)-1]

	// Check for unusual characters. If there are none,
	// then no unquoting is needed, so return a slice of the
	// original bytes.
	r := 0
	for r < len(s) {
		c := s[r]
		if c == '\\' || c == '"' || c < ' ' {
			break
		}
		if c < utf8.RuneSelf {
			r++
			continue
		}
		rr, size := utf8.DecodeRune(s[r:])
		if rr == utf8.RuneError && size == 1 {
			break
		}
		r += size
	}
	if r == len(s) {
		return s, true
	}

	b := make([]byte, len(s)+2*utf8.UTFMax)
	w := copy(b, s[0:r])
	for r < len(s) {
		// Out of room? Can only happen if s is full of
		// malformed UTF-8 and we're replacing each
		// byte with RuneError.
		if w >= len(b)-2*utf8.UTFMax {
			nb := make([]byte, (len(b)+utf8.UTFMax)*2)
			copy(nb, b[0:w])
			b = nb
		}
		switch c := s[r]; {
		case c == '\\':
			r++
			if r >= len(s) {
				return
			}
			switch s[r] {
			default:
				return
			case '"', '\\', '/', '\'':
				b[w] = s[r]
				r++
				w++
			case 'b':
				b[w] = '\b'
				r++
				w++
			case 'f':
				b[w] = '\f'
				r++
				w++
			case 'n':
				b[w] = '\n'
				r++
				w++
			case 'r':
				b[w] = '\r'
				r++
				w++
			case 't':
				b[w] = '\t'
				r++
				w++
			case 'u':
				r--
				rr := getu4(s[r:])
				if rr < 0 {
					return
				}
				r += 6
				if utf16.IsSurrogate(rr) {
					rr1 := getu4(s[r:])
					if dec := utf16.DecodeRune(rr, rr1); dec != unicode.ReplacementChar {
						// A valid pair; consume.
						r += 6
						w += utf8.EncodeRune(b[w:], dec)
						break
					}
					// Invalid surrogate; fall back to replacement rune.
					rr = unicode.ReplacementChar
				}
				w += utf8.EncodeRune(b[w:], rr)
			}

		// Quote, control characters are invalid.
		case c == '"', c < ' ':
			return

		// ASCII
		case c < utf8.RuneSelf:
			b[w] = c
			r++
			w++

		// Coerce to well-formed UTF-8.
		default:
			rr, size := utf8.DecodeRune(s[r:])
			r += size
			w += utf8.EncodeRune(b[w:], rr)
		}
	}
	return b[0:w], true
}

// getu4 decodes \uXXXX from the beginning of s, returning the hex value,
// or it returns -1.
func getu4(s []byte) rune {
	if len(s) < 6 || s[0] != '\\' || s[1] != 'u' {
		return -1
	}
	var r rune
	for _, c := range s[2:6] {
		switch {
		case IsDigit(c):
			c -= '0'
		case 'a' <= c && c <= 'f':
			c = c - 'a' + 10
		case 'A' <= c && c <= 'F':
			c = c - 'A' + 10
		default:
			return -1
		}
		r = r*16 + rune(c)
	}
	return r
}
