package bytes

import "strconv"

// IsBlank returns true if provided byte is space or a new line.
func IsBlank(c byte) bool {
	return IsSpace(c) || IsNewLine(c)
}

// IsSpace returns true is provided byte is space.
func IsSpace(c byte) bool {
	return c == ' ' || c == '\t'
}

// IsNewLine returns true if provided byte is a new line.
func IsNewLine(c byte) bool {
	return c == '\n' || c == '\r'
}

// IsDigit returns true if provided byte is a digit.
func IsDigit(c byte) bool {
	return '0' <= c && c <= '9'
}

// IsHexDigit returns true if provided byte is a hex digit.
func IsHexDigit(c byte) bool {
	return IsDigit(c) || 'a' <= c && c <= 'f' || 'A' <= c && c <= 'F'
}

// IsValidUserTypeNameByte returns true if specified rune can be a part of user
// type name.
// Important: `@` isn't valid here 'cause schema name should start with `@` but
// it didn't allow to use that symbol in the name.
func IsValidUserTypeNameByte(c byte) bool {
	return c == '-' || c == '_' || ('a' <= c && c <= 'z') || ('A' <= c && c <= 'Z') || IsDigit(c)
}

// QuoteChar formats char as a quoted character literal.
func QuoteChar(c byte) string {
	// special cases - different from quoted strings
	if c == '\'' {
		return `'\''`
	}
	if c == '"' {
		return `'"'`
	}
	// use quoted string with different quotation marks
	s := strconv.Quote(string(c))
	return "'" + s[1:len(s)-1] + "'"
}
