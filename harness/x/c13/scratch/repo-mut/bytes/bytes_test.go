package bytes

import (
	"fmt"
	"math"
	"strconv"
	"testing"

	"github.com/stretchr/testify/assert"
	"github.com/stretchr/testify/require"
)

func TestBytes_Equals(t *testing.T) {
	const given = "foo"
	cc := map[string]bool{
		given: true,
		"":    false,
		"fOo": false,
		"bar": false,
	}

	for bb, expected := range cc {
		t.Run(bb, func(t *testing.T) {
			actual := Bytes(given).Equals(Bytes(bb))
			assert.Equal(t, expected, actual)
		})
	}
}

func TestBytes_Slice(t *testing.T) {
	actual := Bytes("1234567890").Slice(2, 6)
	assert.Equal(t, "34567", string(actual))
}

func TestBytes_Unquote(t *testing.T) {
	cc := map[string]string{
		// trimmed
		`""`:    "",
		`"123"`: `123`,
		`"\\n"`: `\n`,

		// no trimmed
		"":     "",
		`"`:    `"`,
		"123":  "123",
		`"123`: `"123`,
		`123"`: `123"`,

		`"\"\u0061bc\""`: `"abc"`,
	}

	for given, expected := range cc {
		t.Run(given, func(t *testing.T) {
			actual := Bytes(given).Unquote()
			assert.Equal(t, expected, string(actual))
		})
	}
}

func TestBytes_TrimSquareBrackets(t *testing.T) {
	cc := map[string]string{
		"":        "",
		"foo":     "foo",
		"[foo":    "[foo",
		"foo]":    "foo]",
		"[foo]":   "foo",
		"{foo}":   "{foo}",
		"(foo)":   "(foo)",
		"[[foo]]": "[foo]",
	}

	for given, expected := range cc {
		t.Run(given, func(t *testing.T) {
			actual := Bytes(given).TrimSquareBrackets()
			assert.Equal(t, expected, string(actual))
		})
	}
}

func TestBytes_TrimSpaces(t *testing.T) {
	cc := map[string]string{
		"":              "",
		" \t \n\r\r   ": "",
		"1":             "1",
		"12":            "12",

		" 123":              "123",
		"\t123":             "123",
		"\n123":             "123",
		"\r123":             "123",
		"\t\t\n\n\r\r  123": "123",

		"123 ":             "123",
		"123\t":            "123",
		"123\n":            "123",
		"123\r":            "123",
		"123\t\t\n\n\n\n ": "123",

		" 123 ":                           "123",
		"\t123\t":                         "123",
		"\n123\n":                         "123",
		"\r123\r":                         "123",
		"\t\t\n\n\r\r  123\t\t\n\n\n\n  ": "123",
		"\t123\t\t\n\n\n\n  ":             "123",
		"\t\t\n\n\r\r  123\t":             "123",
	}

	for given, expected := range cc {
		t.Run(given, func(t *testing.T) {
			actual := Bytes(given).TrimSpaces()
			assert.Equal(t, expected, string(actual))
		})
	}
}

func TestBytes_TrimSpacesFromLeft(t *testing.T) {
	cc := map[string]string{
		"":    "",
		"1":   "1",
		"12":  "12",
		"123": "123",

		" 123":              "123",
		"\t123":             "123",
		"\n123":             "123",
		"\r123":             "123",
		"\t\t\n\n\r\r  123": "123",

		"123 ":  "123 ",
		"123\t": "123\t",
		"123\n": "123\n",
		"123\r": "123\r",
	}

	for given, expected := range cc {
		t.Run(given, func(t *testing.T) {
			actual := Bytes(given).TrimSpacesFromLeft()
			assert.Equal(t, expected, string(actual))
		})
	}
}

func TestBytes_CountSpacesFromLeft(t *testing.T) {
	cc := map[string]int{
		"":           0,
		"foo":        0,
		" \t\r\nfoo": 4,
	}

	for given, expected := range cc {
		t.Run(given, func(t *testing.T) {
			actual := Bytes(given).CountSpacesFromLeft()
			assert.Equal(t, expected, actual)
		})
	}
}

func TestBytes_OneOf(t *testing.T) {
	b := Bytes("foo")

	cc := []struct {
		given    []string
		expected bool
	}{
		{[]string{"foo", "bar", "fizz", "buzz"}, true},
		{[]string{"buzz", "bar", "fizz", "foo"}, true},
		{[]string{"buzz", "foo", "fizz", "bar"}, true},
		{[]string{"foo", "foo"}, true},
		{nil, false},
		{[]string{}, false},
		{[]string{"bar"}, false},
		{[]string{" foo", "Foo"}, false},
	}

	for _, c := range cc {
		t.Run(fmt.Sprintf("%v", c.given), func(t *testing.T) {
			actual := b.OneOf(c.given...)
			assert.Equal(t, c.expected, actual)
		})
	}
}

func BenchmarkBytes_OneOf(b *testing.B) {
	pp := []string{"foo", "bar", "fizz", "buzz"}

	bytes := Bytes("buzz")

	b.ResetTimer()

	for i := 0; i < b.N; i++ {
		bytes.OneOf(pp...)
	}
}

func TestBytes_ParseBool(t *testing.T) {
	t.Run("positive", func(t *testing.T) {
		cc := map[string]bool{
			"true":  true,
			"false": false,
		}

		for given, expected := range cc {
			t.Run(given, func(t *testing.T) {
				actual, err := Bytes(given).ParseBool()
				require.NoError(t, err)
				assert.Equal(t, expected, actual)
			})
		}
	})

	t.Run("negative", func(t *testing.T) {
		ss := []string{
			"",
			"True",
			"fAlSe",
			"foo",
		}

		for _, s := range ss {
			t.Run(s, func(t *testing.T) {
				_, err := Bytes(s).ParseBool()
				assert.EqualError(t, err, "invalid bool value")
			})
		}
	})
}

var benchmarkParseIntBytes = Bytes("1234567890")

func TestBytes_ParseUint(t *testing.T) {
	t.Run("positive", func(t *testing.T) {
		cc := map[string]uint{
			"42":    42,
			"00000": 0,
			"00042": 42,
		}

		for given, expected := range cc {
			t.Run(given, func(t *testing.T) {
				actual, err := Bytes(given).ParseUint()

				require.NoError(t, err)
				assert.Equal(t, expected, actual)
			})
		}
	})

	t.Run("negative", func(t *testing.T) {
		cc := map[string]string{
			"":     "not enough data in ParseUint",
			"3.14": "invalid byte (.) found in ParseUint (3.14)",
			"-1":   "invalid byte (-) found in ParseUint (-1)",
		}

		for given, expected := range cc {
			t.Run(given, func(t *testing.T) {
				_, err := Bytes(given).ParseUint()

				assert.EqualError(t, err, expected)
			})
		}
	})
}

func BenchmarkParseUint(b *testing.B) {
	b.ReportAllocs()
	b.ResetTimer()
	for i := 0; i < b.N; i++ {
		_, err := benchmarkParseIntBytes.ParseUint()
		assert.NoError(b, err)
	}
}

func TestBytes_ParseInt(t *testing.T) {
	t.Run("positive", func(t *testing.T) {
		cc := map[string]int{
			"3":                             3,
			"23":                            23,
			"123":                           123,
			"00123":                         123,
			"-123":                          -123,
			strconv.Itoa(math.MaxInt):       math.MaxInt,
			"-" + strconv.Itoa(math.MaxInt): -math.MaxInt,
		}
		for given, expected := range cc {
			t.Run(given, func(t *testing.T) {
				actual, err := Bytes(given).ParseInt()
				require.NoError(t, err)
				assert.Equal(t, expected, actual)
			})
		}
	})

	t.Run("negative", func(t *testing.T) {
		cc := map[string]string{
			"3.2":                           "invalid byte (.) found in ParseUint (3.2)",
			strconv.Itoa(math.MaxInt) + "0": "too much data for int",
		}
		for given, expected := range cc {
			t.Run(given, func(t *testing.T) {
				_, err := Bytes(given).ParseInt()
				assert.EqualError(t, err, expected)
			})
		}
	})
}

func BenchmarkParseInt(b *testing.B) {
	b.ReportAllocs()
	b.ResetTimer()
	for i := 0; i < b.N; i++ {
		_, err := benchmarkParseIntBytes.ParseInt()
		assert.NoError(b, err)
	}
}

func TestBytes_IsUserTypeName(t *testing.T) {
	t.Run("positive", func(t *testing.T) {
		var tests = []string{
			"@-",
			"@_",
			"@ABCDEFGHIJKLMNOPQRSTUVWXYZ",
			"@abcdefghijklmnopqrstuvwxyz",
			"@0123456789",
			"@ABCDEFGHIJKLMNOPQRSTUVWXYZ-abcdefghijklmnopqrstuvwxyz_0123456789",
			"@abc-",
		}

		for _, str := range tests {
			t.Run(str, func(t *testing.T) {
				assert.True(t, Bytes(str).IsUserTypeName())
			})
		}
	})

	t.Run("negative", func(t *testing.T) {
		var tests = []string{
			"",
			"@",
			"-",
			"_",
			"ABC",
			"@a.b",
			"-@abc",
			"@@",
		}

		for _, str := range tests {
			t.Run(str, func(t *testing.T) {
				assert.False(t, Bytes(str).IsUserTypeName())
			})
		}
	})
}

func TestBytes_String(t *testing.T) {
	cc := map[string]Bytes{
		"foo":          []byte("foo"),
		"\u0001\u0002": []byte{1, 2},
	}

	for expected, given := range cc {
		t.Run(expected, func(t *testing.T) {
			assert.Equal(t, expected, given.String())
		})
	}
}

func TestBytes_Len(t *testing.T) {
	cc := map[string]int{
		"":    0,
		"foo": 3,
	}

	for given, expected := range cc {
		t.Run(given, func(t *testing.T) {
			actual := Bytes(given).Len()
			assert.Equal(t, expected, actual)
		})
	}
}

func TestBytes_LineFrom(t *testing.T) {
	tests := []struct {
		b       string
		s       int
		want    string
		wantErr bool
	}{
		{
			"abc",
			-1,
			"",
			true,
		},
		{
			"abc",
			0,
			"abc",
			false,
		},
		{
			"abc",
			1,
			"bc",
			false,
		},
		{
			"abc",
			2,
			"c",
			false,
		},
		{
			"abc",
			3,
			"",
			false,
		},
		{
			"abc",
			4,
			"",
			true,
		},
		{
			"abc\n123\nxyz",
			0,
			"abc",
			false,
		},
		{
			"abc\n123\nxyz",
			1,
			"bc",
			false,
		},
		{
			"abc\n123\nxyz",
			2,
			"c",
			false,
		},
		{
			"abc\n123\nxyz",
			3,
			"",
			false,
		},
		{
			"abc\n123\nxyz",
			4,
			"123",
			false,
		},
		{
			"abc\n123\nxyz",
			5,
			"23",
			false,
		},
		{
			"abc\n123\nxyz",
			6,
			"3",
			false,
		},
		{
			"abc\n123\nxyz",
			7,
			"",
			false,
		},
		{
			"abc\n123\nxyz",
			8,
			"xyz",
			false,
		},
		{
			"abc\n123\nxyz",
			9,
			"yz",
			false,
		},
		{
			"abc\n123\nxyz",
			9999,
			"",
			true,
		},
	}
	for _, tt := range tests {
		t.Run(tt.b, func(t *testing.T) {
			b := Bytes(tt.b)
			got, err := b.LineFrom(Index(tt.s))
			if tt.wantErr {
				require.NotNilf(t, err, "b.LineFrom(%v)", tt.s)
			} else {
				require.NoErrorf(t, err, "b.LineFrom(%v)", tt.s)
				require.Equalf(t, Bytes(tt.want), got, "b.LineFrom(%v)", tt.s)
			}
		})
	}
}
