package json

import (
	stdErrors "errors"
	"io"

	jschema "github.com/jsightapi/jsight-schema-go-library"
	"github.com/jsightapi/jsight-schema-go-library/errors"
	"github.com/jsightapi/jsight-schema-go-library/fs"
	"github.com/jsightapi/jsight-schema-go-library/internal/lexeme"
	"github.com/jsightapi/jsight-schema-go-library/internal/sync"
)

type Document struct {
	file    *fs.File
	scanner *scanner

	lenOnce   sync.ErrOnceWithValue[uint]
	checkOnce sync.ErrOnce

	allowTrailingNonSpaceCharacters bool
}

var _ jschema.Document = &Document{}

// New creates a JSON document with specified name and content.
func New[T fs.FileContent](name string, content T, oo ...Option) jschema.Document {
	return FromFile(fs.NewFile(name, content), oo...)
}

// FromFile creates a JSON document from file.
func FromFile(f *fs.File, oo ...Option) jschema.Document {
	d := &Document{
		file: f,
	}

	for _, o := range oo {
		o(d)
	}

	d.rewind()

	return d
}

type Option func(s *Document)

func AllowTrailingNonSpaceCharacters() Option {
	return func(s *Document) {
		s.allowTrailingNonSpaceCharacters = true
	}
}

func (d *Document) NextLexeme() (lexeme.LexEvent, error) {
	return d.nextLexeme()
}

func (d *Document) Len() (uint, error) {
	return d.lenOnce.Do(func() (uint, error) {
		return d.computeLen()
	})
}

func (d *Document) computeLen() (length uint, err error) {
	// Iterate through all lexemes until we reach the end
	// We should rewind here in case we call NextLexeme method.
	d.rewind()
	defer d.rewind()
	defer func() {
		r := recover()
		if r == nil {
			return
		}

		rErr, ok := r.(error)
		if !ok {
			panic(r)
		}
		err = rErr
	}()

	return d.scanner.Length(), err
}

func (d *Document) Check() error {
	return d.checkOnce.Do(func() error {
		return d.check()
	})
}

func (d *Document) check() error {
	// Iterate through all lexemes until we reach the end or get some error.
	// We should rewind here in case we call NextLexeme method.
	d.rewind()
	defer d.rewind()

	var jsonLexCounter uint
	for {
		_, err := d.nextLexeme()
		if err == nil {
			jsonLexCounter++
			continue
		}

		if stdErrors.Is(err, io.EOF) {
			err = nil

			if jsonLexCounter == 0 {
				err = errors.NewDocumentError(d.file, errors.ErrEmptyJson)
			}
		}
		return err
	}
}

func (d *Document) nextLexeme() (lex lexeme.LexEvent, err error) {
	defer func() {
		r := recover()
		if r == nil {
			return
		}

		rErr, ok := r.(error)
		if !ok {
			panic(r)
		}
		err = rErr
	}()

	lex, ok := d.scanner.Next()
	if !ok {
		return lexeme.LexEvent{}, io.EOF
	}

	if lex.Type() == lexeme.EndTop {
		return lex, io.EOF
	}
	return lex, nil
}

// rewind rewinds document to the beginning.
func (d *Document) rewind() {
	d.scanner = newScanner(d.file)
	d.scanner.allowTrailingNonSpaceCharacters = d.allowTrailingNonSpaceCharacters
}
