//go:build verif

package json

import (
	"fmt"
	"reflect"
	"runtime"
	"strings"

	"github.com/jsightapi/jsight-schema-go-library/errors"
	"github.com/jsightapi/jsight-schema-go-library/fs"
	"github.com/jsightapi/jsight-schema-go-library/internal/lexeme"
)

func verifStepName(f stepFunc) string {
	n := runtime.FuncForPC(reflect.ValueOf(f).Pointer()).Name()
	return n[strings.LastIndex(n, ".")+1:]
}

// VerifKey feeds data to a fresh scanner byte by byte, exactly as Next does but
// without the end-of-input rule, and returns a canonical key of its control
// state (or the error / end-top outcome). Verification hook, build tag verif.
func VerifKey(data []byte, allow bool) (key string) {
	s := newScanner(fs.NewFile("", data))
	s.allowTrailingNonSpaceCharacters = allow
	defer func() {
		if r := recover(); r != nil {
			if de, ok := r.(errors.DocumentError); ok {
				key = fmt.Sprintf("ERR %d %d", de.ErrCode(), de.Index())
				return
			}
			key = fmt.Sprintf("CRASH %v", r)
		}
	}()
	for s.index < s.dataSize {
		c := s.data[s.index]
		s.index++
		s.step(s, c)
		for len(s.finds) != 0 {
			lt := s.shiftFound()
			s.processingFoundLexeme(lt)
			if lt == lexeme.EndTop {
				return "STOP"
			}
		}
	}
	var sb strings.Builder
	sb.WriteString("K:")
	sb.WriteString(verifStepName(s.step))
	sb.WriteString("|")
	for i := s.stack.Len() - 1; i >= 0; i-- {
		switch s.stack.Get(i).Type() {
		case lexeme.LiteralBegin:
			sb.WriteByte('L')
		case lexeme.ObjectBegin:
			sb.WriteByte('O')
		case lexeme.ObjectKeyBegin:
			sb.WriteByte('K')
		case lexeme.ObjectValueBegin:
			sb.WriteByte('V')
		case lexeme.ArrayBegin:
			sb.WriteByte('A')
		case lexeme.ArrayItemBegin:
			sb.WriteByte('I')
		default:
			sb.WriteByte('?')
		}
	}
	fmt.Fprintf(&sb, "|%v|ret%d", s.unfinishedLiteral, s.returnToStep.Len())
	return sb.String()
}
