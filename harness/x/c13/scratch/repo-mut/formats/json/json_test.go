package json

import (
	"errors"
	"io"
	"path/filepath"
	"strings"
	"testing"

	"github.com/jsightapi/jsight-schema-go-library/reader"
	"github.com/jsightapi/jsight-schema-go-library/test"

	"github.com/stretchr/testify/assert"
	"github.com/stretchr/testify/require"
)

func BenchmarkDocument_NextLexeme(b *testing.B) {
	file := reader.Read(filepath.Join(test.GetProjectRoot(), "testdata", "big.json"))

	b.ReportAllocs()
	b.ResetTimer()

	for i := 0; i < b.N; i++ {
		s := FromFile(file, AllowTrailingNonSpaceCharacters())
		for {
			_, err := s.NextLexeme()
			if errors.Is(err, io.EOF) {
				break
			}
			require.NoError(b, err)
		}
	}
}

func TestDocument_Len(t *testing.T) {
	t.Run("positive", func(t *testing.T) {
		for name, c := range cases {
			t.Run(name, func(t *testing.T) {
				actual, err := New("", c.data, AllowTrailingNonSpaceCharacters()).Len()
				require.NoError(t, err)
				assert.Equal(t, c.expectedLen, actual)
			})
		}
	})

	t.Run("negative", func(t *testing.T) {
		_, err := New("", "foo", AllowTrailingNonSpaceCharacters()).Len()
		assert.EqualError(t, err, `ERROR (code 301): Invalid character "o" in literal false (expecting 'a')
	in line 1 on file 
	> foo
	---^`)
	})
}

func BenchmarkDocument_Len(b *testing.B) {
	file := reader.Read(filepath.Join(test.GetProjectRoot(), "testdata", "big.json"))

	b.ReportAllocs()
	b.ResetTimer()

	for i := 0; i < b.N; i++ {
		s := FromFile(file, AllowTrailingNonSpaceCharacters())
		_, err := s.Len()
		require.NoError(b, err)
	}
}

func TestDocument_Check(t *testing.T) {
	t.Run("positive", func(t *testing.T) {
		for name, c := range cases {
			t.Run(name, func(t *testing.T) {
				err := New("", c.data, AllowTrailingNonSpaceCharacters()).Check()
				require.NoError(t, err)
			})
		}
	})

	t.Run("negative", func(t *testing.T) {
		t.Run("invalid character", func(t *testing.T) {
			err := New("", "foo", AllowTrailingNonSpaceCharacters()).Check()
			assert.EqualError(t, err, `ERROR (code 301): Invalid character "o" in literal false (expecting 'a')
	in line 1 on file 
	> foo
	---^`)
		})

		t.Run("without allowed trailing non empty character", func(t *testing.T) {
			cc := []string{
				`42
some trailing data`,
				`-42
some trailing data`,
				`3.14
some trailing data`,
				`-3.14
some trailing data`,
				`314e-2
some trailing data`,
				`0.314e+1
some trailing data`,
				`3.14e0
some trailing data`,
				`314E-2
some trailing data`,
				`0.314E+1
some trailing data`,
				`3.14E0
some trailing data`,
				`0.14
some trailing data`,
				`-0.14
some trailing data`,
				`true
some trailing data`,
				`false
some trailing data`,
				`null
some trailing data`,
				`"str"
some trailing data`,
				`[
1,
2,
3
]
some trailing data`,
				`
{
	"foo": "bar"
}
some trailing data`,
			}

			for _, given := range cc {
				t.Run(given, func(t *testing.T) {
					err := New("", given).Check()
					assert.True(t, strings.HasPrefix(
						err.Error(),
						"ERROR (code 301): Invalid character \"s\" non-space byte after top-level value",
					))
				})
			}
		})
	})
}

func BenchmarkDocument_Check(b *testing.B) {
	file := reader.Read(filepath.Join(test.GetProjectRoot(), "testdata", "big.json"))

	b.ReportAllocs()
	b.ResetTimer()

	for i := 0; i < b.N; i++ {
		err := FromFile(file, AllowTrailingNonSpaceCharacters()).Check()
		require.NoError(b, err)
	}
}

var cases = map[string]struct {
	data        string
	expectedLen uint
}{
	"integer": {"42", 2},
	"integer_with_trailing_data": {`42
some trailing data`, 2},
	"negative_integer": {"-42", 3},
	"negative_integer_with_trailing_data": {`-42
some trailing data`, 3},
	"float": {"3.14", 4},
	"float_with_trailing_data": {`3.14
some trailing data`, 4},
	"negative_float": {"-3.14", 5},
	"negative_float_with_trailing_data": {`-3.14
some trailing data`, 5},
	"exponent_1": {"314e-2", 6},
	"exponent_1_with_trailing_data": {`314e-2
some trailing data`, 6},
	"exponent_2": {"0.314e+1", 8},
	"exponent_2_with_trailing_data": {`0.314e+1
some trailing data`, 8},
	"exponent_3": {"3.14e0", 6},
	"exponent_3_with_trailing_data": {`3.14e0
some trailing data`, 6},
	"exponent_4": {"314E-2", 6},
	"exponent_4_with_trailing_data": {`314E-2
some trailing data`, 6},
	"exponent_5": {"0.314E+1", 8},
	"exponent_5_with_trailing_data": {`0.314E+1
some trailing data`, 8},
	"exponent_6": {"3.14E0", 6},
	"exponent_6_with_trailing_data": {`3.14E0
some trailing data`, 6},
	"zero_beginning_float": {"0.14", 4},
	"zero_beginning_float_with_trailing_data": {`0.14
some trailing data`, 4},
	"negative_zero_beginning_float": {"-0.14", 5},
	"negative_zero_beginning_float_with_trailing_data": {`-0.14
some trailing data`, 5},
	"boolean_true": {"true", 4},
	"boolean_true_with_trailing_data": {`true
some trailing data`, 4},
	"boolean_false": {"false", 5},
	"boolean_false_with_trailing_data": {`false
some trailing data`, 5},
	"nullable": {"null", 4},
	"nullable_with_trailing_data": {`null
some trailing data`, 4},
	"string": {`"str"`, 5},
	"string_with_trailing_data": {`"str"
some trailing data`, 5},

	"array": {`
[
	42,
	-42,
	3.14,
	-3.14,
	314e-2,
	0.314e+1,
	3.14e0,
	314E-2,
	0.314E+1,
	3.14E0,
	0.14,
	-0.14,
	true,
	false,
	null,
	"str",
	{
		"integer": 42,
		"negative_integer": -42,
		"float": 3.14,
		"negative_float": -3.14,
		"exponent_1": 314e-2,
		"exponent_2": 0.314e+1,
		"exponent_3": 3.14e0,
		"exponent_4": 314E-2,
		"exponent_5": 0.314E+1,
		"exponent_6": 3.14E0,
		"zero_beginning_float": 0.14,
		"negative_zero_beginning_float": -0.14,
		"boolean_true": true,
		"boolean_false": false,
		"nullable": null,
		"string": "str",
		"array": [
			42,
			-42,
			3.14,
			-3.14,
			314e-2,
			0.314e+1,
			3.14e0,
			314E-2,
			0.314E+1,
			3.14E0,
			0.14,
			-0.14,
			true,
			false,
			null,
			"str",
			{"object": {}}
		]
	}
]`, 734},
	"array_with_trailing_data": {`[
1,
2,
3
]
some trailing data`, 11},
	"object": {`
{
	"integer": 42,
	"negative_integer": -42,
	"float": 3.14,
	"negative_float": -3.14,
	"exponent_1": 314e-2,
	"exponent_2": 0.314e+1,
	"exponent_3": 3.14e0,
	"exponent_4": 314E-2,
	"exponent_5": 0.314E+1,
	"exponent_6": 3.14E0,
	"zero_beginning_float": 0.14,
	"negative_zero_beginning_float": -0.14,
	"boolean_true": true,
	"boolean_false": false,
	"nullable": null,
	"string": "str",
	"array": [
		42,
		-42,
		3.14,
		-3.14,
		314e-2,
		0.314e+1,
		3.14e0,
		314E-2,
		0.314E+1,
		3.14E0,
		0.14,
		-0.14,
		true,
		false,
		null,
		"str",
		{
			"integer": 42,
			"negative_integer": -42,
			"float": 3.14,
			"negative_float": -3.14,
			"exponent_1": 314e-2,
			"exponent_2": 0.314e+1,
			"exponent_3": 3.14e0,
			"exponent_4": 314E-2,
			"exponent_5": 0.314E+1,
			"exponent_6": 3.14E0,
			"zero_beginning_float": 0.14,
			"negative_zero_beginning_float": -0.14,
			"boolean_true": true,
			"boolean_false": false,
			"nullable": null,
			"string": "str",
			"array": [
				42,
				-42,
				3.14,
				-3.14,
				314e-2,
				0.314e+1,
				3.14e0,
				314E-2,
				0.314E+1,
				3.14E0,
				0.14,
				-0.14,
				true,
				false,
				null,
				"str",
				{"object": {}}
			]
		}
	],
	"object": {
		"integer": 42,
		"negative_integer": -42,
		"float": 3.14,
		"negative_float": -3.14,
		"exponent_1": 314e-2,
		"exponent_2": 0.314e+1,
		"exponent_3": 3.14e0,
		"exponent_4": 314E-2,
		"exponent_5": 0.314E+1,
		"exponent_6": 3.14E0,
		"zero_beginning_float": 0.14,
		"negative_zero_beginning_float": -0.14,
		"boolean_true": true,
		"boolean_false": false,
		"nullable": null,
		"string": "str",
		"array": [
			42,
			-42,
			3.14,
			-3.14,
			314e-2,
			0.314e+1,
			3.14e0,
			314E-2,
			0.314E+1,
			3.14E0,
			0.14,
			-0.14,
			true,
			false,
			null,
			"str",
			{"object": {}}
		]
	}
}
`, 1797},
	"object_with_trailing_data": {`
{
	"foo": "bar"
}
with trailing data
`, 18},
}
