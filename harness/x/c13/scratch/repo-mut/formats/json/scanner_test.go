package json

import (
	"reflect"
	"testing"

	"github.com/stretchr/testify/assert"

	"github.com/jsightapi/jsight-schema-go-library/fs"
	"github.com/jsightapi/jsight-schema-go-library/internal/lexeme"
)

func TestScanner_Next(t *testing.T) {
	t.Run("positive", func(t *testing.T) {
		jsonValidResults := map[string][]lexeme.LexEventType{
			"12.34":               {lexeme.LiteralBegin, lexeme.LiteralEnd},
			" 12.34 ":             {lexeme.LiteralBegin, lexeme.LiteralEnd},
			"12.34\n":             {lexeme.LiteralBegin, lexeme.LiteralEnd},
			"12.34\r\n":           {lexeme.LiteralBegin, lexeme.LiteralEnd},
			"12.34 ":              {lexeme.LiteralBegin, lexeme.LiteralEnd},
			"12.34 \r\n":          {lexeme.LiteralBegin, lexeme.LiteralEnd},
			`"str"`:               {lexeme.LiteralBegin, lexeme.LiteralEnd},
			`"str" `:              {lexeme.LiteralBegin, lexeme.LiteralEnd},
			`"\u0000"`:            {lexeme.LiteralBegin, lexeme.LiteralEnd},
			`"\\" `:               {lexeme.LiteralBegin, lexeme.LiteralEnd},
			"true":                {lexeme.LiteralBegin, lexeme.LiteralEnd},
			"false":               {lexeme.LiteralBegin, lexeme.LiteralEnd},
			"null":                {lexeme.LiteralBegin, lexeme.LiteralEnd},
			"-1":                  {lexeme.LiteralBegin, lexeme.LiteralEnd},
			"0.123":               {lexeme.LiteralBegin, lexeme.LiteralEnd},
			"-0.123":              {lexeme.LiteralBegin, lexeme.LiteralEnd},
			"1e2":                 {lexeme.LiteralBegin, lexeme.LiteralEnd},
			"1.23e+11":            {lexeme.LiteralBegin, lexeme.LiteralEnd},
			"[]":                  {lexeme.ArrayBegin, lexeme.ArrayEnd},
			"[ ]":                 {lexeme.ArrayBegin, lexeme.ArrayEnd},
			"[1 ]":                {lexeme.ArrayBegin, lexeme.ArrayItemBegin, lexeme.LiteralBegin, lexeme.LiteralEnd, lexeme.ArrayItemEnd, lexeme.ArrayEnd},
			"[{}]":                {lexeme.ArrayBegin, lexeme.ArrayItemBegin, lexeme.ObjectBegin, lexeme.ObjectEnd, lexeme.ArrayItemEnd, lexeme.ArrayEnd},
			"[[]]":                {lexeme.ArrayBegin, lexeme.ArrayItemBegin, lexeme.ArrayBegin, lexeme.ArrayEnd, lexeme.ArrayItemEnd, lexeme.ArrayEnd},
			"{}":                  {lexeme.ObjectBegin, lexeme.ObjectEnd},
			"{} ":                 {lexeme.ObjectBegin, lexeme.ObjectEnd},
			" {} ":                {lexeme.ObjectBegin, lexeme.ObjectEnd},
			`{"foo":"bar"}`:       {lexeme.ObjectBegin, lexeme.ObjectKeyBegin, lexeme.ObjectKeyEnd, lexeme.ObjectValueBegin, lexeme.LiteralBegin, lexeme.LiteralEnd, lexeme.ObjectValueEnd, lexeme.ObjectEnd},
			` { "foo" : "bar" } `: {lexeme.ObjectBegin, lexeme.ObjectKeyBegin, lexeme.ObjectKeyEnd, lexeme.ObjectValueBegin, lexeme.LiteralBegin, lexeme.LiteralEnd, lexeme.ObjectValueEnd, lexeme.ObjectEnd},
			`["",[]]`: {
				lexeme.ArrayBegin,
				lexeme.ArrayItemBegin, lexeme.LiteralBegin, lexeme.LiteralEnd, lexeme.ArrayItemEnd,
				lexeme.ArrayItemBegin, lexeme.ArrayBegin, lexeme.ArrayEnd, lexeme.ArrayItemEnd,
				lexeme.ArrayEnd,
			},
			`{"foo": "bar", "key": 1}`: {
				lexeme.ObjectBegin,
				lexeme.ObjectKeyBegin, lexeme.ObjectKeyEnd, lexeme.ObjectValueBegin, lexeme.LiteralBegin, lexeme.LiteralEnd, lexeme.ObjectValueEnd,
				lexeme.ObjectKeyBegin, lexeme.ObjectKeyEnd, lexeme.ObjectValueBegin, lexeme.LiteralBegin, lexeme.LiteralEnd, lexeme.ObjectValueEnd,
				lexeme.ObjectEnd,
			},
			`[1,"str",false]`: {
				lexeme.ArrayBegin,
				lexeme.ArrayItemBegin, lexeme.LiteralBegin, lexeme.LiteralEnd, lexeme.ArrayItemEnd,
				lexeme.ArrayItemBegin, lexeme.LiteralBegin, lexeme.LiteralEnd, lexeme.ArrayItemEnd,
				lexeme.ArrayItemBegin, lexeme.LiteralBegin, lexeme.LiteralEnd, lexeme.ArrayItemEnd,
				lexeme.ArrayEnd,
			},
			`{"foo": [1,"str",false]}`: {
				lexeme.ObjectBegin,
				lexeme.ObjectKeyBegin, lexeme.ObjectKeyEnd,
				lexeme.ObjectValueBegin,
				lexeme.ArrayBegin,
				lexeme.ArrayItemBegin, lexeme.LiteralBegin, lexeme.LiteralEnd, lexeme.ArrayItemEnd,
				lexeme.ArrayItemBegin, lexeme.LiteralBegin, lexeme.LiteralEnd, lexeme.ArrayItemEnd,
				lexeme.ArrayItemBegin, lexeme.LiteralBegin, lexeme.LiteralEnd, lexeme.ArrayItemEnd,
				lexeme.ArrayEnd,
				lexeme.ObjectValueEnd,
				lexeme.ObjectEnd,
			},
			`{
	
		"foo"
	
		:
	
		123
	
		}`: {
				lexeme.ObjectBegin,
				lexeme.ObjectKeyBegin,
				lexeme.ObjectKeyEnd,
				lexeme.ObjectValueBegin,
				lexeme.LiteralBegin,
				lexeme.LiteralEnd,
				lexeme.ObjectValueEnd,
				lexeme.ObjectEnd,
			},
			`
		{
			"a": 1,
			"b": [2,3,4],
			"c": 5
		}`: {
				lexeme.ObjectBegin,
				lexeme.ObjectKeyBegin, lexeme.ObjectKeyEnd, lexeme.ObjectValueBegin, lexeme.LiteralBegin, lexeme.LiteralEnd, lexeme.ObjectValueEnd,
				lexeme.ObjectKeyBegin, lexeme.ObjectKeyEnd,
				lexeme.ObjectValueBegin,
				lexeme.ArrayBegin,
				lexeme.ArrayItemBegin, lexeme.LiteralBegin, lexeme.LiteralEnd, lexeme.ArrayItemEnd,
				lexeme.ArrayItemBegin, lexeme.LiteralBegin, lexeme.LiteralEnd, lexeme.ArrayItemEnd,
				lexeme.ArrayItemBegin, lexeme.LiteralBegin, lexeme.LiteralEnd, lexeme.ArrayItemEnd,
				lexeme.ArrayEnd,
				lexeme.ObjectValueEnd,
				lexeme.ObjectKeyBegin, lexeme.ObjectKeyEnd, lexeme.ObjectValueBegin, lexeme.LiteralBegin, lexeme.LiteralEnd, lexeme.ObjectValueEnd,
				lexeme.ObjectEnd,
			},
			`
		[
			1,
			{"k": 2},
			3
		]`: {
				lexeme.ArrayBegin,
				lexeme.ArrayItemBegin, lexeme.LiteralBegin, lexeme.LiteralEnd, lexeme.ArrayItemEnd,
				lexeme.ArrayItemBegin,
				lexeme.ObjectBegin,
				lexeme.ObjectKeyBegin, lexeme.ObjectKeyEnd, lexeme.ObjectValueBegin, lexeme.LiteralBegin, lexeme.LiteralEnd, lexeme.ObjectValueEnd,
				lexeme.ObjectEnd,
				lexeme.ArrayItemEnd,
				lexeme.ArrayItemBegin, lexeme.LiteralBegin, lexeme.LiteralEnd, lexeme.ArrayItemEnd,
				lexeme.ArrayEnd,
			},
		}

		for json, expected := range jsonValidResults {
			t.Run("json", func(t *testing.T) {
				s := newScanner(fs.NewFile("", json))
				var results []lexeme.LexEventType

				for {
					if lex, ok := s.Next(); ok {
						results = append(results, lex.Type())
					} else {
						break
					}
				}

				assert.Truef(t, reflect.DeepEqual(results, expected), "Wrong results:\n%s\n\n%v", json, results)
			})
		}
	})

	t.Run("negative", func(t *testing.T) {
		cc := map[string]string{
			"+1": `ERROR (code 301): Invalid character "+" looking for beginning of value
	in line 1 on file 
	> +1
	--^`,
			"zzz": `ERROR (code 301): Invalid character "z" looking for beginning of value
	in line 1 on file 
	> zzz
	--^`,
			"tRue": `ERROR (code 301): Invalid character "R" in literal true (expecting 'r')
	in line 1 on file 
	> tRue
	---^`,
			"trUe": `ERROR (code 301): Invalid character "U" in literal true (expecting 'u')
	in line 1 on file 
	> trUe
	----^`,
			"truE": `ERROR (code 301): Invalid character "E" in literal true (expecting 'e')
	in line 1 on file 
	> truE
	-----^`,
			"tru": `ERROR (code 303): Unexpected end of file
	in line 1 on file 
	> tru
	----^`,
			"fAlse": `ERROR (code 301): Invalid character "A" in literal false (expecting 'a')
	in line 1 on file 
	> fAlse
	---^`,
			"faLse": `ERROR (code 301): Invalid character "L" in literal false (expecting 'l')
	in line 1 on file 
	> faLse
	----^`,
			"falSe": `ERROR (code 301): Invalid character "S" in literal false (expecting 's')
	in line 1 on file 
	> falSe
	-----^`,
			"falsE": `ERROR (code 301): Invalid character "E" in literal false (expecting 'e')
	in line 1 on file 
	> falsE
	------^`,
			"fal": `ERROR (code 303): Unexpected end of file
	in line 1 on file 
	> fal
	----^`,
			"nUll": `ERROR (code 301): Invalid character "U" in literal null (expecting 'u')
	in line 1 on file 
	> nUll
	---^`,
			"nuLl": `ERROR (code 301): Invalid character "L" in literal null (expecting 'l')
	in line 1 on file 
	> nuLl
	----^`,
			"nulL": `ERROR (code 301): Invalid character "L" in literal null (expecting 'l')
	in line 1 on file 
	> nulL
	-----^`,
			"nul": `ERROR (code 303): Unexpected end of file
	in line 1 on file 
	> nul
	----^`,
			`"	"`: `ERROR (code 301): Invalid character "\t" in string literal
	in line 1 on file 
	> "	"
	---^`,
			`"\x"`: `ERROR (code 301): Invalid character "x" in string escape code
	in line 1 on file 
	> "\x"
	----^`,
			`"\uZ"`: `ERROR (code 301): Invalid character "Z" in \u hexadecimal character escape
	in line 1 on file 
	> "\uZ"
	-----^`,
			`"\u1Z"`: `ERROR (code 301): Invalid character "Z" in \u hexadecimal character escape
	in line 1 on file 
	> "\u1Z"
	------^`,
			`"\u22Z"`: `ERROR (code 301): Invalid character "Z" in \u hexadecimal character escape
	in line 1 on file 
	> "\u22Z"
	-------^`,
			`"\u33Z"`: `ERROR (code 301): Invalid character "Z" in \u hexadecimal character escape
	in line 1 on file 
	> "\u33Z"
	-------^`,
			`"\u444Z"`: `ERROR (code 301): Invalid character "Z" in \u hexadecimal character escape
	in line 1 on file 
	> "\u444Z"
	--------^`,
			"-z": `ERROR (code 301): Invalid character "z" in numeric literal
	in line 1 on file 
	> -z
	---^`,
			"5.1.2": `ERROR (code 301): Invalid character "." non-space byte after top-level value
	in line 1 on file 
	> 5.1.2
	-----^`,
			`2"`: `ERROR (code 301): Invalid character "\"" non-space byte after top-level value
	in line 1 on file 
	> 2"
	---^`,
			"2'": `ERROR (code 301): Invalid character "'" non-space byte after top-level value
	in line 1 on file 
	> 2'
	---^`,
			"0.z": `ERROR (code 301): Invalid character "z" after decimal point in numeric literal
	in line 1 on file 
	> 0.z
	----^`,
			"1.23e+Z": `ERROR (code 301): Invalid character "Z" in exponent of numeric literal
	in line 1 on file 
	> 1.23e+Z
	--------^`,
			"[}": `ERROR (code 301): Invalid character "}" looking for beginning of value
	in line 1 on file 
	> [}
	---^`,
			"[1,]": `ERROR (code 301): Invalid character "]" looking for beginning of value
	in line 1 on file 
	> [1,]
	-----^`,
			"[1:]": `ERROR (code 301): Invalid character ":" after array item
	in line 1 on file 
	> [1:]
	----^`,
			"{}x": `ERROR (code 301): Invalid character "x" non-space byte after top-level value
	in line 1 on file 
	> {}x
	----^`,
			`{"key"}`: `ERROR (code 301): Invalid character "}" after object key
	in line 1 on file 
	> {"key"}
	--------^`,
			`{"key":1:}`: `ERROR (code 301): Invalid character ":" after object key:value pair
	in line 1 on file 
	> {"key":1:}
	----------^`,
			`{"key": 1,:`: `ERROR (code 301): Invalid character ":" looking for beginning of string
	in line 1 on file 
	> {"key": 1,:
	------------^`,
			"{": `ERROR (code 303): Unexpected end of file
	in line 1 on file 
	> {
	--^`,
			"[": `ERROR (code 303): Unexpected end of file
	in line 1 on file 
	> [
	--^`,
			`"string without closing quotation mark`: `ERROR (code 303): Unexpected end of file
	in line 1 on file 
	> "string without closing quotation mark
	---------------------------------------^`,
			`string without opening quotation mark"`: `ERROR (code 301): Invalid character "s" looking for beginning of value
	in line 1 on file 
	> string without opening quotation mark"
	--^`,
			`"str" // comment`: `ERROR (code 301): Invalid character "/" non-space byte after top-level value
	in line 1 on file 
	> "str" // comment
	--------^`,
			"123\n2": `ERROR (code 301): Invalid character "2" non-space byte after top-level value
	in line 2 on file 
	> 2
	--^`,
			"{}-": `ERROR (code 301): Invalid character "-" non-space byte after top-level value
	in line 1 on file 
	> {}-
	----^`,
		}

		for given, expected := range cc {
			t.Run(given, func(t *testing.T) {
				d := FromFile(fs.NewFile("", given))

				var foundError bool
				for {
					_, err := d.NextLexeme()
					if err != nil {
						assert.EqualError(t, err, expected)
						foundError = true
						break
					}
				}
				assert.True(t, foundError, "Expects an error")
			})
		}
	})
}
