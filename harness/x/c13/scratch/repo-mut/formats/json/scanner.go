package json

import (
	"github.com/jsightapi/jsight-schema-go-library/bytes"
	"github.com/jsightapi/jsight-schema-go-library/errors"
	"github.com/jsightapi/jsight-schema-go-library/fs"
	"github.com/jsightapi/jsight-schema-go-library/internal/ds"
	"github.com/jsightapi/jsight-schema-go-library/internal/lexeme"
)

type (
	stepFunc func(*scanner, byte) state
)

// state values are returned by the state transition functions assigned to
// scanner.state and the method scanner.eof.
// They give details about the current state of the scan that callers might be
// interested to know about.
// It is okay to ignore the return value of any particular call to scanner.state.
type state uint8

const (
	// scanContinue indicates an uninteresting byte, so we can keep scanning forward.
	scanContinue state = iota // uninteresting byte

	// scanBeginObject indicates beginning of an object.
	scanBeginObject

	// scanBeginArray indicates beginning of an array.
	scanBeginArray

	// scanBeginLiteral indicates beginning of any value outside an array or object.
	scanBeginLiteral
)

// scanner represents a scanner is a JSON scanning state machine.
// Callers call scan.reset() and then pass bytes in one at a time by calling
// scan.step(&scan, c) for each byte.
// The return value, referred to as an opcode, tells the caller about significant
// parsing events like beginning and ending literals, objects, and arrays, so that
// the caller can follow along if it wishes.
// The return value scanEnd indicates that a single top-level JSON value has been
// completed, *before* the byte that just got passed in.  (The indication must be
// delayed in order to recognize the end of numbers: is 123 a whole value or the
// beginning of 12345e+6?).
type scanner struct {
	// step is a func to be called to execute the next transition.
	// Also tried using an integer constant and a single func with a switch, but
	// using the func directly was 10% faster on a 64-bit Mac Mini, and it's nicer
	// to read.
	step stepFunc

	// returnToStep a stack of step functions, to preserve the sequence of steps
	// (and return to them) in some cases.
	returnToStep *ds.Stack[stepFunc]

	// file a structure containing JSON data.
	file *fs.File

	// data a JSON content.
	data bytes.Bytes

	// stack a stack of found lexical event. The stack is needed for the scanner
	// to take into account the nesting of JSON or SCHEME elements.
	stack *ds.Stack[lexeme.LexEvent]

	// finds a list of found types of lexical event for the current step. Several
	// lexical events can be found in one step (example: ArrayItemBegin and LiteralBegin).
	finds []lexeme.LexEventType

	// index scanned byte index.
	index bytes.Index

	// dataSize a size of JSON data in bytes. Count once for optimization.
	dataSize bytes.Index

	// unfinishedLiteral a sign that a literal has been started but not completed.
	unfinishedLiteral bool

	// allowTrailingNonSpaceCharacters allows to have non-empty characters at the
	// end of the JSON.
	allowTrailingNonSpaceCharacters bool
}

func newScanner(file *fs.File) *scanner {
	return &scanner{
		step:         stateFoundRootValue,
		file:         file,
		data:         file.Content(),
		dataSize:     bytes.Index(len(file.Content())),
		returnToStep: &ds.Stack[stepFunc]{},
		stack:        &ds.Stack[lexeme.LexEvent]{},
		finds:        make([]lexeme.LexEventType, 0, 3),
	}
}

func (s *scanner) Length() uint {
	var length uint
	for {
		lex, ok := s.Next()
		if !ok {
			break
		}

		if lex.Type() == lexeme.EndTop {
			// Found character after the end of the schema and spaces. Ex: char
			// "s" in "{} some text".
			length = uint(lex.End())
			break
		}
		length = uint(lex.End()) + 1
	}
	for {
		if length == 0 {
			break
		}
		c := s.data[length-1]
		if bytes.IsBlank(c) {
			length--
		} else {
			break
		}
	}
	return length
}

// Next reads JSON byte by byte.
// Panic if an invalid JSON structure is found.
// Stops if it detects lexical events.
// Returns pointer to found lexeme event, or nil if you have complete JSON reading.
func (s *scanner) Next() (lexeme.LexEvent, bool) {
	if len(s.finds) != 0 {
		return s.processingFoundLexeme(s.shiftFound()), true
	}

	for s.index < s.dataSize {
		c := s.data[s.index]
		s.index++

		s.step(s, c)

		if len(s.finds) != 0 {
			return s.processingFoundLexeme(s.shiftFound()), true
		}
	}

	if s.stack.Len() != 0 {
		s.index++
		switch s.stack.Peek().Type() { //nolint:exhaustive // We handle all cases.
		case lexeme.LiteralBegin:
			if s.unfinishedLiteral {
				break
			}
			return s.processingFoundLexeme(lexeme.LiteralEnd), true
		case lexeme.InlineAnnotationBegin:
			return s.processingFoundLexeme(lexeme.InlineAnnotationEnd), true
		case lexeme.InlineAnnotationTextBegin:
			return s.processingFoundLexeme(lexeme.InlineAnnotationTextEnd), true
		}
		err := errors.NewDocumentError(s.file, errors.ErrUnexpectedEOF)
		err.SetIndex(s.dataSize - 1)
		panic(err)
	}

	return lexeme.LexEvent{}, false
}

func (s *scanner) found(lexType lexeme.LexEventType) {
	s.finds = append(s.finds, lexType)
}

func (s *scanner) shiftFound() lexeme.LexEventType {
	length := len(s.finds)
	if length == 0 {
		panic("Empty set of found lexical event")
	}
	lexType := s.finds[0]
	copy(s.finds[0:], s.finds[1:])
	s.finds = s.finds[:length-1]
	return lexType
}

func (s *scanner) processingFoundLexeme(lexType lexeme.LexEventType) lexeme.LexEvent {
	i := s.index - 1
	if lexType == lexeme.NewLine || lexType == lexeme.EndTop {
		return lexeme.NewLexEvent(lexType, i, i, s.file)
	}

	if lexType.IsOpening() {
		var lex lexeme.LexEvent
		if lexType == lexeme.InlineAnnotationBegin || lexType == lexeme.MultiLineAnnotationBegin {
			lex = lexeme.NewLexEvent(lexType, i-1, i, s.file) // `//` or `/*`
		} else {
			// `{`, `[`, `"` or literal first character (ex: `1` in `123`).
			lex = lexeme.NewLexEvent(lexType, i, i, s.file)
		}
		s.stack.Push(lex)
		return lex
	}

	return s.processFoundLexemeClosingTag(lexType, i)
}

func (s *scanner) processFoundLexemeClosingTag(lexType lexeme.LexEventType, i bytes.Index) lexeme.LexEvent {
	pair := s.stack.Pop()
	pairType := pair.Type()
	if isNonScalarPair(pairType, lexType) {
		return lexeme.NewLexEvent(lexType, pair.Begin(), i, s.file)
	}

	if isScalarPair(pairType, lexType) {
		return lexeme.NewLexEvent(lexType, pair.Begin(), i-1, s.file)
	}
	panic("Incorrect ending of the lexical event")
}

func isNonScalarPair(pairType, lexType lexeme.LexEventType) bool {
	return (pairType == lexeme.ObjectBegin && lexType == lexeme.ObjectEnd) ||
		(pairType == lexeme.ArrayBegin && lexType == lexeme.ArrayEnd)
}

func isScalarPair(pairType, lexType lexeme.LexEventType) bool {
	return (pairType == lexeme.LiteralBegin && lexType == lexeme.LiteralEnd) ||
		(pairType == lexeme.ArrayItemBegin && lexType == lexeme.ArrayItemEnd) ||
		(pairType == lexeme.ObjectKeyBegin && lexType == lexeme.ObjectKeyEnd) ||
		(pairType == lexeme.ObjectValueBegin && lexType == lexeme.ObjectValueEnd)
}

func stateFoundRootValue(s *scanner, c byte) state {
	r := stateBeginValue(s, c)
	switch r { //nolint:exhaustive // It's okay.
	case scanBeginObject:
		s.found(lexeme.ObjectBegin)

	case scanBeginArray:
		s.found(lexeme.ArrayBegin)

	case scanBeginLiteral:
		s.found(lexeme.LiteralBegin)
	}
	return r
}

func stateFoundObjectKeyBeginOrEmpty(s *scanner, c byte) state {
	if bytes.IsBlank(c) {
		return scanContinue
	}

	return stateBeginKeyOrEmpty(s, c)
}

func stateFoundObjectKeyBegin(s *scanner, c byte) state {
	if bytes.IsBlank(c) {
		return scanContinue
	}

	r := stateBeginString(s, c)
	s.found(lexeme.ObjectKeyBegin)
	return r
}

func stateFoundObjectValueBegin(s *scanner, c byte) state {
	r := stateBeginValue(s, c)
	switch r { //nolint:exhaustive // It's okay.
	case scanBeginLiteral:
		s.found(lexeme.ObjectValueBegin)
		s.found(lexeme.LiteralBegin)

	case scanBeginObject:
		s.found(lexeme.ObjectValueBegin)
		s.found(lexeme.ObjectBegin)

	case scanBeginArray:
		s.found(lexeme.ObjectValueBegin)
		s.found(lexeme.ArrayBegin)
	}
	return r
}

func stateFoundArrayItemBeginOrEmpty(s *scanner, c byte) state {
	r := stateBeginArrayItemOrEmpty(s, c)
	switch r { //nolint:exhaustive // It's okay.
	case scanBeginLiteral:
		s.found(lexeme.ArrayItemBegin)
		s.found(lexeme.LiteralBegin)

	case scanBeginObject:
		s.found(lexeme.ArrayItemBegin)
		s.found(lexeme.ObjectBegin)

	case scanBeginArray:
		s.found(lexeme.ArrayItemBegin)
		s.found(lexeme.ArrayBegin)
	}
	return r
}

func stateFoundArrayItemBegin(s *scanner, c byte) state {
	r := stateBeginValue(s, c)
	switch r { //nolint:exhaustive // It's okay.
	case scanBeginLiteral:
		s.found(lexeme.ArrayItemBegin)
		s.found(lexeme.LiteralBegin)

	case scanBeginObject:
		s.found(lexeme.ArrayItemBegin)
		s.found(lexeme.ObjectBegin)

	case scanBeginArray:
		s.found(lexeme.ArrayItemBegin)
		s.found(lexeme.ArrayBegin)
	}
	return r
}

func stateBeginValue(s *scanner, c byte) state { //nolint:gocyclo // It's okay.
	if bytes.IsBlank(c) {
		return scanContinue
	}
	switch c {
	case '{':
		s.step = stateFoundObjectKeyBeginOrEmpty
		return scanBeginObject
	case '[':
		s.step = stateFoundArrayItemBeginOrEmpty
		return scanBeginArray
	case '"':
		s.step = stateInString
		s.unfinishedLiteral = true
		return scanBeginLiteral
	case '-':
		s.step = stateNeg
		s.unfinishedLiteral = true
		return scanBeginLiteral
	case '0': // beginning of 0.123
		s.step = state0
		return scanBeginLiteral
	case 't': // beginning of true
		s.step = stateT
		s.unfinishedLiteral = true
		return scanBeginLiteral
	case 'f': // beginning of false
		s.step = stateF
		s.unfinishedLiteral = true
		return scanBeginLiteral
	case 'n': // beginning of null
		s.step = stateN
		s.unfinishedLiteral = true
		return scanBeginLiteral
	}
	if '1' <= c && c <= '9' { // beginning of 1234.5
		s.step = state1
		return scanBeginLiteral
	}
	panic(s.newDocumentErrorAtCharacter("looking for beginning of value"))
}

// After reading `[`.
func stateBeginArrayItemOrEmpty(s *scanner, c byte) state {
	if c == ']' {
		return stateFoundArrayEnd(s)
	}
	return stateBeginValue(s, c)
}

// After reading `{`.
func stateBeginKeyOrEmpty(s *scanner, c byte) state {
	if c == '}' {
		return stateFoundObjectEnd(s)
	}
	s.found(lexeme.ObjectKeyBegin)
	return stateBeginString(s, c)
}

// After reading `{"key": value,`.
func stateBeginString(s *scanner, c byte) state {
	if c == '"' {
		s.step = stateInString
		return scanBeginLiteral
	}
	panic(s.newDocumentErrorAtCharacter("looking for beginning of string"))
}

func stateEndValue(s *scanner, c byte) state {
	length := s.stack.Len()

	if length == 0 { // json ex `{} `
		s.step = stateEndTop
		return s.step(s, c)
	}

	t := s.stack.Peek().Type()

	if t == lexeme.LiteralBegin {
		s.found(lexeme.LiteralEnd)

		if length == 1 { // json ex `123 `
			s.step = stateEndTop
			return s.step(s, c)
		}

		t = s.stack.Get(length - 2).Type()
	}

	switch t { //nolint:exhaustive // We will throw a panic in over cases.
	case lexeme.ObjectKeyBegin:
		s.found(lexeme.ObjectKeyEnd)
		s.step = stateAfterObjectKey
		return s.step(s, c)
	case lexeme.ObjectValueBegin:
		s.found(lexeme.ObjectValueEnd)
		s.step = stateAfterObjectValue
		return s.step(s, c)
	case lexeme.ArrayItemBegin:
		s.found(lexeme.ArrayItemEnd)
		s.step = stateAfterArrayItem
		return s.step(s, c)
	}
	panic(s.newDocumentErrorAtCharacter("at the end of value"))
}

func stateAfterObjectKey(s *scanner, c byte) state {
	if bytes.IsBlank(c) {
		return scanContinue
	}

	if c == ':' {
		s.step = stateFoundObjectValueBegin
		return scanContinue
	}
	panic(s.newDocumentErrorAtCharacter("after object key"))
}

func stateAfterObjectValue(s *scanner, c byte) state {
	if bytes.IsBlank(c) {
		return scanContinue
	}
	if c == ',' {
		s.step = stateFoundObjectKeyBegin
		return scanContinue
	}
	if c == '}' {
		return stateFoundObjectEnd(s)
	}
	panic(s.newDocumentErrorAtCharacter("after object key:value pair"))
}

func stateAfterArrayItem(s *scanner, c byte) state {
	if bytes.IsBlank(c) {
		return scanContinue
	}
	if c == ',' {
		s.step = stateFoundArrayItemBegin
		return scanContinue
	}
	if c == ']' {
		return stateFoundArrayEnd(s)
	}
	panic(s.newDocumentErrorAtCharacter("after array item"))
}

func stateFoundObjectEnd(s *scanner) state {
	s.found(lexeme.ObjectEnd)
	s.step = stateEndValue
	return scanContinue
}

func stateFoundArrayEnd(s *scanner) state {
	s.found(lexeme.ArrayEnd)
	if s.stack.Len() == 0 {
		s.step = stateEndTop
	} else {
		s.step = stateEndValue
	}
	return scanContinue
}

// stateEndTop is the state after finishing the top-level value, such as after
// reading `{}` or `[1,2,3]`.
// Only space characters should be seen now.
func stateEndTop(s *scanner, c byte) state {
	if !bytes.IsBlank(c) {
		if !s.allowTrailingNonSpaceCharacters {
			panic(s.newDocumentErrorAtCharacter("non-space byte after top-level value"))
		}
		s.found(lexeme.EndTop)
	}
	return scanContinue
}

// After reading `"`.
func stateInString(s *scanner, c byte) state {
	switch c {
	case '"':
		s.step = stateEndValue
		s.unfinishedLiteral = false
		return scanContinue
	case '\\':
		s.step = stateInStringEsc
		return scanContinue
	}
	if c < 0x20 {
		panic(s.newDocumentErrorAtCharacter("in string literal"))
	}
	return scanContinue
}

// After reading `"\` during a quoted string.
func stateInStringEsc(s *scanner, c byte) state {
	switch c {
	case 'b', 'f', 'n', 'r', 't', '\\', '/', '"':
		s.step = stateInString
		return scanContinue
	case 'u':
		s.returnToStep.Push(stateInString)
		s.step = stateInStringEscU
		return scanContinue
	}
	panic(s.newDocumentErrorAtCharacter("in string escape code"))
}

// After reading `"\u` during a quoted string.
func stateInStringEscU(s *scanner, c byte) state {
	if bytes.IsHexDigit(c) {
		s.step = stateInStringEscU1
		return scanContinue
	}
	panic(s.newDocumentErrorAtCharacter("in \\u hexadecimal character escape"))
}

// After reading `"\u1` during a quoted string.
func stateInStringEscU1(s *scanner, c byte) state {
	if bytes.IsHexDigit(c) {
		s.step = stateInStringEscU12
		return scanContinue
	}
	panic(s.newDocumentErrorAtCharacter("in \\u hexadecimal character escape"))
}

// After reading `"\u12` during a quoted string.
func stateInStringEscU12(s *scanner, c byte) state {
	if bytes.IsHexDigit(c) {
		s.step = stateInStringEscU123
		return scanContinue
	}
	panic(s.newDocumentErrorAtCharacter("in \\u hexadecimal character escape"))
}

// After reading `"\u123` during a quoted string.
func stateInStringEscU123(s *scanner, c byte) state {
	if bytes.IsHexDigit(c) {
		s.step = s.returnToStep.Pop() // = stateInString for JSON, = stateInAnnotationObjectKey for AnnotationObject
		return scanContinue
	}
	panic(s.newDocumentErrorAtCharacter("in \\u hexadecimal character escape"))
}

// After reading `-` during a number.
func stateNeg(s *scanner, c byte) state {
	if c == '0' {
		s.step = state0
		s.unfinishedLiteral = false
		return scanContinue
	}
	if '1' <= c && c <= '9' {
		s.step = state1
		s.unfinishedLiteral = false
		return scanContinue
	}
	panic(s.newDocumentErrorAtCharacter("in numeric literal"))
}

// After reading a non-zero integer during a number, such as after reading `1` or
// `100` but not `0`.
func state1(s *scanner, c byte) state {
	if bytes.IsDigit(c) {
		s.step = state1
		return scanContinue
	}
	return state0(s, c)
}

// After reading `0` during a number.
func state0(s *scanner, c byte) state {
	if c == '.' {
		s.step = stateDot
		s.unfinishedLiteral = true
		return scanContinue
	}
	if c == 'e' || c == 'E' {
		s.step = stateE
		s.unfinishedLiteral = true
		return scanContinue
	}
	return stateEndValue(s, c)
}

// After reading the integer and decimal point in a number, such as after reading
// `1.`.
func stateDot(s *scanner, c byte) state {
	if bytes.IsDigit(c) {
		s.step = stateDot0
		s.unfinishedLiteral = false
		return scanContinue
	}
	panic(s.newDocumentErrorAtCharacter("after decimal point in numeric literal"))
}

// After reading the integer, decimal point, and subsequent digits of a number,
// such as after reading `3.14`.
func stateDot0(s *scanner, c byte) state {
	if bytes.IsDigit(c) {
		return scanContinue
	}
	if c == 'e' || c == 'E' {
		s.step = stateE
		s.unfinishedLiteral = true
		return scanContinue
	}
	return stateEndValue(s, c)
}

// After reading the mantissa and e in a number, such as after reading `314e` or
// `0.314e`.
func stateE(s *scanner, c byte) state {
	if c == '+' || c == '-' {
		s.step = stateESign
		return scanContinue
	}
	return stateESign(s, c)
}

// After reading the mantissa, e, and sign in a number, such as after reading
// `314e-` or `0.314e+`.
func stateESign(s *scanner, c byte) state {
	if bytes.IsDigit(c) {
		s.step = stateE0
		s.unfinishedLiteral = false
		return scanContinue
	}
	panic(s.newDocumentErrorAtCharacter("in exponent of numeric literal"))
}

// After reading the mantissa, e, optional sign, and at least one digit of the
// exponent in a number, such as after reading `314e-2` or `0.314e+1` or `3.14e0`.
func stateE0(s *scanner, c byte) state {
	if bytes.IsDigit(c) {
		return scanContinue
	}
	return stateEndValue(s, c)
}

// After reading `t`.
func stateT(s *scanner, c byte) state {
	if c == 'r' {
		s.step = stateTr
		return scanContinue
	}
	panic(s.newDocumentErrorAtCharacter("in literal true (expecting 'r')"))
}

// After reading `tr`.
func stateTr(s *scanner, c byte) state {
	if c == 'u' {
		s.step = stateTru
		return scanContinue
	}
	panic(s.newDocumentErrorAtCharacter("in literal true (expecting 'u')"))
}

// After reading `tru`.
func stateTru(s *scanner, c byte) state {
	if c == 'e' {
		s.step = stateEndValue
		s.unfinishedLiteral = false
		return scanContinue
	}
	panic(s.newDocumentErrorAtCharacter("in literal true (expecting 'e')"))
}

// After reading `f`.
func stateF(s *scanner, c byte) state {
	if c == 'a' {
		s.step = stateFa
		return scanContinue
	}
	panic(s.newDocumentErrorAtCharacter("in literal false (expecting 'a')"))
}

// After reading `fa`.
func stateFa(s *scanner, c byte) state {
	if c == 'l' {
		s.step = stateFal
		return scanContinue
	}
	panic(s.newDocumentErrorAtCharacter("in literal false (expecting 'l')"))
}

// After reading `fal`.
func stateFal(s *scanner, c byte) state {
	if c == 's' {
		s.step = stateFals
		return scanContinue
	}
	panic(s.newDocumentErrorAtCharacter("in literal false (expecting 's')"))
}

// After reading `fals`.
func stateFals(s *scanner, c byte) state {
	if c == 'e' {
		s.step = stateEndValue
		s.unfinishedLiteral = false
		return scanContinue
	}
	panic(s.newDocumentErrorAtCharacter("in literal false (expecting 'e')"))
}

// After reading `n`.
func stateN(s *scanner, c byte) state {
	if c == 'u' {
		s.step = stateNu
		return scanContinue
	}
	panic(s.newDocumentErrorAtCharacter("in literal null (expecting 'u')"))
}

// After reading `nu`.
func stateNu(s *scanner, c byte) state {
	if c == 'l' {
		s.step = stateNul
		return scanContinue
	}
	panic(s.newDocumentErrorAtCharacter("in literal null (expecting 'l')"))
}

// After reading `nul`.
func stateNul(s *scanner, c byte) state {
	if c == 'l' {
		s.step = stateEndValue
		s.unfinishedLiteral = false
		return scanContinue
	}
	panic(s.newDocumentErrorAtCharacter("in literal null (expecting 'l')"))
}

func (s *scanner) newDocumentErrorAtCharacter(context string) errors.DocumentError {
	// Make runes (utf8 symbols) from current index to last of slice s.data.
	// Get first rune. Then make string with format ' symbol '
	runes := []rune(string(s.data[(s.index - 1):]))
	e := errors.Format(errors.ErrInvalidCharacter, string(runes[0]), context)
	err := errors.NewDocumentError(s.file, e)
	err.SetIndex(s.index - 1)
	return err
}
