//go:build verif

// Package verifhook re-exports internal helpers for the verification harness.
// It is compiled only with the build tag verif.
package verifhook

import (
	"github.com/jsightapi/jsight-schema-go-library/bytes"
	"github.com/jsightapi/jsight-schema-go-library/internal/json"
)

// Number is a parsed numeral.
type Number = json.Number

// NewNumber parses a numeral; ok is false on an error or a panic.
func NewNumber(s string) (n *Number, ok bool) {
	defer func() {
		if r := recover(); r != nil {
			n, ok = nil, false
		}
	}()
	n, err := json.NewNumber(bytes.Bytes(s))
	return n, err == nil
}

// Guess returns the guessed JSON type name of a scalar token ("" on a panic).
func Guess(s string) (t string) {
	defer func() {
		if r := recover(); r != nil {
			t = ""
		}
	}()
	return json.Guess(bytes.Bytes(s)).JsonType().String()
}
