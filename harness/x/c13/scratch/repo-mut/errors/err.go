package errors

type Err interface {
	error

	Code() ErrorCode
}

type Error interface {
	Filename() string
	Position() uint
	Message() string
	ErrCode() int
	IncorrectUserType() string
}
