package errors

import (
	"strconv"
	"strings"
)

type ErrorCode int //nolint:errname // This is okay.

const (
	ErrGeneric    ErrorCode = 0
	ErrImpossible ErrorCode = 1

	// Main & common.

	ErrUserTypeFound             ErrorCode = 101
	ErrUnknownType               ErrorCode = 102
	ErrUnknownJSchemaType        ErrorCode = 103
	ErrInfinityRecursionDetected ErrorCode = 104

	// Validator.

	ErrValidator                       ErrorCode = 201
	ErrEmptySchema                     ErrorCode = 202
	ErrEmptyJson                       ErrorCode = 203
	ErrOrRuleSetValidation             ErrorCode = 204
	ErrRequiredKeyNotFound             ErrorCode = 205
	ErrSchemaDoesNotSupportKey         ErrorCode = 206
	ErrUnexpectedLexInLiteralValidator ErrorCode = 207
	ErrUnexpectedLexInObjectValidator  ErrorCode = 208
	ErrUnexpectedLexInArrayValidator   ErrorCode = 209
	ErrInvalidValueType                ErrorCode = 210
	ErrInvalidKeyType                  ErrorCode = 211
	ErrUnexpectedLexInMixedValidator   ErrorCode = 212

	// Scanner.

	ErrInvalidCharacter                      ErrorCode = 301
	ErrInvalidCharacterInAnnotationObjectKey ErrorCode = 302
	ErrUnexpectedEOF                         ErrorCode = 303
	ErrAnnotationNotAllowed                  ErrorCode = 304

	// Schema.

	ErrNodeGrow                 ErrorCode = 401
	ErrDuplicateKeysInSchema    ErrorCode = 402
	ErrDuplicationOfNameOfTypes ErrorCode = 403

	// Node.

	ErrDuplicateRule ErrorCode = 501

	// Constraint

	ErrUnknownRule                                 ErrorCode = 601
	ErrConstraintValidation                        ErrorCode = 602
	ErrConstraintStringLengthValidation            ErrorCode = 603
	ErrInvalidValueOfConstraint                    ErrorCode = 604
	ErrZeroPrecision                               ErrorCode = 605
	ErrEmptyEmail                                  ErrorCode = 606
	ErrInvalidEmail                                ErrorCode = 607
	ErrConstraintMinItemsValidation                ErrorCode = 608
	ErrConstraintMaxItemsValidation                ErrorCode = 609
	ErrDoesNotMatchAnyOfTheEnumValues              ErrorCode = 610
	ErrDoesNotMatchRegularExpression               ErrorCode = 611
	ErrInvalidUri                                  ErrorCode = 612
	ErrInvalidDateTime                             ErrorCode = 613
	ErrInvalidUuid                                 ErrorCode = 614
	ErrInvalidConst                                ErrorCode = 615
	ErrInvalidDate                                 ErrorCode = 616
	ErrValueOfOneConstraintGreaterThanAnother      ErrorCode = 617
	ErrValueOfOneConstraintGreaterOrEqualToAnother ErrorCode = 618

	// Loader.

	ErrInvalidSchemaName                ErrorCode = 701
	ErrInvalidSchemaNameInAllOfRule     ErrorCode = 702
	ErrUnacceptableRecursionInAllOfRule ErrorCode = 703
	ErrUnacceptableUserTypeInAllOfRule  ErrorCode = 704
	ErrConflictAdditionalProperties     ErrorCode = 705

	// Rule loader.

	ErrLoader                           ErrorCode = 801
	ErrIncorrectRuleValueType           ErrorCode = 802
	ErrIncorrectRuleWithoutExample      ErrorCode = 803
	ErrIncorrectRuleForSeveralNode      ErrorCode = 804
	ErrLiteralValueExpected             ErrorCode = 805
	ErrInvalidValueInEnumRule           ErrorCode = 806
	ErrIncorrectArrayItemTypeInEnumRule ErrorCode = 807
	ErrUnacceptableValueInAllOfRule     ErrorCode = 808
	ErrTypeNameNotFoundInAllOfRule      ErrorCode = 809
	ErrDuplicationInEnumRule            ErrorCode = 810

	// "or" rule loader.

	ErrArrayWasExpectedInOrRule       ErrorCode = 901
	ErrEmptyArrayInOrRule             ErrorCode = 902
	ErrOneElementInArrayInOrRule      ErrorCode = 903
	ErrIncorrectArrayItemTypeInOrRule ErrorCode = 904
	ErrEmptyRuleSet                   ErrorCode = 905

	// Compiler.

	ErrRuleOptionalAppliesOnlyToObjectProperties ErrorCode = 1101
	ErrCannotSpecifyOtherRulesWithTypeReference  ErrorCode = 1102
	ErrShouldBeNoOtherRulesInSetWithOr           ErrorCode = 1103
	ErrShouldBeNoOtherRulesInSetWithEnum         ErrorCode = 1104
	ErrShouldBeNoOtherRulesInSetWithAny          ErrorCode = 1105
	ErrInvalidNestedElementsFoundForTypeAny      ErrorCode = 1106
	ErrInvalidChildNodeTogetherWithTypeReference ErrorCode = 1107
	ErrInvalidChildNodeTogetherWithOrRule        ErrorCode = 1108
	ErrConstraintMinNotFound                     ErrorCode = 1109
	ErrConstraintMaxNotFound                     ErrorCode = 1110
	ErrInvalidValueInTheTypeRule                 ErrorCode = 1111
	ErrNotFoundRulePrecision                     ErrorCode = 1112
	ErrNotFoundRuleEnum                          ErrorCode = 1113
	ErrNotFoundRuleOr                            ErrorCode = 1114
	ErrIncompatibleTypes                         ErrorCode = 1115
	// ErrUnknownAdditionalPropertiesTypes          ErrorCode = 1116

	ErrUnexpectedConstraint ErrorCode = 1117

	// Checker.

	ErrChecker                               ErrorCode = 1201
	ErrElementNotFoundInArray                ErrorCode = 1203
	ErrIncorrectConstraintValueForEmptyArray ErrorCode = 1204

	// Link checker.

	ErrIncorrectUserType                              ErrorCode = 1301
	ErrTypeNotFound                                   ErrorCode = 1302
	ErrImpossibleToDetermineTheJsonTypeDueToRecursion ErrorCode = 1303
	ErrInvalidKeyShortcutType                         ErrorCode = 1304

	// SDK.

	ErrEmptyType                          ErrorCode = 1401
	ErrUnnecessaryLexemeAfterTheEndOfEnum ErrorCode = 1402

	// Regex.

	ErrRegexUnexpectedStart ErrorCode = 1500
	ErrRegexUnexpectedEnd   ErrorCode = 1501
	ErrRegexInvalid         ErrorCode = 1502

	// Enum.

	ErrEnumArrayExpected  ErrorCode = 1600
	ErrEnumIsHoldRuleName ErrorCode = 1601
	ErrEnumRuleNotFound   ErrorCode = 1602
	ErrNotAnEnumRule      ErrorCode = 1603
)

var errorFormat = map[ErrorCode]string{
	// old error format
	ErrGeneric: "%s",

	ErrImpossible: "The error should not occur during regular operation. May appear only in the process of unfinished code refactoring.", //nolint:lll

	// main & common
	ErrUserTypeFound:             "Found an invalid reference to the type",
	ErrUnknownType:               "Unknown type %q",
	ErrUnknownJSchemaType:        "Unknown JSchema type %q",
	ErrInfinityRecursionDetected: "Infinity recursion detected %s",

	// validator
	ErrValidator:                       "Validator error",
	ErrEmptySchema:                     "Empty schema",
	ErrEmptyJson:                       "Empty JSON",
	ErrOrRuleSetValidation:             `None of the rules in the "OR" set has been validated`,
	ErrRequiredKeyNotFound:             `Required key "%s" not found`,
	ErrSchemaDoesNotSupportKey:         `Schema does not support key "%s"`,
	ErrUnexpectedLexInLiteralValidator: `Invalid value, scalar expected`,
	ErrUnexpectedLexInObjectValidator:  `Invalid value, object expected`,
	ErrUnexpectedLexInArrayValidator:   `Invalid value, array expected`,
	ErrUnexpectedLexInMixedValidator:   `Invalid value, scalar, array, or object expected`,
	ErrInvalidValueType:                `Invalid value type "%s", expected "%s"`,
	ErrInvalidKeyType:                  `Incorrect key type "%s"`,

	// scanner
	ErrInvalidCharacter:                      "Invalid character %q %s",
	ErrInvalidCharacterInAnnotationObjectKey: "Invalid character %s in object key (inside comment)",
	ErrUnexpectedEOF:                         "Unexpected end of file",
	ErrAnnotationNotAllowed:                  "Annotation not allowed here",

	// schema
	ErrNodeGrow:                 "Node grow error",
	ErrDuplicateKeysInSchema:    "Duplicate keys (%s) in the schema",
	ErrDuplicationOfNameOfTypes: "Duplication of the name of the types (%s)",

	// node
	ErrDuplicateRule: "Duplicate %q rule",

	// constraint
	ErrUnknownRule:                                 `Unknown rule "%s"`,
	ErrConstraintValidation:                        "Invalid value for %q = %s constraint %s",
	ErrConstraintStringLengthValidation:            "Invalid string length for %q = %q constraint",
	ErrInvalidValueOfConstraint:                    "Invalid value of %q constraint",
	ErrZeroPrecision:                               "Precision can't be zero",
	ErrEmptyEmail:                                  "Empty email",
	ErrInvalidEmail:                                "Invalid email (%s)",
	ErrConstraintMinItemsValidation:                `The number of array elements does not match the "minItems" rule`,
	ErrConstraintMaxItemsValidation:                `The number of array elements does not match the "maxItems" rule`,
	ErrDoesNotMatchAnyOfTheEnumValues:              "Does not match any of the enumeration values",
	ErrDoesNotMatchRegularExpression:               "Does not match regular expression",
	ErrInvalidUri:                                  "Invalid URI (%s)",
	ErrInvalidDateTime:                             "Date/Time parsing error",
	ErrInvalidUuid:                                 "UUID parsing error: %s",
	ErrInvalidConst:                                "Does not match expected value (%s)",
	ErrInvalidDate:                                 "Date parsing error (%s)",
	ErrValueOfOneConstraintGreaterThanAnother:      "Value of constraint %q should be less or equal to value of %q constraint", //nolint:lll
	ErrValueOfOneConstraintGreaterOrEqualToAnother: "Value of constraint %q should be less than value of %q constraint",

	// loader
	ErrInvalidSchemaName:                "Invalid schema name (%s)",
	ErrInvalidSchemaNameInAllOfRule:     `Invalid schema name (%s) in "allOf" rule`,
	ErrUnacceptableRecursionInAllOfRule: `Unacceptable recursion in "allOf" rule`,
	ErrUnacceptableUserTypeInAllOfRule:  `Unacceptable type. The "%s" type in the "allOf" rule must be an object`,
	ErrConflictAdditionalProperties:     `Conflicting value in AdditionalProperties rules when inheriting from allOf`,

	// rule loader
	ErrLoader:                           "Loader error", // error somewhere in the loader code
	ErrIncorrectRuleValueType:           "Incorrect rule value type",
	ErrIncorrectRuleWithoutExample:      "You cannot place a RULE on line without EXAMPLE",
	ErrIncorrectRuleForSeveralNode:      "You cannot place a RULE on lines that contain more than one EXAMPLE node to which any RULES can apply. The only exception is when an object key and its value are found in one line.", //nolint:lll
	ErrLiteralValueExpected:             "Literal value expected",
	ErrInvalidValueInEnumRule:           `An array or rule name was expected as a value for the "enum"`,
	ErrIncorrectArrayItemTypeInEnumRule: `Incorrect array item type in "enum". Only literals are allowed.`,
	ErrUnacceptableValueInAllOfRule:     `Incorrect value in "allOf" rule. A type name, or list of type names, is expected.`, //nolint:lll
	ErrTypeNameNotFoundInAllOfRule:      `Type name not found in "allOf" rule`,
	ErrDuplicationInEnumRule:            `%s value duplicates in "enum"`,

	// "or" rule loader
	ErrArrayWasExpectedInOrRule:       `An array was expected as a value for the "or" rule`,
	ErrEmptyArrayInOrRule:             `Empty array in "or" rule`,
	ErrOneElementInArrayInOrRule:      `Array rule "or" must have at least two elements`,
	ErrIncorrectArrayItemTypeInOrRule: `Incorrect array item type in "or" rule`,
	ErrEmptyRuleSet:                   `Empty rule set`,

	// compiler
	ErrRuleOptionalAppliesOnlyToObjectProperties: `The rule "optional" applies only to object properties`,
	ErrCannotSpecifyOtherRulesWithTypeReference:  `Invalid rule set shared with a type reference`,
	ErrShouldBeNoOtherRulesInSetWithOr:           `Invalid rule set shared with "or"`,
	ErrShouldBeNoOtherRulesInSetWithEnum:         `Invalid rule set shared with "enum"`,
	ErrShouldBeNoOtherRulesInSetWithAny:          `Invalid rule set shared with "any"`,
	ErrInvalidNestedElementsFoundForTypeAny:      `Invalid nested elements found for an element of type "any"`,
	ErrInvalidChildNodeTogetherWithTypeReference: `You cannot specify child node if you use a type reference`,
	ErrInvalidChildNodeTogetherWithOrRule:        `You cannot specify child node if you use a "or" rule`,
	ErrConstraintMinNotFound:                     `Constraint "min" not found`,
	ErrConstraintMaxNotFound:                     `Constraint "max" not found`,
	ErrInvalidValueInTheTypeRule:                 `Invalid value in the "type" rule (%s)`,
	ErrNotFoundRulePrecision:                     `Not found the rule "precision" for the "decimal" type`,
	ErrNotFoundRuleEnum:                          `Not found the rule "enum" for the "enum" type`,
	ErrNotFoundRuleOr:                            `Not found the rule "or" for the "mixed" type`,
	ErrIncompatibleTypes:                         `Incompatible value of example and "type" rule (%s)`,
	// ErrUnknownAdditionalPropertiesTypes:          "Unknown type of additionalProperties (%s)",
	ErrUnexpectedConstraint: "The %q constraint can't be used for the %q type",

	// checker
	ErrChecker:                               `Checker error`,
	ErrElementNotFoundInArray:                `Element not found in schema array node`,
	ErrIncorrectConstraintValueForEmptyArray: `Incorrect constraint value for empty array`,

	// link checker
	ErrIncorrectUserType: "Incorrect type of user type",
	ErrTypeNotFound:      "Type %q not found",
	ErrImpossibleToDetermineTheJsonTypeDueToRecursion: `It is impossible to determine the json type due to recursion of type %q`, //nolint:lll
	ErrInvalidKeyShortcutType:                         "Key shortcut %q should be string but %q given",

	// sdk
	ErrEmptyType:                          `Type "%s" must not be empty`,
	ErrUnnecessaryLexemeAfterTheEndOfEnum: `An unnecessary non-space character after the end of the enum`,
	ErrRegexUnexpectedStart:               "Regex should starts with '/' character, but found %s",
	ErrRegexUnexpectedEnd:                 "Regex should ends with '/' character, but found %s",
	ErrRegexInvalid:                       "Invalid regex %s",

	// enum
	ErrEnumArrayExpected:  `An array was expected as a value for the "enum"`,
	ErrEnumIsHoldRuleName: "Can't append specific value to enum initialized with rule name",
	ErrEnumRuleNotFound:   "Enum rule %q not found",
	ErrNotAnEnumRule:      "Rule %q not an Enum",
}

func (c ErrorCode) Code() ErrorCode {
	return c
}

func (c ErrorCode) Itoa() string {
	return strconv.Itoa(int(c))
}

func (c ErrorCode) Error() string {
	if format, ok := errorFormat[c]; ok {
		cnt := strings.Count(format, "%s")
		cnt += strings.Count(format, "%q")
		if cnt == 0 {
			return format
		} else {
			panic("Not enough data to generate an error message from template: " + format)
		}
	}
	panic("Unknown error code")
}
