package errors

import (
	"fmt"
	"strings"
)

type Errorf struct { //nolint:errname // This is okay.
	args []interface{}
	code ErrorCode
}

func Format(code ErrorCode, args ...interface{}) Errorf {
	return Errorf{
		code: code,
		args: args,
	}
}

func (e Errorf) Code() ErrorCode {
	return e.code
}

func (e Errorf) Error() string {
	if format, ok := errorFormat[e.code]; ok {
		cnt := strings.Count(format, "%s")
		cnt += strings.Count(format, "%q")
		if cnt != len(e.args) {
			panic("Invalid error message: " + format)
		}
		if cnt == 0 {
			return format
		} else {
			return fmt.Sprintf(format, e.args...)
		}
	}
	panic("Unknown error code")
}
