package errors

import (
	"fmt"
	"strings"

	"github.com/jsightapi/jsight-schema-go-library/bytes"
	"github.com/jsightapi/jsight-schema-go-library/fs"
)

// DocumentError contains methods for forming a detailed description of the error
// for a person.
// The resulting message will contain the filename, line number, and where the error
// occurred.
type DocumentError struct {
	// A file containing jSchema or JSON data.
	file              *fs.File
	message           string
	incorrectUserType string
	code              ErrorCode

	// index of the byte in which the error was found.
	index bytes.Index

	// A length of file content.
	length bytes.Index

	// hasIndex true if the value for Index have been defined.
	hasIndex bool

	// prepared is true when preliminary calculations are made, the results of
	// which are used in some methods.
	prepared bool

	// nl represent new line symbol.
	nl byte
}

var (
	_ Error = DocumentError{}
	_ error = DocumentError{}
)

func NewDocumentError(file *fs.File, err Err) DocumentError {
	return DocumentError{
		code:    err.Code(),
		message: err.Error(),
		file:    file,
	}
}

func (e DocumentError) Code() ErrorCode {
	return e.code
}

func (e DocumentError) ErrCode() int {
	return int(e.code)
}

func (e DocumentError) Filename() string {
	if e.file == nil {
		return ""
	}
	return e.file.Name()
}

func (e DocumentError) Message() string {
	return e.message
}

func (e DocumentError) Position() uint {
	return uint(e.index)
}

func (e DocumentError) Index() bytes.Index {
	return e.index
}

func (e *DocumentError) SetIndex(index bytes.Index) {
	e.index = index
	e.hasIndex = true
}

func (e DocumentError) IncorrectUserType() string {
	return e.incorrectUserType
}

func (e *DocumentError) SetIncorrectUserType(s string) {
	e.incorrectUserType = s
}

func (e *DocumentError) SetFile(file *fs.File) {
	e.file = file
}

func (e *DocumentError) SetMessage(message string) {
	e.message = message
}

// The method performs preparatory calculations, the results of which are used in other methods.
func (e *DocumentError) preparation() {
	if e.prepared {
		return
	}

	if e.file == nil {
		panic("The file is not specified")
	}
	e.length = bytes.Index(len(e.file.Content()))
	e.detectNewLineSymbol()
	e.prepared = true
}

func (e *DocumentError) detectNewLineSymbol() {
	content := e.file.Content()
	e.nl = '\n' // default new line
	var found bool
	for _, c := range content {
		if bytes.IsNewLine(c) {
			e.nl = c
			found = true
		} else if found { // first symbol after new line
			break
		}
	}
}

// lineBeginning
// Before calling this method, you must run the e.preparation().
func (e DocumentError) lineBeginning() bytes.Index {
	content := e.file.Content()
	i := e.index
	for {
		c := content[i]
		if c == e.nl {
			if i != e.index {
				i++ // step forward from new line
				break
			}
		}
		if i == 0 { // It is important because an unsigned value (i := 0; i--; i == [large positive number])
			break
		}
		i--
	}
	return i
}

// lineEnd
// Before calling this method, you must run the e.preparation().
func (e DocumentError) lineEnd() bytes.Index {
	content := e.file.Content()
	i := e.index
	for i < e.length {
		c := content[i]
		if c == e.nl {
			break
		}
		i++
	}
	if i > 0 {
		c := content[i-1]
		if (e.nl == '\n' && c == '\r') || (e.nl == '\r' && c == '\n') {
			i--
		}
	}
	return i
}

// Line returns 0, if cannot determine the line number, or 1+ if it can.
func (e *DocumentError) Line() uint {
	if e.file == nil || len(e.file.Content()) == 0 {
		return 0
	}

	e.preparation()

	content := e.file.Content()
	i := e.index
	var n uint

	for {
		c := content[i]
		if c == e.nl {
			if i != e.index {
				n++
			}
		}
		if i == 0 { // It is important because an unsigned value (i := 0; i--; i == [large positive number])
			break
		}
		i--
	}

	return n + 1
}

// SourceSubString returns empty string, if cannot determine the source sub-string.
func (e *DocumentError) SourceSubString() string {
	const maxLength = 200

	if e.file == nil || len(e.file.Content()) == 0 {
		return ""
	}

	e.preparation()

	content := e.file.Content()
	begin := e.lineBeginning()
	end := e.lineEnd()

	if end-begin > maxLength {
		end = begin + maxLength - 3
		return string(content[begin:end].TrimSpacesFromLeft()) + "..."
	}

	return string(content[begin:end].TrimSpacesFromLeft())
}

func (e *DocumentError) pointerToTheErrorCharacter() string {
	e.preparation()

	content := e.file.Content()
	begin := e.lineBeginning()
	spaces := content[begin:].CountSpacesFromLeft()

	i := int(e.index) - int(begin) - spaces
	if i < 0 {
		// The position is inside the leading blanks of the line.
		i = 0
	}
	return strings.Repeat("-", i) + "^"
}

func (e DocumentError) Error() string {
	return e.String()
}

func (e *DocumentError) String() string {
	var prefix string
	if e.code == ErrGeneric {
		prefix = "ERROR"
	} else {
		prefix = "ERROR (code " + e.code.Itoa() + ")"
	}
	if e.file != nil {
		filename := e.file.Name()
		if e.hasIndex {
			return fmt.Sprintf(`%s: %s
	in line %d on file %s
	> %s
	--%s`, prefix, e.message, e.Line(), filename, e.SourceSubString(), e.pointerToTheErrorCharacter())
		} else if filename != "" {
			return fmt.Sprintf("%s: %s\n\tin file %s", prefix, e.message, filename)
		}
	}
	return fmt.Sprintf("%s: %s", prefix, e.message)
}
