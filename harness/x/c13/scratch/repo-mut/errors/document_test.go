package errors

import (
	"fmt"
	"strings"
	"testing"

	"github.com/stretchr/testify/assert"

	"github.com/jsightapi/jsight-schema-go-library/bytes"
	"github.com/jsightapi/jsight-schema-go-library/fs"
)

func TestDocumentError_preparation(t *testing.T) {
	t.Run("positive", func(t *testing.T) {
		t.Run("not prepared", func(t *testing.T) {
			e := DocumentError{file: fs.NewFile("", "123456")}
			e.preparation()

			assert.EqualValues(t, 6, e.length)
			assert.EqualValues(t, '\n', e.nl)
		})

		t.Run("already prepared", func(t *testing.T) {
			e := DocumentError{prepared: true}
			e.preparation()

			assert.EqualValues(t, 0, e.length)
			assert.EqualValues(t, 0, e.nl)
		})
	})

	t.Run("negative", func(t *testing.T) {
		assert.PanicsWithValue(t, "The file is not specified", func() {
			(&DocumentError{}).preparation()
		})
	})
}

func TestDocumentError_detectNewLineSymbol(t *testing.T) {
	cc := map[string]byte{
		"abc":     '\n',
		"abc\n":   '\n',
		"abc\r\n": '\n',
		"abc\r":   '\r',
		"abc\n\r": '\r',
	}

	nameReplacer := strings.NewReplacer("\n", "\\n", "\r", "\\r")

	for given, expected := range cc {
		t.Run(nameReplacer.Replace(given), func(t *testing.T) {
			e := DocumentError{file: fs.NewFile("", given)}
			e.detectNewLineSymbol()

			assert.Equal(t, string(expected), string(e.nl))
		})
	}
}

type testValidResult struct {
	index      bytes.Index
	begin      bytes.Index
	end        bytes.Index
	str        string
	lineNumber uint
}
type testData struct {
	source string
	valid  []testValidResult
}

var data = []testData{
	{
		"ABC",
		[]testValidResult{
			{0, 0, 3, "ABC", 1}, // index of the character A
			{1, 0, 3, "ABC", 1}, // index of the character B
			{2, 0, 3, "ABC", 1}, // index of the character C
		},
	},
	{
		"AB\n\nCD\n",
		[]testValidResult{
			{0, 0, 2, "AB", 1}, // index of the character A
			{1, 0, 2, "AB", 1}, // index of the character B
			{2, 0, 2, "AB", 1}, // index of first character "\n"
			{3, 3, 3, "", 2},   // index of second character "\n"
			{4, 4, 6, "CD", 3}, // index of the character C
			{5, 4, 6, "CD", 3}, // index of the character D
			{6, 4, 6, "CD", 3}, // index of third character "\n"
		},
	},
	{
		"AB\r\rCD\r",
		[]testValidResult{
			{0, 0, 2, "AB", 1}, // index of the character A
			{1, 0, 2, "AB", 1}, // index of the character B
			{2, 0, 2, "AB", 1}, // index of first character "\r"
			{3, 3, 3, "", 2},   // index of second character "\r"
			{4, 4, 6, "CD", 3}, // index of the character C
			{5, 4, 6, "CD", 3}, // index of the character D
			{6, 4, 6, "CD", 3}, // index of third character "\r"
		},
	},
	{
		"AB\r\n\r\nCD\r\n",
		[]testValidResult{
			{0, 0, 2, "AB", 1}, // index of the character A
			{1, 0, 2, "AB", 1}, // index of the character B
			{2, 0, 2, "AB", 1}, // index of first character "\r"
			{3, 0, 2, "AB", 1}, // index of first character "\n"
			{4, 4, 4, "", 2},   // index of second character "\r"
			{5, 4, 4, "", 2},   // index of second character "\n"
			{6, 6, 8, "CD", 3}, // index of the character C
			{7, 6, 8, "CD", 3}, // index of the character D
			{8, 6, 8, "CD", 3}, // index of third character "\r"
			{9, 6, 8, "CD", 3}, // index of third character "\n"
		},
	},
	{
		"AB\n\r\n\rCD\n\r",
		[]testValidResult{
			{0, 0, 2, "AB", 1}, // index of the character A
			{1, 0, 2, "AB", 1}, // index of the character B
			{2, 0, 2, "AB", 1}, // index of first character "\r"
			{3, 0, 2, "AB", 1}, // index of first character "\n"
			{4, 4, 4, "", 2},   // index of second character "\r"
			{5, 4, 4, "", 2},   // index of second character "\n"
			{6, 6, 8, "CD", 3}, // index of the character C
			{7, 6, 8, "CD", 3}, // index of the character D
			{8, 6, 8, "CD", 3}, // index of third character "\r"
			{9, 6, 8, "CD", 3}, // index of third character "\n"
		},
	},
	{
		"\n\n\n",
		[]testValidResult{
			{0, 0, 0, "", 1},
			{1, 1, 1, "", 2},
			{2, 2, 2, "", 3},
		},
	},
	{
		"\nA\nB\n",
		[]testValidResult{
			{0, 0, 0, "", 1},
			{1, 1, 2, "A", 2},
			{2, 1, 2, "A", 2},
			{3, 3, 4, "B", 3},
			{4, 3, 4, "B", 3},
		},
	},
}

func TestDocumentError_lineBeginning(t *testing.T) {
	for _, d := range data {
		for _, v := range d.valid {
			t.Run(fmt.Sprintf("%s %d", d.source, v.index), func(t *testing.T) {
				file := fs.NewFile("", d.source)

				e := newFakeDocumentError(file, v.index)

				begin := e.lineBeginning()
				assert.Equal(t, v.begin, begin)
			})
		}
	}
}

func TestDocumentError_lineEnd(t *testing.T) {
	for _, d := range data {
		for _, v := range d.valid {
			t.Run(fmt.Sprintf("%s %d", d.source, v.index), func(t *testing.T) {
				file := fs.NewFile("", d.source)

				e := newFakeDocumentError(file, v.index)

				end := e.lineEnd()
				assert.Equal(t, v.end, end)
			})
		}
	}
}

func TestNewDocumentError_Line(t *testing.T) {
	for _, d := range data {
		for _, v := range d.valid {
			t.Run(fmt.Sprintf("%s %d", d.source, v.index), func(t *testing.T) {
				file := fs.NewFile("", d.source)

				e := newFakeDocumentError(file, v.index)

				n := e.Line()
				assert.Equal(t, v.lineNumber, n)
			})
		}
	}
}

func TestDocumentError_SourceSubString(t *testing.T) {
	for _, d := range data {
		for _, v := range d.valid {
			t.Run(fmt.Sprintf("%s %d", d.source, v.index), func(t *testing.T) {
				file := fs.NewFile("", d.source)

				e := newFakeDocumentError(file, v.index)

				str := e.SourceSubString()
				assert.Equal(t, v.str, str)
			})
		}
	}

	t.Run("too long source substring", func(t *testing.T) {
		file := fs.NewFile("", strings.Repeat("123456789 ", 100))

		e := newFakeDocumentError(file, 0)

		assert.Len(t, e.SourceSubString(), 200)
	})
}

func newFakeDocumentError(f *fs.File, idx bytes.Index) DocumentError {
	e := DocumentError{}
	e.SetFile(f)
	e.SetIndex(idx)
	e.preparation()
	return e
}
