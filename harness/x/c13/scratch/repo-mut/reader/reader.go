package reader

import (
	"os"

	"github.com/jsightapi/jsight-schema-go-library/errors"
	"github.com/jsightapi/jsight-schema-go-library/fs"
)

// Read reads the contents of the file, returns a slice of bytes.
func Read(filename string) *fs.File {
	return ReadWithName(filename, filename)
}

func ReadWithName(filename, name string) *fs.File {
	data, err := os.ReadFile(filename)
	if err != nil {
		docErr := errors.DocumentError{}
		docErr.SetMessage(err.Error())
		panic(docErr)
	}
	return fs.NewFile(name, data)
}
