package reader

import (
	"path/filepath"
	"testing"

	"github.com/stretchr/testify/assert"

	"github.com/jsightapi/jsight-schema-go-library/bytes"
	"github.com/jsightapi/jsight-schema-go-library/fs"
	"github.com/jsightapi/jsight-schema-go-library/test"
)

func TestRead(t *testing.T) {
	t.Run("positive", func(t *testing.T) {
		filename := filepath.Join(test.GetProjectRoot(), "testdata", "examples", "boolean", "boolean.jschema")
		expected := bytes.Bytes(`true // Schema containing a literal example`)

		file := fs.NewFile(filename, expected)

		assert.Equal(t, file, Read(filename))
	})

	t.Run("negative", func(t *testing.T) {
		assert.PanicsWithError(t, "ERROR: open not_existing_file.jst: no such file or directory", func() {
			Read("not_existing_file.jst")
		})
	})
}
