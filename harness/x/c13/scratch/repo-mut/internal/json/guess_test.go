package json

import (
	"testing"

	"github.com/stretchr/testify/assert"
	"github.com/stretchr/testify/require"

	"github.com/jsightapi/jsight-schema-go-library/bytes"
)

func BenchmarkIsNull(b *testing.B) {
	null := bytes.Bytes("null")
	b.ReportAllocs()
	b.ResetTimer()
	for i := 0; i < b.N; i++ {
		Guess(null).IsNull()
	}
}

var jsonTests = map[string][]string{
	`string`: {
		`""`,
		`"abc"`,
	},
	`integer`: {
		`0`,
		`-0`,
		`1`,
		`-1`,
		`1000`,
		`-1000`,
		`999999999999`,
		`-999999999999`,
		`0.0e1`,
		`-0.0e1`,
		`2e3`,
		`-2e3`,
		`2e+3`,
		`-2e+3`,
		`2.3e+1`,
		`-2.3e+1`,
		`2.34e+2`,
		`-2.24e+2`,
		`2.34e+20`,
		`-2.24e+20`,
	},
	`float`: {
		`0.1`,
		`-0.1`,
		`1.0`,
		`-1.0`,
		`2.345`,
		`-2.345`,
		`2.3e-4`,
		`-2.3e-4`,
		`2.3E-4`,
		`-2.3E-4`,
		`2.3e+0`,
		`-2.3e+0`,
		`2.34e+1`,
		`-2.34e+1`,
	},
	`boolean`: {
		`true`,
		`false`,
	},
	`null`: {
		`null`,
	},
	`wrong`: {
		``,
		`--1`,
		`1-`,
		`ABC`,
		`-ABC`,
		`1-2`,
		`3333-222-33`,
		`-`,
		`+`,
		`NULL`,
		`Null`,
		`TRUE`,
		`True`,
		`FALSE`,
		`False`,
		`'qwerty'`,
		`[]`,
		`{}`,
	},
}

// Returns all value from json variable for the specified key
func success(key string) []string {
	arr, ok := jsonTests[key]

	if !ok {
		panic(`Key "` + key + `" not found`)
	}

	return append([]string{}, arr...)
}

// Returns all the value from json variable with the exception of the specified key
func fail(key string) []string {
	var result []string
	for k, arr := range jsonTests {
		if k != key {
			result = append(result, arr...)
		}
	}
	return result
}

func TestIsInteger(t *testing.T) {
	for _, str := range success("integer") {
		t.Run(str, func(t *testing.T) {
			assert.True(t, Guess(bytes.Bytes(str)).IsInteger())
		})
	}

	for _, str := range fail("integer") {
		t.Run(str, func(t *testing.T) {
			assert.False(t, Guess(bytes.Bytes(str)).IsInteger())
		})
	}
}

func TestIsFloat(t *testing.T) {
	for _, str := range success("float") {
		t.Run(str, func(t *testing.T) {
			assert.True(t, Guess(bytes.Bytes(str)).IsFloat())
		})
	}

	for _, str := range fail("float") {
		t.Run(str, func(t *testing.T) {
			assert.False(t, Guess(bytes.Bytes(str)).IsFloat())
		})
	}
}

func TestIsString(t *testing.T) {
	for _, str := range success("string") {
		t.Run(str, func(t *testing.T) {
			assert.True(t, Guess(bytes.Bytes(str)).IsString())
		})
	}

	for _, str := range fail("string") {
		t.Run(str, func(t *testing.T) {
			assert.False(t, Guess(bytes.Bytes(str)).IsString())
		})
	}
}

func TestGuessData_IsObject(t *testing.T) {
	cc := map[string]bool{
		"{":  true,
		"":   false,
		" {": false,
		"{ ": false,
		"[":  false,
	}

	for given, expected := range cc {
		t.Run(given, func(t *testing.T) {
			assert.Equal(t, expected, GuessData{bytes: bytes.Bytes(given)}.IsObject())
		})
	}
}

func TestGuessData_IsArray(t *testing.T) {
	cc := map[string]bool{
		"[":  true,
		"":   false,
		" [": false,
		"[ ": false,
		"{":  false,
	}

	for given, expected := range cc {
		t.Run(given, func(t *testing.T) {
			assert.Equal(t, expected, GuessData{bytes: bytes.Bytes(given)}.IsArray())
		})
	}
}

func TestIsBoolean(t *testing.T) {
	for _, str := range success("boolean") {
		t.Run(str, func(t *testing.T) {
			assert.True(t, Guess(bytes.Bytes(str)).IsBoolean())
		})
	}

	for _, str := range fail("boolean") {
		t.Run(str, func(t *testing.T) {
			assert.False(t, Guess(bytes.Bytes(str)).IsBoolean())
		})
	}
}

func TestIsNull(t *testing.T) {
	for _, str := range success("null") {
		t.Run(str, func(t *testing.T) {
			assert.True(t, Guess(bytes.Bytes(str)).IsNull())
		})
	}

	for _, str := range fail("null") {
		t.Run(str, func(t *testing.T) {
			assert.False(t, Guess(bytes.Bytes(str)).IsNull())
		})
	}
}

func TestGuessLiteralNodeType(t *testing.T) {
	for _, str := range success("string") {
		t.Run(str, func(t *testing.T) {
			assert.Equal(t, TypeString, Guess(bytes.Bytes(str)).LiteralJsonType())
		})
	}

	for _, str := range success("integer") {
		t.Run(str, func(t *testing.T) {
			assert.Equal(t, TypeInteger, Guess(bytes.Bytes(str)).LiteralJsonType())
		})
	}

	for _, str := range success("float") {
		t.Run(str, func(t *testing.T) {
			assert.Equal(t, TypeFloat, Guess(bytes.Bytes(str)).LiteralJsonType())
		})
	}

	for _, str := range success("boolean") {
		t.Run(str, func(t *testing.T) {
			assert.Equal(t, TypeBoolean, Guess(bytes.Bytes(str)).LiteralJsonType())
		})
	}

	for _, str := range success("null") {
		t.Run(str, func(t *testing.T) {
			assert.Equal(t, TypeNull, Guess(bytes.Bytes(str)).LiteralJsonType())
		})
	}
}

func TestGuessLiteralNodeTypePanic(t *testing.T) {
	for _, str := range success("wrong") {
		assert.Panics(t, func() {
			Guess(bytes.Bytes(str)).LiteralJsonType()
		})
	}
}

func TestNumberOptimization(t *testing.T) {
	b := bytes.Bytes("123")
	g := Guess(b)

	g.IsInteger()
	pointer1 := g.number

	g.IsFloat()
	pointer2 := g.number

	pointer3, err := g.Number()
	require.NoError(t, err)

	pointer4 := g.number

	assert.NotNil(t, pointer1)

	assert.Equal(t, pointer1, pointer2)
	assert.Equal(t, pointer2, pointer3)
	assert.Equal(t, pointer3, pointer4)
}
