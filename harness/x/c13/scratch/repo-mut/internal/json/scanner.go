package json

import (
	"fmt"

	"github.com/jsightapi/jsight-schema-go-library/bytes"
)

type scanner struct {
	stateFn func(byte) bool

	index    int
	intLen   int
	fraLen   int
	expBegin int

	finished bool
	negative bool
}

func newScanner() *scanner {
	s := &scanner{}
	s.stateFn = s.stateOnSearchStart
	return s
}

func (s *scanner) Scan(value bytes.Bytes) (*Number, error) {
	for i, c := range value {
		s.index = i
		s.finished = true
		if !s.stateFn(c) {
			return nil, fmt.Errorf("Incorrect number value %q", value.String())
		}
	}

	if !s.finished {
		return nil, fmt.Errorf("Incorrect number value %q", value.String())
	}

	if err := s.setExp(value); err != nil {
		return nil, err
	}

	n := Number{
		neg: s.negative,
		nat: s.getNatural(value),
		exp: s.fraLen,
	}

	err := n.trimLeadingZerosInTheIntegerPart()
	if err != nil {
		return nil, err
	}

	err = n.trimTrailingZerosInTheFractionalPart()
	if err != nil {
		return nil, err
	}

	if len(n.nat) == 0 {
		// Zero has no sign: -0 equals 0.
		n.neg = false
	}

	return &n, nil
}

func (s *scanner) setExp(value bytes.Bytes) error {
	if s.expBegin == 0 {
		return nil
	}

	exp, err := value[s.expBegin:].ParseInt()
	if err != nil {
		return err
	}
	// example with negative exp: 12.34E-1 = 1.234; exp = -1; intLen = 2 + (-1) = 1
	// example with positive exp: 12.34E+1 = 123.4; exp =  1; intLen = 2 + 1    = 3
	s.intLen += exp
	s.fraLen -= exp
	return nil
}

func (s *scanner) getNatural(value bytes.Bytes) bytes.Bytes {
	var natural bytes.Bytes

	switch {
	case s.intLen < 0: // example 1.2E-2 = .012
		natural = make(bytes.Bytes, 0, s.fraLen)
		natural = appendZeros(natural, -s.intLen)
		natural = appendDigits(value, natural)

	case s.fraLen < 0: // example 1.2E+2 = 120
		natural = make(bytes.Bytes, 0, s.intLen)
		natural = appendDigits(value, natural)
		natural = appendZeros(natural, -s.fraLen)
		s.fraLen = 0

	default: // example 12.3E-1 = 1.23
		natural = make(bytes.Bytes, 0, s.intLen+s.fraLen)
		natural = appendDigits(value, natural)
	}

	return natural
}

func (s *scanner) stateOnSearchStart(c byte) bool {
	switch c {
	case '-':
		s.negative = true
		s.finished = false
		s.stateFn = s.stateMinusFound

	case '0':
		s.intLen++
		s.stateFn = s.stateFirstZeroFound

	case '1', '2', '3', '4', '5', '6', '7', '8', '9':
		s.intLen++
		s.stateFn = s.stateIntegerNumberFound
	default:
		return false
	}
	return true
}

func (s *scanner) stateMinusFound(c byte) bool {
	switch c {
	case '0':
		s.intLen++
		s.stateFn = s.stateFirstZeroFound
	case '1', '2', '3', '4', '5', '6', '7', '8', '9':
		s.intLen++
		s.stateFn = s.stateIntegerNumberFound
	default:
		return false
	}
	return true
}

func (s *scanner) stateFirstZeroFound(c byte) bool {
	if c == '.' {
		s.stateFn = s.statePointFound
		return true
	}
	return false
}

func (s *scanner) stateIntegerNumberFound(c byte) bool {
	switch c {
	case '0', '1', '2', '3', '4', '5', '6', '7', '8', '9':
		s.intLen++

	case '.':
		s.stateFn = s.statePointFound

	case 'e', 'E':
		s.stateFn = s.stateExpFound
	default:
		return false
	}
	return true
}

func (s *scanner) statePointFound(c byte) bool {
	if '0' <= c && c <= '9' {
		s.fraLen++
		s.stateFn = s.stateFractionalNumberFound
		return true
	}
	return false
}

func (s *scanner) stateFractionalNumberFound(c byte) bool {
	switch c {
	case '0', '1', '2', '3', '4', '5', '6', '7', '8', '9':
		s.fraLen++
	case 'e', 'E':
		s.stateFn = s.stateExpFound
	default:
		return false
	}
	return true
}

func (s *scanner) stateExpFound(c byte) bool {
	switch c {
	case '+':
		s.stateFn = s.stateExpSignFound

	case '-':
		if s.expBegin == 0 {
			s.expBegin = s.index
		}
		s.stateFn = s.stateExpSignFound

	case '0', '1', '2', '3', '4', '5', '6', '7', '8', '9':
		if s.expBegin == 0 {
			s.expBegin = s.index
		}
	default:
		return false
	}
	return true
}

func (s *scanner) stateExpSignFound(c byte) bool {
	if '0' <= c && c <= '9' {
		if s.expBegin == 0 {
			s.expBegin = s.index
		}
		s.stateFn = s.stateExpNumberFound
		return true
	}
	return false
}

func (*scanner) stateExpNumberFound(c byte) bool {
	return '0' <= c && c <= '9'
}

func appendZeros(to bytes.Bytes, n int) bytes.Bytes {
	for ; n > 0; n-- {
		to = append(to, '0')
	}
	return to
}

func appendDigits(from bytes.Bytes, to bytes.Bytes) bytes.Bytes {
loop:
	for _, c := range from {
		switch c {
		case '-', '.':
			continue
		case '0', '1', '2', '3', '4', '5', '6', '7', '8', '9':
			to = append(to, c)
		default:
			break loop
		}
	}
	return to
}
