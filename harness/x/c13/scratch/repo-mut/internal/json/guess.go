package json

import (
	"github.com/jsightapi/jsight-schema-go-library/bytes"
)

type GuessData struct {
	number *Number
	bytes  bytes.Bytes
}

func Guess(b bytes.Bytes) *GuessData {
	g := GuessData{bytes: b}
	// the number is not built immediately, but only if necessary (for optimization)
	return &g
}

func (g *GuessData) Number() (*Number, error) {
	if g.number == nil {
		n, err := NewNumber(g.bytes)
		if err != nil {
			return nil, err
		}
		g.number = n
	}
	return g.number, nil
}

func (g *GuessData) IsInteger() bool {
	dot := false
	exp := false
	for _, c := range g.bytes {
		switch c {
		case '.':
			dot = true
		case 'e', 'E':
			exp = true
		}
	}
	if dot && !exp {
		return false
	}

	n, err := g.Number()
	if err != nil {
		return false
	}

	if n.LengthOfFractionalPart() != 0 {
		return false
	}

	return true
}

func (g *GuessData) IsFloat() bool {
	dot := false
	exp := false
	for _, c := range g.bytes {
		switch c {
		case '.':
			dot = true
		case 'e', 'E':
			exp = true
		}
	}
	if dot && !exp {
		return true
	}

	n, err := g.Number()
	if err != nil {
		return false
	}

	if n.LengthOfFractionalPart() != 0 {
		return true
	}

	return false
}

func (g GuessData) IsNull() bool {
	// var null = Bytes{'n','u','l','l'}; if bytes.Equal(g.bytes, null) { // Benchmark: 9.75 ns/op   0 B/op   0 allocs/op
	// if len(g.bytes) == 4 && g.bytes[0] == 'n' && g.bytes[1] == 'u' && g.bytes[2] == 'l' && g.bytes[3] == 'l' { // Benchmark: 0.82 ns/op  0 B/op  0 allocs/op
	// Benchmark: 0.47 ns/op  0 B/op  0 allocs/op
	return string(g.bytes) == "null"
}

func (g GuessData) IsBoolean() bool {
	str := string(g.bytes)
	if str == "true" || str == "false" {
		return true
	}
	return false
}

func (g GuessData) IsString() bool {
	length := len(g.bytes)
	if length >= 2 && g.bytes[0] == '"' && g.bytes[length-1] == '"' {
		return true
	}
	return false
}

func (g GuessData) IsShortcut() bool {
	return g.bytes.IsUserTypeName()
}

func (g GuessData) IsObject() bool {
	return string(g.bytes) == "{"
}

func (g GuessData) IsArray() bool {
	return string(g.bytes) == "["
}

func (g GuessData) JsonType() Type {
	if g.IsObject() {
		return TypeObject
	} else if g.IsArray() {
		return TypeArray
	}
	return g.LiteralJsonType()
}

func (g GuessData) LiteralJsonType() Type {
	switch {
	case g.IsString():
		return TypeString
	case g.IsBoolean():
		return TypeBoolean
	case g.IsNull():
		return TypeNull
	case g.IsInteger():
		return TypeInteger
	case g.IsFloat():
		return TypeFloat
	case g.IsShortcut():
		return TypeMixed
	}
	panic("Node type can't be guessed by value (" + string(g.bytes) + ")")
}
