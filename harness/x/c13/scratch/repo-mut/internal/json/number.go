package json

import (
	"errors"
	"strconv"

	"github.com/jsightapi/jsight-schema-go-library/bytes"
)

// Number provides a method to work with numbers in the understanding of JSON (for
// example -1.2 e+3).
type Number struct {
	nat bytes.Bytes

	// exp an absolute value of exponent. In fact, a negative value is assumed,
	// but for optimization it is stored without a minus sign.
	exp int

	neg bool
}

func NewNumber(b bytes.Bytes) (*Number, error) {
	return newScanner().Scan(b)
}

// trimLeadingZerosInTheIntegerPart removes zeros from the beginning of the integer
// part (if any).
func (n *Number) trimLeadingZerosInTheIntegerPart() error {
	length := len(n.nat)
	if n.exp < 0 || n.exp > length {
		return errors.New("incorrect exponent value")
	}
	for intLen := length - n.exp; intLen != 0; intLen-- {
		c := n.nat[0] // first character
		if c != '0' {
			break
		}
		n.nat = n.nat[1:] // trim left byte
	}
	return nil
}

// trimTrailingZerosInTheFractionalPart removes zeros from the end of the fractional
// part (if any).
func (n *Number) trimTrailingZerosInTheFractionalPart() error {
	if n.exp < 0 || n.exp > len(n.nat) {
		return errors.New("incorrect exponent value")
	}
	for ; n.exp != 0; n.exp-- {
		i := len(n.nat) - 1
		c := n.nat[i] // last character
		if c != '0' {
			break
		}
		n.nat = n.nat[:i] // trim right byte
	}
	return nil
}

func (n Number) int() bytes.Bytes {
	return n.nat[:len(n.nat)-n.exp]
}

func (n Number) fra() bytes.Bytes {
	return n.nat[len(n.nat)-n.exp:]
}

func (n Number) LengthOfFractionalPart() uint {
	return uint(n.exp)
}

// Cmp compares the numbers represented by n and nn and returns:
//
//	-1 if n <  nn
//	 0 if n == nn
//	+1 if n >  nn.
func (n Number) Cmp(nn *Number) int {
	if n.neg == nn.neg {
		b := n.cmpAbs(nn)
		if n.neg {
			return n.not(b)
		}
		return b
	}

	if n.neg {
		return -1
	}
	return 1
}

func (Number) not(cmp int) int {
	switch cmp {
	case 1:
		return -1
	case -1:
		return 1
	case 0:
		return 0
	}
	panic("Incorrect value")
}

func (n Number) cmpAbs(nn *Number) (r int) {
	cmp := n.cmpInt(nn)
	if cmp == 0 {
		return n.cmpFra(nn)
	}
	return cmp
}

func (n Number) cmpInt(nn *Number) (r int) {
	x := n.int()
	y := nn.int()
	xLen := len(x)
	yLen := len(y)
	if xLen != yLen || xLen == 0 {
		switch {
		case xLen < yLen:
			r = -1
		case xLen > yLen:
			r = 1
		}
		return
	}

	// xLen == yLen
	for i := 0; i < xLen; i++ {
		switch {
		case x[i] < y[i]:
			return -1
		case x[i] > y[i]:
			return 1
		}
	}

	return 0
}

func (n Number) cmpFra(nn *Number) (r int) {
	x := n.fra()
	y := nn.fra()
	xLen := len(x)
	yLen := len(y)

	var length int
	if xLen > yLen {
		length = xLen
	} else {
		length = yLen
	}

	for i := 0; i < length; i++ {
		digit1 := 0
		digit2 := 0
		if i < xLen {
			digit1 = int(x[i]) - 48
		}
		if i < yLen {
			digit2 = int(y[i]) - 48
		}
		if digit1 < digit2 {
			return -1
		} else if digit1 > digit2 {
			return 1
		}
	}

	return 0
}

// Equal returns whether the numbers represented by n and nn are equal.
func (n Number) Equal(nn *Number) bool {
	return n.Cmp(nn) == 0
}

// GreaterThan (GT) returns true when n is greater than nn.
func (n Number) GreaterThan(nn *Number) bool {
	return n.Cmp(nn) == 1
}

// GreaterThanOrEqual (GTE) returns true when n is greater than or equal to nn.
func (n Number) GreaterThanOrEqual(nn *Number) bool {
	cmp := n.Cmp(nn)
	return cmp == 1 || cmp == 0
}

// LessThan (LT) returns true when n is less than nn.
func (n Number) LessThan(nn *Number) bool {
	return n.Cmp(nn) == -1
}

// LessThanOrEqual (LTE) returns true when n is less than or equal to nn.
func (n Number) LessThanOrEqual(nn *Number) bool {
	cmp := n.Cmp(nn)
	return cmp == -1 || cmp == 0
}

func (n Number) String() string {
	var str string
	i := n.int()
	f := n.fra()
	if n.neg {
		str += "-"
	}
	if len(i) == 0 {
		str += "0"
	} else {
		str += string(i)
	}
	if len(f) != 0 {
		str += "." + string(f)
	}
	return str
}

func (n Number) ToFloat() float64 {
	v, err := strconv.ParseFloat(n.String(), 64)
	// Normally we shouldn't get an error here cause string value is valid.
	// But we should throw error just in case.
	if err != nil {
		panic(err)
	}
	return v
}
