//nolint:goconst // Not important here.
package json

import (
	"github.com/jsightapi/jsight-schema-go-library/bytes"
	"github.com/jsightapi/jsight-schema-go-library/errors"
)

type Type uint8

const (
	// TypeUndefined default value for literal and mixed nodes.
	TypeUndefined Type = iota
	TypeObject
	TypeArray
	TypeString
	TypeInteger
	// TypeFloat to be precise, there is no separate "Integer" and "Float" in JSON,
	// there is a single "Number" type. But in our case, we will assume that there is.
	TypeFloat
	TypeBoolean
	TypeNull

	// TypeMixed indicates that here can be anything.
	TypeMixed
)

func NewJsonType(bytes bytes.Bytes) Type {
	switch string(bytes) {
	case "object":
		return TypeObject
	case "array":
		return TypeArray
	case "string":
		return TypeString
	case "integer":
		return TypeInteger
	case "float":
		return TypeFloat
	case "boolean":
		return TypeBoolean
	case "null":
		return TypeNull
	}
	panic(errors.Format(errors.ErrUnknownType, string(bytes)))
}

var AllTypes = []Type{
	TypeObject,
	TypeArray,
	TypeString,
	TypeInteger,
	TypeFloat,
	TypeBoolean,
	TypeNull,
	TypeMixed,
}

func (t Type) String() string {
	switch t {
	case TypeObject:
		return "object"
	case TypeArray:
		return "array"
	case TypeString:
		return "string"
	case TypeInteger:
		return "integer"
	case TypeFloat:
		return "float"
	case TypeBoolean:
		return "boolean"
	case TypeNull:
		return "null"
	case TypeMixed:
		return "mixed"
	default:
		return "unknown"
	}
}

func (t Type) IsLiteralType() bool {
	switch t { //nolint:exhaustive // It's okay.
	case TypeString, TypeBoolean, TypeInteger, TypeFloat, TypeNull, TypeMixed:
		return true
	}
	return false
}

func (t Type) ToTokenType() string {
	switch t { //nolint:exhaustive // We return an empty string.
	case TypeObject:
		return "object"
	case TypeArray:
		return "array"
	case TypeString:
		return "string"
	case TypeInteger, TypeFloat:
		return "number"
	case TypeBoolean:
		return "boolean"
	case TypeNull:
		return "null"
	case TypeMixed:
		return "reference"
	}
	return ""
}
