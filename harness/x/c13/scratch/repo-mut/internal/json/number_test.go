package json

import (
	"fmt"
	"testing"

	"github.com/stretchr/testify/assert"
	"github.com/stretchr/testify/require"

	"github.com/jsightapi/jsight-schema-go-library/bytes"
)

func BenchmarkNewNumber(b *testing.B) {
	num := bytes.Bytes("-123.456E-5")
	b.ReportAllocs()
	b.ResetTimer()
	for i := 0; i < b.N; i++ {
		_, err := NewNumber(num)
		if err != nil {
			panic(err)
		}
	}
}

func BenchmarkNumber_Equal(b *testing.B) {
	number1, err := NewNumber(bytes.Bytes("-123456E-3"))
	require.NoError(b, err)
	number2, err := NewNumber(bytes.Bytes("-123.456E-3"))
	require.NoError(b, err)

	b.ReportAllocs()
	b.ResetTimer()
	for i := 0; i < b.N; i++ {
		number1.Equal(number2)
	}
}

func TestNewNumber(t *testing.T) {
	t.Run("positive", func(t *testing.T) {
		var cc = []struct {
			jsonNumber string
			int        string
			fra        string
		}{
			{
				"111",
				"111",
				"",
			},
			{
				"222.1",
				"222",
				"1",
			},
			{
				"333.12",
				"333",
				"12",
			},
			{
				"444.123456789",
				"444",
				"123456789",
			},

			{
				"-555.1234567890000000000000",
				"555",
				"123456789",
			},

			{
				"-777.0",
				"777",
				"",
			},
			{
				"-888.00",
				"888",
				"",
			},

			{
				"-999.001",
				"999",
				"001",
			},

			{
				"-111e4", // --1110000
				"1110000",
				"",
			},
			{
				"-222E+4", // -2220000
				"2220000",
				"",
			},
			{
				"333e-1", // 33.3
				"33",
				"3",
			},
			{
				"444E-2", // 4.44
				"4",
				"44",
			},
			{
				"55.6e-2", // 0.556
				"",
				"556",
			},
			{
				"55.60e-2", // 0.5560
				"",
				"556",
			},
			{
				"55.6e-3", // 0.0556
				"",
				"0556",
			},
			{
				"55.67e-2", // 0.5567
				"",
				"5567",
			},
			{
				"55.678e-2", // 0.55678
				"",
				"55678",
			},
			{
				"123000e-5", // 1.23000,
				"1",
				"23",
			},
			{
				"100e-4", // 0.0100,
				"",
				"01",
			},
			{
				"10.010e-2", // 0.10010,
				"",
				"1001",
			},
			{
				"1010.00e-2", // 10.1000,
				"10",
				"1",
			},

			{
				"100e-2",
				"1",
				"",
			},
			{
				"0.1e+1",
				"1",
				"",
			},

			{
				"20",
				"20",
				"",
			},
			{
				"0.200e2",
				"20",
				"",
			},
			{
				"0.20e2",
				"20",
				"",
			},
			{
				"0.2e2",
				"20",
				"",
			},
			{
				"2e1",
				"20",
				"",
			},
			{
				"20e0",
				"20",
				"",
			},
			{
				"200e-1",
				"20",
				"",
			},
			{
				"2000e-2",
				"20",
				"",
			},

			{
				"0.0123E4",
				"123",
				"",
			},
			{
				"0.0001200e+2",
				"",
				"012",
			},

			{
				"0.001200e+2",
				"",
				"12",
			},
			{
				"0.00120e+2",
				"",
				"12",
			},
			{
				"0.0012e+2",
				"",
				"12",
			},
			{
				"0.012e+1",
				"",
				"12",
			},
			{
				"0.12e0",
				"",
				"12",
			},
			{
				"0.12",
				"",
				"12",
			},
			{
				"1.2e-1",
				"",
				"12",
			},
			{
				"12e-2",
				"",
				"12",
			},
			{
				"12.0e-2",
				"",
				"12",
			},
			{
				"12.00e-2",
				"",
				"12",
			},
			{
				"12.00e-2",
				"",
				"12",
			},

			{
				"0.0e0",
				"",
				"",
			},
		}

		for _, c := range cc {
			t.Run(c.jsonNumber, func(t *testing.T) {
				number, err := NewNumber(bytes.Bytes(c.jsonNumber))
				require.NoError(t, err)

				assert.Equal(t, c.int, string(number.int()))
				assert.Equal(t, c.fra, string(number.fra()))
			})
		}
	})

	t.Run("negative", func(t *testing.T) {
		var ss = []string{ // http://json.org/
			"",
			"01",
			"0e0",
			"0e2",
			"+1",
			".1",
			"-.1",
			"-",
			"e2",
			"E2",
			"1.1e2e",
			"1.e2",
			`"abc"`,
			"abc",
		}

		for _, s := range ss {
			t.Run(s, func(t *testing.T) {
				_, err := NewNumber(bytes.Bytes(s))
				assert.Error(t, err)
			})
		}
	})
}

func TestNumber_trimLeadingZerosInTheIntegerPart(t *testing.T) {
	cc := []struct {
		number   Number
		expected string
	}{
		{Number{nat: bytes.Bytes("00123"), exp: 2}, "123"},
		{Number{nat: bytes.Bytes("0123"), exp: 2}, "123"},
		{Number{nat: bytes.Bytes("123"), exp: 2}, "123"},
		{Number{nat: bytes.Bytes("023"), exp: 2}, "23"},
		{Number{nat: bytes.Bytes("0023"), exp: 3}, "023"},
		{Number{nat: bytes.Bytes("00023"), exp: 3}, "023"},
		{Number{nat: bytes.Bytes("00023"), exp: 4}, "0023"},
	}

	for _, c := range cc {
		t.Run(c.number.String(), func(t *testing.T) {
			err := c.number.trimLeadingZerosInTheIntegerPart()
			require.NoError(t, err)
			assert.Equal(t, c.expected, string(c.number.nat))
		})
	}
}

func TestNumber_trimTrailingZerosInTheFractionalPart(t *testing.T) {
	t.Run("positive", func(t *testing.T) {
		cc := []struct {
			number   Number
			expected string
		}{
			{Number{nat: bytes.Bytes("123000"), exp: 0}, "123000"},
			{Number{nat: bytes.Bytes("123000"), exp: 1}, "12300"},
			{Number{nat: bytes.Bytes("123000"), exp: 2}, "1230"},
			{Number{nat: bytes.Bytes("123000"), exp: 3}, "123"},
			{Number{nat: bytes.Bytes("123000"), exp: 4}, "123"},
			{Number{nat: bytes.Bytes("123000"), exp: 5}, "123"},
		}

		for _, c := range cc {
			t.Run(c.number.String(), func(t *testing.T) {
				err := c.number.trimTrailingZerosInTheFractionalPart()
				require.NoError(t, err)
				assert.Equal(t, c.expected, string(c.number.nat))
			})
		}
	})

	t.Run("negative", func(t *testing.T) {
		cc := map[string]Number{
			"negative exponent":                   {nat: bytes.Bytes("000"), exp: -1},
			"exponent greater than length of nat": {nat: bytes.Bytes("000"), exp: 4},
		}

		for name, n := range cc {
			t.Run(name, func(t *testing.T) {
				err := n.trimTrailingZerosInTheFractionalPart()
				assert.EqualError(t, err, "incorrect exponent value")
			})
		}
	})
}

func TestNumber_LengthOfFractionalPart(t *testing.T) {
	cc := map[string]uint{
		"123":     0,
		"123.4":   1,
		"123.45":  2,
		"0.123":   3,
		"123e2":   0,
		"123e-2":  2,
		"123e-4":  4,
		"1.23e-4": 6,
		"-0.123":  3,
	}

	for given, expected := range cc {
		t.Run(given, func(t *testing.T) {
			n, err := NewNumber(bytes.Bytes(given))
			require.NoError(t, err)
			assert.Equal(t, expected, n.LengthOfFractionalPart())
		})
	}
}

func TestNumber_Cmp(t *testing.T) {
	var cc = []struct {
		number1  string
		number2  string
		expected int
	}{
		// equal
		{
			"123",
			"123",
			0,
		},
		{
			"123.45",
			"123.45",
			0,
		},

		{
			"123.4560",
			"123.456",
			0,
		},
		{
			"123.456",
			"123.456000",
			0,
		},

		{
			"123.001",
			"123001e-3",
			0,
		},
		{
			"123E+1",
			"12300E-1",
			0,
		},

		// integer
		{
			"0",
			"0",
			0,
		},
		{
			"0",
			"1",
			-1,
		},
		{
			"1",
			"0",
			1,
		},
		{
			"111",
			"222",
			-1,
		},
		{
			"222",
			"111",
			1,
		},
		{
			"1111",
			"111",
			1,
		},
		{
			"111",
			"1111",
			-1,
		},
		{
			"16",
			"25",
			-1,
		},

		// negative
		{
			"-123",
			"123",
			-1,
		},
		{
			"123",
			"-123",
			1,
		},
		{
			"-123.45",
			"123.45",
			-1,
		},
		{
			"123.45",
			"-123.45",
			1,
		},

		// fractional
		{
			"123.001",
			"123.002",
			-1,
		},
		{
			"123.002",
			"123.001",
			1,
		},

		{
			"123.456",
			"123.4567",
			-1,
		},
		{
			"123.4567",
			"123.456",
			1,
		},
		{
			"-1",
			"-2",
			1,
		},
		{
			"-2",
			"-1",
			-1,
		},
		{
			"-1",
			"-1",
			0,
		},
	}

	for _, c := range cc {
		t.Run(fmt.Sprintf("%s %s", c.number1, c.number2), func(t *testing.T) {
			number1, err := NewNumber(bytes.Bytes(c.number1))
			require.NoError(t, err)
			number2, err := NewNumber(bytes.Bytes(c.number2))
			require.NoError(t, err)

			assert.Equal(t, c.expected, number1.Cmp(number2))
		})
	}
}

func TestNumber_Equal(t *testing.T) {
	var cc = []struct {
		number1  string
		number2  string
		expected bool
	}{
		// equal
		{
			"123",
			"123",
			true,
		},
		{
			"11",
			"22",
			false,
		},
		{
			"22",
			"11",
			false,
		},
		{
			"0",
			"0",
			true,
		},
		{
			"-1",
			"-1",
			true,
		},
	}

	for _, c := range cc {
		t.Run(fmt.Sprintf("%s == %s", c.number1, c.number2), func(t *testing.T) {
			number1, err := NewNumber(bytes.Bytes(c.number1))
			require.NoError(t, err)

			number2, err := NewNumber(bytes.Bytes(c.number2))
			require.NoError(t, err)

			assert.Equal(t, c.expected, number1.Equal(number2))
		})
	}
}

func TestNumber_GreaterThan(t *testing.T) {
	var cc = []struct {
		number1  string
		number2  string
		expected bool
	}{
		// equal
		{
			"0",
			"0",
			false,
		},
		{
			"0",
			"1",
			false,
		},
		{
			"1",
			"0",
			true,
		},
		{
			"123",
			"123",
			false,
		},
		{
			"16",
			"25",
			false,
		},
		{
			"25",
			"16",
			true,
		},
		{
			"-1",
			"-1",
			false,
		},
		{
			"-1",
			"-2",
			true,
		},
		{
			"-2",
			"-1",
			false,
		},
	}

	for _, c := range cc {
		t.Run(fmt.Sprintf("%s > %s", c.number1, c.number2), func(t *testing.T) {
			number1, err := NewNumber(bytes.Bytes(c.number1))
			require.NoError(t, err)

			number2, err := NewNumber(bytes.Bytes(c.number2))
			require.NoError(t, err)

			assert.Equal(t, c.expected, number1.GreaterThan(number2))
		})
	}
}

func TestNumber_GreaterThanOrEqual(t *testing.T) {
	var cc = []struct {
		number1  string
		number2  string
		expected bool
	}{
		// equal
		{
			"0",
			"0",
			true,
		},
		{
			"0",
			"1",
			false,
		},
		{
			"1",
			"0",
			true,
		},
		{
			"123",
			"123",
			true,
		},
		{
			"16",
			"25",
			false,
		},
		{
			"25",
			"16",
			true,
		},
		{
			"-1",
			"-1",
			true,
		},
		{
			"-1",
			"-2",
			true,
		},
		{
			"-2",
			"-1",
			false,
		},
	}

	for _, c := range cc {
		t.Run(fmt.Sprintf("%s >= %s", c.number1, c.number2), func(t *testing.T) {
			number1, err := NewNumber(bytes.Bytes(c.number1))
			require.NoError(t, err)

			number2, err := NewNumber(bytes.Bytes(c.number2))
			require.NoError(t, err)

			assert.Equal(t, c.expected, number1.GreaterThanOrEqual(number2))
		})
	}
}

func TestNumber_LessThan(t *testing.T) {
	var cc = []struct {
		number1  string
		number2  string
		expected bool
	}{
		// equal
		{
			"0",
			"0",
			false,
		},
		{
			"1",
			"0",
			false,
		},
		{
			"0",
			"1",
			true,
		},
		{
			"123",
			"123",
			false,
		},
		{
			"16",
			"25",
			true,
		},
		{
			"25",
			"16",
			false,
		},
		{
			"-1",
			"-1",
			false,
		},
		{
			"-1",
			"-2",
			false,
		},
		{
			"-2",
			"-1",
			true,
		},
	}

	for _, c := range cc {
		t.Run(fmt.Sprintf("%s < %s", c.number1, c.number2), func(t *testing.T) {
			number1, err := NewNumber(bytes.Bytes(c.number1))
			require.NoError(t, err)

			number2, err := NewNumber(bytes.Bytes(c.number2))
			require.NoError(t, err)

			assert.Equal(t, c.expected, number1.LessThan(number2))
		})
	}
}

func TestNumber_LessThanOrEqual(t *testing.T) {
	var cc = []struct {
		number1  string
		number2  string
		expected bool
	}{
		// equal
		{
			"0",
			"0",
			true,
		},
		{
			"1",
			"0",
			false,
		},
		{
			"0",
			"1",
			true,
		},
		{
			"123",
			"123",
			true,
		},
		{
			"16",
			"25",
			true,
		},
		{
			"25",
			"16",
			false,
		},
		{
			"-1",
			"-1",
			true,
		},
		{
			"-1",
			"-2",
			false,
		},
		{
			"-2",
			"-1",
			true,
		},
	}

	for _, c := range cc {
		t.Run(fmt.Sprintf("%s <= %s", c.number1, c.number2), func(t *testing.T) {
			number1, err := NewNumber(bytes.Bytes(c.number1))
			require.NoError(t, err)

			number2, err := NewNumber(bytes.Bytes(c.number2))
			require.NoError(t, err)

			assert.Equal(t, c.expected, number1.LessThanOrEqual(number2))
		})
	}
}

func TestNumber_ToFloat(t *testing.T) {
	cc := map[string]float64{
		"42":   42,
		"3.14": 3.14,
		"2e3":  2e3,
		"2e-3": 2e-3,
	}

	for number, expected := range cc {
		t.Run(number, func(t *testing.T) {
			n, err := NewNumber([]byte(number))
			require.NoError(t, err)
			assert.Equal(t, expected, n.ToFloat())
		})
	}
}
