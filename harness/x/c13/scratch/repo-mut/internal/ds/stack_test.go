package ds

import (
	"strconv"
	"testing"

	"github.com/stretchr/testify/assert"
)

func TestStack_Len(t *testing.T) {
	cc := map[string]struct {
		stack    *Stack[int]
		expected int
	}{
		"nil": {},
		"filled": {
			stack:    &Stack[int]{vals: []int{1, 2, 3}},
			expected: 3,
		},
	}

	for n, c := range cc {
		t.Run(n, func(t *testing.T) {
			actual := c.stack.Len()
			assert.Equal(t, c.expected, actual)
		})
	}
}

func TestStack_Push(t *testing.T) {
	t.Run("positive", func(t *testing.T) {
		s := &Stack[int]{}

		s.Push(1)
		s.Push(2)
		s.Push(3)

		assert.Equal(t, []int{1, 2, 3}, s.vals)
	})

	t.Run("negative", func(t *testing.T) {
		assert.Panics(t, func() {
			var s *Stack[int]
			s.Push(0)
		})
	})
}

func TestStack_Pop(t *testing.T) {
	t.Run("positive", func(t *testing.T) {
		s := &Stack[int]{vals: []int{1, 2, 3}}

		assert.Equal(t, 3, s.Pop())
		assert.Equal(t, 2, s.Pop())
		assert.Equal(t, 1, s.Pop())

		assert.Equal(t, []int{}, s.vals)
	})

	t.Run("negative", func(t *testing.T) {
		assert.PanicsWithValue(t, "Reading from empty stack", func() {
			var s *Stack[int]
			s.Pop()
		})
	})
}

func TestStack_Peek(t *testing.T) {
	t.Run("positive", func(t *testing.T) {
		s := &Stack[int]{vals: []int{1, 2, 3}}

		assert.Equal(t, 3, s.Peek())
		assert.Equal(t, 3, s.Peek())
		assert.Equal(t, 3, s.Peek())

		assert.Equal(t, []int{1, 2, 3}, s.vals)
	})

	t.Run("negative", func(t *testing.T) {
		assert.PanicsWithValue(t, "Reading from empty stack", func() {
			(&Stack[int]{}).Peek()
		})
	})
}

func TestStack_Get(t *testing.T) {
	t.Run("positive", func(t *testing.T) {
		s := &Stack[int]{vals: []int{1, 2, 3}}

		assert.Equal(t, 3, s.Get(2))
		assert.Equal(t, 2, s.Get(1))
		assert.Equal(t, 1, s.Get(0))

		assert.Equal(t, []int{1, 2, 3}, s.vals)
	})

	t.Run("negative", func(t *testing.T) {
		cc := []int{
			-1,
			2,
		}

		for _, i := range cc {
			t.Run(strconv.Itoa(i), func(t *testing.T) {
				assert.PanicsWithValue(t, "Reading a nonexistent element of the stack", func() {
					(&Stack[int]{vals: []int{1}}).Get(i)
				})
			})
		}
	})
}
