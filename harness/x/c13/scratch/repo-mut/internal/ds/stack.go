package ds

// Stack represent generic stack.
// Not a thread safe!
type Stack[T any] struct {
	vals []T
}

// Len returns length of the stack.
func (s *Stack[T]) Len() int {
	if s == nil {
		return 0
	}
	return len(s.vals)
}

// Push pushes a value onto the stack.
func (s *Stack[T]) Push(v T) {
	s.vals = append(s.vals, v)
}

// Pop pops a value from the stack.
func (s *Stack[T]) Pop() T {
	lex := s.Peek()
	s.vals = s.vals[:s.Len()-1]
	return lex
}

// Peek returns a value of the stack from the end, without removing.
func (s *Stack[T]) Peek() T {
	l := s.Len()
	if l == 0 {
		panic("Reading from empty stack")
	}
	return s.vals[l-1]
}

// Get returns a value of the stack, without removing.
func (s *Stack[T]) Get(i int) T {
	if i < 0 || i > s.Len()-1 {
		panic("Reading a nonexistent element of the stack")
	}
	return s.vals[i]
}
