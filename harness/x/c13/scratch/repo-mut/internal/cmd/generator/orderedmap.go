package main

import (
	"bytes"
	"errors"
	"fmt"
	"go/ast"
	"go/format"
	"go/parser"
	"go/token"
	"os"
	"path"
	"path/filepath"
	"strings"
	"text/template"
	"unicode"

	"golang.org/x/text/cases"
	"golang.org/x/text/language"
)

// orderedMapGenerator generator will search for `// gen:OrderedMap` comments for
// custom types and generate all necessary code to this type.
//
// Requirements:
//   - Custom type should be a struct with exactly two fields: "data" anf "order";
//   - Field "data" should be a map;
//   - Field "order" should be a slice of map keys;
//   - Field "mx" should a sync.RWMutex.
//
// Known limitations:
//   - Unfortunately "omitempty" tag won't work as expected for ordered maps, so
//     you should add specific code for marshaling.
//
// Added because we should preserve keys order in the map, but Golang don't
// gave to us such ability out of the box. And we want more efficient and clean
// way to manipulate such maps, so empty interface isn't an option.
type orderedMapGenerator struct{}

func (orderedMapGenerator) Name() string { return "OrderedMap" }

func (g orderedMapGenerator) Generate(path string) error {
	pkgName, dd, err := g.parseFile(path)
	if err != nil {
		return fmt.Errorf("faile to parse file: %w", err)
	}

	if err := g.generate(pkgName, dd, filepath.Dir(path)); err != nil {
		return fmt.Errorf("failed to find target types: %w", err)
	}

	return nil
}

func (orderedMapGenerator) parseFile(p string) (pkgName string, dd []ast.Decl, err error) {
	const flags = parser.ParseComments | parser.AllErrors
	f, err := parser.ParseFile(token.NewFileSet(), p, nil, flags)
	if err != nil {
		return "", nil, err
	}

	return f.Name.Name, f.Decls, nil
}

func (g orderedMapGenerator) generate(pkgName string, dd []ast.Decl, dirPath string) error {
	imports := map[string]string{}

	for _, d := range dd {
		decl, ok := d.(*ast.GenDecl)
		if !ok {
			continue
		}

		if !g.shouldProcess(decl) {
			continue
		}

		for _, s := range decl.Specs {
			switch spec := s.(type) {
			case *ast.ImportSpec:
				s := strings.Trim(spec.Path.Value, `"`)
				imports[path.Base(s)] = s

			case *ast.TypeSpec:
				om, err := g.collectOrderMap(pkgName, spec, imports)
				if err != nil {
					return fmt.Errorf("failed to process type %q: %w", spec.Name, err)
				}

				if err := g.generateCode(om, dirPath); err != nil {
					return fmt.Errorf("failed to generate code for type %q: %w", om.Name, err)
				}
			}
		}
	}
	return nil
}

type orderedMap struct {
	Name            string
	CapitalizedName string
	PkgName         string
	KeyType         string
	ValueType       string
	UsedImports     map[string]struct{}
}

func (orderedMapGenerator) shouldProcess(d *ast.GenDecl) bool {
	if len(d.Specs) == 0 {
		return false
	}

	if _, ok := d.Specs[0].(*ast.ImportSpec); ok {
		return true
	}

	return strings.Contains(d.Doc.Text(), "gen:OrderedMap")
}

func (g orderedMapGenerator) collectOrderMap(
	pkgName string,
	spec *ast.TypeSpec,
	imports map[string]string,
) (orderedMap, error) {
	strct, ok := spec.Type.(*ast.StructType)
	if !ok {
		return orderedMap{}, nil
	}

	if strct.Fields.NumFields() != 3 {
		return orderedMap{}, errors.New(`OrderedMap should have exactly two fields: "data", "order", and "mutex"`)
	}

	var (
		dataField  *ast.Field
		orderField *ast.Field
		mutexField *ast.Field
	)

	for _, f := range strct.Fields.List {
		switch f.Names[0].Name {
		case "data":
			dataField = f

		case "order":
			orderField = f

		case "mx":
			mutexField = f
		}
	}

	om := orderedMap{
		Name:            spec.Name.Name,
		CapitalizedName: cases.Title(language.English, cases.NoLower).String(spec.Name.Name),
		PkgName:         pkgName,
		UsedImports:     map[string]struct{}{},
	}

	if err := g.checkMutexField(mutexField); err != nil {
		return orderedMap{}, err
	}

	if err := g.collectUsedTypes(dataField, orderField, &om); err != nil {
		return orderedMap{}, err
	}

	if err := g.fillImports(&om, imports); err != nil {
		return orderedMap{}, err
	}

	return om, nil
}

func (orderedMapGenerator) checkMutexField(f *ast.Field) error {
	if f == nil {
		return errors.New(`"mutex" field didn't present'`)
	}

	se, ok := f.Type.(*ast.SelectorExpr)
	if !ok {
		return errors.New(`"mutex" field should be *sync.RWMutex`)
	}

	if x, ok := se.X.(*ast.Ident); !ok || x.Name != "sync" || se.Sel.Name != "RWMutex" {
		return errors.New(`"mutex" field should be *sync.RWMutex`)
	}

	return nil
}

func (orderedMapGenerator) collectUsedTypes(
	data,
	order *ast.Field,
	om *orderedMap,
) error {
	mapType, ok := data.Type.(*ast.MapType)
	if !ok {
		return errors.New(`"data" field should be a map`)
	}

	var err error

	om.KeyType, err = typeToString(mapType.Key)
	if err != nil {
		return fmt.Errorf(`failed to get "data" map key type: %w`, err)
	}

	om.ValueType, err = typeToString(mapType.Value)
	if err != nil {
		return fmt.Errorf(`failed to get "data" map value type: %w`, err)
	}

	slice, ok := order.Type.(*ast.ArrayType)
	if !ok {
		return errors.New(`"order" field should be a slice`)
	}

	sliceType, err := typeToString(slice.Elt)
	if err != nil {
		return fmt.Errorf(`failed to get "order" slice item type: %w`, err)
	}

	if sliceType != om.KeyType {
		return fmt.Errorf(
			`"order" slice item type %q isn't equal to %q`,
			sliceType,
			om.KeyType,
		)
	}
	return nil
}

func (g orderedMapGenerator) fillImports(om *orderedMap, imports map[string]string) error {
	if pkg := g.getTypePackage(om.ValueType); pkg != "" {
		p, ok := imports[pkg]
		if !ok {
			return fmt.Errorf("failed to find import for type %q", om.ValueType)
		}
		om.UsedImports[p] = struct{}{}
	}

	if pkg := g.getTypePackage(om.KeyType); pkg != "" {
		p, ok := imports[pkg]
		if !ok {
			return fmt.Errorf("failed to find import for type %q", om.KeyType)
		}
		om.UsedImports[p] = struct{}{}
	}
	return nil
}

func (orderedMapGenerator) getTypePackage(t string) string {
	parts := strings.SplitN(t, ".", 2)
	if len(parts) != 2 {
		return ""
	}
	return parts[0]
}

func typeToString(expr ast.Expr) (string, error) {
	switch n := expr.(type) {
	case *ast.StarExpr:
		s, err := typeToString(n.X)
		if err != nil {
			return "", err
		}
		return "*" + s, nil

	case *ast.Ident:
		return n.Name, nil

	case *ast.SelectorExpr:
		pkg, err := typeToString(n.X)
		if err != nil {
			return "", fmt.Errorf("failed to parse package name: %w", err)
		}

		typ, err := typeToString(n.Sel)
		if err != nil {
			return "", fmt.Errorf("failed to parse type name from package %q: %w", pkg, err)
		}

		return fmt.Sprintf("%s.%s", pkg, typ), nil
	}

	return "", fmt.Errorf("unhanled expression %#v", expr)
}

func (orderedMapGenerator) generateCode(om orderedMap, dirPath string) error {
	t, err := template.New("").Parse(`// Autogenerated code!
// DO NOT EDIT!
//
// Generated by OrderedMap generator from the internal/cmd/generator command.

package {{ .PkgName }}

import (
	"bytes"
	"encoding/json"
{{ range $k, $v := .UsedImports }}
	"{{ $k }}"
{{ end }}
)

// Set sets a value with specified key.
func (m *{{ .Name }}) Set(k {{ .KeyType }}, v {{ .ValueType }}) {
	m.mx.Lock()
	defer m.mx.Unlock()

	if m.data == nil {
		m.data = map[{{ .KeyType }}]{{ .ValueType }}{}
	}
	if !m.has(k) {
		m.order = append(m.order, k)
	}
	m.data[k] = v
}

// Update updates a value with specified key.
func (m *{{ .Name }}) Update(k {{ .KeyType }}, fn func(v {{ .ValueType }}) {{ .ValueType }}) {
	m.mx.Lock()
	defer m.mx.Unlock()

	if !m.has(k) {
		// Prevent from possible nil pointer dereference if map value type is a
		// pointer.
		return
	}

	m.data[k] = fn(m.data[k])
}

// GetValue gets a value by key.
func (m *{{ .Name }}) GetValue(k {{ .KeyType }}) {{ .ValueType }} {
	m.mx.RLock()
	defer m.mx.RUnlock()

	return m.data[k]
}

// Get gets a value by key.
func (m *{{ .Name }}) Get(k {{ .KeyType }}) ({{ .ValueType }}, bool) {
	m.mx.RLock()
	defer m.mx.RUnlock()

	v, ok := m.data[k]
	return v, ok
}

// Has checks that specified key is set.
func (m *{{ .Name }}) Has(k {{ .KeyType }}) bool {
	m.mx.RLock()
	defer m.mx.RUnlock()

	return m.has(k)
}

func (m *{{ .Name }}) has(k {{ .KeyType }}) bool {
	_, ok := m.data[k]
	return ok
}

// Len returns count of values.
func (m *{{ .Name }}) Len() int {
	m.mx.RLock()
	defer m.mx.RUnlock()

	return len(m.data)
}

func (m *{{ .Name }}) Delete(k {{ .KeyType }}) {
	m.mx.Lock()
	defer m.mx.Unlock()

	m.delete(k)
}

func (m *{{ .Name }}) delete(k {{ .KeyType }}) {
	i := -1

	for j, kk := range m.order {
		if kk == k {
			i = j
			break
		}
	}

	delete(m.data, k)
	if i != -1 {
		m.order = append(m.order[:i], m.order[i+1:]...)
	}
}

// Filter iterates and changes values in the map.
func (m *{{ .Name }}) Filter(fn filter{{ .CapitalizedName }}Func) {
	m.mx.Lock()
	defer m.mx.Unlock()

	for _, k := range append([]{{ .KeyType }}(nil), m.order...) {
		if !fn(k, m.data[k]) {
			m.delete(k)
		}
	}
}

type filter{{ .CapitalizedName }}Func = func(k {{ .KeyType }}, v {{ .ValueType }}) bool

// Find finds first matched item from the map.
func (m *{{ .Name }}) Find(fn find{{ .CapitalizedName }}Func) ({{ .Name }}Item, bool) {
	m.mx.RLock()
	defer m.mx.RUnlock()

	for _, k := range m.order {
		if fn(k, m.data[k]) {
			return {{ .Name }}Item{
				Key:   k,
				Value: m.data[k],
			}, true
		}
	}
	return {{ .Name }}Item{}, false
}

type find{{ .CapitalizedName }}Func = func(k {{ .KeyType }}, v {{ .ValueType }}) bool

func (m *{{ .Name }}) Each(fn each{{ .CapitalizedName }}Func) error {
	m.mx.RLock()
	defer m.mx.RUnlock()

	for _, k := range m.order {
		if err := fn(k, m.data[k]); err != nil {
			return err
		}
	}
	return nil
}

type each{{ .CapitalizedName }}Func = func(k {{ .KeyType }}, v {{ .ValueType }}) error

func (m *{{ .Name }}) EachSafe(fn eachSafe{{ .CapitalizedName }}Func) {
	m.mx.RLock()
	defer m.mx.RUnlock()

	for _, k := range m.order {
		fn(k, m.data[k])
	}
}

type eachSafe{{ .CapitalizedName }}Func = func(k {{ .KeyType }}, v {{ .ValueType }})

// Map iterates and changes values in the map.
func (m *{{ .Name }}) Map(fn map{{ .CapitalizedName }}Func) error {
	m.mx.Lock()
	defer m.mx.Unlock()

	for _, k := range m.order {
		v, err := fn(k, m.data[k])
		if err != nil {
			return err
		}
		m.data[k] = v
	}
	return nil
}

type map{{ .CapitalizedName }}Func = func(k {{ .KeyType }}, v {{ .ValueType }}) ({{ .ValueType }}, error)

// {{ .Name }}Item represent single data from the {{ .Name }}.
type {{ .Name }}Item struct {
	Key   {{ .KeyType }}
	Value {{ .ValueType }}
}

var _ json.Marshaler = &{{ .Name }}{}

func (m *{{ .Name }}) MarshalJSON() ([]byte, error) {
	m.mx.RLock()
	defer m.mx.RUnlock()

	var buf bytes.Buffer
	buf.WriteRune('{')

	for i, k := range m.order {
		if i != 0 {
			buf.WriteRune(',')
		}

		// marshal key
		key, err := json.Marshal(k)
		if err != nil {
			return nil, err
		}
		buf.Write(key)
		buf.WriteRune(':')

		// marshal value
		val, err := json.Marshal(m.data[k])
		if err != nil {
			return nil, err
		}
		buf.Write(val)
	}

	buf.WriteRune('}')
	return buf.Bytes(), nil
}
`)
	if err != nil {
		return fmt.Errorf("failed to parse template: %w", err)
	}

	buf := bytes.NewBuffer(make([]byte, 0, 2048))
	if err := t.Execute(buf, om); err != nil {
		return fmt.Errorf("failed to execute template: %w", err)
	}

	code, err := format.Source(buf.Bytes())
	if err != nil {
		return fmt.Errorf("failed to gofmt: %w", err)
	}

	p := filepath.Join(dirPath, camelCaseToUnderscore(om.Name)+"_gen.go")
	return os.WriteFile(p, code, 0644) //nolint:gosec // It's okay, we save a code here.
}

func camelCaseToUnderscore(s string) string {
	// Assume we have no more than 3 capital letters except the first one in the
	// type name.
	buf := strings.Builder{}
	buf.Grow(len(s) + 3)

	for i, r := range s {
		if unicode.IsUpper(r) {
			if i != 0 {
				buf.WriteRune('_')
			}
			r = unicode.ToLower(r)
		}
		buf.WriteRune(r)
	}

	// Replace common abbreviations.
	return strings.ReplaceAll(buf.String(), "a_s_t", "ast")
}
