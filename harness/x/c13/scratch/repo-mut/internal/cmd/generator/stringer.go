package main

import (
	stdBytes "bytes"
	"fmt"
	"go/ast"
	"go/parser"
	"go/token"
	"log"
	"os"
	"os/exec"
	"path/filepath"
	"strings"
)

// stringerGenerator generator will search for `// gen:Stringer "{some test}"`
// comments for enum and generate implementation of fmt.Stringer.
type stringerGenerator struct{}

func (stringerGenerator) Name() string { return "Stringer" }

func (g stringerGenerator) Generate(path string) error {
	dd, err := g.parseFile(path)
	if err != nil {
		return fmt.Errorf("faile to parse file: %w", err)
	}

	if err := g.generate(dd, filepath.Dir(path)); err != nil {
		return fmt.Errorf("failed to find target types: %w", err)
	}

	return nil
}

func (stringerGenerator) parseFile(p string) (dd []ast.Decl, err error) {
	const flags = parser.ParseComments | parser.AllErrors
	f, err := parser.ParseFile(token.NewFileSet(), p, nil, flags)
	if err != nil {
		return nil, err
	}

	return f.Decls, nil
}

func (g stringerGenerator) generate(dd []ast.Decl, dirPath string) error {
	for _, d := range dd {
		decl, ok := d.(*ast.GenDecl)
		if !ok {
			continue
		}

		if !g.shouldProcess(decl) {
			continue
		}

		if len(decl.Specs) != 1 {
			continue
		}

		spec, ok := decl.Specs[0].(*ast.TypeSpec)
		if !ok {
			continue
		}

		receiver, comment := g.getReceiverAndComment(decl)

		if err := g.generateCode(spec.Name.Name, receiver, comment, dirPath); err != nil {
			return err
		}
	}
	return nil
}

const stringerMarker = "gen:Stringer"

func (stringerGenerator) shouldProcess(d *ast.GenDecl) bool {
	if len(d.Specs) == 0 {
		return false
	}

	return strings.Contains(d.Doc.Text(), stringerMarker)
}

func (stringerGenerator) getReceiverAndComment(d *ast.GenDecl) (receiver string, comment string) {
	if len(d.Specs) == 0 {
		return "", ""
	}

	for _, c := range d.Doc.List {
		idx := strings.Index(c.Text, stringerMarker)
		if idx == -1 {
			continue
		}

		str := strings.TrimSpace(c.Text[idx+len(stringerMarker):])
		parts := strings.SplitN(str, " ", 2)
		if len(parts) != 2 {
			return "", ""
		}
		return parts[0], parts[1]
	}

	return "", ""
}

func (g stringerGenerator) generateCode(typeName, receiver, comment, dirPath string) error {
	outputName := filepath.Join(
		dirPath,
		fmt.Sprintf("%s_string.go", strings.ToLower(buildFileName(typeName))),
	)

	args := []string{
		"-type", typeName,
		"-linecomment",
		"-output", outputName,
	}

	log.Printf(`Run "stringer %s"`, strings.Join(args, " "))
	cmd := exec.Command("stringer", args...)
	cmd.Dir = dirPath

	cmd.Stdout = os.Stdout

	if err := cmd.Run(); err != nil {
		return err
	}

	return g.fixCode(outputName, typeName, receiver, comment)
}

func buildFileName(typeName string) string {
	buf := stdBytes.NewBuffer(make([]byte, 0, len(typeName)))
	for _, r := range typeName {
		if 'A' <= r && r <= 'Z' {
			buf.WriteRune('_')
			r += 'a' - 'A'
		}
		buf.WriteRune(r)
	}
	return strings.Trim(buf.String(), "_")
}

func (stringerGenerator) fixCode(outputName, typeName, receiver, comment string) error {
	content, err := os.ReadFile(outputName)
	if err != nil {
		return fmt.Errorf("read file %q: %w", outputName, err)
	}

	content = bytesReplace(content, `
import "strconv"
`, "")

	content = bytesReplace(
		content,
		fmt.Sprintf(`func (i %[1]s) String() string {
	if i < 0 || i >= %[1]s(len(_%[1]s_index)-1) {
		return "%[1]s(" + strconv.FormatInt(int64(i), 10) + ")"
	}
	return _%[1]s_name[_%[1]s_index[i]:_%[1]s_index[i+1]]
}`, typeName),
		fmt.Sprintf(`func (%[2]s %[1]s) String() string {
	if %[2]s < 0 || %[2]s >= %[1]s(len(_%[1]s_index)-1) {
		panic(%[3]q)
	}
	return _%[1]s_name[_%[1]s_index[%[2]s]:_%[1]s_index[%[2]s+1]]
}`, typeName, receiver, comment),
	)

	content = bytesReplace(
		content,
		fmt.Sprintf(`func (i %[1]s) String() string {
	if i >= %[1]s(len(_%[1]s_index)-1) {
		return "%[1]s(" + strconv.FormatInt(int64(i), 10) + ")"
	}
	return _%[1]s_name[_%[1]s_index[i]:_%[1]s_index[i+1]]
}`, typeName),
		fmt.Sprintf(`func (%[2]s %[1]s) String() string {
	if %[2]s >= %[1]s(len(_%[1]s_index)-1) {
		panic(%[3]q)
	}
	return _%[1]s_name[_%[1]s_index[%[2]s]:_%[1]s_index[%[2]s+1]]
}`, typeName, receiver, comment),
	)

	return os.WriteFile(outputName, content, 0644) //nolint:gosec // It's okay.
}

func bytesReplace(b []byte, olds, news string) []byte {
	return stdBytes.ReplaceAll(b, []byte(olds), []byte(news))
}
