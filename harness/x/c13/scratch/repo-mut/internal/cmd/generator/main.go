// This generator should be used for generating some source code.

package main

import (
	"fmt"
	"log"
	"os"
	"path/filepath"
	"strings"
)

func main() {
	if err := run(); err != nil {
		log.Println(err)
		os.Exit(1)
	}
}

func run() error {
	dir, err := os.Getwd()
	if err != nil {
		return fmt.Errorf("failed to get current working directory: %w", err)
	}

	g := collectionOfGenerators{
		gg: []generator{
			orderedMapGenerator{},
			stringerGenerator{},
		},
	}

	return filepath.Walk(dir, func(path string, info os.FileInfo, err error) error {
		if err != nil {
			return err
		}

		name := info.Name()
		if info.IsDir() {
			if shouldIgnoreDir(name) {
				return filepath.SkipDir
			}
			return nil
		}

		if shouldIgnoreFile(name) {
			return nil
		}

		log.Printf("Process file %q", path)
		return g.Generate(path)
	})
}

func shouldIgnoreDir(name string) bool {
	return (name == "vendor") ||
		(name[0] == '.') ||
		(name == "cmd") ||
		(name == "test") ||
		(name == "testdata")
}

func shouldIgnoreFile(name string) bool {
	return !strings.HasSuffix(name, ".go") ||
		strings.HasSuffix(name, "_test.go") ||
		strings.HasSuffix(name, "_gen.go")
}

type generator interface {
	Generate(string) error
}

type collectionOfGenerators struct {
	gg []generator
}

func (c collectionOfGenerators) Generate(p string) error {
	for _, g := range c.gg {
		if err := g.Generate(p); err != nil {
			return err
		}
	}
	return nil
}
