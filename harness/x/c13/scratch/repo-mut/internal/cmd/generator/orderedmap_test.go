package main

import (
	"testing"

	"github.com/stretchr/testify/assert"
)

func Test_camelCaseToUnderscore(t *testing.T) {
	cc := map[string]string{
		"":       "",
		"foo":    "foo",
		"Foo":    "foo",
		"fooBar": "foo_bar",
		"FooBar": "foo_bar",
	}

	for given, expected := range cc {
		t.Run(given, func(t *testing.T) {
			actual := camelCaseToUnderscore(given)
			assert.Equal(t, expected, actual)
		})
	}
}

func Benchmark_camelCaseToUnderscore(b *testing.B) {
	b.ReportAllocs()

	for i := 0; i < b.N; i++ {
		camelCaseToUnderscore("VeryVeryVeryVeryVeryVeryVeryVeryVeryVeryVeryVeryLongString")
	}
}
