package lexeme

import (
	"fmt"

	"github.com/jsightapi/jsight-schema-go-library/errors"
)

func CatchLexEventError(lex LexEvent) {
	r := recover() //nolint:revive // It's okay.
	if r == nil {
		return
	}

	switch val := r.(type) {
	case errors.DocumentError:
		panic(r)
	case errors.Err:
		panic(NewLexEventError(lex, val))
	default:
		panic(NewLexEventError(lex, errors.Format(errors.ErrGeneric, fmt.Sprintf("%s", r))))
	}
}

func CatchLexEventErrorWithIncorrectUserType(lex LexEvent, name string) {
	if name == "" {
		CatchLexEventError(lex)
		return
	}
	r := recover() //nolint:revive // It's okay.
	if r == nil {
		return
	}

	switch val := r.(type) {
	case errors.DocumentError:
		panic(r)
	case errors.Err:
		e := NewLexEventError(lex, val)
		e.SetIncorrectUserType(name)
		panic(e)
	default:
		e := NewLexEventError(lex, errors.Format(errors.ErrGeneric, fmt.Sprintf("%s", r)))
		e.SetIncorrectUserType(name)
		panic(e)
	}
}

func NewLexEventError(lex LexEvent, err errors.Err) errors.DocumentError {
	e := errors.NewDocumentError(lex.File(), err)
	e.SetIndex(lex.Begin())
	return e
}
