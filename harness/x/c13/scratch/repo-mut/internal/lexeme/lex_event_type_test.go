package lexeme

import (
	"testing"

	"github.com/stretchr/testify/assert"
)

func TestLexEventType_IsOpening(t *testing.T) {
	cc := map[LexEventType]bool{
		LiteralBegin:                 true,
		LiteralEnd:                   false,
		ObjectBegin:                  true,
		ObjectEnd:                    false,
		ObjectKeyBegin:               true,
		ObjectKeyEnd:                 false,
		ObjectValueBegin:             true,
		ObjectValueEnd:               false,
		ArrayBegin:                   true,
		ArrayEnd:                     false,
		ArrayItemBegin:               true,
		ArrayItemEnd:                 false,
		InlineAnnotationBegin:        true,
		InlineAnnotationEnd:          false,
		InlineAnnotationTextBegin:    true,
		InlineAnnotationTextEnd:      false,
		MultiLineAnnotationBegin:     true,
		MultiLineAnnotationEnd:       false,
		MultiLineAnnotationTextBegin: true,
		MultiLineAnnotationTextEnd:   false,
		NewLine:                      false,
		TypesShortcutBegin:           true,
		TypesShortcutEnd:             false,
		KeyShortcutBegin:             true,
		KeyShortcutEnd:               false,
		MixedValueBegin:              true,
		MixedValueEnd:                false,
		EndTop:                       false,
	}

	for lexType, expected := range cc {
		t.Run(lexType.String(), func(t *testing.T) {
			assert.Equal(t, expected, lexType.IsOpening())
		})
	}
}

func TestLexEventType_String(t *testing.T) {
	t.Run("positive", func(t *testing.T) {
		cc := map[LexEventType]string{
			LiteralBegin:                 "literal-begin",
			LiteralEnd:                   "literal-end",
			ObjectBegin:                  "object-begin",
			ObjectEnd:                    "object-end",
			ObjectKeyBegin:               "key-begin",
			ObjectKeyEnd:                 "key-end",
			ObjectValueBegin:             "value-begin",
			ObjectValueEnd:               "value-end",
			ArrayBegin:                   "array-begin",
			ArrayEnd:                     "array-end",
			ArrayItemBegin:               "item-begin",
			ArrayItemEnd:                 "item-end",
			InlineAnnotationBegin:        "inline-annotation-begin",
			InlineAnnotationEnd:          "inline-annotation-end",
			InlineAnnotationTextBegin:    "inline-annotation-text-begin",
			InlineAnnotationTextEnd:      "inline-annotation-text-end",
			MultiLineAnnotationBegin:     "multi-line-annotation-begin",
			MultiLineAnnotationEnd:       "multi-line-annotation-end",
			MultiLineAnnotationTextBegin: "multi-line-annotation-text-begin",
			MultiLineAnnotationTextEnd:   "multi-line-annotation-text-end",
			NewLine:                      "new-line",
			TypesShortcutBegin:           "types-shortcut-begin",
			TypesShortcutEnd:             "types-shortcut-end",
			KeyShortcutBegin:             "key-shortcut-begin",
			KeyShortcutEnd:               "key-shortcut-end",
			MixedValueBegin:              "mixed-value-begin",
			MixedValueEnd:                "mixed-value-end",
			EndTop:                       "end-top",
		}

		for lexType, expected := range cc {
			t.Run(expected, func(t *testing.T) {
				assert.Equal(t, expected, lexType.String())
			})
		}
	})

	t.Run("negative", func(t *testing.T) {
		assert.PanicsWithValue(t, "Unknown lexical event type", func() {
			_ = LexEventType(255).String()
		})
	})
}
