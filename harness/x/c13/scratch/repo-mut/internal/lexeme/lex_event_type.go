package lexeme

// LexEventType available lexeme event types.
// gen:Stringer e Unknown lexical event type
type LexEventType uint8

const (
	LiteralBegin                 LexEventType = iota // literal-begin
	LiteralEnd                                       // literal-end
	ObjectBegin                                      // object-begin
	ObjectEnd                                        // object-end
	ObjectKeyBegin                                   // key-begin
	ObjectKeyEnd                                     // key-end
	ObjectValueBegin                                 // value-begin
	ObjectValueEnd                                   // value-end
	ArrayBegin                                       // array-begin
	ArrayEnd                                         // array-end
	ArrayItemBegin                                   // item-begin
	ArrayItemEnd                                     // item-end
	InlineAnnotationBegin                            // inline-annotation-begin
	InlineAnnotationEnd                              // inline-annotation-end
	InlineAnnotationTextBegin                        // inline-annotation-text-begin
	InlineAnnotationTextEnd                          // inline-annotation-text-end
	MultiLineAnnotationBegin                         // multi-line-annotation-begin
	MultiLineAnnotationEnd                           // multi-line-annotation-end
	MultiLineAnnotationTextBegin                     // multi-line-annotation-text-begin
	MultiLineAnnotationTextEnd                       // multi-line-annotation-text-end
	NewLine                                          // new-line

	// TypesShortcutBegin indicates that "type" or "or" shortcut was began.
	TypesShortcutBegin // types-shortcut-begin

	// TypesShortcutEnd indicates that "type" or "or" shortcut was ended.
	TypesShortcutEnd // types-shortcut-end

	KeyShortcutBegin // key-shortcut-begin
	KeyShortcutEnd   // key-shortcut-end

	// MixedValueBegin indicates that here can be anything: scalar, array, or object.
	MixedValueBegin // mixed-value-begin
	MixedValueEnd   // mixed-value-end

	// EndTop character after the last closing JSON or SCHEMA lexeme event.
	EndTop // end-top
)

func (e LexEventType) IsOpening() bool {
	switch e { //nolint:exhaustive // It's okay.
	case LiteralBegin,
		ObjectBegin,
		ObjectKeyBegin,
		ObjectValueBegin,
		ArrayBegin,
		ArrayItemBegin,
		MultiLineAnnotationBegin,
		InlineAnnotationBegin,
		InlineAnnotationTextBegin,
		MultiLineAnnotationTextBegin,
		TypesShortcutBegin,
		KeyShortcutBegin,
		MixedValueBegin:
		return true
	}
	return false
}
