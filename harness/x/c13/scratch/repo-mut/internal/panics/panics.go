package panics

// Handle handles panics properly.
func Handle(r interface{}, originErr error) error {
	if originErr != nil {
		return originErr
	}

	if r == nil {
		return nil
	}

	rErr, ok := r.(error)
	if !ok {
		panic(r)
	}
	return rErr
}
