package panics

import (
	stdErrors "errors"
	"testing"

	"github.com/stretchr/testify/assert"
)

func TestHandle(t *testing.T) {
	cc := map[string]struct {
		r           interface{}
		originErr   error
		expectedErr error
	}{
		"r nil, originErr nil": {
			r:           nil,
			originErr:   nil,
			expectedErr: nil,
		},

		"r nil, originErr isn't nil": {
			r:           nil,
			originErr:   stdErrors.New("origin fake error"),
			expectedErr: stdErrors.New("origin fake error"),
		},

		"r isn't nil, originErr nil": {
			r:           stdErrors.New("r fake error"),
			originErr:   nil,
			expectedErr: stdErrors.New("r fake error"),
		},

		"r isn't nil, originErr isn't nil": {
			r:           stdErrors.New("r fake error"),
			originErr:   stdErrors.New("origin fake error"),
			expectedErr: stdErrors.New("origin fake error"),
		},

		"r isn't nil not error, originErr isn't nil": {
			r:           "foo",
			originErr:   stdErrors.New("origin fake error"),
			expectedErr: stdErrors.New("origin fake error"),
		},
	}

	for n, c := range cc {
		t.Run(n, func(t *testing.T) {
			err := Handle(c.r, c.originErr)
			assert.Equal(t, c.expectedErr, err)
		})
	}

	t.Run("r isn't nil not error, originErr nil", func(t *testing.T) {
		assert.PanicsWithValue(t, "foo", func() {
			_ = Handle("foo", nil)
		})
	})
}
