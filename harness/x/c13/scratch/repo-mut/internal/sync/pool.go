package sync

import (
	"bytes"
	"sync"
)

// BufferPool a wrapper under sync.Pool which holds buffers.
type BufferPool struct {
	pool sync.Pool
}

// NewBufferPool creates new instance of BufferPool.
func NewBufferPool(size int) *BufferPool {
	return &BufferPool{
		pool: sync.Pool{
			New: func() interface{} {
				return bytes.NewBuffer(make([]byte, 0, size))
			},
		},
	}
}

// Get returns new buffer from pool.
func (p *BufferPool) Get() *bytes.Buffer {
	return p.pool.Get().(*bytes.Buffer)
}

// Put returns buffer to pool.
func (p *BufferPool) Put(b *bytes.Buffer) {
	b.Reset()
	p.pool.Put(b)
}
