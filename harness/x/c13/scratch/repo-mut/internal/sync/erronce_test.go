package sync

import (
	"fmt"
	"testing"

	"github.com/stretchr/testify/assert"
)

func TestErrOnce_Do(t *testing.T) {
	t.Run("once without error", func(t *testing.T) {
		eo := ErrOnce{}

		called := 0
		fn := func() error {
			called++
			return nil
		}
		t.Cleanup(func() {
			assert.Equal(t, 1, called)
		})

		assert.NoError(t, eo.Do(fn))
		assert.NoError(t, eo.Do(fn))
		assert.NoError(t, eo.Do(fn))
	})

	t.Run("once with error", func(t *testing.T) {
		eo := ErrOnce{}

		called := 0
		fn := func() error {
			called++
			return fmt.Errorf("fake error %d", called)
		}
		t.Cleanup(func() {
			assert.Equal(t, 1, called)
		})

		assert.EqualError(t, eo.Do(fn), "fake error 1")
		assert.EqualError(t, eo.Do(fn), "fake error 1")
		assert.EqualError(t, eo.Do(fn), "fake error 1")
	})
}

func TestErrOnceWithValue_Do(t *testing.T) {
	t.Run("once without error", func(t *testing.T) {
		eo := ErrOnceWithValue[int]{}

		called := 0
		fn := func() (int, error) {
			called++
			return called, nil
		}
		t.Cleanup(func() {
			assert.Equal(t, 1, called)
		})

		v, err := eo.Do(fn)
		assert.Equal(t, 1, v)
		assert.NoError(t, err)

		v, err = eo.Do(fn)
		assert.Equal(t, 1, v)
		assert.NoError(t, err)

		v, err = eo.Do(fn)
		assert.Equal(t, 1, v)
		assert.NoError(t, err)
	})

	t.Run("once with error", func(t *testing.T) {
		eo := ErrOnceWithValue[int]{}

		called := 0
		fn := func() (int, error) {
			called++
			return 0, fmt.Errorf("fake error %d", called)
		}
		t.Cleanup(func() {
			assert.Equal(t, 1, called)
		})

		v, err := eo.Do(fn)
		assert.Equal(t, 0, v)
		assert.EqualError(t, err, "fake error 1")

		v, err = eo.Do(fn)
		assert.Equal(t, 0, v)
		assert.EqualError(t, err, "fake error 1")

		v, err = eo.Do(fn)
		assert.Equal(t, 0, v)
		assert.EqualError(t, err, "fake error 1")
	})
}
