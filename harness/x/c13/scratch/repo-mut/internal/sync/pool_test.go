package sync

import (
	"testing"

	"github.com/stretchr/testify/assert"
	"github.com/stretchr/testify/require"
)

func TestNewBufferPool(t *testing.T) {
	const capacity = 1024
	p := NewBufferPool(capacity)
	require.NotNil(t, p)

	require.NotNil(t, p.pool.New)

	b := p.Get()
	assert.Equal(t, 0, b.Len())
	assert.Equal(t, capacity, b.Cap())
}
