package sync

import "sync"

// ErrOnce we same as sync.Once but require a function which can return an error.
// This error will be hold inside this type and return every time when someone
// call `Do` method.
type ErrOnce struct {
	err  error
	once sync.Once
}

// Do doing the stuff.
func (e *ErrOnce) Do(fn func() error) error {
	e.once.Do(func() {
		e.err = fn()
	})
	return e.err
}

// ErrOnceWithValue we same as ErrOnce but holds the value as well.
type ErrOnceWithValue[T any] struct {
	value T
	err   error
	once  sync.Once
}

// Do doing the stuff.
func (e *ErrOnceWithValue[T]) Do(fn func() (T, error)) (T, error) {
	e.once.Do(func() {
		e.value, e.err = fn()
	})
	return e.value, e.err
}
