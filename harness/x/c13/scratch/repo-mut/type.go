package jschema

import (
	"errors"

	"github.com/jsightapi/jsight-schema-go-library/internal/json"
)

type TokenType = string

const (
	TokenTypeNumber   TokenType = "number"
	TokenTypeString   TokenType = "string"
	TokenTypeBoolean  TokenType = "boolean"
	TokenTypeArray    TokenType = "array"
	TokenTypeObject   TokenType = "object"
	TokenTypeShortcut TokenType = "reference"
	TokenTypeNull     TokenType = "null"
)

type SchemaType string

const (
	SchemaTypeUndefined SchemaType = ""
	SchemaTypeString    SchemaType = "string"
	SchemaTypeInteger   SchemaType = "integer"
	SchemaTypeFloat     SchemaType = "float"
	SchemaTypeDecimal   SchemaType = "decimal"
	SchemaTypeBoolean   SchemaType = "boolean"
	SchemaTypeObject    SchemaType = "object"
	SchemaTypeArray     SchemaType = "array"
	SchemaTypeNull      SchemaType = "null"
	SchemaTypeEmail     SchemaType = "email"
	SchemaTypeURI       SchemaType = "uri"
	SchemaTypeUUID      SchemaType = "uuid"
	SchemaTypeDate      SchemaType = "date"
	SchemaTypeDateTime  SchemaType = "datetime"
	SchemaTypeEnum      SchemaType = "enum"
	SchemaTypeMixed     SchemaType = "mixed"
	SchemaTypeAny       SchemaType = "any"
	SchemaTypeComment   SchemaType = "comment"
)

func IsValidType(s string) bool {
	_, ok := map[string]struct{}{
		string(SchemaTypeString):   {},
		string(SchemaTypeInteger):  {},
		string(SchemaTypeFloat):    {},
		string(SchemaTypeDecimal):  {},
		string(SchemaTypeBoolean):  {},
		string(SchemaTypeObject):   {},
		string(SchemaTypeArray):    {},
		string(SchemaTypeNull):     {},
		string(SchemaTypeEmail):    {},
		string(SchemaTypeURI):      {},
		string(SchemaTypeUUID):     {},
		string(SchemaTypeDate):     {},
		string(SchemaTypeDateTime): {},
		string(SchemaTypeEnum):     {},
		string(SchemaTypeMixed):    {},
		string(SchemaTypeAny):      {},
		string(SchemaTypeComment):  {},
	}[s]
	return ok
}

func (t SchemaType) ToTokenType() string {
	switch t { //nolint:exhaustive // We return an empty string.
	case SchemaTypeObject:
		return "object"
	case SchemaTypeArray:
		return "array"
	case SchemaTypeString:
		return "string"
	case SchemaTypeInteger, SchemaTypeFloat, SchemaTypeDecimal:
		return "number"
	case SchemaTypeBoolean:
		return "boolean"
	case SchemaTypeNull:
		return "null"
	case SchemaTypeMixed:
		return "reference"
	case SchemaTypeComment:
		return "annotation"
	}
	return ""
}

func (t SchemaType) IsScalar() bool {
	return t.IsOneOf(
		SchemaTypeString,
		SchemaTypeInteger,
		SchemaTypeFloat,
		SchemaTypeDecimal,
		SchemaTypeBoolean,
		SchemaTypeNull,
		SchemaTypeEmail,
		SchemaTypeURI,
		SchemaTypeUUID,
		SchemaTypeDate,
		SchemaTypeDateTime,
		SchemaTypeEnum,
	)
}

// IsOneOf return true if current schema is one of specified.
func (t SchemaType) IsOneOf(tt ...SchemaType) bool {
	if t == SchemaTypeUndefined {
		return false
	}

	for _, x := range tt {
		if t == x {
			return true
		}
	}
	return false
}

// IsEqualSoft compare two types with next assumptions%
// - Decimal is the same as float;
// - Email, URI, UUID, Date, and DateTime are the same as string;
// - Enum, Mixed and Any are the same as any other type.
func (t SchemaType) IsEqualSoft(x SchemaType) bool {
	// Fast path.
	if t == x {
		return t != SchemaTypeUndefined
	}

	// Slow path.
	for _, r := range schemaTypeComparisonMap[t] {
		if x == r {
			return true
		}
	}
	return false
}

var schemaTypeComparisonMap = map[SchemaType][]SchemaType{
	SchemaTypeUndefined: {},
	SchemaTypeString: {
		SchemaTypeString,
		SchemaTypeEmail,
		SchemaTypeURI,
		SchemaTypeUUID,
		SchemaTypeDate,
		SchemaTypeDateTime,
		SchemaTypeEnum,
		SchemaTypeMixed,
		SchemaTypeAny,
	},
	SchemaTypeInteger: {
		SchemaTypeInteger,
		SchemaTypeEnum,
		SchemaTypeMixed,
		SchemaTypeAny,
	},
	SchemaTypeFloat: {
		SchemaTypeFloat,
		SchemaTypeDecimal,
		SchemaTypeEnum,
		SchemaTypeMixed,
		SchemaTypeAny,
	},
	SchemaTypeDecimal: {
		SchemaTypeFloat,
		SchemaTypeDecimal,
		SchemaTypeEnum,
		SchemaTypeMixed,
		SchemaTypeAny,
	},
	SchemaTypeBoolean: {
		SchemaTypeBoolean,
		SchemaTypeEnum,
		SchemaTypeMixed,
		SchemaTypeAny,
	},
	SchemaTypeObject: {
		SchemaTypeObject,
		SchemaTypeEnum,
		SchemaTypeMixed,
		SchemaTypeAny,
	},
	SchemaTypeArray: {
		SchemaTypeArray,
		SchemaTypeEnum,
		SchemaTypeMixed,
		SchemaTypeAny,
	},
	SchemaTypeNull: {
		SchemaTypeNull,
		SchemaTypeArray,
		SchemaTypeEnum,
		SchemaTypeMixed,
		SchemaTypeAny,
	},
	SchemaTypeEmail: {
		SchemaTypeString,
		SchemaTypeEmail,
		SchemaTypeURI,
		SchemaTypeUUID,
		SchemaTypeDate,
		SchemaTypeDateTime,
		SchemaTypeEnum,
		SchemaTypeMixed,
		SchemaTypeAny,
	},
	SchemaTypeURI: {
		SchemaTypeString,
		SchemaTypeEmail,
		SchemaTypeURI,
		SchemaTypeUUID,
		SchemaTypeDate,
		SchemaTypeDateTime,
		SchemaTypeEnum,
		SchemaTypeMixed,
		SchemaTypeAny,
	},
	SchemaTypeUUID: {
		SchemaTypeString,
		SchemaTypeEmail,
		SchemaTypeURI,
		SchemaTypeUUID,
		SchemaTypeDate,
		SchemaTypeDateTime,
		SchemaTypeEnum,
		SchemaTypeMixed,
		SchemaTypeAny,
	},
	SchemaTypeDate: {
		SchemaTypeString,
		SchemaTypeEmail,
		SchemaTypeURI,
		SchemaTypeUUID,
		SchemaTypeDate,
		SchemaTypeDateTime,
		SchemaTypeEnum,
		SchemaTypeMixed,
		SchemaTypeAny,
	},
	SchemaTypeDateTime: {
		SchemaTypeString,
		SchemaTypeEmail,
		SchemaTypeURI,
		SchemaTypeUUID,
		SchemaTypeDate,
		SchemaTypeDateTime,
		SchemaTypeEnum,
		SchemaTypeMixed,
		SchemaTypeAny,
	},
	SchemaTypeEnum: {
		SchemaTypeString,
		SchemaTypeInteger,
		SchemaTypeFloat,
		SchemaTypeDecimal,
		SchemaTypeBoolean,
		SchemaTypeObject,
		SchemaTypeArray,
		SchemaTypeNull,
		SchemaTypeEmail,
		SchemaTypeURI,
		SchemaTypeUUID,
		SchemaTypeDate,
		SchemaTypeDateTime,
		SchemaTypeEnum,
		SchemaTypeMixed,
		SchemaTypeAny,
	},
	SchemaTypeMixed: {
		SchemaTypeString,
		SchemaTypeInteger,
		SchemaTypeFloat,
		SchemaTypeDecimal,
		SchemaTypeBoolean,
		SchemaTypeObject,
		SchemaTypeArray,
		SchemaTypeNull,
		SchemaTypeEmail,
		SchemaTypeURI,
		SchemaTypeUUID,
		SchemaTypeDate,
		SchemaTypeDateTime,
		SchemaTypeEnum,
		SchemaTypeMixed,
		SchemaTypeAny,
	},
	SchemaTypeAny: {
		SchemaTypeString,
		SchemaTypeInteger,
		SchemaTypeFloat,
		SchemaTypeDecimal,
		SchemaTypeBoolean,
		SchemaTypeObject,
		SchemaTypeArray,
		SchemaTypeNull,
		SchemaTypeEmail,
		SchemaTypeURI,
		SchemaTypeUUID,
		SchemaTypeDate,
		SchemaTypeDateTime,
		SchemaTypeEnum,
		SchemaTypeMixed,
		SchemaTypeAny,
	},
}

var ErrUnknownSchemaType = errors.New("unknown schema type")

func GuessSchemaType(b []byte) (SchemaType, error) {
	return (&typeGuesser{data: b}).Guess()
}

type typeGuesser struct {
	number *json.Number
	data   []byte
}

func (g *typeGuesser) Guess() (SchemaType, error) {
	m := map[SchemaType]func() bool{
		SchemaTypeString:  g.isString,
		SchemaTypeInteger: g.isInteger,
		SchemaTypeFloat:   g.isFloat,
		SchemaTypeBoolean: g.isBoolean,
		SchemaTypeObject:  g.isObject,
		SchemaTypeArray:   g.isArray,
		SchemaTypeNull:    g.isNull,
	}

	for t, fn := range m {
		if fn() {
			return t, nil
		}
	}
	return SchemaTypeUndefined, ErrUnknownSchemaType
}

func (g *typeGuesser) isString() bool {
	length := len(g.data)
	return length >= 2 && g.data[0] == '"' && g.data[length-1] == '"'
}

func (g *typeGuesser) isInteger() bool {
	dot := false
	exp := false
	for _, c := range g.data {
		switch c {
		case '.':
			dot = true
		case 'e', 'E':
			exp = true
		}
	}
	if dot && !exp {
		return false
	}

	n, err := g.parseNumber()
	if err != nil {
		return false
	}

	if n.LengthOfFractionalPart() != 0 {
		return false
	}

	return true
}

func (g *typeGuesser) isFloat() bool {
	dot := false
	exp := false
	for _, c := range g.data {
		switch c {
		case '.':
			dot = true
		case 'e', 'E':
			exp = true
		}
	}
	if dot && !exp {
		return true
	}

	n, err := g.parseNumber()
	if err != nil {
		return false
	}

	if n.LengthOfFractionalPart() != 0 {
		return true
	}

	return false
}

func (g *typeGuesser) isBoolean() bool {
	str := string(g.data)
	return str == "true" || str == "false"
}

func (g *typeGuesser) isObject() bool {
	return string(g.data) == "{"
}

func (g *typeGuesser) isArray() bool {
	return string(g.data) == "["
}

func (g *typeGuesser) isNull() bool {
	return string(g.data) == "null"
}

func (g *typeGuesser) parseNumber() (*json.Number, error) {
	if g.number == nil {
		n, err := json.NewNumber(g.data)
		if err != nil {
			return nil, err
		}
		g.number = n
	}
	return g.number, nil
}
