package jschema

//go:generate go run ./internal/cmd/generator/
//go:generate mockery --name Document --output ./internal/mocks
//go:generate mockery --name Rule --output ./internal/mocks
