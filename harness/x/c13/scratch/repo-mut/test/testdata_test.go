package test

import (
	"path"
	"path/filepath"
	"strings"
	"testing"

	"github.com/jsightapi/jsight-schema-go-library/errors"
	"github.com/jsightapi/jsight-schema-go-library/formats/json"
	"github.com/jsightapi/jsight-schema-go-library/fs"
	"github.com/jsightapi/jsight-schema-go-library/kit"
	"github.com/jsightapi/jsight-schema-go-library/notations/jschema"
	"github.com/jsightapi/jsight-schema-go-library/reader"
	"github.com/jsightapi/jsight-schema-go-library/rules/enum"
)

func TestData(t *testing.T) {
	for _, tt := range tests() {
		t.Run(tt.name(), func(t *testing.T) {
			err := validate(tt)

			if tt.want == nil {
				if err != nil {
					t.Errorf(`Unexpected error
	File: %s
	Position: %d
	tCode: %v
	Message: %s`, err.Filename(), err.Position(), err.ErrCode(), err.Message())
				}
			} else {
				want := (int)(tt.want.Code())
				if err == nil {
					t.Errorf("There must have been a error code: %v", want)
				} else if want != err.ErrCode() {
					t.Errorf(`Invalid error code
	File: %s
	Want error code: %v
	Got error code: %v
	Message: %s`, err.Filename(), want, err.ErrCode(), err.Message())
				}
			}
		})
	}
}

func validate(t test) kit.Error {
	schemaFile := reader.Read(path.Join(GetProjectRoot(), t.relativePath, t.schema))
	jsonFile := reader.Read(path.Join(GetProjectRoot(), t.relativePath, t.json))
	types := readFiles(t.relativePath, t.types)
	enums := readFiles(t.relativePath, t.enums)

	sc := jschema.FromFile(schemaFile)

	for name, f := range enums {
		if len(f.Content()) == 0 {
			return errors.NewDocumentError(schemaFile, errors.Format(errors.ErrEmptyType, name))
		}
		if err := sc.AddRule(name, enum.FromFile(f)); err != nil {
			return kit.ConvertError(f, err)
		}
	}

	for name, f := range types {
		if len(f.Content()) == 0 {
			return errors.NewDocumentError(schemaFile, errors.Format(errors.ErrEmptyType, name))
		}
		if err := sc.AddType(name, jschema.FromFile(f)); err != nil {
			return kit.ConvertError(f, err)
		}
	}

	err := sc.Validate(json.FromFile(jsonFile))
	if err != nil {
		return kit.ConvertError(schemaFile, err)
	}
	return nil
}

func readFiles(relativePath string, filenames []string) map[string]*fs.File {
	types := make(map[string]*fs.File)

	for _, filename := range filenames {
		absolutePath := path.Join(GetProjectRoot(), relativePath, filename)

		ext := filepath.Ext(filename)
		typeName := "@" + strings.TrimSuffix(filename, ext)

		file := reader.ReadWithName(absolutePath, typeName)

		types[typeName] = file
	}

	return types
}
