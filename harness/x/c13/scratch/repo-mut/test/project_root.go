package test

import (
	"os"
	"path/filepath"

	"github.com/jsightapi/jsight-schema-go-library/internal/sync"
)

var projectRootOnce sync.ErrOnceWithValue[string]

func GetProjectRoot() string {
	v, _ := projectRootOnce.Do(func() (string, error) { //nolint:errcheck // There is no error.
		return determineProjectRoot(), nil
	})
	return v
}

func determineProjectRoot() string {
	path, err := os.Getwd()
	if err != nil {
		panic(err)
	}
	for {
		if path == "/" || path == "" {
			panic("Project root not found")
		}
		if isExists(filepath.Join(path, "go.mod")) {
			break
		}
		path = filepath.Dir(path)
	}
	return path
}

func isExists(f string) bool {
	_, err := os.Stat(f)
	return err == nil
}

// Integer power: compute a**b using binary powering algorithm
// See Donald Knuth, The Art of Computer Programming, Volume 2, Section
// func Pow(a, b uint) uint {
// 	var p uint = 1
// 	for b > 0 {
// 		if b&1 != 0 {
// 			p *= a
// 		}
// 		b >>= 1
// 		a *= a
// 	}
// 	return p
// }
//
// func VarDump(mixed interface{}) string {
// 	b, err := json.MarshalIndent(mixed, "", "  ")
// 	if err != nil {
// 		panic(err)
// 	}
// 	return string(b)
// }
