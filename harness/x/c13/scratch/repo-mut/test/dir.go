package test

import (
	"path/filepath"
)

type dir struct {
	relativePath string
	schema       string
	json         []string
	types        []string
	enums        []string
}

func newDir(relativePath string) dir {
	return dir{
		relativePath: relativePath,
		json:         make([]string, 0, 5),
		types:        make([]string, 0, 5),
		enums:        make([]string, 0, 5),
	}
}

func (d dir) isEmpty() bool {
	if d.schema == "" || len(d.json) == 0 {
		return true
	}
	return false
}

func (d *dir) appendFilename(filename string) {
	switch filepath.Ext(filename) {
	case ".jschema":
		d.appendSchema(filename)
	case ".json":
		d.appendJson(filename)
	case ".type":
		d.appendType(filename)
	case ".enum":
		d.appendEnum(filename)
	default:
		panic("Unknown file type: " + filename)
	}
}

func (d *dir) appendSchema(filename string) {
	if d.schema != "" {
		panic("It is possible to have only one schema in the directory: " + d.relativePath)
	}
	d.schema = filename
}

func (d *dir) appendJson(filename string) {
	d.json = append(d.json, filename)
}

func (d *dir) appendType(filename string) {
	d.types = append(d.types, filename)
}

func (d *dir) appendEnum(filename string) {
	d.enums = append(d.enums, filename)
}

func (d dir) String() string {
	return d.relativePath
}
