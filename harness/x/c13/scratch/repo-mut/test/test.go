package test

import (
	"path/filepath"
	"strings"

	"github.com/jsightapi/jsight-schema-go-library/errors"
)

type test struct {
	relativePath string
	schema       string
	json         string
	types        []string
	enums        []string
	want         errors.Err
}

func (t test) name() string {
	p, err := filepath.Abs(t.String())
	if err != nil {
		panic(err)
	}

	parts := strings.Split(p, string(filepath.Separator))
	var idx int
	for _, p := range parts {
		idx++
		if p == "testdata" {
			break
		}
	}

	return strings.TrimSuffix(filepath.Join(parts[idx:]...), ".json")
}

func (t test) String() string {
	return filepath.Join(t.relativePath, t.json)
}
