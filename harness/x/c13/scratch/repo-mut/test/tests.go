package test

import (
	"path/filepath"
	"strconv"
	"strings"

	"github.com/jsightapi/jsight-schema-go-library/errors"
)

func tests() []test {
	tests := make([]test, 0, 100)
	for _, d := range directories() {
		tests = append(tests, dirTests(d)...)
	}
	return tests
}

func dirTests(d dir) []test {
	list := make([]test, 0, 10)
	for _, jsonFilename := range d.json {
		t := test{
			relativePath: d.relativePath,
			schema:       d.schema,
			json:         jsonFilename,
			types:        d.types,
			enums:        d.enums,
			want:         want(jsonFilename),
		}
		list = append(list, t)
	}
	return list
}

// want determines the expected error code by the file name.
// If the file starts with "err_", then an error code is expected further in the file name.
// For example, if the file name is "err_801_something_else.json", the error code will be 801.
// If the file name is "some_name.json", then the error code will be nil.
func want(filename string) errors.Err {
	ext := filepath.Ext(filename)
	p := strings.Split(strings.TrimSuffix(filename, ext), "_")

	if p[0] == "err" {
		code, err := strconv.Atoi(p[1])
		if err != nil {
			panic("Invalid error code in the file name: " + p[1])
		}
		return errors.ErrorCode(code)
	}

	return nil
}
