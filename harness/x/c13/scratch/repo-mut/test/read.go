package test

import (
	"os"
	"path"
)

func directories() []dir {
	return readTestdataDirectory("testdata")
}

func readTestdataDirectory(relativePath string) []dir {
	absoluteDirPath := path.Join(GetProjectRoot(), relativePath)

	files, err := os.ReadDir(absoluteDirPath)
	if err != nil {
		panic(err)
	}

	directories := make([]dir, 0, 1)
	d := newDir(relativePath)

	for _, file := range files {
		if file.IsDir() {
			child := readTestdataDirectory(path.Join(relativePath, file.Name()))
			directories = append(directories, child...)
		} else {
			d.appendFilename(file.Name())
		}
	}

	if !d.isEmpty() {
		directories = append(directories, d)
	}

	return directories
}
