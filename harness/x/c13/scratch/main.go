package main

import (
	"bufio"
	stdjson "encoding/json"
	"fmt"
	"os"
	"strings"

	jdoc "github.com/jsightapi/jsight-schema-go-library/formats/json"
	"github.com/jsightapi/jsight-schema-go-library/notations/jschema"
	"github.com/jsightapi/jsight-schema-go-library/rules/enum"
)

// each input case separated by a line "=====" ; escapes \r \t interpreted with Go unquote when line starts with Q:
func main() {
	sc := bufio.NewScanner(os.Stdin)
	sc.Buffer(make([]byte, 1<<20), 1<<20)
	var cur []string
	flush := func() {
		if len(cur) == 0 {
			return
		}
		txt := strings.Join(cur, "\n")
		mode := "schema"
		if strings.HasPrefix(txt, "ENUM:") {
			mode = "enum"
			txt = txt[5:]
		}
		if strings.HasPrefix(txt, "JSON:") {
			mode = "json"
			txt = txt[5:]
		}
		if strings.HasPrefix(txt, "Q:") {
			u, err := unq(txt[2:])
			if err != nil {
				fmt.Println("bad quote", err)
			}
			txt = u
		}
		fmt.Printf("---- %s %q\n", mode, txt)
		func() {
			defer func() {
				if r := recover(); r != nil {
					fmt.Println("PANIC", r)
				}
			}()
			switch mode {
			case "schema":
				s := jschema.New("s", txt)
				s.AddType("@t", jschema.New("@t", `{"tt": 1}`))
				s.AddType("@u", jschema.New("@u", `"uu"`))
				err := s.Check()
				fmt.Println("check:", err)
				if err == nil {
					ast, _ := s.GetAST()
					b, _ := stdjson.Marshal(ast)
					fmt.Println("ast:", string(b))
				}
				l, err := jschema.New("s", txt).Len()
				fmt.Println("len:", l, err, "of", len(txt))
			case "enum":
				e := enum.New("e", txt)
				fmt.Println("check:", e.Check())
				v, _ := e.Values()
				fmt.Printf("values: %v\n", v)
				l, err := enum.New("e", txt).Len()
				fmt.Println("len:", l, err, "of", len(txt))
			case "json":
				d := jdoc.New("d", txt, jdoc.AllowTrailingNonSpaceCharacters())
				l, err := d.Len()
				fmt.Println("len:", l, err, "of", len(txt))
			}
		}()
		cur = nil
	}
	for sc.Scan() {
		if sc.Text() == "=====" {
			flush()
			continue
		}
		cur = append(cur, sc.Text())
	}
	flush()
}

func unq(s string) (string, error) {
	r := strings.NewReplacer(`\n`, "\n", `\r`, "\r", `\t`, "\t")
	return r.Replace(s), nil
}
