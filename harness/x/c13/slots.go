package c13

// User comments at EVERY place between two tokens of a schema text.
//
// The printer (printer.node, compactText, spell.annotation) names every place between two tokens a SLOT. An
// inserter attached to the spelling decides what is written there:
//
//	count   nothing; the slots are recorded (kind, what surrounds them on the line)
//	single  one slot (by number) receives 1-3 comments of one form; everything else is the carrier spelling
//	random  every slot receives comments with probability p (part of the "comments" rewrite of a variant)
//
// Comment forms: "line" `# text` up to the end of the line (in the middle of a line it is followed by its own line
// break + indentation), "block1" `### text ###` on one line, "blockN" a `###` block whose text spans 1-2 line breaks
// (in the line-end style of the spelling).
//
// Which (slot, form) pairs are re-spellings is decided STRUCTURALLY by legit(), from the language as the unchanged
// tree implements it (explored with `vh c13-metamorphic slots`, which tabulates every pair):
//   - no user comment between a key and its ':' / between ':' and the value (error 301), inside a `@t | @u`
//     shortcut, inside an annotation;
//   - a "line" comment in the middle of a line moves the rest of the line to the next one: it is a re-spelling only
//     if no annotation follows on the line (an annotation binds to the node on ITS line) or nothing of the node
//     stands before it;
//   - behind an inline annotation that has a note the rest of the line is the comment (`#` starts it): a block does
//     not span lines there.
// Pairs outside that set are generated as PROBES only (Check verdict counted in the stats `outside_language_…`,
// never a diff).
//
// Oracle for the pairs inside the set (property level, metamorphic): Check verdict + code, AST (of the root and of
// the added types) and the Validate verdict on every document equal those of the base spelling.

import (
	"fmt"
	"math/rand"
	"sort"
	"strings"
	"sync"

	"verifharness/vh"
)

type slotInfo struct {
	kind      string
	annAfter  bool   // an annotation follows on the same line
	tokBefore bool   // a token of the schema stands before the slot on the same line
	eolNext   bool   // the line ends behind the slot (only comments of the spelling may follow)
	annForm   string // form of the annotation of the line: "", "inline", "inline-note", "multi"
}

// class: the name under which a slot is counted and chosen (the kind + what decides how comments behave there).
func (si slotInfo) class() string {
	c := si.kind
	if si.kind == "after-ann" {
		return c + "(" + si.annForm + ")"
	}
	if si.annAfter {
		c += "+annotation-follows(" + si.annForm + ")"
	}
	return c
}

var commentForms = []string{"line", "block1", "blockN"}

// legit: inserting a comment of this form at this slot is a re-spelling (see the package comment of this file).
func legit(si slotInfo, form string) bool {
	switch si.kind {
	case "key|colon", "colon|value", "compact:key|colon", "compact:colon|value",
		"shortcut:name|pipe", "shortcut:pipe|name",
		"annotation:opener|body", "annotation:in-rules", "annotation:body|closer":
		return false
	case "after-ann":
		if si.annForm == "inline-note" {
			return form != "blockN"
		}
		return true
	}
	if form == "line" && !si.eolNext {
		return !(si.annAfter && si.tokBefore)
	}
	return true
}

// sm64: splitmix64 as a rand.Source64: a cheap PRNG per slot, so that what is written at one slot does not depend on
// what was written at the others (a failing variant can be reduced slot by slot).
type sm64 uint64

func (s *sm64) Uint64() uint64 {
	*s += 0x9e3779b97f4a7c15
	z := uint64(*s)
	z = (z ^ (z >> 30)) * 0xbf58476d1ce4e5b9
	z = (z ^ (z >> 27)) * 0x94d049bb133111eb
	return z ^ (z >> 31)
}
func (s *sm64) Int63() int64    { return int64(s.Uint64() >> 1) }
func (s *sm64) Seed(seed int64) { *s = sm64(seed) }

func slotRand(seed int64, n int) *rand.Rand {
	s := sm64(uint64(seed)*0x2545f4914f6cdd1d + uint64(n)*0x9e3779b97f4a7c15)
	s.Uint64()
	return rand.New(&s)
}

type inserter struct {
	seed   int64
	only   map[int]bool // random: nil = every chosen slot, else only these slot numbers
	hit    []int        // random: the slot numbers that received comments
	r      *rand.Rand
	mode   byte    // 'c' count, 's' single, 'r' random
	p      float64 // random: probability per slot
	target int     // single: slot number
	form   string  // single: comment form
	count  int     // single: comments in a row (1-3)
	probe  bool    // single: the pair may be outside the language
	n      int
	slots  []slotInfo
	text   string // single: what was inserted
	// lineOpen: the line being printed ends with a `#` comment written by the inserter
	lineOpen bool
	used     map[string]int
}

var blockBodies1 = []string{" c ", "x", " \"a\": 1, ", " // {min: 1} ", " [ ", " ] ", " block ", " {\"a\": 1} // {min: 1} ", " ## ", " /* x */ ", " , ", " é😀 "}

func (sp *spell) eolBy(r *rand.Rand) string { return sp.eols[r.Intn(len(sp.eols))] }

// comment renders one comment of the given form for a slot.
func (ins *inserter) comment(sp *spell, si slotInfo, form string, depth int) string {
	r := ins.r
	switch form {
	case "line":
		// (no comment text starts with '#': `##` must be the start of a `###` block)
		t := "#" + commentTexts[r.Intn(len(commentTexts))]
		if si.eolNext {
			// the comments of the spelling may follow on the line: they become part of this one
			return t
		}
		if r.Intn(4) == 0 {
			t = "#"
		}
		return t + sp.eolBy(r) + strings.Repeat(" ", r.Intn(2*depth+3))
	case "block1":
		return "###" + blockBodies1[r.Intn(len(blockBodies1))] + "###"
	}
	e := func() string { return sp.eolBy(r) }
	body := [][]string{
		{" full years,", "   not months "},
		{" 333", "   444", ""},
		{"", "\"z\": 0,", ""},
		{" line 1", "line 2 # not a comment start", ""},
		{" a", " // {min: 1}", " b "},
		{"", ""},
		{" [", "] "},
	}[r.Intn(7)]
	var sb strings.Builder
	sb.WriteString("###")
	for i, l := range body {
		if i > 0 {
			sb.WriteString(e())
		}
		sb.WriteString(l)
	}
	sb.WriteString("###")
	return sb.String()
}

func (ins *inserter) render(sp *spell, si slotInfo, forms []string, n int, depth int) string {
	r := ins.r
	var sb strings.Builder
	for i := 0; i < n; i++ {
		f := forms[r.Intn(len(forms))]
		sb.WriteString([]string{"", " ", " ", "  ", "\t"}[r.Intn(5)])
		sb.WriteString(ins.comment(sp, si, f, depth))
		if ins.used != nil {
			ins.used[si.class()+" "+f]++
		}
		if f == "line" && si.eolNext {
			// the rest of the line is this comment: nothing that contains a line break may follow on the line
			ins.lineOpen = true
			return sb.String()
		}
	}
	sb.WriteString([]string{"", " ", " "}[r.Intn(3)])
	return sb.String()
}

// slot: what is written at a slot ("" without an inserter: no random draw, no state).
func (sp *spell) slot(si slotInfo, depth int) string {
	ins := sp.ins
	if ins == nil {
		return ""
	}
	ins.n++
	switch ins.mode {
	case 'c':
		ins.slots = append(ins.slots, si)
	case 's':
		if ins.n-1 == ins.target {
			if !ins.probe && !legit(si, ins.form) {
				panic("c13 slots: single insertion outside the language")
			}
			ins.text = ins.render(sp, si, []string{ins.form}, ins.count, depth)
			return ins.text
		}
	case 'r':
		ins.r = slotRand(ins.seed, ins.n)
		if ins.r.Float64() < ins.p && (ins.only == nil || ins.only[ins.n]) {
			var forms []string
			for _, f := range commentForms {
				if legit(si, f) {
					forms = append(forms, f)
				}
			}
			if len(forms) == 0 {
				return ""
			}
			ins.hit = append(ins.hit, ins.n)
			return ins.render(sp, si, forms, []int{1, 1, 1, 2, 3}[ins.r.Intn(5)], depth)
		}
	}
	return ""
}

func (p *printer) slot(si slotInfo, depth int) string { return p.sp.slot(si, depth) }

// ---------------------------------------------------------------------------------------------------------
// The sweep: one insertion at a time

// carrier: the spelling that receives the single insertion. 0 = the base spelling; 1 = the base spelling with
// another line-end style and multi-line annotations for half of the nodes; 2 = CRLF / CR + all annotations
// multi-line + quoted rule names. Deterministic (fresh PRNG per call): the counting pass and the inserting pass print
// the same text apart from the insertion.
func carrier(kind int, seed int64) *spell {
	sp := baseSpell()
	switch kind {
	case 1:
		sp.base = false
		sp.r = rand.New(rand.NewSource(seed*53 + 11))
		sp.eols = eolStyles[1+int(seed%6)]
		sp.multi = 0.5
		sp.applied = []string{"eol", "multiline"}
	case 2:
		sp.base = false
		sp.r = rand.New(rand.NewSource(seed*59 + 13))
		sp.eols = eolStyles[1+int(seed%2)]
		sp.multi = 1
		sp.quoted = 1
		sp.applied = []string{"eol", "multiline", "quoted"}
	}
	return sp
}

var (
	slotMapMu sync.Mutex
	slotMap   = map[string]map[string]int{} // class + form -> outcome -> count
	slotMapEx = map[string]string{}         // class + form + outcome -> example
)

func recordSlotMap(key, outcome, example string) {
	slotMapMu.Lock()
	defer slotMapMu.Unlock()
	if slotMap[key] == nil {
		slotMap[key] = map[string]int{}
	}
	slotMap[key][outcome]++
	if _, ok := slotMapEx[key+" -> "+outcome]; !ok {
		slotMapEx[key+" -> "+outcome] = example
	}
}

func printSlotMap() {
	var keys []string
	for k := range slotMap {
		keys = append(keys, k)
	}
	sort.Strings(keys)
	for _, k := range keys {
		var outs []string
		for o := range slotMap[k] {
			outs = append(outs, o)
		}
		sort.Strings(outs)
		for _, o := range outs {
			fmt.Printf("SLOTMAP %-75s -> %-28s %6d   e.g. %s\n", k, o, slotMap[k][o], slotMapEx[k+" -> "+o])
		}
	}
}

// compareObs: what differs between the observation of the base spelling and that of a variant.
func compareObs(bo, vo obs, docs []string) (bad, implS, modelS []string) {
	if bo.check != vo.check {
		bad = append(bad, "check")
		implS = append(implS, "Check(variant)="+vo.check)
		modelS = append(modelS, "Check(base)="+bo.check)
	}
	for i := range bo.ast {
		if bo.ast[i] != vo.ast[i] {
			which := bo.names[i]
			bad = append(bad, "ast")
			implS = append(implS, "AST("+which+",variant)="+vo.ast[i])
			modelS = append(modelS, "AST("+which+",base)="+bo.ast[i])
		}
	}
	for i := range bo.val {
		if bo.val[i] != vo.val[i] {
			bad = append(bad, "validate")
			implS = append(implS, fmt.Sprintf("Validate(variant, %s)=%s", docs[i], vo.val[i]))
			modelS = append(modelS, fmt.Sprintf("Validate(base, %s)=%s", docs[i], bo.val[i]))
		}
	}
	return
}

// commentSweep: nSweep single insertions (slot class uniformly among the classes the schema has, then a slot of
// the class, then one of the forms that are re-spellings there) + nProbe insertions outside the language.
// explore: every (class, form) pair of the schema once, tabulated only (no diffs).
func commentSweep(seed int64, res *caseResult, base texts, raw obs, docs []string, printAll func(*spell) texts, nSweep, nProbe int, explore bool) {
	r := rand.New(rand.NewSource(seed*211 + 5))
	if !explore && len(docs) == 6 {
		// the sweep validates one sampled, one mutated and the unrelated document (the composed variants all six)
		sub := []int{0, 2, 5}
		d2, o2 := make([]string, 0, 3), obs{check: raw.check, ast: raw.ast, names: raw.names}
		for _, i := range sub {
			d2 = append(d2, docs[i])
			o2.val = append(o2.val, raw.val[i])
		}
		docs, raw = d2, o2
	}
	type pick struct {
		carrier, slot int
		si            slotInfo
		form          string
		legit         bool
	}
	var picks []pick
	slotsOf := map[int][]slotInfo{}
	count := func(ck int) []slotInfo {
		if s, ok := slotsOf[ck]; ok {
			return s
		}
		sp := carrier(ck, seed)
		sp.ins = &inserter{mode: 'c'}
		printAll(sp)
		slotsOf[ck] = sp.ins.slots
		return sp.ins.slots
	}
	byClass := func(slots []slotInfo) (map[string][]int, []string) {
		m := map[string][]int{}
		for i, si := range slots {
			m[si.class()] = append(m[si.class()], i)
		}
		var names []string
		for c := range m {
			names = append(names, c)
		}
		sort.Strings(names)
		return m, names
	}
	if explore {
		slots := count(0)
		m, names := byClass(slots)
		for _, c := range names {
			for _, f := range commentForms {
				i := m[c][r.Intn(len(m[c]))]
				picks = append(picks, pick{0, i, slots[i], f, legit(slots[i], f)})
			}
		}
	} else {
		for j := 0; j < nSweep; j++ {
			ck := 0
			if j%3 == 2 {
				ck = 1 + int(seed>>3)%2
			}
			slots := count(ck)
			m, names := byClass(slots)
			// classes that have a form which is a re-spelling
			var ok []string
			for _, c := range names {
				si := slots[m[c][0]]
				if legit(si, "line") || legit(si, "block1") || legit(si, "blockN") {
					ok = append(ok, c)
				}
			}
			if len(ok) == 0 {
				continue
			}
			c := ok[r.Intn(len(ok))]
			i := m[c][r.Intn(len(m[c]))]
			var forms []string
			for _, f := range commentForms {
				if legit(slots[i], f) {
					forms = append(forms, f)
				}
			}
			picks = append(picks, pick{ck, i, slots[i], forms[r.Intn(len(forms))], true})
		}
		for j := 0; j < nProbe; j++ {
			slots := count(0)
			type pr struct {
				i int
				f string
			}
			m, names := byClass(slots)
			var out []pr
			for _, c := range names {
				for _, f := range commentForms {
					if !legit(slots[m[c][0]], f) {
						out = append(out, pr{m[c][r.Intn(len(m[c]))], f})
					}
				}
			}
			if len(out) == 0 {
				continue
			}
			x := out[r.Intn(len(out))]
			picks = append(picks, pick{0, x.i, slots[x.i], x.f, false})
		}
	}
	for _, pk := range picks {
		sp := carrier(pk.carrier, seed)
		n := 1
		if !explore && pk.legit {
			n = []int{1, 1, 1, 2, 3}[r.Intn(5)]
		}
		sp.ins = &inserter{mode: 's', r: rand.New(rand.NewSource(seed*223 + int64(pk.slot)*7 + int64(len(pk.form)))), target: pk.slot, form: pk.form, count: n, probe: !pk.legit}
		vt := printAll(sp)
		key := pk.si.class() + " " + pk.form
		where := fmt.Sprintf("inserted %q (form %s, x%d) at slot %d = %s; carrier spelling %d %v", sp.ins.text, pk.form, n, pk.slot, pk.si.class(), pk.carrier, sp.applied)
		if explore {
			vo := observe(vt, docs, false, false)
			bad, _, _ := compareObs(raw, vo, docs)
			outcome := "same"
			if len(bad) > 0 {
				outcome = "DIFFERS " + strings.Join(bad, ",")
				if bad[0] == "check" {
					outcome = "Check " + raw.check + " -> " + vo.check
				}
			}
			ex := fmt.Sprintf("%q", vt.root)
			if vt.root == base.root {
				for _, nm := range allTypeOrder {
					if vt.types[nm] != base.types[nm] {
						ex = fmt.Sprintf("@%s = %q", nm, vt.types[nm])
					}
				}
			}
			recordSlotMap(fmt.Sprintf("%-58s %-6s legit=%-5v", pk.si.class(), pk.form, pk.legit), outcome, ex)
			continue
		}
		if !pk.legit {
			// outside the language (as the unchanged tree implements it): counted, never a demanded equality
			got := vh.Recover(func() string {
				s, e := build(vt)
				if e != "" {
					return e
				}
				if err := s.Check(); err != nil {
					return errCode(err)
				}
				return "OK"
			})
			if raw.check == "OK" {
				res.stat("outside_language " + key + " : Check OK -> " + got)
			}
			res.stat("comment_probes_outside_language")
			continue
		}
		vo := observe(vt, docs, false, false)
		res.stat("comment_sweep " + key)
		res.stat(fmt.Sprintf("comment_sweep_in_a_row_%d", n))
		res.stat(fmt.Sprintf("comment_sweep_carrier_%d", pk.carrier))
		res.kase("S\x00"+base.root+"\x00"+vt.root+"\x00"+base.types["t"]+"\x00"+vt.types["t"]+"\x00"+vt.types["u"], true)
		bad, implS, modelS := compareObs(raw, vo, docs)
		if len(bad) > 0 {
			if pk.carrier != 0 { // whose fault: the carrier spelling alone, or the comment
				ct := printAll(carrier(pk.carrier, seed))
				if b, _, _ := compareObs(raw, observe(ct, docs, false, false), docs); len(b) > 0 {
					where += "; the carrier spelling WITHOUT the comment differs from the base spelling as well: " + showTexts("carrier", ct)
				} else {
					where += "; the carrier spelling without the comment behaves like the base spelling"
				}
			}
			res.diffs = append(res.diffs, vh.Diff{
				Component: "C13-schema",
				Input:     fmt.Sprintf("%s\n%s\nrewrites=[user comment inserted between two tokens] %s seed=%d", showTexts("base", base), showTexts("variant", vt), where, seed),
				Impl:      strings.Join(implS, "\n"),
				Model:     "all spellings of one schema behave alike: " + strings.Join(modelS, "\n"),
				Note:      "differs in: " + strings.Join(bad, ","),
			})
		}
	}
}
