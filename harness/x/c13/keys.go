package c13

// Key shortcuts: schema objects whose keys are given by string TYPES (`@k1: value`).
//
// The property quantifies over "property order" of a document object. The order in which a validator meets the
// members only matters where it keeps state between the members of one object: the required-keys set, the
// additionalProperties validator and the book-keeping of key shortcuts ("tried in declaration order; each admits one
// document key"). The generator therefore gives objects (anywhere: root, nested, inside the added types @t / @u,
// one-line subtrees) 0-4 key shortcuts at random places among their literal keys, with or without an
// additionalProperties rule. The key types @k1 … @k4 of a case are drawn from keyTemplates: every kind of string rule
// (regex anchored / unanchored / with a slash, minLength / maxLength, enum with escaped items, a plain example with
// and without escapes, const, the format types email / uuid / date / datetime / uri, combinations, a type that admits
// every key), pairwise disjoint and overlapping. Documents are sampled with keys drawn to match the shortcuts, and all
// the document rewrites (member order sweeps, escapes in keys, white space) apply to them as to any other document.
//
// What is demanded: the property text - the verdict does not depend on the order of the members - for EVERY document,
// whatever the key types. Known finding K-C13-keyorder: the unchanged tree gives a key to the first unused shortcut (in
// declaration order) whose key type admits it, without backtracking, and a shortcut admits one key; so the verdict can
// depend on the member order where two keys compete for one shortcut. A diff between two orders of the members of a
// document object O carries Class "K-C13-keyorder" iff - decided by the generator's own key predicates, never by the
// outcome - for some schema object S that O can be validated against (pairObjects: schema and document walked in
// parallel; all alternatives where a union / an array / an overlapping shortcut leaves a choice)
//   (reuse) two distinct keys of O that are no literal keys of S are both admitted by the key type of ONE key
//           shortcut of S (the one met later goes to another shortcut, to additionalProperties or is refused).
// Where no two such keys exist the assignment of keys to shortcuts is forced, whatever the order (also when one key is
// admitted by two shortcuts: nobody competes for either), and a verdict that changes with the order is an
// unclassified violation. Rewrites that keep the order (escapes, white space, every schema re-spelling) are never
// classified. Competing keys are generated on purpose in a minority of the documents (1 case in 3 draws its key types
// without looking at overlaps; drawKey: 1 key in 8 is any key of the type; 1 shortcut in 12 gets two keys; additional
// and mutated members that happen to match a key type).
//
// Which keys a key type admits is computed by the generator (keyTemplate.match, a Go predicate over the decoded key).
// keyTable() checks that predicate against the tree for every (template, key of the finite key universe) pair at the
// start of a run: a disagreement would make the classification above unreliable and is reported (Level
// "correspondence").

import (
	"fmt"
	"regexp"
	"sort"
	"strings"

	"verifharness/vh"
)

type keyTemplate struct {
	fam   string // name in the stats
	ex    string // the example, schema spelling (with quotes)
	rules []rule
	match func(key string) bool
	keys  []string // decoded keys that match: what documents are drawn from
}

type keyType struct {
	name string // without '@'
	tpl  *keyTemplate
	n    *node
}

var keyTypeNames = []string{"k1", "k2", "k3", "k4"}

// allTypeOrder: the order in which the added types of a case are added (typeOrder: the value types @t / @u that
// GenSchemaText knows as well; then the key types).
var allTypeOrder = append(append([]string{}, typeOrder...), keyTypeNames...)

func reMatch(expr string) func(string) bool {
	re := regexp.MustCompile(expr)
	return func(k string) bool { return re.MatchString(k) }
}

func oneOf(keys ...string) func(string) bool {
	return func(k string) bool {
		for _, x := range keys {
			if x == k {
				return true
			}
		}
		return false
	}
}

func strRule(name, jsonText string) rule { return rule{name, lit(jsonText)} }

var (
	uuidKeys     = []string{"550e8400-e29b-41d4-a716-446655440000", "123e4567-e89b-12d3-a456-426614174000"}
	emailKeys    = []string{"a@b.cc", "x.y@z.org"}
	dateKeys     = []string{"2020-01-02", "1999-12-31"}
	datetimeKeys = []string{"2020-01-02T03:04:05+00:00", "2021-06-07T08:09:10+02:00"}
	uriKeys      = []string{"http://x.org/a", "https://e.com/p?q=1"}
)

var keyTemplates = []*keyTemplate{
	{fam: "regex-letters", ex: `"abc"`, rules: []rule{strRule("regex", `"^[a-z]+$"`)}, match: reMatch(`^[a-z]+$`),
		keys: []string{"abc", "x", "key", "hello", "zz"}},
	{fam: "regex-digits", ex: `"123"`, rules: []rule{strRule("regex", `"^[0-9]+$"`)}, match: reMatch(`^[0-9]+$`),
		keys: []string{"42", "0", "2024", "12345", "123456789"}},
	{fam: "regex-dashed", ex: `"-x-"`, rules: []rule{strRule("regex", `"^-.*-$"`)}, match: reMatch(`^-.*-$`),
		keys: []string{"-x-", "--", "-k/é-", `-"\-`, "-42-", "-é-", "-t\tb-"}},
	{fam: "regex-capital", ex: `"Ab"`, rules: []rule{strRule("regex", `"^[A-Z][a-z]*$"`)}, match: reMatch(`^[A-Z][a-z]*$`),
		keys: []string{"Ab", "Z", "Key"}},
	{fam: "regex-unanchored", ex: `"été"`, rules: []rule{strRule("regex", `"é"`)}, match: reMatch(`é`),
		keys: []string{"été", "é", "xéy", "-é-", "éé"}},
	{fam: "regex-slash", ex: `"a\/b"`, rules: []rule{strRule("regex", `"^[a-z]/[a-z0-9]$"`)}, match: reMatch(`^[a-z]/[a-z0-9]$`),
		keys: []string{"a/b", "k/1", "k/2", "p/q"}},
	{fam: "regex-upper-digit+type", ex: `"A-1"`, rules: []rule{strRule("regex", `"^[A-Z]-[0-9]$"`), strRule("type", `"string"`)}, match: reMatch(`^[A-Z]-[0-9]$`),
		keys: []string{"A-1", "Z-9"}},
	{fam: "length-5-6", ex: `"hello"`, rules: []rule{strRule("minLength", "5"), strRule("maxLength", "6")},
		match: func(k string) bool { return len(k) >= 5 && len(k) <= 6 }, // bytes of the decoded key, as for a value
		keys:  []string{"hello", "12345", "a_b_c", "ééé", "l\nf\r\t"}},
	{fam: "minLength-9", ex: `"long-key-here"`, rules: []rule{strRule("minLength", "9")},
		match: func(k string) bool { return len(k) >= 9 },
		keys:  []string{"long-key-here", "123456789", "abcdefghij"}},
	{fam: "maxLength-1", ex: `"q"`, rules: []rule{strRule("maxLength", "1")},
		match: func(k string) bool { return len(k) <= 1 },
		keys:  []string{"q", "7", "", "Z", "/"}},
	{fam: "regex+minLength", ex: `"abcd"`, rules: []rule{strRule("regex", `"^[a-z]+$"`), strRule("minLength", "4")},
		match: func(k string) bool { return len(k) >= 4 && reMatch(`^[a-z]+$`)(k) },
		keys:  []string{"abcd", "hello", "abcdefghij", "green"}},
	{fam: "enum-mixed", ex: `"red"`, rules: []rule{{"enum", arrOf([]string{`"red"`, `"green"`, `"k/2"`, `"é"`})}},
		match: oneOf("red", "green", "k/2", "é"), keys: []string{"red", "green", "k/2", "é"}},
	{fam: "enum-escaped-items", ex: `"N1"`, rules: []rule{{"enum", arrOf([]string{`"N1"`, `"N2"`, `"N\/3"`, `"n\n4"`, `"é😀"`})}},
		match: oneOf("N1", "N2", "N/3", "n\n4", "é😀"), keys: []string{"N1", "N2", "N/3", "n\n4", "é😀"}},
	{fam: "plain", ex: `"zz"`, match: oneOf("zz"), keys: []string{"zz"}},
	{fam: "plain-escaped", ex: `"k\/é\t"`, match: oneOf("k/é\t"), keys: []string{"k/é\t"}},
	{fam: "const", ex: `"only"`, rules: []rule{strRule("const", "true")}, match: oneOf("only"), keys: []string{"only"}},
	{fam: "format-email", ex: `"a@b.cc"`, rules: []rule{strRule("type", `"email"`)}, match: oneOf(emailKeys...), keys: emailKeys},
	{fam: "format-uuid", ex: `"550e8400-e29b-41d4-a716-446655440000"`, rules: []rule{strRule("type", `"uuid"`)}, match: oneOf(uuidKeys...), keys: uuidKeys},
	{fam: "format-date", ex: `"2020-01-02"`, rules: []rule{strRule("type", `"date"`)}, match: oneOf(dateKeys...), keys: dateKeys},
	{fam: "format-datetime", ex: `"2020-01-02T03:04:05+00:00"`, rules: []rule{strRule("type", `"datetime"`)}, match: oneOf(datetimeKeys...), keys: datetimeKeys},
	{fam: "format-uri", ex: `"http://x.org/a"`, rules: []rule{strRule("type", `"uri"`)}, match: oneOf(uriKeys...), keys: uriKeys},
	// rules that say nothing about a string value: {type: "string"} leaves the type rule-free (the key is compared with
	// the example); with {nullable: true} every rule of the type holds for every string, so the shortcut admits every key
	{fam: "plain+type-string", ex: `"any"`, rules: []rule{strRule("type", `"string"`)}, match: oneOf("any"), keys: []string{"any"}},
	{fam: "nullable-any-string", ex: `"nil"`, rules: []rule{strRule("nullable", "true")}, match: func(string) bool { return true },
		keys: []string{"nil", "w\\v", "?", "tab\t"}},
}

// keyUniverse: every key that can occur in a generated document (decoded).
func keyUniverse() []string {
	seen := map[string]bool{}
	var out []string
	add := func(k string) {
		if !seen[k] {
			seen[k] = true
			out = append(out, k)
		}
	}
	for _, t := range keyTemplates {
		for _, k := range t.keys {
			add(k)
		}
	}
	for _, k := range keyPool {
		add(k.decoded)
	}
	for _, k := range extraKeys {
		add(k)
	}
	for _, k := range []string{"new", "kA", "é", "k/1", "k/é"} { // mutate, sample
		add(k)
	}
	return out
}

// templatesDisjoint: no key of the universe is admitted by both.
var disjointMemo = map[[2]*keyTemplate]bool{}

func init() {
	u := keyUniverse()
	for _, a := range keyTemplates {
		for _, b := range keyTemplates {
			d := true
			for _, k := range u {
				if a.match(k) && b.match(k) {
					d = false
					break
				}
			}
			disjointMemo[[2]*keyTemplate{a, b}] = d
		}
	}
}

// drawKeyTypes: the key types of one case: 1-4 distinct templates; in 2 cases of 3 pairwise disjoint ones (no key of
// the universe is admitted by two of them), otherwise any (overlapping key types: known finding K-C13-keyorder).
func (g *gen) drawKeyTypes() {
	r := g.r
	cnt := []int{1, 2, 2, 3, 3, 4, 4}[r.Intn(7)]
	disjoint := r.Intn(3) != 0
	var chosen []*keyTemplate
	for _, pi := range r.Perm(len(keyTemplates)) {
		tpl := keyTemplates[pi]
		ok := len(chosen) < cnt
		for _, c := range chosen {
			ok = ok && (!disjoint || disjointMemo[[2]*keyTemplate{c, tpl}])
		}
		if ok {
			chosen = append(chosen, tpl)
		}
	}
	for i, tpl := range chosen {
		n := &node{kind: "str", lit: tpl.ex, val: unq(tpl.ex)}
		n.rules = append(n.rules, tpl.rules...)
		r.Shuffle(len(n.rules), func(a, b int) { n.rules[a], n.rules[b] = n.rules[b], n.rules[a] })
		g.note(n)
		g.ktypes = append(g.ktypes, &keyType{name: keyTypeNames[i], tpl: tpl, n: n})
	}
}

// addShortcut inserts the member `@kt: kid` at position pos of object n (a key type occurs once per object).
func (g *gen) addShortcut(n *node, pos int, kt *keyType, kid *node) {
	for len(n.short) < len(n.keys) {
		n.short = append(n.short, nil)
	}
	ins := func(xs []string, x string) []string {
		xs = append(xs, "")
		copy(xs[pos+1:], xs[pos:])
		xs[pos] = x
		return xs
	}
	n.keys = ins(n.keys, "@"+kt.name)
	n.dkeys = ins(n.dkeys, "")
	n.kids = append(n.kids, nil)
	copy(n.kids[pos+1:], n.kids[pos:])
	n.kids[pos] = kid
	n.short = append(n.short, nil)
	copy(n.short[pos+1:], n.short[pos:])
	n.short[pos] = kt
	g.feat("key-shortcut")
}

func (n *node) shortAt(i int) *keyType {
	if i < len(n.short) {
		return n.short[i]
	}
	return nil
}

func (n *node) shortcuts() (out []*keyType) {
	for _, kt := range n.short {
		if kt != nil {
			out = append(out, kt)
		}
	}
	return
}

// drawKey: a document key for the shortcut kt of object n. Mostly a key that only kt admits among the shortcuts of n,
// that is no literal key of n and is not taken yet (so that no two keys compete for a shortcut); 1 time in 8 any key of the type.
func (g *gen) drawKey(n *node, kt *keyType, taken []string) (string, bool) {
	r := g.r
	free := func(k string) bool {
		for _, t := range taken {
			if t == k {
				return false
			}
		}
		return true
	}
	var exclusive, any []string
	for _, k := range kt.tpl.keys {
		if !free(k) || hasKey(n.dkeys, k) { // (a literal key of n is sampled with its own member)
			continue
		}
		any = append(any, k)
		ok := true
		for _, o := range n.short {
			if o != nil && o != kt && o.tpl.match(k) {
				ok = false
			}
		}
		if ok {
			exclusive = append(exclusive, k)
		}
	}
	loose := r.Intn(8) == 0
	switch {
	case len(exclusive) > 0 && !loose:
		return exclusive[r.Intn(len(exclusive))], true
	case len(any) > 0:
		return any[r.Intn(len(any))], true
	}
	return "", false
}

// shortObj: a schema object with key shortcuts, as far as the classification of documents needs it.
type shortObj struct {
	lits map[string]bool
	kts  []*keyType
}

func collectShortObjs(n *node, out *[]shortObj) {
	if n == nil {
		return
	}
	if n.kind == "obj" && len(n.shortcuts()) > 0 {
		so := shortObj{lits: map[string]bool{}, kts: n.shortcuts()}
		for i, k := range n.dkeys {
			if n.shortAt(i) == nil {
				so.lits[k] = true
			}
		}
		*out = append(*out, so)
	}
	for _, k := range n.kids {
		collectShortObjs(k, out)
	}
}

// classify one document object against one schema object: matched = members whose key goes to a key shortcut;
// overlap = a key that the key types of two shortcuts admit; reuse = two keys that the key type of one shortcut admits.
func (so shortObj) classify(o *dval) (matched int, overlap, reuse bool) {
	used := map[*keyType]bool{}
	for _, k := range o.keys {
		if so.lits[k] {
			continue
		}
		var m []*keyType
		for _, kt := range so.kts {
			if kt.tpl.match(k) {
				m = append(m, kt)
			}
		}
		if len(m) == 0 {
			continue
		}
		matched++
		if len(m) > 1 {
			overlap = true
		}
		for _, kt := range m {
			if used[kt] {
				reuse = true
			}
			used[kt] = true
		}
	}
	return
}

// objClass: a document object against the schema objects it can be validated against (pairObjects).
type objClass struct {
	matched        int  // the largest number of members that go to key shortcuts of one schema object
	overlap, reuse bool // for some schema object
}

// ambiguous: the structural condition of the known finding K-C13-keyorder (overlap alone is not: see the package comment).
func (c objClass) ambiguous() bool { return c.reuse }

// why: the structural condition(s) of the known-finding class, for the note of a diff.
func (c objClass) why() string {
	if c.reuse {
		return "two keys of the document object that are no literal keys of the schema object are admitted by the key type of one of its key shortcuts"
	}
	return ""
}

// pairObjects walks schema node n and document value d in parallel and calls visit for every (schema object,
// document object) pair that a validation of d against n can make: the member of a document object goes to the
// literal key's node if there is one, otherwise to the node of EVERY key shortcut whose key type admits the key
// (whichever the validator picks) and to the type of an additionalProperties: "@t" rule; an array element to every
// element node; a reference / an or alternative "@t" to the type. The added types do not mention each other, fuel
// only guards that.
func pairObjects(n *node, d *dval, types typeTable, fuel int, visit func(s *node, o *dval)) {
	if n == nil || d == nil || fuel < 0 {
		return
	}
	for _, a := range n.orAlts {
		if a[0] == '@' {
			pairObjects(types[a[1:]], d, types, fuel-1, visit)
		}
	}
	switch n.kind {
	case "ref":
		for _, rf := range n.refs {
			pairObjects(types[rf], d, types, fuel-1, visit)
		}
	case "obj":
		if d.kind != 'o' {
			return
		}
		visit(n, d)
		for i, k := range d.keys {
			isLit := false
			for j, dk := range n.dkeys {
				if n.shortAt(j) == nil && dk == k {
					isLit = true
					pairObjects(n.kids[j], d.kids[i], types, fuel, visit)
				}
			}
			if isLit {
				continue
			}
			for j := range n.kids {
				if kt := n.shortAt(j); kt != nil && kt.tpl.match(k) {
					pairObjects(n.kids[j], d.kids[i], types, fuel, visit)
				}
			}
			if ap := unq(n.addProps); strings.HasPrefix(ap, "@") {
				pairObjects(types[ap[1:]], d.kids[i], types, fuel-1, visit)
			}
		}
	case "arr":
		if d.kind != 'a' {
			return
		}
		for _, e := range d.kids {
			for _, k := range n.kids {
				pairObjects(k, e, types, fuel, visit)
			}
		}
	}
}

// docClass: the class of every object of document d validated against root.
func docClass(root *node, types typeTable, d *dval) map[*dval]objClass {
	out := map[*dval]objClass{}
	pairObjects(root, d, types, 4, func(sn *node, o *dval) {
		kts := sn.shortcuts()
		if len(kts) == 0 {
			return
		}
		so := shortObj{lits: map[string]bool{}, kts: kts}
		for i, k := range sn.dkeys {
			if sn.shortAt(i) == nil {
				so.lits[k] = true
			}
		}
		m, ov, re := so.classify(o)
		c := out[o]
		c.overlap, c.reuse = c.overlap || ov, c.reuse || re
		if m > c.matched {
			c.matched = m
		}
		out[o] = c
	})
	return out
}

// keyTable checks the generator's key predicates against the tree: {"<key>": 1} against {@k1: 1} for every template
// and every key of the universe. Returns the number of pairs and the disagreements.
func keyTable() (pairs int, bad []string) {
	u := keyUniverse()
	sort.Strings(u)
	bds := &docSpell{base: true}
	for _, tpl := range keyTemplates {
		n := &node{kind: "str", lit: tpl.ex, rules: tpl.rules}
		t := texts{root: "{\n  @k1: 1\n}", types: map[string]string{"k1": baseSpell().print(n)}}
		for _, k := range u {
			doc := bds.text(&dval{kind: 'o', keys: []string{k}, kids: []*dval{{kind: 'n', num: "1"}}})
			got := validate(t, doc)
			want := "REJ"
			if tpl.match(k) {
				want = "ACC"
			}
			pairs++
			if got != want {
				bad = append(bad, fmt.Sprintf("key type %s = %q, document %s: tree %s, generator's predicate %s", tpl.fam, t.types["k1"], doc, got, want))
			}
		}
	}
	return
}

func reportKeyTable(rep *vh.Report, verbose bool) {
	pairs, bad := keyTable()
	for i := 0; i < pairs; i++ {
		rep.Stat("keytable_pairs_checked")
	}
	if verbose {
		fmt.Printf("keytable: %d pairs, %d disagreements\n%s\n", pairs, len(bad), strings.Join(bad, "\n"))
	}
	if len(bad) > 0 {
		shown := bad
		if len(shown) > 5 {
			shown = shown[:5]
		}
		rep.AddDiff(vh.Diff{
			Component: "C13-keytable",
			Input:     strings.Join(shown, "\n"),
			Impl:      fmt.Sprintf("%d of %d (key type, key) pairs: the tree admits / refuses a key against the generator's predicate", len(bad), pairs),
			Model:     "a key shortcut @K: v admits exactly the keys the string type @K accepts (the generator classifies documents as unambiguous by that)",
			Level:     "correspondence",
		})
	}
}
