// Package semrulesfull: harness command `sem-rules-full`.
//
// T-diff of EVERY scalar rule against the Lean model RulesF.litOKFull ∘ RulesF.compile (driver word `semcf`,
// lean/Driver/SemCF.lean; theorems Props.C02.C02_accept_iff_full …).
//
// One case = one scalar schema node `<example> // {rules}` (at the root, as an object property or as an array
// item) and one document scalar. The rule set is drawn per kind from everything the compiler / checker can
// accept: min, max, exclusiveMinimum, exclusiveMaximum (true and false), precision (with and without
// type "decimal"), minLength, maxLength, regex, const (true and false), nullable (true and false), enum
// (alone, with const / nullable / type "enum"), type "email" | "uri" | "uuid" | "date" | "datetime" and the
// plain type names; rule order in the annotation is random. Rule sets Check refuses are counted by error code
// and skipped (a separate stream draws deliberately inapplicable sets). Documents: the example itself, values
// on / one last-digit unit / one tenth of a unit around every bound and the precision limit, in random RFC 8259
// spellings (minus zero, trailing zeros, exponents e/E with optional sign, point moved, long digit strings),
// strings at the length bounds ±1 in random spellings (raw UTF-8, \uXXXX in either hex case, two-character
// escapes, surrogate pairs, lone / reversed surrogates), enum items verbatim / re-spelled / turned into the
// look-alike of another kind ("1" vs 1), const probes on every kind, format strings from positive pools and
// their mutations, null, and tokens of every other kind.
//
// The four standard-library predicates (regexp, net/mail, net/url, time.Parse RFC 3339) are ORACLES of the
// model: the harness evaluates them in Go on the decoded string (decoded by encoding/json, not by the library)
// and sends string + bits; the driver answers UNQDIFF when its own Unquote model decodes the token differently.
//
// Compared verdict: real Validate(document) == nil  ⇔  model reply ACC. Known classes (the model is written
// as the code is, so these agree; they are counted): K-C10-zeroexp (0e1 not a number), K-C10-enumtext (enum
// compares numbers by spelling).
package semrulesfull

import (
	"bytes"
	stdjson "encoding/json"
	stderrors "errors"
	"fmt"
	"math/rand"
	"net/mail"
	"net/url"
	"regexp"
	"runtime"
	"strconv"
	"strings"
	"sync"
	"time"
	"unicode/utf8"

	jlib "github.com/jsightapi/jsight-schema-go-library"
	jdoc "github.com/jsightapi/jsight-schema-go-library/formats/json"
	"github.com/jsightapi/jsight-schema-go-library/notations/jschema"

	"verifharness/vh"
)

const (
	command = "sem-rules-full"
	prefix  = "semcf"
	salt    = 3202
)

// ---------------------------------------------------------------------------------------------------------
// decimals and their spellings

type dec struct {
	m int64 // value = m * 10^-s
	s int
}

func pow10(n int) int64 {
	v := int64(1)
	for ; n > 0; n-- {
		v *= 10
	}
	return v
}

// plain spells d without an exponent, with exactly d.s fractional digits (schema text may not use exponents).
func (d dec) plain(negZero bool) string {
	neg := d.m < 0 || (d.m == 0 && negZero)
	m := d.m
	if m < 0 {
		m = -m
	}
	digits := strconv.FormatInt(m, 10)
	if d.s > 0 {
		if len(digits) <= d.s {
			digits = strings.Repeat("0", d.s-len(digits)+1) + digits
		}
		digits = digits[:len(digits)-d.s] + "." + digits[len(digits)-d.s:]
	}
	if neg {
		return "-" + digits
	}
	return digits
}

// widen adds k trailing zeros to the fraction (same value).
func (d dec) widen(k int) dec {
	if d.m > 1e14 || d.m < -1e14 {
		return d
	}
	return dec{d.m * pow10(k), d.s + k}
}

// spell writes d as a random RFC 8259 numeral (the generator of sem-rules): optional minus also on zero,
// trailing zeros dropped or added, one time in two an exponent part with the point moved accordingly.
func spell(r *rand.Rand, d dec) string {
	v, scale := d.m, d.s
	neg := v < 0 || (v == 0 && r.Intn(4) == 0)
	m := v
	if m < 0 {
		m = -m
	}
	for scale > 0 && m%10 == 0 && r.Intn(2) == 0 {
		m /= 10
		scale--
	}
	for i := 0; i < 2 && r.Intn(4) == 0 && m < 1e15; i++ {
		m *= 10
		scale++
	}
	useExp := r.Intn(2) == 0
	e := 0
	if useExp {
		e = r.Intn(7) - 3
		if r.Intn(12) == 0 {
			e = r.Intn(41) - 20
		}
	}
	s2 := scale + e
	digits := strconv.FormatInt(m, 10)
	ip, fp := "0", ""
	switch {
	case m == 0:
		if s2 > 0 {
			fp = strings.Repeat("0", s2)
		}
	case s2 <= 0:
		ip = digits + strings.Repeat("0", -s2)
	default:
		if len(digits) <= s2 {
			digits = strings.Repeat("0", s2-len(digits)+1) + digits
		}
		ip, fp = digits[:len(digits)-s2], digits[len(digits)-s2:]
	}
	t := ip
	if neg {
		t = "-" + t
	}
	if fp != "" {
		t += "." + fp
	}
	if useExp {
		t += string("eE"[r.Intn(2)])
		switch {
		case e < 0:
			t += "-" + strings.Repeat("0", r.Intn(2)) + strconv.Itoa(-e)
		case r.Intn(3) == 0:
			t += "+" + strconv.Itoa(e)
		default:
			t += strings.Repeat("0", r.Intn(2)) + strconv.Itoa(e)
		}
	}
	return t
}

// ---------------------------------------------------------------------------------------------------------
// strings and their spellings

var simpleEsc = map[rune]string{'"': `\"`, '\\': `\\`, '/': `\/`, '\b': `\b`, '\f': `\f`, '\n': `\n`, '\r': `\r`, '\t': `\t`}

func u4(r *rand.Rand, v int) string {
	s := fmt.Sprintf("%04x", v)
	if r.Intn(2) == 0 {
		s = strings.ToUpper(s)
	}
	return `\u` + s
}

// spellStr writes the JSON string token of content; escP = percentage of characters written as an escape
// although they need none.
func spellStr(r *rand.Rand, content string, escP int) string {
	var sb strings.Builder
	sb.WriteByte('"')
	for _, c := range content {
		must := c < 0x20 || c == '"' || c == '\\'
		if !must && r.Intn(100) >= escP {
			sb.WriteRune(c)
			continue
		}
		if e, ok := simpleEsc[c]; ok && r.Intn(3) != 0 {
			sb.WriteString(e)
			continue
		}
		if c >= 0x10000 {
			c -= 0x10000
			sb.WriteString(u4(r, 0xD800+int(c>>10)))
			sb.WriteString(u4(r, 0xDC00+int(c&0x3FF)))
			continue
		}
		sb.WriteString(u4(r, int(c)))
	}
	sb.WriteByte('"')
	return sb.String()
}

// decode: the meaning of a scalar token as a string argument of the oracles: the JSON-decoded text of a quoted
// token (encoding/json), the token itself otherwise.
func decode(tok string) []byte {
	if len(tok) >= 2 && tok[0] == '"' && tok[len(tok)-1] == '"' {
		var s string
		if err := stdjson.Unmarshal([]byte(tok), &s); err == nil {
			return []byte(s)
		}
	}
	return []byte(tok)
}

var strContents = []string{"", "s", "ss", "sss", "ssss", "sssss", "a", "aa", "aaa", "ab", "abc", "abcd", "abcdef", "b",
	"é", "éé", "sé", "€", "a€", "😀", "a😀", "😀😀", "a\nb", "\n", "\t\r", "\"", "\\", "/", "a/b", "\"\\/", "\x00", "\x1f", "\u007f",
	"A", "1", "12", "1.5", "1.50", "-0", "1e5", "0e1", "true", "false", "null", "a.b", "{}", "[]", "{", " ", "  ", " a", "a ", "\ufffd", "\u2028",
	"2020", "12345", "0", "x y", "日本語", "ß", "Ω", "ééé", "€€", "é€", "aé", "éa", "😀é", "日本", "ßß", "ΩΩΩ", "aéb", "é😀", "€a€", "éééé", "日"}

var lookAlikeToks = []string{`"1"`, `"1.5"`, `"true"`, `"false"`, `"null"`, `"0"`, `"-0"`, `"1e1"`, `""`, `" "`, `"a.b"`, `"{}"`, `"[]"`,
	`"\u0031"`, `"tru\u0065"`, `"nul\u006c"`, `"1\u002e5"`}

var oddStrToks = []string{`"\ud83d"`, `"\ude00"`, `"\ude00\ud83d"`, `"\ud83d\u0041"`, `"\ud83dA"`, `"\uD83D\uDE00"`, `"\ud83d\ud83d\ude00"`,
	`"\ud83d\n"`, `"a\ud800"`, `"\udfff\udfff"`, `"\u0000"`, `"\uFFFF"`, `"\uFFFE"`, `"\ud7ff"`, `"\ue000"`, `"\udbff\udfff"`, `"\ud800\udc00"`,
	"\"\xff\"", "\"a\xc3\"", "\"\xe2\x82\"", "\"\xc0\xaf\"", "\"\xed\xa0\x80\"", "\"\xf4\x90\x80\x80\"", "\"\xf0\x9f\x98\x80\"", "\"\xc3\xa9\"", "\"\x7f\""}

var regexPool = []string{`^a+$`, `^[a-z]*$`, `b`, `^.{2}$`, `^\d+$`, `é`, `^$`, `^s`, `\.`, `^(true|null|1)$`, `^[^"]*$`, `^\x{1F600}`, `s$`,
	`^\S+$`, `(?i)^ABC`, `^.$`, `^[\x00-\x7f]*$`, `\\`, `/`, `^\d{4}-\d{2}$`}

var emails = []string{"a@b.c", "john.doe@example.com", "x+y@host.org", "\"q\"@h.io", "a@b", "user@[127.0.0.1]", "é@x.y", "a@é.fr", "a.b-c_d@sub.example.co.uk", "1@2.3"}
var badEmails = []string{"", " a@b.c", "a@b.c ", "<a@b.c>", "a@b.c>", "<a@b.c", "a", "@b.c", "a@", "a b@c.d", "a@b@c", "a@b.c, d@e.f", "(c) a@b.c", "a@b.c (c)", "A <a@b.c>", "John <j@x.y>", "\"John Doe\" <j@x.y>", "John Doe <j@x.y> ", "j@x.y (John)", "John <j@x.y", "=?utf-8?q?J?= <j@x.y>", "<j@x.y> x", "j@x.y>", "group: j@x.y;", "a@b.c\n", "a@b..c", ".a@b.c", "a.@b.c", "a@[1.2.3.4", "a\\@b.c"}
var uris = []string{"http://a.b", "https://example.com/x?y=1#z", "ftp://h/p", "http://[::1]:80/", "x://h", "http://a.b/é", "HTTP://A.B", "http://u:p@h", "mailto://h", "http://h:8080/p", "http://u@h:21/", "http://[::1]", "http://[fe80::1%25en0]:8080/", "http://[2001:db8::1]/p?q#f", "http://1.2.3.4:80", "a+b.c-d://h", "http://h:/", "http://h?q", "http://h#f", "http://xn--e1afmkfd.xn--p1ai/", "http://a_b.c/"}
var badUris = []string{"", "a.b", "/x/y", "http://", "http:///p", "mailto:a@b.c", "//h/p", "http://a b", "h ttp://a", ":", "*", "http://%zz", "urn:x", "http:a.b", "1http://a.b", "http://:8080/p", "ftp://u@:21/", "http://u:p@/", "http://:/", "http://@", "http://@/p", "x://", "x:///", "http://?q", "http://#f", "http://[::1", "http://::1]/", "http://[]/", "http://[]:80/", "//:80", "http://h:port/", "http://h:80:80/", "http://u:p@:80", "file:///etc/passwd", "http:/h/p", "http://h /p", "http://h/ p"}
var uuids = []string{"550e8400-e29b-41d4-a716-446655440000", "550E8400-E29B-41D4-A716-446655440000", "urn:uuid:550e8400-e29b-41d4-a716-446655440000",
	"URN:UUID:550e8400-e29b-41d4-a716-446655440000", "{550e8400-e29b-41d4-a716-446655440000}", "550e8400e29b41d4a716446655440000"}
var badUuids = []string{"", "550e8400-e29b-41d4-a716-44665544000", "550e8400-e29b-41d4-a716-4466554400000", "550e8400-e29b-41d4-a716-44665544000g",
	"550e8400_e29b-41d4-a716-446655440000", "urn:uuid-550e8400-e29b-41d4-a716-446655440000", "{550e8400-e29b-41d4-a716-446655440000)", "(550e8400-e29b-41d4-a716-446655440000}",
	"550e8400e29b41d4a71644665544000", "550e8400e29b41d4a71644665544000g", "{550e8400e29b41d4a716446655440000}", "550e8400-e29b-41d4-a716-446655440000 ", "550e8400e29b-41d4-a716-4466-55440000"}
var dates = []string{"2020-02-29", "2021-12-31", "0001-01-01", "1999-04-30", "2000-02-29", "9999-12-31", "0000-01-01", "2020-01-31", "2020-06-30", "2024-02-29", "2400-02-29"}
var badDates = []string{"", "2021-02-29", "1900-02-29", "2020-13-01", "2020-00-10", "2020-04-31", "2020-1-01", "2020-01-1", "20200101", "2020-01-01T00:00:00Z", " 2020-01-01", "2020-01-01 ",
	"2020/01/01", "2020-01-00", "2020-01-32", "+020-01-01", "2020-01-0١", "2020-02-30", "2019-02-29", "2100-02-29", "2020-06-31", "2020-09-31", "2020-11-31", "2020-12-32", "2020-00-00", "2020-02-31", "2020-12-99", "2020-99-01", "0000-00-00", "2020-01-01Z", "2020-01-01+01:00"}
var datetimes = []string{"2020-02-29T12:00:00Z", "2021-12-31T23:59:59+01:00", "2000-01-01T00:00:00.123Z", "1999-04-30T01:02:03-08:00", "2020-01-01T00:00:00.000000001Z", "2020-01-01T24:00:00Z", "2020-01-01t00:00:00z", "2020-01-01T00:00:00.5+05:30", "2020-01-01T00:00:00-00:00", "2020-01-01T00:00:00.123456789+01:00", "2020-12-31T23:59:59.999-23:59", "2020-01-01T00:00:00+14:00", "2020-06-30T23:59:60Z", "2020-01-01T00:00:00+24:00", "2020-01-01T00:00:00.1234567890Z"}
var badDatetimes = []string{"", "2020-02-29", "2020-02-29T12:00:00", "2021-02-29T12:00:00Z", "2020-01-01 00:00:00Z", "2020-01-01T00:00Z", "2020-01-01T00:00:60Z", "2020-01-01T00:00:00+0100",
	"2020-01-01T00:00:00+25:00", "2020-01-01T00:00:00Z ", "2020-1-01T00:00:00Z", "2020-01-01T00:00:00,5Z", "2020-01-01T00:00:00.Z", "2020-01-01T00:00:00+01", "2020-01-01T00:00:00+1:00", "2020-01-01T00:00:00+01:0", "2020-01-01T00:00:00+01:60", "2020-01-01T25:00:00Z", "2020-01-01T00:60:00Z", "2020-01-01T00:00:61Z", "2020-02-30T00:00:00Z", "2020-04-31T00:00:00+02:00", "2020-01-01T00:00:00 +01:00", "2020-01-01T00:00:00.5", "2020-01-01T00:00:00Z+01:00", "2020-01-01T00:00:00UTC", "20200101T000000Z", "2020-01-01T00:00:00−01:00"}

var fmtPools = map[string][2][]string{
	"email": {emails, badEmails}, "uri": {uris, badUris}, "uuid": {uuids, badUuids}, "date": {dates, badDates}, "datetime": {datetimes, badDatetimes},
}

var mutAlpha = []byte("0123456789abcfzAZ-:.@/ T+<>{}%éx")

func mutate(r *rand.Rand, s string) string {
	b := []byte(s)
	for i := r.Intn(2); i >= 0; i-- {
		switch r.Intn(4) {
		case 0:
			if len(b) > 0 {
				b[r.Intn(len(b))] = mutAlpha[r.Intn(len(mutAlpha))]
			}
		case 1:
			p := r.Intn(len(b) + 1)
			b = append(b[:p], append([]byte{mutAlpha[r.Intn(len(mutAlpha))]}, b[p:]...)...)
		case 2:
			if len(b) > 0 {
				p := r.Intn(len(b))
				b = append(b[:p], b[p+1:]...)
			}
		case 3:
			if len(b) > 1 {
				i, j := r.Intn(len(b)), r.Intn(len(b))
				b[i], b[j] = b[j], b[i]
			}
		}
	}
	if !utf8.Valid(b) {
		return s
	}
	return string(b)
}

// ---------------------------------------------------------------------------------------------------------
// rule sets

type rule struct {
	text string // as written in the annotation
	wire string // as sent to the driver
	name string
}

type node struct {
	kind      string // i f s b n
	ex        string // example token
	exDec     dec    // numbers
	exStr     string // strings: decoded content
	rules     []rule
	pat       string // decoded regex pattern, "" = none
	re        *regexp.Regexp
	rxSamples []string // strings built alongside the pattern (they match its un-anchored body)
	rxShape   string
	fmtT      string   // format type, "" = none
	bounds    []dec    // values worth probing
	lens      []int    // lengths worth probing
	items     []string // enum items (source tokens)
	prec      int      // precision, -1 = none
	malformed bool
	grid      bool // const / nullable drawn from the 3 x 3 grid
}

func hexs(s string) string {
	if s == "" {
		return "-"
	}
	return vh.Hex([]byte(s))
}

func jsonQuote(s string) string {
	var buf bytes.Buffer
	enc := stdjson.NewEncoder(&buf)
	enc.SetEscapeHTML(false)
	_ = enc.Encode(s)
	return strings.TrimRight(buf.String(), "\n")
}

func boolRule(name, short string, v bool) rule {
	if v {
		return rule{name + ": true", short + "1", name + "_true"}
	}
	return rule{name + ": false", short + "0", name + "_false"}
}

func (n *node) add(r rule) { n.rules = append(n.rules, r) }

func (n *node) common(r *rand.Rand) {
	if r.Intn(3) == 0 { // the 3 x 3 grid of const / nullable: absent, true, false — every combination equally often
		n.grid = true
		if k := r.Intn(3); k != 0 {
			n.add(boolRule("nullable", "N", k == 1))
		}
		if k := r.Intn(3); k != 0 {
			n.add(boolRule("const", "C", k == 1))
		}
		return
	}
	if r.Intn(4) == 0 {
		n.add(boolRule("nullable", "N", r.Intn(3) != 0))
	}
	if r.Intn(5) == 0 {
		n.add(boolRule("const", "C", r.Intn(3) != 0))
	}
}

var plainType = map[string]string{"i": "integer", "f": "float", "s": "string", "b": "boolean", "n": "null"}

func numberNode(r *rand.Rand, kind string) *node {
	n := &node{kind: kind, prec: -1}
	var d dec
	if kind == "i" {
		d = dec{[]int64{0, 1, 2, 7, 10, -1, -5, 15, 100, -12, 1000000, 12345678901234}[r.Intn(12)], 0}
		n.ex = d.plain(d.m == 0 && r.Intn(4) == 0)
	} else {
		d = []dec{{15, 1}, {10, 1}, {150, 2}, {-5, 1}, {725, 2}, {0, 1}, {1005, 3}, {-1249, 2}, {20, 1}, {1, 3}, {-15, 1}, {999, 1}, {110, 2}, {12345678901234, 4}}[r.Intn(14)]
		n.ex = d.plain(d.m == 0 && r.Intn(4) == 0)
	}
	n.exDec = d
	n.bounds = append(n.bounds, d)
	if r.Intn(7) == 0 {
		enumNode(r, n)
		return n
	}
	bound := func(below bool) dec {
		b := d
		switch r.Intn(6) {
		case 0: // on the example
		case 1:
			b = dec{d.m*10 + map[bool]int64{true: -1, false: 1}[below], d.s + 1}
		case 2:
			b = dec{d.m + map[bool]int64{true: -1, false: 1}[below], d.s}
		case 3:
			b = dec{d.m*2 + map[bool]int64{true: -1, false: 1}[below]*5, d.s}
			b = dec{b.m, b.s}
			if d.m > 1e13 {
				b = d
			}
		case 4:
			b = dec{map[bool]int64{true: -5, false: 1000}[below], 0}
			if (below && d.m < -5*pow10(d.s)) || (!below && d.m > 1000*pow10(d.s)) {
				b = d
			}
		default:
			b = dec{0, 0}
			if (below && d.m < 0) || (!below && d.m > 0) {
				b = d
			}
		}
		if r.Intn(3) == 0 {
			b = b.widen(1 + r.Intn(2))
		}
		return b
	}
	if r.Intn(2) == 0 {
		b := bound(true)
		n.bounds = append(n.bounds, b)
		t := b.plain(b.m == 0 && r.Intn(3) == 0)
		n.add(rule{"min: " + t, "m:" + hexs(t), "min"})
		if k := r.Intn(4); k == 0 {
			n.add(boolRule("exclusiveMinimum", "x", true))
		} else if k == 1 {
			n.add(boolRule("exclusiveMinimum", "x", false))
		}
	}
	if r.Intn(2) == 0 {
		b := bound(false)
		n.bounds = append(n.bounds, b)
		t := b.plain(b.m == 0 && r.Intn(3) == 0)
		n.add(rule{"max: " + t, "M:" + hexs(t), "max"})
		if k := r.Intn(4); k == 0 {
			n.add(boolRule("exclusiveMaximum", "X", true))
		} else if k == 1 {
			n.add(boolRule("exclusiveMaximum", "X", false))
		}
	}
	typed := false
	if kind == "f" && r.Intn(3) == 0 {
		p := 1 + r.Intn(4)
		if r.Intn(4) != 0 { // usually enough for the example
			fl, m := d.s, d.m
			for fl > 0 && m%10 == 0 {
				fl, m = fl-1, m/10
			}
			if p < fl {
				p = fl
			}
			if p == 0 {
				p = 1
			}
		}
		n.prec = p
		n.add(rule{"precision: " + strconv.Itoa(p), "p:" + strconv.Itoa(p), "precision"})
		if r.Intn(2) == 0 {
			n.add(rule{`type: "decimal"`, "t:other", "type_decimal"})
			typed = true
		}
	}
	if !typed && r.Intn(5) == 0 {
		n.add(rule{`type: "` + plainType[kind] + `"`, "t:other", "type_plain"})
	}
	n.common(r)
	return n
}

func stringNode(r *rand.Rand, forceRegex bool) *node {
	n := &node{kind: "s", prec: -1}
	k := r.Intn(10)
	if forceRegex {
		k = 9
	}
	switch {
	case k <= 2: // a format type
		f := []string{"email", "uri", "uuid", "date", "datetime"}[r.Intn(5)]
		n.fmtT = f
		pool := fmtPools[f][0]
		n.exStr = pool[r.Intn(len(pool))]
		if r.Intn(3) == 0 {
			if g := genFmtExample(r, f); g != "" {
				n.exStr = g
			}
		}
		n.ex = spellStr(r, n.exStr, 5)
		n.add(rule{`type: "` + f + `"`, "t:" + f, "type_" + f})
		n.common(r)
		return n
	case k == 3:
		n.exStr = strContents[r.Intn(len(strContents))]
		n.ex = spellStr(r, n.exStr, 10)
		enumNode(r, n)
		return n
	}
	if forceRegex || r.Intn(3) == 0 {
		g := genRegex(r, regexPool)
		n.pat, n.rxSamples, n.rxShape = g.src, g.samples, g.shape
		n.re = regexp.MustCompile(n.pat)
		// an example that matches: one of the strings built with the pattern, else one of the pool (if none
		// matches, Check refuses the node; counted)
		found := false
		if len(g.samples) > 0 {
			off := r.Intn(len(g.samples))
			for i := range g.samples {
				if c := g.samples[(off+i)%len(g.samples)]; n.re.MatchString(c) {
					n.exStr, found = c, true
					break
				}
			}
		}
		if !found {
			off := r.Intn(len(strContents))
			n.exStr = strContents[off]
			for i := range strContents {
				if c := strContents[(off+i)%len(strContents)]; n.re.MatchString(c) {
					n.exStr = c
					break
				}
			}
		}
		q := jsonQuote(n.pat)
		if r.Intn(4) == 0 { // the pattern is a JSON string of the schema text: any spelling of it
			q = spellStr(r, n.pat, 15)
		}
		n.add(rule{"regex: " + q, "r:" + hexs(n.pat), "regex"})
	} else {
		n.exStr = strContents[r.Intn(len(strContents))]
	}
	n.ex = spellStr(r, n.exStr, 10)
	L := len(n.exStr)
	if r.Intn(2) == 0 {
		v := L
		if L > 0 && r.Intn(2) == 0 {
			v = r.Intn(L + 1)
		}
		if r.Intn(12) == 0 {
			v = L + 1
		}
		n.lens = append(n.lens, v)
		n.add(rule{"minLength: " + strconv.Itoa(v), "l:" + strconv.Itoa(v), "minLength"})
	}
	if r.Intn(2) == 0 {
		v := L + r.Intn(3)
		if r.Intn(12) == 0 && L > 0 {
			v = L - 1
		}
		n.lens = append(n.lens, v)
		n.add(rule{"maxLength: " + strconv.Itoa(v), "L:" + strconv.Itoa(v), "maxLength"})
	}
	if r.Intn(5) == 0 {
		n.add(rule{`type: "string"`, "t:other", "type_plain"})
	}
	n.common(r)
	return n
}

func wordNode(r *rand.Rand, kind string) *node {
	n := &node{kind: kind, prec: -1}
	if kind == "b" {
		n.ex = []string{"true", "false"}[r.Intn(2)]
	} else {
		n.ex = "null"
	}
	if r.Intn(4) == 0 {
		enumNode(r, n)
		return n
	}
	if r.Intn(3) == 0 {
		n.add(rule{`type: "` + plainType[kind] + `"`, "t:other", "type_plain"})
	}
	n.grid = true
	if k := r.Intn(3); k != 0 {
		n.add(boolRule("nullable", "N", k == 1))
	}
	if k := r.Intn(3); k != 0 {
		n.add(boolRule("const", "C", k == 1))
	}
	return n
}

// enumNode: the node's rules are `enum` (+ const / nullable / type "enum").
func enumNode(r *rand.Rand, n *node) {
	cnt := 1 + r.Intn(5)
	items := []string{}
	if r.Intn(8) != 0 {
		items = append(items, n.ex) // the example verbatim
	}
	for len(items) < cnt {
		var it string
		switch r.Intn(10) {
		case 0, 1: // another spelling of the example's value
			switch n.kind {
			case "i", "f":
				it = n.exDec.widen(r.Intn(3)).plain(false)
			case "s":
				it = spellStr(r, n.exStr, 50)
			default:
				it = n.ex
			}
		case 2: // the example's look-alike of another kind
			if n.kind == "s" {
				it = n.exStr
				if _, err := strconv.ParseFloat(it, 64); err != nil && it != "true" && it != "false" && it != "null" {
					it = "1"
				}
				if strings.ContainsAny(it, "eE") {
					it = "1"
				}
			} else {
				it = `"` + n.ex + `"`
			}
		case 3:
			it = []string{"true", "false", "null"}[r.Intn(3)]
		case 4, 5:
			it = dec{int64(r.Intn(40) - 10), r.Intn(3)}.plain(r.Intn(6) == 0)
		case 6:
			it = lookAlikeToks[r.Intn(len(lookAlikeToks))]
		default:
			it = spellStr(r, strContents[r.Intn(len(strContents))], 15)
		}
		dup := false
		for _, x := range items {
			dup = dup || x == it
		}
		if !dup || r.Intn(10) == 0 {
			items = append(items, it)
		}
	}
	r.Shuffle(len(items), func(i, j int) { items[i], items[j] = items[j], items[i] })
	n.items = items
	var hx []string
	for _, it := range items {
		hx = append(hx, vh.Hex([]byte(it)))
	}
	n.add(rule{"enum: [" + strings.Join(items, ", ") + "]", "e:" + strings.Join(hx, ","), "enum"})
	if r.Intn(4) == 0 {
		n.add(rule{`type: "enum"`, "t:other", "type_enum"})
	}
	n.common(r)
}

// inapplicable: a rule of another kind's family is added (the checker must refuse; nothing is compared).
func inapplicable(r *rand.Rand, n *node) {
	n.malformed = true
	switch r.Intn(6) {
	case 0:
		n.add(rule{"min: 1", "m:31", "min"})
	case 1:
		n.add(rule{"minLength: 1", "l:1", "minLength"})
	case 2:
		n.add(rule{"precision: 2", "p:2", "precision"})
	case 3:
		n.add(rule{`regex: "a"`, "r:61", "regex"})
		if n.re == nil {
			n.pat, n.re = "a", regexp.MustCompile("a")
		}
	case 4:
		n.add(rule{`type: "email"`, "t:email", "type_email"})
	default:
		n.add(boolRule("exclusiveMinimum", "x", true))
	}
}

func genNode(r *rand.Rand) *node {
	var n *node
	switch k := r.Intn(23); {
	case k < 5:
		n = numberNode(r, "i")
	case k < 11:
		n = numberNode(r, "f")
	case k < 17:
		n = stringNode(r, false)
	case k >= 20: // the stream of regex nodes
		n = stringNode(r, true)
	case k < 19:
		n = wordNode(r, "b")
	default:
		n = wordNode(r, "n")
	}
	if r.Intn(25) == 0 {
		inapplicable(r, n)
	}
	r.Shuffle(len(n.rules), func(i, j int) { n.rules[i], n.rules[j] = n.rules[j], n.rules[i] })
	return n
}

// ---------------------------------------------------------------------------------------------------------
// documents

type doc struct {
	tok   string
	class string // how it was drawn
}

func strOfLen(r *rand.Rand, want int) (string, bool) {
	off := r.Intn(len(strContents))
	for i := range strContents {
		if c := strContents[(off+i)%len(strContents)]; len(c) == want {
			return c, true
		}
	}
	if want >= 0 && want < 40 {
		return strings.Repeat("s", want), true
	}
	return "", false
}

// strOfRunes: a pool string with multi-byte characters whose RUNE count is want (its byte length is larger).
func strOfRunes(r *rand.Rand, want int) (string, bool) {
	off := r.Intn(len(strContents))
	for i := range strContents {
		if c := strContents[(off+i)%len(strContents)]; utf8.RuneCountInString(c) == want && len(c) > want {
			return c, true
		}
	}
	if want > 0 && want < 20 {
		return strings.Repeat("é", want), true
	}
	return "", false
}

func otherKind(r *rand.Rand) string {
	switch r.Intn(8) {
	case 0:
		return "true"
	case 1:
		return "false"
	case 2:
		return "null"
	case 3:
		return spell(r, dec{int64(r.Intn(30) - 5), 0})
	case 4:
		return spell(r, dec{int64(r.Intn(3000) - 500), 1 + r.Intn(3)})
	case 5:
		return lookAlikeToks[r.Intn(len(lookAlikeToks))]
	case 6:
		return oddStrToks[r.Intn(len(oddStrToks))]
	default:
		return spellStr(r, strContents[r.Intn(len(strContents))], 20)
	}
}

var zeroExpToks = []string{"0e1", "-0e1", "0E5", "0e0", "0e-1", "-0E+2"}
var longNums = []string{"123456789012345678901234567890", "-123456789012345678901234567890.5", "0.000000000000000000000000000001", "1e-30", "1E+30", "1e30",
	"100000000000000000000e-20", "0.00000000000000000001e20", "1.000000000000000000000000000000", "9999999999999999999999.9999999999999999999999", "1e400", "1e-400", "-1E400",
	"15000000000000000000000000e-25", "0.5e0", "5e-1", "0.0", "-0.0", "0.0e5", "-0.00E-5", "0.0e0", "1.0E0", "10e-1", "1.10", "1.100", "11e-1", "110e-2"}

// shortExp: a numeral in exponent notation with a short mantissa (1..3 digits, optionally with a point) and an exponent
// -9..3: few bytes, but the normalised fraction may be long (5E-9), an integer-looking mantissa becomes fractional
// (25e-5), a fractional mantissa becomes integral (1.25e2). frac >= 0 asks for exactly that many significant
// fractional digits (the mantissa then ends in a non-zero digit).
func shortExp(r *rand.Rand, frac int) string {
	nd := 1 + r.Intn(3)
	m := 1 + r.Intn(9)
	for i := 1; i < nd; i++ {
		m = m*10 + r.Intn(10)
	}
	if frac >= 0 && m%10 == 0 {
		m++
	}
	digits := strconv.Itoa(m)
	point := 0 // digits after the point inside the mantissa
	if len(digits) > 1 && r.Intn(2) == 0 {
		point = 1 + r.Intn(len(digits)-1)
	}
	e := r.Intn(13) - 9
	if frac >= 0 {
		e = point - frac
	}
	t := digits
	if point > 0 {
		t = digits[:len(digits)-point] + "." + digits[len(digits)-point:]
	}
	if r.Intn(4) == 0 {
		t = "-" + t
	}
	t += string("eE"[r.Intn(2)])
	switch {
	case e < 0:
		t += "-" + strconv.Itoa(-e)
	case r.Intn(3) == 0:
		t += "+" + strconv.Itoa(e)
	default:
		t += strconv.Itoa(e)
	}
	return t
}

func numDocs(r *rand.Rand, n *node, k int) []doc {
	var out []doc
	for i := 0; i < k; i++ {
		b := n.bounds[r.Intn(len(n.bounds))]
		var d dec
		cls := ""
		switch r.Intn(9) {
		case 0:
			d, cls = b, "on_bound"
		case 1:
			d, cls = dec{b.m - 1, b.s}, "unit_below"
		case 2:
			d, cls = dec{b.m + 1, b.s}, "unit_above"
		case 3:
			d, cls = dec{b.m*10 - 1, b.s + 1}, "tenth_below"
		case 4:
			d, cls = dec{b.m*10 + 1, b.s + 1}, "tenth_above"
		case 5:
			if n.prec >= 0 { // exactly p / p+1 significant fractional digits
				p := n.prec + r.Intn(2)
				if p >= b.s && p-b.s < 4 && b.m < 1e13 && b.m > -1e13 {
					d, cls = dec{b.m*pow10(p-b.s) + 1, p}, fmt.Sprintf("frac_digits_p%+d", p-n.prec)
					break
				}
			}
			d, cls = dec{b.m*100 + int64(r.Intn(199)-99), b.s + 2}, "near_bound"
		case 6:
			d, cls = dec{int64(r.Intn(60) - 20), r.Intn(3)}, "random_small"
		case 7:
			d, cls = dec{-b.m, b.s}, "negated"
		default:
			d, cls = n.exDec, "example_value"
		}
		if d.m > 1e16 || d.m < -1e16 {
			d = b
		}
		out = append(out, doc{spell(r, d), "num_" + cls})
	}
	return out
}

func docsFor(r *rand.Rand, n *node) []doc {
	out := []doc{{n.ex, "example_verbatim"}}
	switch n.kind {
	case "i", "f":
		out = append(out, numDocs(r, n, 9)...)
		out = append(out, doc{spell(r, n.exDec), "num_example_value"})
		out = append(out, doc{longNums[r.Intn(len(longNums))], "num_long_or_odd"})
		out = append(out, doc{shortExp(r, -1), "num_short_exponent"})
		if n.prec >= 0 { // exponent spellings with exactly p-1 / p / p+1 / p+2 fractional digits, and free ones
			for i := 0; i < 3; i++ {
				f := n.prec - 1 + r.Intn(4)
				if f < 0 {
					f = 0
				}
				out = append(out, doc{shortExp(r, f), fmt.Sprintf("num_short_exponent_frac_p%+d", f-n.prec)})
			}
			out = append(out, doc{shortExp(r, -1), "num_short_exponent"})
		}
		if r.Intn(3) == 0 {
			out = append(out, doc{zeroExpToks[r.Intn(len(zeroExpToks))], "num_zero_exponent"})
		}
		out = append(out, doc{`"` + n.ex + `"`, "lookalike_of_example"})
	case "s":
		out = append(out, doc{spellStr(r, n.exStr, 60), "str_example_respelled"})
		for i := 0; i < 2 && len(n.lens) > 0; i++ { // rune count at the bound, byte length above it
			if c, ok := strOfRunes(r, n.lens[r.Intn(len(n.lens))]-1+r.Intn(3)); ok {
				out = append(out, doc{spellStr(r, c, 30), "str_rune_count_at_length_bound"})
			}
		}
		nStr := 5
		if n.fmtT != "" {
			nStr = 10
		}
		for i := 0; i < nStr; i++ {
			if len(n.lens) > 0 {
				want := n.lens[r.Intn(len(n.lens))] - 1 + r.Intn(3)
				if c, ok := strOfLen(r, want); ok {
					out = append(out, doc{spellStr(r, c, 30), "str_at_length_bound"})
					continue
				}
			}
			if n.fmtT != "" {
				p := fmtPools[n.fmtT]
				switch r.Intn(4) {
				case 0:
					out = append(out, doc{spellStr(r, p[0][r.Intn(len(p[0]))], 20), "fmt_positive"})
				case 1:
					out = append(out, doc{spellStr(r, p[1][r.Intn(len(p[1]))], 10), "fmt_negative"})
				case 2:
					out = append(out, doc{spellStr(r, mutate(r, p[0][r.Intn(len(p[0]))]), 10), "fmt_mutated"})
				default:
					q := fmtPools[[]string{"email", "uri", "uuid", "date", "datetime"}[r.Intn(5)]][0]
					out = append(out, doc{spellStr(r, q[r.Intn(len(q))], 10), "fmt_other_format"})
				}
				continue
			}
			out = append(out, doc{spellStr(r, strContents[r.Intn(len(strContents))], 30), "str_pool"})
		}
		if n.exStr != "" && r.Intn(2) == 0 {
			out = append(out, doc{spellStr(r, mutate(r, n.exStr), 20), "str_example_mutated"})
		}
		if n.re != nil { // probes derived from the pattern
			bases := append([]string{n.exStr}, n.rxSamples...)
			for i := 0; i < 2 && i < len(n.rxSamples); i++ {
				out = append(out, doc{spellStr(r, n.rxSamples[r.Intn(len(n.rxSamples))], 10), "rx_built_with_pattern"})
			}
			for k := 0; k < nDerive; k++ {
				c, cls := derive(r, bases[r.Intn(len(bases))], k)
				out = append(out, doc{spellStr(r, c, 10), "rx_derived_" + cls})
			}
		}
		if n.fmtT != "" { // probes derived from a valid value, and values composed from boundary parts
			pos := fmtPools[n.fmtT][0]
			for i := 0; i < 5; i++ {
				base := n.exStr
				if r.Intn(2) == 0 {
					base = pos[r.Intn(len(pos))]
				}
				c, cls := derive(r, base, -1)
				out = append(out, doc{spellStr(r, c, 10), "fmt_derived_" + cls})
			}
			for i := 0; i < 6; i++ {
				c, cls := genFmt(r, n.fmtT)
				out = append(out, doc{spellStr(r, c, 10), "fmt_composed_" + n.fmtT + "_" + cls})
			}
		}
		out = append(out, doc{oddStrToks[r.Intn(len(oddStrToks))], "str_odd_surrogates_or_utf8"})
		if _, err := strconv.ParseFloat(n.exStr, 64); err == nil && !strings.ContainsAny(n.exStr, " xXpPiInN_") {
			out = append(out, doc{n.exStr, "lookalike_of_example"})
		}
	default:
		out = append(out, doc{"true", "word"}, doc{"false", "word"}, doc{`"` + n.ex + `"`, "lookalike_of_example"})
	}
	for _, it := range n.items {
		switch r.Intn(4) {
		case 0:
			out = append(out, doc{it, "enum_item_verbatim"})
		case 1: // re-spelled
			if strings.HasPrefix(it, `"`) {
				out = append(out, doc{spellStr(r, string(decode(it)), 50), "enum_item_respelled"})
			} else if f, err := strconv.ParseFloat(it, 64); err == nil && !strings.ContainsAny(it, "eE") {
				_ = f
				s := 0
				if i := strings.IndexByte(it, '.'); i >= 0 {
					s = len(it) - i - 1
				}
				m, _ := strconv.ParseInt(strings.Replace(it, ".", "", 1), 10, 64)
				out = append(out, doc{spell(r, dec{m, s}), "enum_item_respelled"})
			} else {
				out = append(out, doc{it, "enum_item_verbatim"})
			}
		case 2: // the look-alike of the other kind
			if strings.HasPrefix(it, `"`) {
				c := string(decode(it))
				if _, err := strconv.ParseFloat(c, 64); (err == nil && !strings.ContainsAny(c, " xXpPiInN_+") && !strings.HasPrefix(c, ".") && !strings.HasSuffix(c, ".") &&
					!strings.HasPrefix(c, "0") && !strings.HasPrefix(c, "-0")) || c == "true" || c == "false" || c == "null" || c == "0" {
					out = append(out, doc{c, "enum_item_lookalike"})
				}
			} else {
				out = append(out, doc{`"` + it + `"`, "enum_item_lookalike"})
			}
		}
	}
	out = append(out, doc{"null", "null"})
	for i := 0; i < 2; i++ {
		out = append(out, doc{otherKind(r), "any_kind"})
	}
	return out
}

// ---------------------------------------------------------------------------------------------------------
// the real library

func errCode(err error) string {
	var pe jlib.ParsingError
	if stderrors.As(err, &pe) {
		return fmt.Sprint(pe.ErrCode())
	}
	return "other"
}

func check(schema string) string {
	return vh.Recover(func() string {
		if err := jschema.New("root", schema).Check(); err != nil {
			return "CHECKERR " + errCode(err)
		}
		return "OK"
	})
}

func validate(schema, document string) string {
	return vh.Recover(func() string {
		s := jschema.New("root", schema)
		if err := s.Validate(jdoc.New("doc", document)); err != nil {
			return "REJ"
		}
		return "ACC"
	})
}

func layout(mode int, lit, ann string) string {
	switch mode {
	case 1:
		return "{\n  \"k\": " + lit + ann + "\n}"
	case 2:
		return "[\n  " + lit + ann + "\n]"
	}
	return lit + ann
}

func wrapDoc(mode int, tok string) string {
	switch mode {
	case 1:
		return `{"k": ` + tok + `}`
	case 2:
		return "[" + tok + "]"
	}
	return tok
}

var zeroExpRe = regexp.MustCompile(`^-?0[eE]`)

type oneCase struct {
	line, impl, input string
	stats             []string
	nontrivial        bool
}

type nodeResult struct {
	stats []string
	cases []oneCase
}

func b01(v bool) byte {
	if v {
		return '1'
	}
	return '0'
}

func oneNode(seed int64) nodeResult {
	r := rand.New(rand.NewSource(seed))
	var res nodeResult
	n := genNode(r)
	var ts, ws []string
	for _, ru := range n.rules {
		ts = append(ts, ru.text)
		ws = append(ws, ru.wire)
	}
	ann := ""
	if len(ts) > 0 {
		ann = " // {" + strings.Join(ts, ", ") + "}"
	}
	mode := r.Intn(4) % 3 // root twice as often
	schema := layout(mode, n.ex, ann)
	res.stats = append(res.stats, "nodes_generated", "node_kind_"+n.kind)
	if n.rxShape != "" {
		res.stats = append(res.stats, "rx_generated")
	}
	if n.malformed {
		res.stats = append(res.stats, "stream_inapplicable_rule")
	}
	if c := check(schema); c != "OK" {
		res.stats = append(res.stats, "check_refused", "check_refused_"+strings.ReplaceAll(c, " ", "_"))
		if n.malformed {
			res.stats = append(res.stats, "inapplicable_refused")
		}
		return res
	}
	if n.malformed {
		res.stats = append(res.stats, "inapplicable_accepted_by_check")
	}
	res.stats = append(res.stats, "nodes_checked", fmt.Sprintf("layout_%d", mode), fmt.Sprintf("rules_in_set_%d", len(n.rules)))
	if n.rxShape != "" && !n.malformed {
		res.stats = append(res.stats, "rx_checked")
		for _, part := range strings.Split(n.rxShape, "/") {
			res.stats = append(res.stats, "rx_checked_"+part)
		}
	}
	cn := map[string]string{"nullable": "absent", "const": "absent"}
	for _, ru := range n.rules {
		res.stats = append(res.stats, "rule_"+ru.name)
		for _, nm := range []string{"nullable", "const"} {
			if strings.HasPrefix(ru.name, nm+"_") {
				cn[nm] = strings.TrimPrefix(ru.name, nm+"_")
			}
		}
	}
	combo := "nullable_" + cn["nullable"] + "_const_" + cn["const"]
	if len(n.rules) > strings.Count(combo, "true")+strings.Count(combo, "false") {
		combo += "_with_other_rules"
	}
	res.stats = append(res.stats, "combo_"+combo)
	for _, d := range docsFor(r, n) {
		s := decode(d.tok)
		bits := []byte("0000")
		if n.re != nil {
			bits[0] = b01(n.re.Match(s))
		}
		_, e1 := mail.ParseAddress(string(s))
		bits[1] = b01(e1 == nil)
		u, e2 := url.ParseRequestURI(string(s))
		bits[2] = b01(e2 == nil && u.IsAbs() && u.Hostname() != "")
		_, e3 := time.Parse(time.RFC3339, string(s))
		bits[3] = b01(e3 == nil)
		v := validate(schema, wrapDoc(mode, d.tok))
		st := []string{"doc_" + d.class}
		switch v {
		case "ACC":
			st = append(st, "accepted", "accepted_"+d.class)
		case "REJ":
			st = append(st, "rejected")
		default:
			st = append(st, "impl_other")
		}
		if d.tok == "null" {
			st = append(st, "null_doc_"+v+"_under_"+combo)
		}
		if n.re != nil && strings.HasPrefix(d.tok, `"`) {
			st = append(st, "rx_oracle_match_"+string(bits[0]))
		}
		if zeroExpRe.MatchString(d.tok) {
			st = append(st, "class_K-C10-zeroexp")
		}
		if strings.ContainsAny(d.tok, "eE") && !strings.HasPrefix(d.tok, `"`) && d.tok != "true" && d.tok != "false" {
			st = append(st, "doc_exponent_numeral")
		}
		if strings.Contains(d.tok, `\`) {
			st = append(st, "doc_string_with_escape")
		}
		res.cases = append(res.cases, oneCase{
			line:       prefix + " " + n.kind + " " + hexs(n.ex) + " " + hexs(d.tok) + " " + hexs(string(s)) + " " + string(bits) + " " + strings.Join(ws, " "),
			impl:       v,
			input:      "SCHEMA:\n" + schema + "\nDOCUMENT: " + wrapDoc(mode, d.tok),
			stats:      st,
			nontrivial: len(n.rules) > 0,
		})
	}
	return res
}

func Run(args []string) {
	rep := vh.NewReport(command, "one scalar schema node `<example> // {rules}` (root / object property / array item) x ~20 document scalars; rule sets per kind from everything the checker can accept: numbers min / max (bounds on, one unit, one tenth or far from the example, spelled with extra zeros and -0) with exclusiveMinimum / exclusiveMaximum true or false, precision with and without type decimal, strings minLength / maxLength around the example's decoded byte length, regex GENERATED from parts (literals with and without metacharacters / quotes / slashes / line breaks in four spellings, character classes, alternation groups, quantifiers; anchors ^ $ \\A \\z \\b on neither / one / both sides, inside and outside a group, doubled, padded with .*; flags i m s; alternation at the top level; 30 degenerate expressions such as the empty one; the former pool of 20; stats rx_checked_*; the pattern in the schema text quoted minimally or in a random JSON spelling; a dedicated stream makes 3 nodes in 23 regex nodes), the formats email / uri / uuid / date / datetime, const and nullable true or false on every kind, enum (1..5 items: the example verbatim, other spellings of it, its look-alike of another kind, words, numbers, strings; with const / nullable / type enum) on every kind, plain type names; rule order random; one node in three (every boolean / null node) draws const and nullable from the 3 x 3 grid absent / true / false so that every combination occurs with and without further rules (stats combo_*, null_doc_*); one node in 25 gets a rule of another family (stream inapplicable: Check must refuse, counted); rule sets refused by Check are skipped and counted by error code; documents: the example verbatim and re-spelled, values on / one last-digit unit / one tenth around each bound and at p / p+1 fractional digits in random RFC 8259 spellings (minus zero, trailing zeros, exponent e/E -3..3 and -20..20 with optional + and leading zero, point moved), exponent-notation numerals with a 1..3 digit mantissa and exponent -9..3 (5E-9, 25e-5, 1.25e2) and, under precision p, with exactly p-1 .. p+2 fractional digits; strings whose RUNE count sits at a length bound while their byte length is above it; 27 long / odd numerals (30 digits, 1e400, 1.10 / 11e-1 / 110e-2), zero-exponent numerals (class K-C10-zeroexp), strings of decoded length bound-1 / bound / bound+1 in random spellings (raw UTF-8, \\uXXXX either case, two-character escapes, surrogate pairs), 26 odd tokens (lone / reversed / doubled surrogates, invalid and overlong UTF-8), format strings positive / negative / mutated / of another format, for a regex node the strings built alongside the pattern and 12 strings DERIVED from them (prefix, suffix, both, line break after / before, CRLF, one character replaced by a neighbour / deleted / inserted, case changed, doubled, empty; expected verdict = Go regexp.Match on the decoded string), for a format node 5 strings derived the same way from a valid value and 6 composed from boundary parts (date: leap / common / century years x month x day 0..32 and 14 layout variants; datetime: date x T x hh:mm:ss x fraction x zone with out-of-range fields; uuid: four forms, mixed case, one anomaly of length -1 / +1, characters next to the hex ranges, hyphen moved, braces / urn prefix altered, multi-byte character; e-mail local x domain x wrapper; uri scheme x separator x authority x tail), every enum item verbatim / re-spelled (numbers by value: K-C10-enumtext) / as the look-alike of another kind, null, and tokens of every kind; oracles regexp / mail / url / time evaluated in Go on the encoding/json decoding of the token and checked against the model's own Unquote (UNQDIFF); real Validate()==nil vs model ACC; nontrivial = the rule set is not empty")
	r := vh.NewRand(salt)
	nNodes := vh.Pick(24000, 345000) // 20 in 23 nodes are drawn as before the regex stream was added
	const batch = 8000
	for done := 0; done < nNodes; done += batch {
		k := batch
		if nNodes-done < k {
			k = nNodes - done
		}
		seeds := make([]int64, k)
		for i := range seeds {
			seeds[i] = r.Int63()
		}
		results := make([]nodeResult, k)
		var wg sync.WaitGroup
		next := make(chan int, k)
		for i := 0; i < k; i++ {
			next <- i
		}
		close(next)
		for w := runtime.NumCPU(); w > 0; w-- {
			wg.Add(1)
			go func() {
				defer wg.Done()
				for i := range next {
					results[i] = oneNode(seeds[i])
				}
			}()
		}
		wg.Wait()
		var reqs, impl, inputs []string
		for _, res := range results {
			for _, s := range res.stats {
				rep.Stat(s)
			}
			for _, c := range res.cases {
				for _, s := range c.stats {
					rep.Stat(s)
				}
				rep.Case(c.line, c.nontrivial)
				reqs = append(reqs, c.line)
				impl = append(impl, c.impl)
				inputs = append(inputs, c.input)
			}
		}
		for i, m := range vh.AskModelSharded(reqs, 16) {
			if impl[i] != m {
				rep.AddDiff(vh.Diff{Input: inputs[i], Impl: impl[i], Model: m, Note: reqs[i]})
			}
		}
	}
	rep.Finish()
}
