package semrulesfull

import (
	"math/rand"
	"strings"
)

// Exported view of the generators for other harness packages (`c02-text`): one scalar node with its rule set as
// (name, value text) pairs in the order drawn, and the documents `docsFor` probes it with.

type TextRule struct {
	Name  string // bare rule name
	Value string // value as written: literal token or `[...]`
	Stat  string // statistic name of the rule
}

type TextDoc struct{ Tok, Class string }

type TextNode struct {
	Kind         string // i f s b n
	Ex           string
	Rules        []TextRule
	Docs         []TextDoc
	Inapplicable bool
}

func GenForText(r *rand.Rand) TextNode {
	n := genNode(r)
	out := TextNode{Kind: n.kind, Ex: n.ex, Inapplicable: n.malformed}
	for _, ru := range n.rules {
		i := strings.Index(ru.text, ": ")
		if i < 0 {
			continue
		}
		out.Rules = append(out.Rules, TextRule{Name: ru.text[:i], Value: ru.text[i+2:], Stat: ru.name})
	}
	for _, d := range docsFor(r, n) {
		out.Docs = append(out.Docs, TextDoc{d.tok, d.class})
	}
	return out
}
