// Package schemadiff: T-diff of the jSchema scanner (notations/jschema/internal/scanner, through the
// verif hooks VerifSchemaEvents / VerifSchemaLen) against the Lean model (driver requests
// `sscan E <hex>` / `sscan L <hex>`): seeds, byte-level mutations, random strings and the
// bounded-exhaustive alphabets of the design-phase prototypes.
package schemadiff

import (
	"fmt"
	"strings"
	"sync"

	"github.com/jsightapi/jsight-schema-go-library/notations/jschema"

	"verifharness/vh"
)

var seeds = []string{
	`{}`, `[]`, `1`, `"a"`, `true`, `null`, `-1.5`, `@a`, `@a | @b`, `@a|@b`,
	"{\n  \"id\": 123, // {min: 1}\n  \"name\": \"Tom\"\n}",
	"[ // {minItems: 1}\n  1, // {min: 0} - note\n  \"s\"\n]",
	"{ // A product\n  \"a\": 1, // The id.\n  \"b\": [1,2] \n}",
	"42 /*\n\t{nullable: true}\n*/",
	"{\n\"a\": 1 /* {min: 0,\n max: 5} - note\n over lines */,\n\"b\": 2\n}",
	"{\n  @k: 1,\n  \"x\": @t | @u // {optional: true}\n}",
	"1 // {or: [{type: \"integer\", min: 5}, \"string\", \"@t\"]}",
	"\"a\" // {enum: [\"a\", // first\n \"b\"]}",
	"{ # comment\n \"a\": 1 # c2\n}",
	"{\n###\n block\n###\n \"a\": 1\n}",
	"1 // {\"min\": 0, \"max\" : 5,}",
	"{} // {additionalProperties: \"any\", allOf: [\"@a\", \"@b\"]}",
	"[\n  [1],\n  2 // {min: 0}\n]",
	"{\"a\":{\"b\":{\"c\":[[],{}]}}}",
	"1 // note only",
	"1 // {min: 0} - note # user comment",
	"{\r\n \"a\": 1 // {min: 0}\r\n}",
	"[1,2] x", "{} GET /", "\"k\": 1", "@a, x",
	"{ \"a\": 1, // {type: \"any\"}\n \"b\": {} // {type: \"any\"}\n}",
	"1 /* {min: 0} // {max: 5}\n*/",
}

var alphabet = []byte("{}[]:,\"\\/#@*|-_+01.eEtrufalsnb xyzAF \t\n\r\x01\xc3")

// Bounded-exhaustive alphabets (DESIGN.md §5: 16 representative bytes; annotation-heavy; two 10-byte ones).
var (
	alphaRepr  = []byte("{}[]:,\"\\/#@|1a \n") // 16 bytes, length <= 4 / 5
	alphaAnnot = []byte("/*#{}\":,1\n a@|-t")  // 16 bytes, length <= 4 / 5
	alphaComm  = []byte("/*#{}1\n :a")         // 10 bytes (annotations / comments), length <= 5 / 6
	alphaArr   = []byte("[],@|a1 \n\"")        // 10 bytes (arrays, shortcuts, or-lists), length <= 5 / 6
)

const structural = "{}[]:,\"@|/#*"

type runner struct {
	rep    *vh.Report
	stream string
	inputs [][]byte
}

func (x *runner) add(b []byte) {
	x.inputs = append(x.inputs, append([]byte(nil), b...))
	if len(x.inputs) >= 200000 { // 2 requests per input: <= 400k requests per flush
		x.flush()
	}
}

func head(s string) string {
	f := strings.Fields(s)
	if len(f) >= 2 && (f[0] == "ERR" || f[0] == "CRASH" || f[0] == "PANIC") {
		if f[0] == "ERR" {
			return "err_" + f[1]
		}
		return strings.ToLower(f[0])
	}
	return "ok"
}

func (x *runner) flush() {
	n := len(x.inputs)
	if n == 0 {
		return
	}
	impl := make([]string, 2*n)
	reqs := make([]string, 2*n)
	var wg sync.WaitGroup
	const workers = 16
	for w := 0; w < workers; w++ {
		wg.Add(1)
		go func(w int) {
			defer wg.Done()
			for i := w; i < n; i += workers {
				b := x.inputs[i]
				h := vh.Hex(b)
				reqs[2*i] = "sscan E " + h
				reqs[2*i+1] = "sscan L " + h
				impl[2*i] = vh.Recover(func() string { return jschema.VerifSchemaEvents(b) })
				impl[2*i+1] = vh.Recover(func() string { return jschema.VerifSchemaLen(b) })
			}
		}(w)
	}
	wg.Wait()
	model := vh.AskModelSharded(reqs, 16)
	for i := 0; i < n; i++ {
		b := x.inputs[i]
		ev, ln := impl[2*i], impl[2*i+1]
		he := head(ev)
		x.rep.Case(string(b), len(b) >= 2 && strings.ContainsAny(string(b), structural))
		x.rep.Stat("in_" + x.stream)
		x.rep.Stat("events_" + he)
		if strings.HasPrefix(ln, "LEN ") {
			x.rep.Stat("len_ok")
			if ln != fmt.Sprintf("LEN %d", len(b)) {
				x.rep.Stat("len_shorter_than_input")
			}
		} else {
			x.rep.Stat("len_" + head(ln))
		}
		if he == "ok" && strings.Contains(ev, "annotation") {
			x.rep.Stat("events_with_annotation")
		}
		for k := 0; k < 2; k++ {
			if impl[2*i+k] != model[2*i+k] {
				x.rep.AddDiff(vh.Diff{Component: "schema-scanner-" + []string{"events", "len"}[k], Input: fmt.Sprintf("%q", b),
					Impl: impl[2*i+k], Model: model[2*i+k], Level: "correspondence", Note: reqs[2*i+k] + " (stream " + x.stream + ")"})
			}
		}
	}
	x.inputs = x.inputs[:0]
}

func Run(args []string) {
	nRepr, nAnnot, nComm, nArr := vh.Pick(5, 6), vh.Pick(4, 6), vh.Pick(6, 7), vh.Pick(5, 7)
	nMut, nRnd := vh.Pick(30000, 400000), vh.Pick(10000, 100000)
	rep := vh.NewReport("schema-diff", fmt.Sprintf("jSchema scanner hook vs model, per input: full event list with spans or error code+index (sscan E) and length mode (sscan L); streams: %d seed schemas, %d 1-3-edit byte mutations of them, %d random strings (<8 bytes) over a %d-byte alphabet, bounded-exhaustive: all strings <=%d over %q, <=%d over %q, <=%d over %q, <=%d over %q; nontrivial = at least 2 bytes and one structural byte of %q",
		len(seeds), nMut, nRnd, len(alphabet), nRepr, alphaRepr, nAnnot, alphaAnnot, nComm, alphaComm, nArr, alphaArr, structural))
	r := vh.NewRand(21)
	x := &runner{rep: rep}

	x.stream = "seed"
	for _, s := range seeds {
		x.add([]byte(s))
	}
	x.flush()
	// every byte value at every position of every seed (replace) and at a sample of positions (insert): the schema
	// scanner has no product-state exploration, this sweep is what exercises all 256 bytes in every state the seeds reach
	x.stream = "byte_sweep"
	for _, s := range seeds {
		for i := 0; i < len(s); i++ {
			if vh.Tier() != "thorough" && len(s) > 60 && i%3 != int(vh.Seed()%3) {
				continue
			}
			for b := 0; b < 256; b++ {
				m := []byte(s)
				if m[i] == byte(b) {
					continue
				}
				m[i] = byte(b)
				x.add(m)
				if vh.Tier() == "thorough" {
					ins := append(append(append([]byte{}, s[:i]...), byte(b)), s[i:]...)
					x.add(ins)
				}
			}
		}
	}
	x.flush()
	x.stream = "mutation"
	for i := 0; i < nMut; i++ {
		x.add(vh.Mutate(r, []byte(seeds[r.Intn(len(seeds))]), alphabet))
	}
	x.flush()
	x.stream = "random"
	for i := 0; i < nRnd; i++ {
		b := make([]byte, r.Intn(8))
		for j := range b {
			b[j] = alphabet[r.Intn(len(alphabet))]
		}
		x.add(b)
	}
	x.flush()
	for _, e := range []struct {
		name  string
		alpha []byte
		n     int
	}{{"exh_repr", alphaRepr, nRepr}, {"exh_annot", alphaAnnot, nAnnot}, {"exh_comments", alphaComm, nComm}, {"exh_arrays", alphaArr, nArr}} {
		x.stream = e.name
		vh.AllStrings(e.alpha, e.n, x.add)
		x.flush()
	}
	rep.Finish()
}
