package c09bridge

import (
	"fmt"
	"math/rand"
	"strings"
)

// ---- IR of the targeted stream ----

type kind int

const (
	kScalar   kind = iota // `1`, `"abc" // {minLength: 1}`
	kRef                  // `@a`, `@a | @b`
	kTypeRule             // `1 // {type: "@a"}`
	kOrRule               // `1 // {or: ["@a", "@b"]}`
	kObj
	kArr
)

type tprop struct {
	key   string // ordinary key without quotes, or "@k"
	short bool
	val   *tnode
}

type tnode struct {
	kind  kind
	tok   string   // EXAMPLE token (scalar / rule literal)
	rule  string   // a further rule of a scalar (`minLength: 1`)
	names []string // kRef / kTypeRule (one) / kOrRule
	addp  string   // kObj: additionalProperties: "@t"
	props []*tprop
	items []*tnode
}

// slot: one place of the text that names a user type, in the order of the text.
type slot struct {
	p    *string
	form string // shortcut orshortcut typerule orrule keyshortcut addprops
}

func (n *tnode) slots() []slot {
	var out []slot
	switch n.kind {
	case kRef:
		f := "shortcut"
		if len(n.names) > 1 {
			f = "orshortcut"
		}
		for i := range n.names {
			out = append(out, slot{&n.names[i], f})
		}
	case kTypeRule:
		out = append(out, slot{&n.names[0], "typerule"})
	case kOrRule:
		for i := range n.names {
			out = append(out, slot{&n.names[i], "orrule"})
		}
	case kObj:
		if n.addp != "" {
			out = append(out, slot{&n.addp, "addprops"})
		}
		for _, p := range n.props {
			if p.short {
				out = append(out, slot{&p.key, "keyshortcut"})
			}
			out = append(out, p.val.slots()...)
		}
	case kArr:
		for _, it := range n.items {
			out = append(out, it.slots()...)
		}
	}
	return out
}

func (n *tnode) annotated() bool {
	switch n.kind {
	case kScalar:
		return n.rule != ""
	case kTypeRule, kOrRule:
		return true
	case kObj:
		if n.addp != "" {
			return true
		}
		for _, p := range n.props {
			if p.val.annotated() {
				return true
			}
		}
	case kArr:
		for _, it := range n.items {
			if it.annotated() {
				return true
			}
		}
	}
	return false
}

// ---- printer with a random layout ----

type layout struct {
	r                    *rand.Rand
	nl, pad              string
	colon, bar, comma    string
	quoteRules, blockAnn bool
	comments             int // 0: none; n: one line in n gets a `#` comment
	split                int // 0: never; n: one unannotated property in n has its value on the next line
	compact              int // 0: never; n: one unannotated container in n is printed on one line
}

func newLayout(r *rand.Rand) *layout {
	l := &layout{r: r, nl: "\n", pad: "  ", colon: ": ", bar: " | ", comma: ","}
	if r.Intn(6) == 0 {
		l.nl = "\r\n"
	}
	l.pad = []string{"  ", "  ", "", "\t", " ", "    "}[r.Intn(6)]
	l.colon = []string{": ", ": ", ":", " : ", " :", ":  "}[r.Intn(6)]
	l.bar = []string{" | ", " | ", "|", " |", "| ", "  |  "}[r.Intn(6)]
	l.comma = []string{",", ",", ",", " ,"}[r.Intn(4)]
	l.quoteRules = r.Intn(5) == 0
	l.blockAnn = r.Intn(6) == 0
	if r.Intn(3) == 0 {
		l.comments = 3 + r.Intn(8)
	}
	if r.Intn(5) == 0 {
		l.split = 2 + r.Intn(4)
	}
	if r.Intn(3) == 0 {
		l.compact = 1 + r.Intn(3)
	}
	return l
}

func (l *layout) ann(rules ...string) string {
	var rs []string
	for _, x := range rules {
		if x != "" {
			rs = append(rs, x)
		}
	}
	if len(rs) == 0 {
		return ""
	}
	if l.quoteRules {
		for i, x := range rs {
			p := strings.Index(x, ":")
			rs[i] = `"` + x[:p] + `"` + x[p:]
		}
	}
	body := "{" + strings.Join(rs, ", ") + "}"
	switch l.r.Intn(8) {
	case 0:
		body = "{ " + strings.Join(rs, " , ") + " }"
	case 1:
		body = "{" + strings.Join(rs, ",") + "}"
	}
	if l.r.Intn(10) == 0 {
		body += " - a note"
	}
	if l.blockAnn {
		return " /* " + body + " */"
	}
	return []string{" // ", " // ", "  //", " //  "}[l.r.Intn(4)] + body
}

func (n *tnode) ruleText() string {
	switch n.kind {
	case kScalar:
		return n.rule
	case kTypeRule:
		return `type: "` + n.names[0] + `"`
	case kOrRule:
		q := make([]string, len(n.names))
		for i, x := range n.names {
			q[i] = `"` + x + `"`
		}
		return "or: [" + strings.Join(q, ", ") + "]"
	case kObj:
		if n.addp != "" {
			return `additionalProperties: "` + n.addp + `"`
		}
	}
	return ""
}

func (l *layout) head(n *tnode) string {
	if n.kind == kRef {
		return strings.Join(n.names, l.bar)
	}
	return n.tok
}

func (l *layout) keyText(p *tprop) string {
	if p.short {
		return p.key
	}
	return `"` + p.key + `"`
}

// one line, no annotations inside
func (l *layout) flat(n *tnode) string {
	switch n.kind {
	case kObj:
		var mm []string
		for _, p := range n.props {
			mm = append(mm, l.keyText(p)+l.colon+l.flat(p.val))
		}
		return "{" + strings.Join(mm, l.comma+" ") + "}"
	case kArr:
		var mm []string
		for _, it := range n.items {
			mm = append(mm, l.flat(it))
		}
		return "[" + strings.Join(mm, l.comma+" ") + "]"
	}
	return l.head(n)
}

func (l *layout) lines(n *tnode, indent int, prefix, comma string) []string {
	pad := strings.Repeat(l.pad, indent)
	switch n.kind {
	case kObj, kArr:
		open, cl := "{", "}"
		empty := len(n.props) == 0
		if n.kind == kArr {
			open, cl = "[", "]"
			empty = len(n.items) == 0
		}
		if empty {
			return []string{pad + prefix + open + []string{"", "", " "}[l.r.Intn(3)] + cl + comma + l.ann(n.ruleText())}
		}
		if l.compact > 0 && !n.annotated() && l.r.Intn(l.compact) == 0 {
			return []string{pad + prefix + l.flat(n) + comma}
		}
		out := []string{pad + prefix + open + l.ann(n.ruleText())}
		if n.kind == kArr {
			for i, it := range n.items {
				c := l.comma
				if i == len(n.items)-1 {
					c = ""
				}
				out = append(out, l.lines(it, indent+1, "", c)...)
			}
		} else {
			for i, p := range n.props {
				c := l.comma
				if i == len(n.props)-1 {
					c = ""
				}
				if l.split > 0 && !p.val.annotated() && l.r.Intn(l.split) == 0 {
					out = append(out, pad+l.pad+l.keyText(p)+strings.TrimRight(l.colon, " "))
					out = append(out, l.lines(p.val, indent+2, "", c)...)
				} else {
					out = append(out, l.lines(p.val, indent+1, l.keyText(p)+l.colon, c)...)
				}
			}
		}
		return append(out, pad+cl+comma)
	}
	return []string{pad + prefix + l.head(n) + comma + l.ann(n.ruleText())}
}

func (l *layout) text(n *tnode) string {
	ls := l.lines(n, 0, "", "")
	if l.comments > 0 {
		var out []string
		for _, x := range ls {
			if strings.HasSuffix(strings.TrimRight(x, " "), ":") { // no comment between a key and its value (error 301)
				out = append(out, x)
				continue
			}
			if l.r.Intn(l.comments) == 0 && !l.blockAnn {
				x += []string{" # a user comment", " #", "  # @zz | @a"}[l.r.Intn(3)]
			}
			out = append(out, x)
			if l.r.Intn(2*l.comments) == 0 {
				out = append(out, []string{"# a comment line", "", "   "}[l.r.Intn(3)])
			}
		}
		ls = out
	}
	s := strings.Join(ls, l.nl)
	if l.r.Intn(10) == 0 {
		s = []string{" ", l.nl, "\t"}[l.r.Intn(3)] + s
	}
	if l.r.Intn(4) == 0 {
		s += l.nl
	}
	return s
}

// ---- generator ----

var pool = []string{"@a", "@A", "@b", "@k", "@s", "@i", "@o", "@arr", "@m", "@zz", "@a-b", "@a_1"}

// sorts of the added types
const (
	sStr = iota
	sStrRule
	sInt
	sFlt
	sBool
	sNull
	sAlias
	sOrAlias
	sTypeRule
	sOrRule
	sObj
	sArr
	nSorts
)

var sortTok = map[int]string{sStr: `"abc"`, sStrRule: `"abc"`, sInt: "1", sFlt: "2.5", sBool: "true", sNull: "null"}

type tgen struct {
	r     *rand.Rand
	names []string // the table
	sorts []int
	missP int // per mille: a reference is drawn from the whole pool
	loose int // per mille: a reference ignores the sorts of the types (wrong JSON kinds, key types that are no strings)
	keyNo int
}

func (g *tgen) any() string {
	if len(g.names) == 0 || g.r.Intn(1000) < g.missP {
		return pool[g.r.Intn(len(pool))]
	}
	return g.names[g.r.Intn(len(g.names))]
}

// name of a type of one of the wanted sorts (otherwise any: `loose`)
func (g *tgen) of(want ...int) string {
	if g.r.Intn(1000) < g.missP || g.r.Intn(1000) < g.loose {
		return g.any()
	}
	var cand []string
	for i, s := range g.sorts {
		for _, w := range want {
			if s == w {
				cand = append(cand, g.names[i])
			}
		}
	}
	if len(cand) == 0 {
		return g.any()
	}
	return cand[g.r.Intn(len(cand))]
}

func (g *tgen) distinct(k int, f func() string) []string {
	var out []string
	for i := 0; i < 6*k && len(out) < k; i++ {
		x := f()
		dup := false
		for _, y := range out {
			dup = dup || x == y
		}
		if !dup {
			out = append(out, x)
		}
	}
	return out
}

func (g *tgen) scalar() *tnode {
	n := &tnode{kind: kScalar, tok: []string{"1", `"abc"`, "2.5", "true", "null", `"x"`, "-7"}[g.r.Intn(7)]}
	if n.tok == `"abc"` && g.r.Intn(3) == 0 {
		n.rule = []string{"minLength: 1", "maxLength: 5", "minLength: 3, maxLength: 3"}[g.r.Intn(3)]
	}
	if n.tok == "1" && g.r.Intn(4) == 0 {
		n.rule = []string{"min: 0", "max: 1", "min: 1, max: 1"}[g.r.Intn(3)]
	}
	return n
}

func (g *tgen) ref() *tnode {
	k := 1
	if g.r.Intn(5) < 2 {
		k = 2 + g.r.Intn(2)
	}
	nm := g.distinct(k, g.any)
	if len(nm) == 0 {
		nm = []string{g.any()}
	}
	return &tnode{kind: kRef, names: nm}
}

// the EXAMPLE of a rule literal: of the JSON kind of the named type when that is a scalar sort (unless `loose`)
func (g *tgen) exampleFor(name string) string {
	if g.r.Intn(1000) >= g.loose {
		for i, n := range g.names {
			if n == name {
				if t, ok := sortTok[g.sorts[i]]; ok {
					return t
				}
			}
		}
	}
	return []string{"1", `"abc"`, "2.5", "true", "null"}[g.r.Intn(5)]
}

func (g *tgen) typeRule() *tnode {
	nm := g.of(sStr, sStrRule, sInt, sFlt, sBool, sNull, sTypeRule, sOrRule)
	return &tnode{kind: kTypeRule, tok: g.exampleFor(nm), names: []string{nm}}
}

func (g *tgen) orRule() *tnode {
	nm := g.distinct(2+g.r.Intn(2), func() string { return g.of(sStr, sStrRule, sInt, sFlt, sBool, sNull, sTypeRule, sOrRule) })
	if len(nm) < 2 {
		return g.typeRule()
	}
	return &tnode{kind: kOrRule, tok: g.exampleFor(nm[g.r.Intn(len(nm))]), names: nm}
}

func (g *tgen) value(depth int) *tnode {
	x := g.r.Intn(100)
	switch {
	case x < 22:
		return g.scalar()
	case x < 52:
		return g.ref()
	case x < 64:
		return g.typeRule()
	case x < 74:
		return g.orRule()
	case x < 88 && depth > 0:
		return g.object(depth - 1)
	case depth > 0:
		return g.array(depth - 1)
	}
	return g.ref()
}

func (g *tgen) array(depth int) *tnode {
	n := &tnode{kind: kArr}
	for i := g.r.Intn(4); i > 0; i-- {
		n.items = append(n.items, g.value(depth))
	}
	return n
}

func (g *tgen) object(depth int) *tnode {
	n := &tnode{kind: kObj}
	for i := g.r.Intn(4); i > 0; i-- {
		g.keyNo++
		n.props = append(n.props, &tprop{key: fmt.Sprintf("p%d", g.keyNo), val: g.value(depth)})
	}
	if g.r.Intn(5) < 2 {
		ks := g.distinct(g.r.Intn(4), func() string { return g.of(sStr, sStrRule) })
		for _, k := range ks {
			at := g.r.Intn(len(n.props) + 1)
			p := &tprop{key: k, short: true, val: g.value(depth)}
			n.props = append(n.props[:at], append([]*tprop{p}, n.props[at:]...)...)
		}
	}
	if g.r.Intn(5) == 0 {
		n.addp = g.any()
	}
	return n
}

func (g *tgen) body(s int) *tnode {
	switch s {
	case sStr, sInt, sFlt, sBool, sNull:
		return &tnode{kind: kScalar, tok: sortTok[s]}
	case sStrRule:
		return &tnode{kind: kScalar, tok: `"abc"`, rule: "minLength: 1"}
	case sAlias:
		return &tnode{kind: kRef, names: []string{g.any()}}
	case sOrAlias:
		nm := g.distinct(2+g.r.Intn(2), g.any)
		if len(nm) == 0 {
			nm = []string{g.any()}
		}
		return &tnode{kind: kRef, names: nm}
	case sTypeRule:
		return g.typeRule()
	case sOrRule:
		return g.orRule()
	case sObj:
		return g.object(1 + g.r.Intn(2))
	}
	return g.array(1)
}

type tcase struct {
	root         string
	names, texts []string
	stats        []string
}

var scenarios = []string{"all_resolve", "first_of_root", "last_of_root", "inside_type_only", "or_shortcut_inside_type_only",
	"additionalProperties_only", "key_shortcut_only", "random", "random", "random"}

// targetedCase: see the rule text of the report.
func targetedCase(r *rand.Rand) tcase {
	g := &tgen{r: r, loose: []int{30, 250}[r.Intn(2)]}
	scen := scenarios[r.Intn(len(scenarios))]
	if scen == "random" {
		g.missP = []int{20, 60, 150, 400}[r.Intn(4)]
	}
	perm := r.Perm(len(pool))
	nt := 2 + r.Intn(7)
	if r.Intn(12) == 0 {
		nt = r.Intn(2)
	}
	for i := 0; i < nt; i++ {
		g.names = append(g.names, pool[perm[i]])
		x := r.Intn(100)
		s := sStr
		switch {
		case x < 18:
		case x < 26:
			s = sStrRule
		case x < 36:
			s = sInt
		case x < 40:
			s = sFlt
		case x < 44:
			s = sBool
		case x < 47:
			s = sNull
		case x < 57:
			s = sAlias
		case x < 64:
			s = sOrAlias
		case x < 72:
			s = sTypeRule
		case x < 78:
			s = sOrRule
		case x < 92:
			s = sObj
		default:
			s = sArr
		}
		g.sorts = append(g.sorts, s)
	}
	var bodies []*tnode
	for i := 0; i < nt; i++ {
		bodies = append(bodies, g.body(g.sorts[i]))
	}
	var root *tnode
	x := r.Intn(100)
	if scen == "additionalProperties_only" || scen == "key_shortcut_only" {
		x = 0
	}
	switch {
	case x < 55:
		root = g.object(1 + r.Intn(3))
	case x < 70:
		root = g.array(1 + r.Intn(2))
	case x < 82:
		root = g.ref()
	case x < 88:
		root = g.typeRule()
	case x < 93:
		root = g.orRule()
	default:
		root = g.scalar() // references inside the added types only
	}
	// the missing names of the scenario
	var absent []string
	for _, p := range perm[nt:] {
		absent = append(absent, pool[p])
	}
	miss := func() string { return absent[r.Intn(len(absent))] }
	rs := root.slots()
	var ts []slot
	var tsOwner []int
	for i, b := range bodies {
		for _, s := range b.slots() {
			ts = append(ts, s)
			tsOwner = append(tsOwner, i)
		}
	}
	byForm := func(ss []slot, f string) []slot {
		var out []slot
		for _, s := range ss {
			if s.form == f {
				out = append(out, s)
			}
		}
		return out
	}
	switch scen {
	case "first_of_root":
		if len(rs) > 0 {
			*rs[0].p = miss()
		}
	case "last_of_root":
		if len(rs) > 0 {
			*rs[len(rs)-1].p = miss()
		}
	case "inside_type_only":
		if len(ts) > 0 {
			*ts[r.Intn(len(ts))].p = miss()
		} else if nt > 0 {
			bodies[r.Intn(nt)] = &tnode{kind: kRef, names: []string{miss()}}
		}
	case "or_shortcut_inside_type_only":
		if c := byForm(ts, "orshortcut"); len(c) > 0 {
			*c[r.Intn(len(c))].p = miss()
		} else if nt > 0 {
			nm := []string{g.names[r.Intn(nt)], miss()}
			r.Shuffle(2, func(i, j int) { nm[i], nm[j] = nm[j], nm[i] })
			b := &tnode{kind: kRef, names: nm}
			if r.Intn(2) == 0 {
				b = &tnode{kind: kObj, props: []*tprop{{key: "q", val: b}}}
			}
			bodies[r.Intn(nt)] = b
		}
	case "additionalProperties_only":
		all := append(append([]slot{}, rs...), ts...)
		if c := byForm(all, "addprops"); len(c) > 0 && r.Intn(2) == 0 {
			*c[r.Intn(len(c))].p = miss()
		} else {
			root.addp = miss()
		}
	case "key_shortcut_only":
		all := append(append([]slot{}, rs...), ts...)
		if c := byForm(all, "keyshortcut"); len(c) > 0 && r.Intn(2) == 0 {
			*c[r.Intn(len(c))].p = miss()
		} else {
			at := r.Intn(len(root.props) + 1)
			p := &tprop{key: miss(), short: true, val: g.value(0)}
			root.props = append(root.props[:at], append([]*tprop{p}, root.props[at:]...)...)
		}
	}
	// texts
	out := tcase{}
	out.root = newLayout(r).text(root)
	for i := 0; i < nt; i++ {
		out.names = append(out.names, g.names[i])
		out.texts = append(out.texts, newLayout(r).text(bodies[i]))
	}
	order := r.Perm(nt) // the order of AddType is not the order of generation
	nn, tt := make([]string, nt), make([]string, nt)
	for i, j := range order {
		nn[i], tt[i] = out.names[j], out.texts[j]
	}
	out.names, out.texts = nn, tt
	// the input distribution
	table := map[string]bool{}
	for _, n := range g.names {
		table[n] = true
	}
	st := map[string]bool{"scenario_" + scen: true, fmt.Sprintf("table_size_%d", nt): true}
	missing := map[string]bool{}
	rs = root.slots()
	firstRoot := -1
	for i, s := range rs {
		st["form_in_root_"+s.form] = true
		if !table[*s.p] {
			missing[*s.p] = true
			st["missing_form_"+s.form] = true
			if firstRoot < 0 {
				firstRoot = i
			}
		}
	}
	inType := false
	for _, b := range bodies {
		for _, s := range b.slots() {
			st["form_in_type_"+s.form] = true
			if !table[*s.p] {
				missing[*s.p] = true
				st["missing_form_"+s.form] = true
				st["missing_in_type_form_"+s.form] = true
				inType = true
			}
		}
	}
	k := len(missing)
	if k > 4 {
		k = 4
	}
	st[fmt.Sprintf("missing_names_%d%s", k, map[bool]string{true: "_or_more", false: ""}[k == 4])] = true
	switch {
	case firstRoot < 0 && !inType:
		st["first_missing_nowhere"] = true
	case firstRoot < 0:
		st["first_missing_inside_a_type_only"] = true
	case len(rs) == 1:
		st["first_missing_is_the_only_reference_of_the_root"] = true
	case firstRoot == 0:
		st["first_missing_is_the_first_reference_of_the_root"] = true
	case firstRoot == len(rs)-1:
		st["first_missing_is_the_last_reference_of_the_root"] = true
	default:
		st["first_missing_in_the_middle_of_the_root"] = true
	}
	switch root.kind {
	case kObj:
		st["root_object"] = true
	case kArr:
		st["root_array"] = true
	case kRef:
		st["root_shortcut"] = true
	default:
		st["root_literal"] = true
	}
	for _, s := range g.sorts {
		st["type_sort_"+[]string{"string", "string_with_rule", "integer", "float", "boolean", "null", "alias", "or_alias", "type_rule", "or_rule", "object", "array"}[s]] = true
	}
	for s := range st {
		out.stats = append(out.stats, "t_"+s)
	}
	return out
}
