// Package c09bridge: harness command `c09-bridge` — a Lean-vs-Lean tie of the two models of the LINK CHECK (user type
// references resolved: 1302 `Type "n" not found`, 1301, 1303, 1304), with the real Check() next to every case.
//
// (A) `Compile.check` with the names kept (`CL.checkRootN`: the text-level pipeline scanner model -> loader model ->
// Compile -> CheckRootSchema) and (L) `LK.linkCheck` on the abstraction `CL.lkOf` of the same compiled trees (the
// subject of the C09 theorems) are run by the driver word `c09b` on the same schema TEXTS:
//
//	A <v> | L <v> | AGREE | DISAGREE … | OUTSIDE why | W <OK | ERR c | UNSUP why> | C <0|1> [| P <file-hex> <pos> | P -]
//
// Compared (every disagreement is a diff of level "correspondence"):
//
//	c09-bridge:models     the driver says DISAGREE
//	c09-bridge:A-vs-real  (A) against the real Check() canonicalised the way c09-links does (OK and the recursion
//	                      error 104 -> OK; 1302 + name; 1303 + name; 1304 + key; 1301); any other real outcome while
//	                      (A) gives a link verdict is a diff too
//	c09-bridge:position   when the reply has `P <file> <pos>`: file name and byte offset of the real 1302 error
package c09bridge

import (
	stderrors "errors"
	"fmt"
	"os"
	"regexp"
	"runtime"
	"strconv"
	"strings"
	"sync"
	"time"

	"github.com/jsightapi/jsight-schema-go-library/notations/jschema"

	"verifharness/vh"
	c09links "verifharness/x/c09links"
	e2e "verifharness/x/e2e"
)

const command = "c09-bridge"

type one struct {
	root         string
	names, texts []string
	stream       string
	stats        []string
}

// real: what the real library answers.
type real struct {
	canon   string // OK | MISS n | E1301 | E1303 n | E1304 k — or the raw outcome when !link
	link    bool   // canon is in the vocabulary of the link check
	code    int    // 0: OK; -1: an error without a code
	msg     string
	pos     uint
	file    string
	hasFile bool
	at      string // "AddType <name>" | "Check"
	raw     string // PANIC … / TIMEOUT
}

func (x real) String() string {
	switch {
	case x.raw != "":
		return x.raw
	case x.code == 0:
		return "OK"
	}
	f := "(no file)"
	if x.hasFile {
		f = strconv.Quote(x.file)
	}
	return fmt.Sprintf("%s [%s: code %d, message %q, position %d, file %s]", x.canon, x.at, x.code, x.msg, x.pos, f)
}

type docErr interface {
	ErrCode() int
	Message() string
	Position() uint
	Filename() string
}

type hasFiler interface{ HasFile() bool }

var (
	re1302 = regexp.MustCompile(`^Type "([^"]*)" not found`)
	re1303 = regexp.MustCompile(`recursion of type "([^"]*)"`)
	re1304 = regexp.MustCompile(`^Key shortcut "([^"]*)"`)
)

// classify: the canonicalisation of c09links.canonImpl.
func classify(err error, at string) real {
	if err == nil {
		return real{canon: "OK", link: true}
	}
	x := real{at: at, code: -1, msg: err.Error()}
	var de docErr
	if stderrors.As(err, &de) {
		x.code, x.msg, x.pos, x.file = de.ErrCode(), de.Message(), de.Position(), de.Filename()
		var hf hasFiler
		if stderrors.As(err, &hf) {
			x.hasFile = hf.HasFile()
		}
	}
	name := func(re *regexp.Regexp) string {
		if m := re.FindStringSubmatch(x.msg); m != nil {
			return m[1]
		}
		return "?"
	}
	if at != "Check" {
		x.canon = fmt.Sprintf("%s ERR %d", at, x.code)
		return x
	}
	switch {
	case x.code == 104, x.code == -1 && strings.Contains(x.msg, "Infinity recursion detected"):
		x.canon, x.link = "OK", true
	case x.code == 1302:
		x.canon, x.link = "MISS "+name(re1302), true
	case x.code == 1303:
		x.canon, x.link = "E1303 "+name(re1303), true
	case x.code == 1304:
		x.canon, x.link = "E1304 "+name(re1304), true
	case x.code == 1301:
		x.canon, x.link = "E1301", true
	case x.code == -1:
		x.canon = "ERR other"
	default:
		x.canon = fmt.Sprintf("ERR %d", x.code)
	}
	return x
}

const deadline = 20 * time.Second

// realCheck: AddType (in order) + Check of a fresh schema object, under recover and under a deadline.
func realCheck(c one) real {
	ch := make(chan real, 1)
	go func() {
		var out real
		raw := vh.Recover(func() string {
			s := jschema.New("root", c.root)
			for i, n := range c.names {
				if err := s.AddType(n, jschema.New(n, c.texts[i])); err != nil {
					out = classify(err, "AddType "+n)
					return ""
				}
			}
			out = classify(s.Check(), "Check")
			return ""
		})
		if raw != "" {
			out = real{raw: raw, canon: raw, code: -2}
		}
		ch <- out
	}()
	select {
	case x := <-ch:
		return x
	case <-time.After(deadline):
		return real{raw: "TIMEOUT", canon: "TIMEOUT", code: -2}
	}
}

func hx(s string) string {
	if s == "" {
		return "-"
	}
	return vh.Hex([]byte(s))
}

func request(c one) string {
	var sb strings.Builder
	sb.WriteString("c09b " + hx(c.root))
	fmt.Fprintf(&sb, " %d", len(c.names))
	for i, n := range c.names {
		sb.WriteString(" " + hx(n) + " " + hx(c.texts[i]))
	}
	return sb.String()
}

func input(c one) string {
	var sb strings.Builder
	sb.WriteString("[" + c.stream + "]\nSCHEMA (file \"root\"):\n" + c.root + "\nTYPES (AddType name = text; file = name):")
	for i, n := range c.names {
		sb.WriteString("\n" + n + " = " + c.texts[i])
	}
	return sb.String()
}

var mutAlphabet = []byte("{}[],:\"@/#*|- \n\\ae1.5tnAk")

// gen: case number i.
func gen(i int) []one {
	r := vh.NewRand(int64(i)*1000033 + 90909)
	var out []one
	switch i % 8 {
	case 0, 1:
		noise := 0
		if r.Intn(2) == 0 {
			noise = 3 + r.Intn(8)
		}
		t := e2e.BridgeTexts(r.Int63(), noise)
		c := one{root: t.Root, names: t.Names, texts: t.Texts, stream: "e2e", stats: t.Stats}
		if t.Noisy {
			c.stats = append(c.stats, "e2e_with_noise_rule")
		}
		out = append(out, c)
		if r.Intn(6) == 0 {
			m := c
			m.stream = "e2e-malformed"
			m.stats = nil
			m.root = string(vh.Mutate(r, []byte(c.root), mutAlphabet))
			out = append(out, m)
		}
	case 2, 3:
		root, names, texts, stream, ok := c09links.BridgeGraph(vh.Seed(), (i/8)*2+(i%8-2))
		if !ok {
			return nil
		}
		c := one{root: root, names: names, texts: texts, stream: "links", stats: []string{"links_" + stream}}
		if r.Intn(4) == 0 { // the tgraph printer's texts are LF only
			c.root = strings.ReplaceAll(c.root, "\n", "\r\n")
			c.stats = append(c.stats, "links_root_CRLF")
		}
		out = append(out, c)
	default:
		t := targetedCase(r)
		c := one{root: t.root, names: t.names, texts: t.texts, stream: "targeted", stats: t.stats}
		out = append(out, c)
		if r.Intn(8) == 0 {
			m := c
			m.stream = "malformed"
			m.stats = nil
			if len(c.texts) > 0 && r.Intn(2) == 0 {
				k := r.Intn(len(c.texts))
				m.texts = append([]string{}, c.texts...)
				m.texts[k] = string(vh.Mutate(r, []byte(c.texts[k]), mutAlphabet))
				m.stats = []string{"malformed_type_text"}
			} else {
				m.root = string(vh.Mutate(r, []byte(c.root), mutAlphabet))
				m.stats = []string{"malformed_root_text"}
			}
			out = append(out, m)
		}
	}
	return out
}

type result struct {
	c    one
	real real
}

// parts of the reply by tag; the comparison part has no tag of its own.
type reply struct {
	a, l, w, c, p   string
	verdict, detail string
	s               string // "1": the case lies in the class of C09_first_missing / C09_text_level_links_partial
	hasP, ok        bool
}

func parse(s string) reply {
	var r reply
	seen := map[string]bool{}
	for _, p := range strings.Split(s, " | ") {
		p = strings.TrimSpace(p)
		tag, rest := p, ""
		if k := strings.IndexByte(p, ' '); k >= 0 {
			tag, rest = p[:k], p[k+1:]
		}
		switch tag {
		case "A":
			r.a = rest
		case "L":
			r.l = rest
		case "W":
			r.w = rest
		case "C":
			r.c = rest
		case "S":
			r.s = rest
		case "P":
			r.p, r.hasP = rest, true
		case "AGREE", "DISAGREE", "OUTSIDE":
			r.verdict, r.detail = tag, rest
		default:
			return r
		}
		seen[tag] = true
	}
	r.ok = seen["A"] && seen["L"] && seen["W"] && seen["C"] && r.verdict != "" && r.a != "" && r.l != "" && (r.c == "0" || r.c == "1")
	return r
}

func firstWord(s string) string {
	f := strings.Fields(s)
	if len(f) == 0 {
		return "-"
	}
	return f[0]
}

func unhex(s string) (string, bool) {
	if s == "-" {
		return "", true
	}
	if len(s)%2 != 0 {
		return "", false
	}
	b := make([]byte, len(s)/2)
	for i := range b {
		v, err := strconv.ParseUint(s[2*i:2*i+2], 16, 8)
		if err != nil {
			return "", false
		}
		b[i] = byte(v)
	}
	return string(b), true
}

func Run(args []string) {
	rep := vh.NewReport(command, "Lean-vs-Lean tie of the two models of the link check on schema TEXTS (driver word `c09b`: scanner model -> loader model -> Compile; (A) CL.checkRootN = CheckRootSchema of Compile.check with the names kept, (L) LK.linkCheck on the abstraction CL.lkOf of the same compiled trees), the real AddType + Check() next to every case. Streams: e2e (the random type tables of e2e-text: root + 4 named types + 4 key types, half with noise rules; 1 in 6 also byte-mutated), links (the graphs of c09-links — corpus, structured, wild, keys, chain — printed as texts, ownership flattened to the root, enum rules dropped, 3 in 4 with allOf cleared and or rules reduced to user-type names; 1 root in 4 with CRLF), targeted (root = object / array / nested object of depth <= 3 / shortcut / or-shortcut / rule literal / scalar; members: scalars, type shortcuts, or-shortcuts of 2-3 names, literals with {type: \"@a\"} or {or: [\"@a\", \"@b\"]}, nested objects and arrays, 0-3 key shortcuts per object at random places, additionalProperties: \"@t\"; names from a pool of 12 (@a @A @b @k @s @i @o @arr @m @zz @a-b @a_1), the table a random subset of 2-8 (1 in 12: 0-1) added in random order; type texts: scalars of 5 kinds, string with a rule, alias, or-alias, literal with {type} / {or} — examples of the kind of the named type, key shortcuts naming string types: 97 % of the time in half of the cases, 75 % in the other half —, objects, arrays; scenarios: everything resolves / the FIRST reference of the root missing / the LAST one / one inside an added type only / only in an or-shortcut inside an added type / only as additionalProperties / only as a key shortcut / references drawn from the whole pool with probability 2, 6, 15, 40 %; one node per line, random layout: indentation (none, spaces, tab), spacing around ':' '|' ',', LF or CRLF, quoted rule names, // or /* */ annotations with notes, '#' comments at line ends and on own lines, blank lines, values on the line after the key, unannotated containers on one line, leading / trailing line breaks), malformed (1 in 8 targeted cases: a byte mutation of the root or of one type text). Diffs: the driver's DISAGREE (models); (A) against the real Check() canonicalised as in c09-links (A-vs-real; another real error code while (A) gives a link verdict is a diff as well); file name and byte offset of the real 1302 error against the model's (position; when the reply carries them). nontrivial = AGREE and (verdict other than OK or an added type's text names a type)")
	n := vh.Pick(22000, 366000)
	const batch = 4000
	total, outside := 0, 0
	for done := 0; done < n; done += batch {
		m := batch
		if n-done < m {
			m = n - done
		}
		results := make([][]result, m)
		var wg sync.WaitGroup
		next := make(chan int, m)
		for i := 0; i < m; i++ {
			next <- i
		}
		close(next)
		for w := runtime.NumCPU(); w > 0; w-- {
			wg.Add(1)
			go func() {
				defer wg.Done()
				for i := range next {
					for _, c := range gen(done + i) {
						results[i] = append(results[i], result{c, realCheck(c)})
					}
				}
			}()
		}
		wg.Wait()
		var reqs []string
		var rs []result
		for _, g := range results {
			for _, x := range g {
				reqs = append(reqs, request(x.c))
				rs = append(rs, x)
			}
		}
		for i, line := range vh.AskModelSharded(reqs, 16) {
			x := rs[i]
			total++
			rep.Stat("stream_" + x.c.stream)
			for _, s := range x.c.stats {
				rep.Stat(s)
			}
			if x.real.raw != "" {
				rep.Case(reqs[i], false)
				rep.AddDiff(vh.Diff{Component: command + ":real", Input: input(x.c), Impl: x.real.String(), Model: "AddType and Check return: " + line, Note: reqs[i]})
				continue
			}
			p := parse(line)
			if !p.ok {
				rep.Case(reqs[i], false)
				rep.AddDiff(vh.Diff{Component: command + ":reply", Input: input(x.c), Impl: x.real.String(), Model: line, Note: reqs[i], Level: "correspondence"})
				continue
			}
			refsInTypes := false
			for _, t := range x.c.texts {
				refsInTypes = refsInTypes || strings.Contains(t, "@")
			}
			rep.Case(reqs[i], p.verdict == "AGREE" && (p.a != "OK" || refsInTypes))
			rep.Stat("A_" + firstWord(p.a))
			rep.Stat("A_" + firstWord(p.a) + "_" + x.c.stream)
			rep.Stat("L_" + firstWord(p.l))
			rep.Stat("verdict_" + p.verdict)
			rep.Stat("verdict_" + p.verdict + "_" + x.c.stream)
			rep.Stat("W_" + strings.Join(strings.Fields(p.w + " - -")[:2], "_"))
			rep.Stat("C_" + p.c)
			if p.s != "" {
				rep.Stat("S_" + p.s)
			}
			if x.real.code > 0 {
				rep.Stat(fmt.Sprintf("real_%d", x.real.code))
			} else if x.real.code == 0 {
				rep.Stat("real_OK")
			} else {
				rep.Stat("real_error_without_code")
			}
			switch p.verdict {
			case "OUTSIDE":
				outside++
				rep.Stat("OUTSIDE_" + firstWord(p.detail))
				if x.c.stream == "targeted" {
					rep.Stat("OUTSIDE_targeted_" + strings.Join(strings.Fields(p.detail), "_"))
					if dbg := os.Getenv("C09B_DEBUG"); dbg != "" && strings.Contains(p.detail, dbg) {
						fmt.Println("DEBUG", line, "\n"+input(x.c), "\nREAL", x.real.String())
					}
				}
			case "AGREE":
				if p.a != "OK" {
					rep.Stat("agree_nonOK")
				}
				if p.c == "1" {
					rep.Stat("agree_in_class")
				}
			case "DISAGREE":
				rep.AddDiff(vh.Diff{Component: command + ":models", Input: input(x.c), Impl: "real Check() = " + x.real.String(),
					Model: line, Note: reqs[i], Level: "correspondence"})
			}
			// (A) against the real library
			aw := firstWord(p.a)
			if aw != "OUT" && aw != "-" {
				if x.real.link && x.real.canon == p.a {
					rep.Stat("A_equals_real")
				} else {
					rep.Stat("A_differs_from_real")
					rep.AddDiff(vh.Diff{Component: command + ":A-vs-real", Input: input(x.c), Impl: "real Check() = " + x.real.String(),
						Model: "A = " + p.a + " (" + line + ")", Note: reqs[i], Level: "correspondence"})
				}
			}
			// the place of the 1302 error
			switch {
			case !p.hasP:
				rep.Stat("P_part_missing")
			case p.p == "-" || p.p == "":
				rep.Stat("P_absent")
			default:
				f := strings.Fields(p.p)
				file, okf := "", false
				pos := uint64(0)
				var perr error
				if len(f) == 2 {
					file, okf = unhex(f[0])
					pos, perr = strconv.ParseUint(f[1], 10, 64)
				}
				if len(f) != 2 || !okf || perr != nil {
					rep.AddDiff(vh.Diff{Component: command + ":reply", Input: input(x.c), Impl: x.real.String(), Model: line, Note: reqs[i], Level: "correspondence"})
					break
				}
				if x.real.code != 1302 {
					rep.Stat("P_given_but_real_is_not_1302") // reported by A-vs-real
					break
				}
				rep.Stat("P_compared")
				if file == "root" {
					rep.Stat("P_in_root")
				} else {
					rep.Stat("P_in_type")
				}
				if !x.real.hasFile || x.real.file != file || uint64(x.real.pos) != pos {
					rep.AddDiff(vh.Diff{Component: command + ":position", Input: input(x.c), Impl: "real Check() = " + x.real.String(),
						Model: fmt.Sprintf("file %q, position %d (%s)", file, pos, line), Note: reqs[i], Level: "correspondence"})
				}
			}
		}
	}
	if total > 0 {
		rep.Extra["outside_pct"] = fmt.Sprintf("%.1f", 100*float64(outside)/float64(total))
	}
	rep.Finish()
}
