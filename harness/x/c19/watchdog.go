package c19

// Watchdog of c19-omap: every op of every history runs under a deadline.
//
// Fast path: the worker goroutines call the maps directly and publish a
// heartbeat (history, index of the op they are about to run) in their slot; one
// watchdog goroutine polls the slots.  A slot that shows the same op of the
// same history for longer than the deadline is SUSPECT.
//
// Confirmation: the suspect history is replayed on every kind of map, each op
// in a goroutine of its own under a per-op deadline (guardedPublic; the hook,
// one call per history, is bisected for the shortest prefix that does not
// return: guardedHook).  Histories are single-goroutine and deterministic, so
// an op that really blocks does so again; "blocks" = no progress for the
// deadline AND the goroutine is parked (goroutine dump: waiting for a lock,
// not running / runnable), seen twice.  A stall that is not confirmed (machine
// overload) is counted in the stats and is no diff.
//
// A confirmed history yields one diff "BLOCKED: op #i …" per kind of map, the
// worker stuck in it is given up (its goroutine leaks), and after maxBlocked
// such histories the run is ended early (every one costs a deadline).

import (
	"fmt"
	"runtime"
	"strings"
	"sync"
	"sync/atomic"
	"time"

	nj "github.com/jsightapi/jsight-schema-go-library/notations/jschema"

	"verifharness/vh"
)

const (
	stallDeadline = 2 * time.Second        // fast path: no progress for this long = suspect
	opDeadline    = 500 * time.Millisecond // replay: one op (microseconds of work) in its own goroutine
	maxBlocked    = 3                      // confirmed blocked histories before the run is ended
)

type hist struct {
	kind string
	ops  []string
}

// slot is the heartbeat of one worker.
type slot struct {
	h    atomic.Pointer[hist] // nil: not inside a history
	gen  atomic.Uint64        // bumped at the start of every history
	opi  atomic.Int32         // op about to run (-1 before the first, len(ops) = final observation)
	gone atomic.Bool          // given up by the watchdog
	once sync.Once
	done func() // the worker's wg.Done
}

func (s *slot) begin(kind string, ops []string) {
	if s == nil {
		return
	}
	s.opi.Store(-1)
	s.gen.Add(1)
	s.h.Store(&hist{kind, ops})
}
func (s *slot) at(i int, _ []string) { s.opi.Store(int32(i)) }
func (s *slot) end() {
	if s != nil {
		s.h.Store(nil)
	}
}
func (s *slot) finish() { s.once.Do(s.done) }

// progressFn is the heartbeat callback handed to runPublic (nil for no slot).
func (s *slot) progressFn() func(int, []string) {
	if s == nil {
		return nil
	}
	return s.at
}

type watchdog struct {
	mu      sync.Mutex
	slots   []*slot
	abort   atomic.Bool
	abortCh chan struct{}
	quit    chan struct{}
	report  func(ds []vh.Diff, stat string)

	blocked, unconfirmed atomic.Int32
}

func newWatchdog(report func(ds []vh.Diff, stat string)) *watchdog {
	w := &watchdog{abortCh: make(chan struct{}), quit: make(chan struct{}), report: report}
	go w.run()
	return w
}

func (w *watchdog) newSlot(done func()) *slot {
	s := &slot{done: done}
	w.mu.Lock()
	w.slots = append(w.slots, s)
	w.mu.Unlock()
	return s
}

func (w *watchdog) stop() { close(w.quit) }

func (w *watchdog) run() {
	type seen struct {
		gen   uint64
		opi   int32
		since time.Time
	}
	last := map[*slot]*seen{}
	tick := time.NewTicker(stallDeadline / 4)
	defer tick.Stop()
	for {
		select {
		case <-w.quit:
			return
		case <-tick.C:
		}
		w.mu.Lock()
		slots := append([]*slot(nil), w.slots...)
		w.mu.Unlock()
		for _, s := range slots {
			if s.gone.Load() {
				continue
			}
			h := s.h.Load()
			if h == nil {
				delete(last, s)
				continue
			}
			g, o := s.gen.Load(), s.opi.Load()
			now := time.Now()
			l := last[s]
			if l == nil || l.gen != g || l.opi != o {
				last[s] = &seen{g, o, now}
				continue
			}
			if now.Sub(l.since) < stallDeadline {
				continue
			}
			if w.abort.Load() {
				continue
			}
			// suspect: confirm by a guarded replay on every kind of map
			ds := w.confirmSuspect(h.ops)
			if len(ds) == 0 {
				w.unconfirmed.Add(1)
				w.report(nil, "watchdog_stall_not_reproduced")
				l.since = time.Now()
				continue
			}
			s.gone.Store(true)
			nb := w.blocked.Add(1)
			w.report(ds, "watchdog_blocked_histories")
			s.finish()
			if nb >= maxBlocked {
				w.abort.Store(true)
				close(w.abortCh)
			}
		}
	}
}

// goid returns the id of the calling goroutine (first line of its stack).
func goid() string {
	var buf [64]byte
	f := strings.Fields(string(buf[:runtime.Stack(buf[:], false)]))
	if len(f) > 1 {
		return f[1]
	}
	return "?"
}

// goState looks goroutine id up in a dump of all stacks: its wait state (the
// text in brackets of its header: "running", "runnable", "sync.RWMutex.Lock",
// "semacquire", …) and its innermost frames.  ok = false: no such goroutine.
func goState(id string) (state, frames string, ok bool) {
	buf := make([]byte, 1<<20)
	for {
		n := runtime.Stack(buf, true)
		if n < len(buf) {
			buf = buf[:n]
			break
		}
		buf = make([]byte, 2*len(buf))
	}
	head := "goroutine " + id + " ["
	for _, blk := range strings.Split(string(buf), "\n\n") {
		if !strings.HasPrefix(blk, head) {
			continue
		}
		lines := strings.Split(blk, "\n")
		state = strings.TrimSuffix(strings.TrimPrefix(lines[0], head), "]:")
		if i := strings.IndexByte(state, ','); i >= 0 {
			state = state[:i] // drop ", 2 minutes"
		}
		var fr []string
		for i := 1; i+1 < len(lines) && len(fr) < 5; i += 2 {
			f := lines[i]
			if j := strings.LastIndexByte(f, '('); j > 0 {
				f = f[:j]
			}
			if strings.HasPrefix(f, "runtime.") || strings.HasPrefix(f, "sync.runtime_") || strings.HasPrefix(f, "internal/") {
				continue
			}
			fr = append(fr, f)
		}
		return state, strings.Join(fr, " <- "), true
	}
	return "", "", false
}

// parked: the goroutine waits for a lock or a channel (wait reasons of the
// runtime: "sync.RWMutex.Lock", "sync.Mutex.Lock", "semacquire", "chan receive",
// "select", …): it is neither running nor waiting for a processor, the GC or
// the network.  Only such a goroutine counts as blocked; one that is merely
// slow (overloaded machine) does not.
func parked(state string) bool {
	return strings.HasPrefix(state, "sync.") || strings.HasPrefix(state, "semacquire") ||
		strings.HasPrefix(state, "chan ") || strings.HasPrefix(state, "select")
}

// guard waits for the goroutine started by start (which reports its id first,
// then its progress through beat, and finally closes fin) under the per-op
// deadline.  It returns where == "" when the goroutine finished; otherwise the
// goroutine made no progress for opDeadline AND was parked in the same wait
// state at two looks opDeadline apart: where = that state and its frames.
type beat struct {
	i   int
	out []string
}

func guard(id <-chan string, prog <-chan beat, fin <-chan struct{}) (last beat, where string) {
	last = beat{i: -1}
	gid := ""
	t := time.NewTimer(opDeadline)
	defer t.Stop()
	strikes, prevState := 0, ""
	for {
		select {
		case gid = <-id:
			id = nil
		case b := <-prog:
			last, strikes = b, 0
		case <-fin:
			return last, ""
		case <-t.C:
			// no progress for opDeadline (or beats are queued that were not read yet)
			select {
			case b := <-prog:
				last, strikes = b, 0
			case <-fin:
				return last, ""
			default:
				state, frames, ok := goState(gid)
				if gid != "" && ok && parked(state) && (strikes == 0 || state == prevState) {
					strikes++
					prevState = state
					if strikes >= 2 {
						return last, "goroutine state [" + state + "] in " + frames
					}
				} else {
					strikes = 0
				}
			}
			t.Reset(opDeadline)
		}
	}
}

// guardedPublic replays a history on one public map, every op under the
// deadline.  where == "": the history returned (out = its observations);
// otherwise blockedAt = index of the op that did not return (len(ops) = the
// final observation) and out = the observations made before it.
func guardedPublic(kind string, ops []string) (out []string, blockedAt int, where string) {
	id := make(chan string, 1)
	prog := make(chan beat, len(ops)+2)
	fin := make(chan struct{})
	var res []string
	go func() {
		id <- goid()
		res = runPublic(kind, ops, true, nil, func(i int, o []string) { prog <- beat{i, append([]string(nil), o...)} })
		close(fin)
	}()
	last, where := guard(id, prog, fin)
	if where == "" {
		return res, -1, ""
	}
	return last.out, last.i, where
}

// hookReturns runs the hook on ops in a goroutine under the deadline.
func hookReturns(ops []string) ([]string, string) {
	id := make(chan string, 1)
	fin := make(chan struct{})
	var res []string
	go func() {
		id <- goid()
		res = nj.VerifConstraintsOps(ops)
		close(fin)
	}()
	if _, where := guard(id, nil, fin); where != "" {
		return nil, where
	}
	return res, ""
}

// guardedHook replays a history on schema.Constraints through the hook (one
// call per history): when the call does not return, the shortest prefix that
// does not return either is searched (not returning is monotone in the prefix).
// Its last op ops[blockedAt] is the one that blocks (or the hook's final
// EachSafe + Len after it); blockedAt = -1 with an empty history.
func guardedHook(ops []string) (out []string, blockedAt int, where string) {
	o, where := hookReturns(ops)
	if where == "" {
		return o, -1, ""
	}
	lo, hi := 0, len(ops) // ops[:hi] does not return; the smallest such length is in [lo, hi]
	for lo < hi {
		mid := (lo + hi) / 2
		if _, w := hookReturns(ops[:mid]); w == "" {
			lo = mid + 1
		} else {
			hi, where = mid, w
		}
	}
	if hi == 0 {
		return nil, -1, where
	}
	if o, w := hookReturns(ops[:hi-1]); w == "" && len(o) > 0 {
		out = o[:len(o)-1] // without the prefix' "final …" line
	}
	return out, hi - 1, where
}

// shrinkBlocked reduces a history that blocks on kind (delta debugging on the
// ops before the one that blocks; a candidate is kept when some op of it does
// not return, and is cut after that op).  Every kept candidate costs two
// deadlines, hence the budget.
func shrinkBlocked(kind string, ops []string, budget int) []string {
	blocks := func(c []string) ([]string, bool) {
		_, at, where := guardedPublic(kind, c)
		if where == "" {
			return nil, false
		}
		if at >= 0 && at < len(c) {
			c = c[:at+1]
		}
		return c, true
	}
	cur, ok := blocks(ops)
	if !ok {
		return ops
	}
	n := 2
	for len(cur) >= 2 && budget > 0 {
		body := len(cur) - 1 // the last op (the one that blocks) stays
		chunk := (body + n - 1) / n
		reduced := false
		for start := 0; start < body && budget > 0; start += chunk {
			end := start + chunk
			if end > body {
				end = body
			}
			cand := append(append([]string(nil), cur[:start]...), cur[end:]...)
			if c, ok := blocks(cand); ok {
				budget--
				cur, reduced = c, true
				if n > 2 {
					n--
				}
				break
			}
		}
		if !reduced {
			if chunk <= 1 {
				break
			}
			n *= 2
			if n > body {
				n = body
			}
		}
	}
	return cur
}

// confirmSuspect: confirmBlocked, and for the first confirmed history of the
// run a shrunk history in its place (when that blocks as well).
func (w *watchdog) confirmSuspect(ops []string) []vh.Diff {
	ds := confirmBlocked(ops)
	if len(ds) == 0 || w.blocked.Load() > 0 {
		return ds
	}
	for _, kind := range mapKinds {
		if !strings.HasPrefix(ds[0].Input, kind+": ") {
			continue
		}
		small := shrinkBlocked(kind, ops, 14)
		if len(small) < len(ops) {
			if ds2 := confirmBlocked(small); len(ds2) > 0 {
				for i := range ds2 {
					ds2[i].Note = strings.TrimSpace(ds2[i].Note + " shrunk from the generated history " + strings.Join(ops, ";"))
				}
				return ds2
			}
		}
		break
	}
	return ds
}

// confirmBlocked replays ops on every kind of map (in parallel) and returns
// one diff per kind on which an op does not return.
func confirmBlocked(ops []string) []vh.Diff {
	ref, _ := runRef(ops)
	cops := hookOps(ops)
	cref := ref
	if len(cops) != len(ops) {
		cref, _ = runRef(cops)
	}
	diffs := make([]*vh.Diff, len(mapKinds)+1)
	var wg sync.WaitGroup
	for i, kind := range mapKinds {
		wg.Add(1)
		go func(i int, kind string) {
			defer wg.Done()
			if out, at, where := guardedPublic(kind, ops); where != "" {
				diffs[i] = blockedDiff(kind, ops, ref, out, at, where)
			}
		}(i, kind)
	}
	wg.Add(1)
	go func() {
		defer wg.Done()
		if out, at, where := guardedHook(cops); where != "" {
			d := blockedDiff("schema.Constraints (hook VerifConstraintsOps)", cops, cref, out, at, where)
			d.Note = "the hook runs a history in one call: the op was found as the end of the shortest prefix that does not return (the hook's final EachSafe + Len after that op included)"
			diffs[len(mapKinds)] = d
		}
	}()
	wg.Wait()
	var ds []vh.Diff
	for _, d := range diffs {
		if d != nil {
			ds = append(ds, *d)
		}
	}
	return ds
}

func blockedDiff(kind string, ops, ref, before []string, at int, where string) *vh.Diff {
	op, want := "final observation (EachSafe + Len)", ""
	if at < 0 {
		at = len(ops)
	}
	if at >= 0 && at < len(ops) {
		op = ops[at]
	}
	if at >= 0 && at < len(ref) {
		want = ref[at]
	}
	run := ops
	if at < len(ops) {
		run = ops[:at+1] // the ops after the one that blocks are never reached
	}
	return &vh.Diff{Component: "C19-ref", Input: kind + ": " + strings.Join(run, ";"),
		Impl: fmt.Sprintf("BLOCKED: op #%d (%s) does not return (no progress for %v, %s; reference: %q); the ops before it returned: %s",
			at, op, 2*opDeadline, where, want, strings.Join(before, " | ")),
		Model: "every op returns; insertion-ordered association list: " + strings.Join(ref, " | ")}
}
