package c19

// BIG stream: histories over maps with MANY live entries.  The exhaustive and
// the random stream live on 3 / 6 keys; the property quantifies over any
// operation sequence, and an implementation may treat a map differently once it
// outgrows some capacity (inline buffers, pre-sized slices, chunked iteration,
// growth of the order slice).  A big history works in rounds: the map is filled
// to a target size (the sizes around powers of two, 100, and a few in between),
// then a handful of ops runs on it — Filter (all predicates), Map, Find, Each,
// their early exits stopped at / around the size and the power-of-two
// positions, Delete / Update / Get / GetValue / Has of the entry at such a
// position or of an absent key, EachSafe, Len, MarshalJSON — then the map is
// grown or shrunk (Delete at random positions) to the next target.  Values are
// 0 … 9 with a per-history share of odd ones (50 %, 90 %, 100 %), so that the
// value predicate drops / Find meets entries at every depth.  Key numbers are
// taken ascending, descending or shuffled from a window that starts at 0 or
// sits across a byte / word boundary of the number.

import (
	"fmt"
	"math/rand"
	"strings"
	"sync"
	"time"

	"verifharness/vh"
)

var bigSizes = []int{15, 16, 17, 31, 32, 33, 63, 64, 65, 100, 127, 128, 129, 255, 256, 257}

var bigOffsets = []int{0, 0, 0, 250, 65530, 1<<31 - 6}

// bigSeq draws the i-th big history (first target: the i-th size, cyclically).
func bigSeq(r *rand.Rand, i int) (ops []string, maxLive int) {
	g := &refMap{}
	emit := func(op string) {
		ops = append(ops, op)
		g.apply(op)
		if len(g.es) > maxLive {
			maxLive = len(g.es)
		}
	}
	oddPct := []int{50, 90, 100}[r.Intn(3)]
	val := func() int {
		v := 2 * r.Intn(5)
		if r.Intn(100) < oddPct {
			v++
		}
		return v
	}
	rounds := 1 + r.Intn(3)
	targets := []int{bigSizes[i%len(bigSizes)]}
	top := targets[0]
	for len(targets) < rounds {
		t := bigSizes[r.Intn(len(bigSizes))]
		if r.Intn(4) == 0 {
			t = 1 + r.Intn(40)
		}
		targets = append(targets, t)
		if t > top {
			top = t
		}
	}
	// the window of key numbers, in the order in which fresh keys are taken
	off := bigOffsets[r.Intn(len(bigOffsets))]
	pool := make([]int, top+12)
	for j := range pool {
		pool[j] = off + j
	}
	switch r.Intn(3) {
	case 1:
		for a, b := 0, len(pool)-1; a < b; a, b = a+1, b-1 {
			pool[a], pool[b] = pool[b], pool[a]
		}
	case 2:
		r.Shuffle(len(pool), func(a, b int) { pool[a], pool[b] = pool[b], pool[a] })
	}
	next := 0
	fresh := func() int {
		// a key that is not live: a deleted one (re-Set goes to the END) or the next of the pool
		for tries := 0; tries < 4 && len(g.deleted) > 0 && r.Intn(3) == 0; tries++ {
			k := pool[r.Intn(len(pool))]
			if g.deleted[k] && g.idx(k) < 0 {
				return k
			}
		}
		for tries := 0; tries < len(pool); tries++ {
			k := pool[next%len(pool)]
			next++
			if g.idx(k) < 0 {
				return k
			}
		}
		next++
		return off + len(pool) + next // every key of the window is live: a number beyond it
	}
	// positions that matter: the ends, around the powers of two, around the size
	pos := func() int {
		n := len(g.es)
		c := []int{0, 1, 14, 15, 16, 17, 31, 32, 33, 63, 64, 65, n - 2, n - 1, n, n + 1, n / 2}
		p := c[r.Intn(len(c))]
		if r.Intn(3) == 0 && n > 0 {
			p = r.Intn(n)
		}
		if p < 0 {
			p = 0
		}
		return p
	}
	keyAt := func() int {
		p := pos()
		if p < len(g.es) && r.Intn(8) != 0 {
			return g.es[p].k
		}
		return pool[r.Intn(len(pool))] // live or absent
	}
	prd := func() int {
		switch x := r.Intn(100); {
		case x < 50:
			return 1
		case x < 70:
			return 0
		case x < 85:
			return 3
		}
		return 2
	}
	midOp := func() string {
		switch x := r.Intn(100); {
		case x < 22:
			return fmt.Sprintf("F %d", prd())
		case x < 30:
			return "M"
		case x < 37:
			return fmt.Sprintf("N %d", pos())
		case x < 44:
			return fmt.Sprintf("X %d", pos())
		case x < 51:
			return fmt.Sprintf("W %d", prd())
		case x < 55:
			return fmt.Sprintf("Q %d", prd())
		case x < 62:
			return fmt.Sprintf("D %d", keyAt())
		case x < 67:
			return fmt.Sprintf("U %d", keyAt())
		case x < 71:
			return fmt.Sprintf("S %d %d", keyAt(), val()) // re-Set of a live key keeps its place
		case x < 74:
			return fmt.Sprintf("G %d", keyAt())
		case x < 77:
			return fmt.Sprintf("V %d", keyAt())
		case x < 80:
			return fmt.Sprintf("H %d", keyAt())
		case x < 84:
			return "L"
		case x < 88:
			return "E"
		case x < 92:
			return "A"
		}
		return "J"
	}
	for _, t := range targets {
		for guard := 0; len(g.es) != t && guard < 4*len(pool); guard++ {
			if len(g.es) < t {
				emit(fmt.Sprintf("S %d %d", fresh(), val()))
				if r.Intn(25) == 0 && len(g.es) > 1 {
					emit(midOp()) // now and then an op while the map grows
				}
			} else {
				emit(fmt.Sprintf("D %d", g.es[pos()%len(g.es)].k))
			}
		}
		for n := 1 + r.Intn(6); n > 0; n-- {
			emit(midOp())
		}
	}
	return ops, maxLive
}

func sizeBucket(n int) string {
	for _, b := range []int{16, 32, 64, 128, 256} {
		if n <= b {
			return fmt.Sprintf("le%d", b)
		}
	}
	return "gt256"
}

// Shrinking.  A diff on a long history (big / random stream) is hard to replay
// by hand: the diffs the report keeps are reduced at the end of the run by delta
// debugging over the ops (a candidate is kept when the same map under the same
// key strings still differs from the reference on it).  Every candidate runs in
// a goroutine under a deadline (a change of the library may make an op block:
// then shrinking is given up), each diff under a budget of candidates and time.
const (
	shrinkMinOps = 40
	shrinkBudget = 1500
)

type shrinkJob struct {
	ops   []string
	run   func(c []string, ref []string) []string
	label func(c []string) string
}

var shrinkJobs sync.Map // diff Input -> *shrinkJob

func shrinkLater(input string, ops []string, run func(c []string, ref []string) []string, label func(c []string) string) {
	if len(ops) > shrinkMinOps {
		shrinkJobs.Store(input, &shrinkJob{ops, run, label})
	}
}

// shrinkKept replaces the kept diffs that have a shrink job by their reduced form.
func shrinkKept(rep *vh.Report) {
	var wg sync.WaitGroup
	for i := range rep.Diffs {
		v, ok := shrinkJobs.Load(rep.Diffs[i].Input)
		if !ok {
			continue
		}
		wg.Add(1)
		go func(d *vh.Diff, j *shrinkJob) {
			defer wg.Done()
			small := shrinkHistory(j.ops, j.run)
			if small == nil {
				return
			}
			ref, _ := runRef(small)
			got := j.run(small, ref)
			if sameObs(got, ref) {
				return
			}
			d.Note = strings.TrimSpace(d.Note + fmt.Sprintf(" shrunk (delta debugging; same map, same key strings) from the generated history of %d ops: %s", len(j.ops), strings.Join(j.ops, ";")))
			d.Input = j.label(small) + ": " + strings.Join(small, ";")
			d.Impl = firstDiff(got, ref, small)
			d.Model = "insertion-ordered association list: " + strings.Join(ref, " | ")
		}(&rep.Diffs[i], v.(*shrinkJob))
	}
	wg.Wait()
}

func shrinkHistory(ops []string, run func(c []string, ref []string) []string) []string {
	budget, gaveUp := shrinkBudget, false
	deadline := time.Now().Add(20 * time.Second)
	differs := func(c []string) bool {
		if gaveUp || budget <= 0 || time.Now().After(deadline) {
			return false
		}
		budget--
		ch := make(chan bool, 1)
		go func() {
			defer func() {
				if recover() != nil {
					ch <- true
				}
			}()
			ref, _ := runRef(c)
			ch <- !sameObs(run(c, ref), ref)
		}()
		select {
		case d := <-ch:
			return d
		case <-time.After(3 * time.Second):
			gaveUp = true
			return false
		}
	}
	cur := append([]string(nil), ops...)
	if !differs(cur) {
		return nil
	}
	for chunk := (len(cur) + 1) / 2; chunk >= 1; {
		removed := false
		for start := 0; start < len(cur); {
			end := start + chunk
			if end > len(cur) {
				end = len(cur)
			}
			cand := append(append([]string(nil), cur[:start]...), cur[end:]...)
			if len(cand) > 0 && differs(cand) {
				cur, removed = cand, true
			} else {
				start = end
			}
		}
		if chunk == 1 && !removed {
			break
		}
		if chunk > 1 {
			chunk = (chunk + 1) / 2
		}
	}
	if len(cur) == len(ops) {
		return nil
	}
	return cur
}
