package c19

import (
	"fmt"
	"math/rand"
	"os"
	"runtime"
	"strconv"
	"strings"
	"sync"
	"sync/atomic"
	"time"

	"verifharness/vh"
	"verifharness/x/racekit"
)

// RunRace is the command c19-omap-race of cmd/vhrace (race build): 8
// goroutines hammer ONE public ordered map with random operations.  Demanded:
// no data-race report, no panic, callbacks never see an ordered key without a
// value, an iteration ended early (Each / Map whose callback returns an error,
// Find at its first match) returns the callback's error after the calls up to
// the stop, every round terminates (watchdog: a round whose goroutines are all
// parked on the map's lock is the diff BLOCKED), and the final state satisfies
// the invariants (order duplicate-free, Len = number of iterated keys, every
// iterated key present, JSON lists the same keys in the same order).
func RunRace(args []string) {
	for _, a := range args {
		if a == "--child" {
			raceChild()
			return
		}
	}
	rep := vh.NewReport("c19-omap-race",
		"rounds of 8 goroutines x 80 random ops (Set/Update/Delete/Filter/Map/Find/Each/EachSafe/Get/GetValue/Has/Len/MarshalJSON; Each and Map "+
			"also with a callback that returns an error at a random entry; random "+
			"runtime.Gosched) on one shared jschema.ASTNodes or jschema.RuleASTNodes, in a child process under the race detector; every round "+
			"under a watchdog (goroutines parked on the map's lock = BLOCKED); "+
			"non-trivial = at least one live key was deleted or filtered out and the final map is non-empty")
	if !racekit.Enabled {
		rep.Extra["race_detector"] = "OFF: binary built without -race (build cmd/vhrace with CGO_ENABLED=1 go build -race)"
		rep.Stat("race_detector_off")
	} else {
		rep.Extra["race_detector"] = "on"
	}
	res, races, problem := racekit.RunChild([]string{"c19-omap-race", "--child"}, nil, time.Duration(vh.Pick(120, 900))*time.Second)
	if res != nil {
		res.Merge(rep, "")
	}
	if problem != "" {
		impl := problem
		if problem == "TIMEOUT" {
			impl = "TIMEOUT"
		}
		rep.AddDiff(vh.Diff{Component: "C19-conc", Input: "child run `vhrace c19-omap-race --child` with VERIF_SEED=" + fmt.Sprint(vh.Seed()), Impl: impl,
			Model: "the concurrent scenario terminates normally"})
	}
	for _, r := range races {
		rep.AddDiff(vh.Diff{Component: "C19-race", Input: "8 goroutines, random ops on one shared ordered map (vhrace c19-omap-race, VERIF_SEED=" + fmt.Sprint(vh.Seed()) + ")",
			Impl: fmt.Sprintf("DATA RACE x%d: %s", r.Count, r.Text), Model: "no data race: every method takes the map's RWMutex"})
	}
	rep.Stats["distinct_race_reports"] = len(races)
	rep.Finish()
}

func raceChild() {
	res := racekit.NewChildResult()
	rounds := vh.Pick(300, 6000)
	const G = 8
	const N = 80
	for round := 0; round < rounds; round++ {
		kind := mapKinds[round%len(mapKinds)]
		m := newMap(kind)
		var bad atomic.Value // first invariant violation seen inside a callback / a panic
		var removed atomic.Int64
		var wg sync.WaitGroup
		start := make(chan struct{})
		for g := 0; g < G; g++ {
			wg.Add(1)
			go func(g int) {
				defer wg.Done()
				defer func() {
					if r := recover(); r != nil {
						bad.CompareAndSwap(nil, fmt.Sprintf("PANIC %v", r))
					}
				}()
				r := vh.NewRand(19700000 + int64(round)*64 + int64(g))
				<-start
				for i := 0; i < N; i++ {
					hammerOp(m, r, &bad, &removed)
					if r.Intn(3) == 0 {
						runtime.Gosched()
					}
				}
			}(g)
		}
		close(start)
		key := fmt.Sprintf("round %d kind %s", round, kind)
		if where := waitRound(&wg); where != "" {
			res.Case(key, true)
			res.AddDiff(vh.Diff{Component: "C19-conc", Input: fmt.Sprintf("%s, %d goroutines x %d ops, PRNG vh.NewRand(19700000+round*64+g)", key, G, N),
				Impl:  "BLOCKED: the round does not terminate: " + where,
				Model: "every op returns: an iteration that ends early (callback error, first match) releases the map's lock like one that runs to the end"})
			res.Extra["ended_early"] = "a round blocked; its goroutines leak, the child stopped after " + key
			res.Print()
			os.Exit(0)
		}
		// final-state invariants (single-threaded now)
		var order []string
		seen := map[string]bool{}
		problem := ""
		if b := bad.Load(); b != nil {
			problem = b.(string)
		}
		m.EachSafe(func(k string, v int) {
			order = append(order, k)
			if seen[k] && problem == "" {
				problem = "key " + k + " iterated twice"
			}
			seen[k] = true
			if v == -1 && problem == "" {
				problem = "iterated key " + k + " has no value"
			}
		})
		if problem == "" && m.Len() != len(order) {
			problem = fmt.Sprintf("Len %d but %d keys iterated", m.Len(), len(order))
		}
		for _, k := range order {
			if _, ok := m.Get(k); (!ok || !m.Has(k)) && problem == "" {
				problem = "iterated key " + k + " is not present (Get/Has)"
			}
		}
		if problem == "" {
			b, err := m.JSON()
			if err != nil {
				problem = "MarshalJSON: " + err.Error()
			} else {
				var want []string
				for _, k := range order {
					want = append(want, strconv.Itoa(keyInt(k)))
				}
				var got []string
				if dec := decodeJSON(b); dec != "" {
					for _, e := range strings.Split(dec, ",") {
						got = append(got, strings.SplitN(e, "=", 2)[0])
					}
				}
				if strings.Join(got, ",") != strings.Join(want, ",") {
					problem = fmt.Sprintf("MarshalJSON keys %v, iteration order %v", got, want)
				}
			}
		}
		res.Case(key, removed.Load() > 0 && len(order) > 0)
		res.Stats[fmt.Sprintf("final_len_%d", len(order))]++
		if problem != "" {
			res.AddDiff(vh.Diff{Component: "C19-conc", Input: fmt.Sprintf("%s, %d goroutines x %d ops, PRNG vh.NewRand(19700000+round*64+g)", key, G, N),
				Impl: problem, Model: "invariants of an ordered map: order duplicate-free, Len = iterated keys, every iterated key present"})
		}
	}
	res.Print()
}

// waitRound waits for the goroutines of a round.  A round takes milliseconds;
// when it is not over after roundDeadline, the goroutine dump is consulted every
// roundDeadline: the round is BLOCKED when, at two looks in a row, goroutines of
// it exist, all of them are parked (none running / runnable) and at least one
// waits for a sync lock.  Returns "" when the round ended.
func waitRound(wg *sync.WaitGroup) string {
	const roundDeadline = 3 * time.Second
	fin := make(chan struct{})
	go func() { wg.Wait(); close(fin) }()
	strikes := 0
	for {
		select {
		case <-fin:
			return ""
		case <-time.After(roundDeadline):
		}
		n, nParked, nLock, sample := hammerStates()
		if n > 0 && nParked == n && nLock > 0 {
			strikes++
			if strikes >= 2 {
				return fmt.Sprintf("all %d goroutines still in the round are parked, %d of them on the map's lock, e.g. %s", n, nLock, sample)
			}
		} else {
			strikes = 0
		}
	}
}

// hammerStates inspects the goroutines that are inside raceChild's round
// function (frame c19.raceChild.func…).
func hammerStates() (n, nParked, nLock int, sample string) {
	buf := make([]byte, 1<<20)
	for {
		k := runtime.Stack(buf, true)
		if k < len(buf) {
			buf = buf[:k]
			break
		}
		buf = make([]byte, 2*len(buf))
	}
	for _, blk := range strings.Split(string(buf), "\n\n") {
		if !strings.Contains(blk, "c19.raceChild.func") {
			continue
		}
		n++
		head := blk[:strings.IndexByte(blk+"\n", '\n')]
		state := head
		if i := strings.IndexByte(head, '['); i >= 0 {
			state = strings.TrimSuffix(head[i+1:], "]:")
		}
		if i := strings.IndexByte(state, ','); i >= 0 {
			state = state[:i]
		}
		if parked(state) {
			nParked++
		}
		if strings.HasPrefix(state, "sync.") || state == "semacquire" {
			nLock++
			if sample == "" {
				var fr []string
				lines := strings.Split(blk, "\n")
				for i := 1; i+1 < len(lines) && len(fr) < 4; i += 2 {
					f := lines[i]
					if j := strings.LastIndexByte(f, '('); j > 0 {
						f = f[:j]
					}
					if strings.HasPrefix(f, "runtime.") || strings.HasPrefix(f, "sync.runtime_") || strings.HasPrefix(f, "internal/") {
						continue
					}
					fr = append(fr, f)
				}
				sample = "[" + state + "] in " + strings.Join(fr, " <- ")
			}
		}
	}
	return
}

func hammerOp(m omap, r *rand.Rand, bad *atomic.Value, removed *atomic.Int64) {
	k := keyStr(r.Intn(6))
	chk := func(where string) func(string, int) {
		return func(k string, v int) {
			if v == -1 {
				bad.CompareAndSwap(nil, where+" callback saw ordered key "+k+" without a value")
			}
		}
	}
	switch x := r.Intn(100); {
	case x < 25:
		m.Set(k, r.Intn(2))
	case x < 33:
		m.Update(k)
	case x < 48:
		if m.Has(k) {
			removed.Add(1)
		}
		m.Delete(k)
	case x < 56:
		p := r.Intn(4)
		c := chk("Filter")
		m.Filter(func(k string, v int) bool {
			c(k, v)
			keep := pred(p, keyInt(k), v)
			if !keep {
				removed.Add(1)
			}
			return keep
		})
	case x < 59:
		c := chk("Map")
		m.Map(func(k string, v int) int { c(k, v); return v + 1 })
	case x < 62:
		// Map ended by its callback at the (n+1)-th entry
		c := chk("Map")
		n, calls := r.Intn(4), 0
		err := m.MapErr(func(k string, v int) (int, error) {
			c(k, v)
			calls++
			if calls == n+1 {
				return v, errStop
			}
			if calls > n+1 {
				bad.CompareAndSwap(nil, "Map called its callback again after the callback had returned an error")
			}
			return v + 1, nil
		})
		if (err == errStop) != (calls >= n+1) || (err != nil && err != errStop) {
			bad.CompareAndSwap(nil, fmt.Sprintf("Map: %d callback calls, error at call %d, returned %v", calls, n+1, err))
		}
	case x < 68:
		p := r.Intn(4)
		c := chk("Find")
		matched := false
		m.Find(func(k string, v int) bool {
			c(k, v)
			if matched {
				bad.CompareAndSwap(nil, "Find called its callback again after the first match")
			}
			matched = pred(p, keyInt(k), v)
			return matched
		})
	case x < 72:
		m.Each(chk("Each"))
	case x < 76:
		// Each ended by its callback at the (n+1)-th entry
		c := chk("Each")
		n, calls := r.Intn(4), 0
		err := m.EachErr(func(k string, v int) error {
			c(k, v)
			calls++
			if calls == n+1 {
				return errStop
			}
			if calls > n+1 {
				bad.CompareAndSwap(nil, "Each called its callback again after the callback had returned an error")
			}
			return nil
		})
		if (err == errStop) != (calls >= n+1) || (err != nil && err != errStop) {
			bad.CompareAndSwap(nil, fmt.Sprintf("Each: %d callback calls, error at call %d, returned %v", calls, n+1, err))
		}
	case x < 80:
		m.EachSafe(chk("EachSafe"))
	case x < 85:
		m.Get(k)
	case x < 89:
		m.GetValue(k)
	case x < 93:
		m.Has(k)
	case x < 96:
		m.Len()
	default:
		if b, err := m.JSON(); err != nil {
			bad.CompareAndSwap(nil, "MarshalJSON error "+err.Error())
		} else if dec := decodeJSON(b); strings.HasPrefix(dec, "BAD-JSON") {
			bad.CompareAndSwap(nil, dec)
		}
	}
}
