package c19

import (
	"fmt"
	"math/rand"
	"runtime"
	"strconv"
	"strings"
	"sync"
	"sync/atomic"
	"time"

	"verifharness/vh"
	"verifharness/x/racekit"
)

// RunRace is the command c19-omap-race of cmd/vhrace (race build): 8
// goroutines hammer ONE public ordered map with random operations.  Demanded:
// no data-race report, no panic, callbacks never see an ordered key without a
// value, and the final state satisfies the invariants (order duplicate-free,
// Len = number of iterated keys, every iterated key present, JSON lists the
// same keys in the same order).
func RunRace(args []string) {
	for _, a := range args {
		if a == "--child" {
			raceChild()
			return
		}
	}
	rep := vh.NewReport("c19-omap-race",
		"rounds of 8 goroutines x 80 random ops (Set/Update/Delete/Filter/Map/Find/Each/EachSafe/Get/GetValue/Has/Len/MarshalJSON, random "+
			"runtime.Gosched) on one shared jschema.ASTNodes or jschema.RuleASTNodes, in a child process under the race detector; "+
			"non-trivial = at least one live key was deleted or filtered out and the final map is non-empty")
	if !racekit.Enabled {
		rep.Extra["race_detector"] = "OFF: binary built without -race (build cmd/vhrace with CGO_ENABLED=1 go build -race)"
		rep.Stat("race_detector_off")
	} else {
		rep.Extra["race_detector"] = "on"
	}
	res, races, problem := racekit.RunChild([]string{"c19-omap-race", "--child"}, nil, time.Duration(vh.Pick(120, 900))*time.Second)
	if res != nil {
		res.Merge(rep, "")
	}
	if problem != "" {
		impl := problem
		if problem == "TIMEOUT" {
			impl = "TIMEOUT"
		}
		rep.AddDiff(vh.Diff{Component: "C19-conc", Input: "child run `vhrace c19-omap-race --child` with VERIF_SEED=" + fmt.Sprint(vh.Seed()), Impl: impl,
			Model: "the concurrent scenario terminates normally"})
	}
	for _, r := range races {
		rep.AddDiff(vh.Diff{Component: "C19-race", Input: "8 goroutines, random ops on one shared ordered map (vhrace c19-omap-race, VERIF_SEED=" + fmt.Sprint(vh.Seed()) + ")",
			Impl: fmt.Sprintf("DATA RACE x%d: %s", r.Count, r.Text), Model: "no data race: every method takes the map's RWMutex"})
	}
	rep.Stats["distinct_race_reports"] = len(races)
	rep.Finish()
}

func raceChild() {
	res := racekit.NewChildResult()
	rounds := vh.Pick(300, 6000)
	const G = 8
	const N = 80
	for round := 0; round < rounds; round++ {
		kind := mapKinds[round%len(mapKinds)]
		m := newMap(kind)
		var bad atomic.Value // first invariant violation seen inside a callback / a panic
		var removed atomic.Int64
		var wg sync.WaitGroup
		start := make(chan struct{})
		for g := 0; g < G; g++ {
			wg.Add(1)
			go func(g int) {
				defer wg.Done()
				defer func() {
					if r := recover(); r != nil {
						bad.CompareAndSwap(nil, fmt.Sprintf("PANIC %v", r))
					}
				}()
				r := vh.NewRand(19700000 + int64(round)*64 + int64(g))
				<-start
				for i := 0; i < N; i++ {
					hammerOp(m, r, &bad, &removed)
					if r.Intn(3) == 0 {
						runtime.Gosched()
					}
				}
			}(g)
		}
		close(start)
		wg.Wait()
		key := fmt.Sprintf("round %d kind %s", round, kind)
		// final-state invariants (single-threaded now)
		var order []string
		seen := map[string]bool{}
		problem := ""
		if b := bad.Load(); b != nil {
			problem = b.(string)
		}
		m.EachSafe(func(k string, v int) {
			order = append(order, k)
			if seen[k] && problem == "" {
				problem = "key " + k + " iterated twice"
			}
			seen[k] = true
			if v == -1 && problem == "" {
				problem = "iterated key " + k + " has no value"
			}
		})
		if problem == "" && m.Len() != len(order) {
			problem = fmt.Sprintf("Len %d but %d keys iterated", m.Len(), len(order))
		}
		for _, k := range order {
			if _, ok := m.Get(k); (!ok || !m.Has(k)) && problem == "" {
				problem = "iterated key " + k + " is not present (Get/Has)"
			}
		}
		if problem == "" {
			b, err := m.JSON()
			if err != nil {
				problem = "MarshalJSON: " + err.Error()
			} else {
				var want []string
				for _, k := range order {
					want = append(want, strconv.Itoa(keyInt(k)))
				}
				var got []string
				if dec := decodeJSON(b); dec != "" {
					for _, e := range strings.Split(dec, ",") {
						got = append(got, strings.SplitN(e, "=", 2)[0])
					}
				}
				if strings.Join(got, ",") != strings.Join(want, ",") {
					problem = fmt.Sprintf("MarshalJSON keys %v, iteration order %v", got, want)
				}
			}
		}
		res.Case(key, removed.Load() > 0 && len(order) > 0)
		res.Stats[fmt.Sprintf("final_len_%d", len(order))]++
		if problem != "" {
			res.AddDiff(vh.Diff{Component: "C19-conc", Input: fmt.Sprintf("%s, %d goroutines x %d ops, PRNG vh.NewRand(19700000+round*64+g)", key, G, N),
				Impl: problem, Model: "invariants of an ordered map: order duplicate-free, Len = iterated keys, every iterated key present"})
		}
	}
	res.Print()
}

func hammerOp(m omap, r *rand.Rand, bad *atomic.Value, removed *atomic.Int64) {
	k := keyStr(r.Intn(6))
	chk := func(where string) func(string, int) {
		return func(k string, v int) {
			if v == -1 {
				bad.CompareAndSwap(nil, where+" callback saw ordered key "+k+" without a value")
			}
		}
	}
	switch x := r.Intn(100); {
	case x < 25:
		m.Set(k, r.Intn(2))
	case x < 33:
		m.Update(k)
	case x < 48:
		if m.Has(k) {
			removed.Add(1)
		}
		m.Delete(k)
	case x < 56:
		p := r.Intn(4)
		c := chk("Filter")
		m.Filter(func(k string, v int) bool {
			c(k, v)
			keep := pred(p, keyInt(k), v)
			if !keep {
				removed.Add(1)
			}
			return keep
		})
	case x < 61:
		c := chk("Map")
		m.Map(func(k string, v int) int { c(k, v); return v + 1 })
	case x < 68:
		p := r.Intn(4)
		c := chk("Find")
		m.Find(func(k string, v int) bool { c(k, v); return pred(p, keyInt(k), v) })
	case x < 74:
		m.Each(chk("Each"))
	case x < 80:
		m.EachSafe(chk("EachSafe"))
	case x < 85:
		m.Get(k)
	case x < 89:
		m.GetValue(k)
	case x < 93:
		m.Has(k)
	case x < 96:
		m.Len()
	default:
		if b, err := m.JSON(); err != nil {
			bad.CompareAndSwap(nil, "MarshalJSON error "+err.Error())
		} else if dec := decodeJSON(b); strings.HasPrefix(dec, "BAD-JSON") {
			bad.CompareAndSwap(nil, dec)
		}
	}
}
