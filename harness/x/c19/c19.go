// Package c19: property C19 — the three generated ordered-map types
// (jschema.ASTNodes, jschema.RuleASTNodes, internal schema.Constraints) behave
// as insertion-ordered maps under any operation sequence.
//
// Textual op protocol (shared with jschema.VerifConstraintsOps, see
// /repo/notations/jschema/verif_hook.go):
//
//	S k v   Set(k, v)                     obs "-"
//	U k     Update(k, +10)                obs "-"
//	D k     Delete(k)                     obs "-"
//	F p     Filter(pred p)                obs "visit k=v,…"  (calls of the callback, in order)
//	M       Map(+1)                       obs "visit k=v,…"  (values before mapping)
//	Q p     Find(pred p)                  obs "found k=v" | "none"
//	G k     Get(k)                        obs "some v" | "none"
//	V k     GetValue(k)                   obs "val v"  (-1 when absent)
//	H k     Has(k)                        obs "has true|false"
//	L       Len()                         obs "len n"
//	E / A   Each / EachSafe               obs "each k=v,…"
//	J       MarshalJSON (public maps only) obs "json k=v,…" (decoded, key order of the text)
//	final line                            "final k=v,…|len"
//
// predicates: 0 = key≠0, 1 = value even, 2 = always false, 3 = always true.
//
// REFERENCE: a plain association list (refMap below).
package c19

import (
	"bytes"
	"encoding/json"
	"fmt"
	"math/rand"
	"os"
	"runtime"
	"runtime/debug"
	"runtime/pprof"
	"strconv"
	"strings"
	"sync"

	jschema "github.com/jsightapi/jsight-schema-go-library"
	nj "github.com/jsightapi/jsight-schema-go-library/notations/jschema"

	"verifharness/vh"
)

// ---------------------------------------------------------------- parsed ops

type pop struct {
	c    byte
	a, b int
}

var popCache sync.Map // op text -> pop

func parseOp(op string) pop {
	if v, ok := popCache.Load(op); ok {
		return v.(pop)
	}
	f := strings.Fields(op)
	p := pop{c: f[0][0]}
	if len(f[0]) != 1 {
		p.c = '?'
	}
	if len(f) > 1 {
		p.a, _ = strconv.Atoi(f[1])
	}
	if len(f) > 2 {
		p.b, _ = strconv.Atoi(f[2])
	}
	popCache.Store(op, p)
	return p
}

// ---------------------------------------------------------------- reference

type refEntry struct{ k, v int }

// refMap is the specification: an insertion-ordered association list.
type refMap struct {
	es []refEntry
	// bookkeeping for the "nontrivial" rule
	orderEvents int
	deleted     map[int]bool
}

func (m *refMap) idx(k int) int {
	for i, e := range m.es {
		if e.k == k {
			return i
		}
	}
	return -1
}

func pred(p, k, v int) bool {
	switch p {
	case 0:
		return k != 0
	case 1:
		return v%2 == 0
	case 2:
		return false
	default:
		return true
	}
}

func kv(k, v int) string { return strconv.Itoa(k) + "=" + strconv.Itoa(v) }

func (m *refMap) trace() string {
	var sb strings.Builder
	for i, e := range m.es {
		if i > 0 {
			sb.WriteByte(',')
		}
		sb.WriteString(kv(e.k, e.v))
	}
	return sb.String()
}

// apply executes one op on the reference and returns its observation.
func (m *refMap) apply(op string) string {
	po := parseOp(op)
	arg := func(i int) int {
		if i == 1 {
			return po.a
		}
		return po.b
	}
	switch string(po.c) {
	case "S":
		k, v := arg(1), arg(2)
		if i := m.idx(k); i >= 0 {
			m.es[i].v = v // re-Set of a live key keeps its place
			m.orderEvents++
		} else {
			if m.deleted[k] {
				m.orderEvents++ // Set after Delete appends at the end
			}
			m.es = append(m.es, refEntry{k, v})
		}
		return "-"
	case "U":
		if i := m.idx(arg(1)); i >= 0 {
			m.es[i].v += 10
		}
		return "-"
	case "D":
		k := arg(1)
		if i := m.idx(k); i >= 0 {
			m.es = append(append([]refEntry(nil), m.es[:i]...), m.es[i+1:]...)
			if m.deleted == nil {
				m.deleted = map[int]bool{}
			}
			m.deleted[k] = true
		}
		if len(m.es) > 0 {
			m.orderEvents++ // delete (of a live or an absent key) from a non-empty map
		}
		return "-"
	case "F":
		p := arg(1)
		tr := m.trace()
		var keep []refEntry
		for _, e := range m.es {
			if pred(p, e.k, e.v) {
				keep = append(keep, e)
			} else {
				if m.deleted == nil {
					m.deleted = map[int]bool{}
				}
				m.deleted[e.k] = true
				m.orderEvents++
			}
		}
		m.es = keep
		return "visit " + tr
	case "M":
		tr := m.trace()
		for i := range m.es {
			m.es[i].v++
		}
		return "visit " + tr
	case "Q":
		p := arg(1)
		for _, e := range m.es {
			if pred(p, e.k, e.v) {
				return "found " + kv(e.k, e.v)
			}
		}
		return "none"
	case "G":
		if i := m.idx(arg(1)); i >= 0 {
			return "some " + strconv.Itoa(m.es[i].v)
		}
		return "none"
	case "V":
		if i := m.idx(arg(1)); i >= 0 {
			return "val " + strconv.Itoa(m.es[i].v)
		}
		return "val -1"
	case "H":
		if m.idx(arg(1)) >= 0 {
			return "has true"
		}
		return "has false"
	case "L":
		return "len " + strconv.Itoa(len(m.es))
	case "E", "A":
		return "each " + m.trace()
	case "J":
		return "json " + m.trace()
	}
	return "bad-op"
}

func (m *refMap) final() string { return "final " + m.trace() + "|" + strconv.Itoa(len(m.es)) }

func runRef(ops []string) ([]string, bool) {
	m := &refMap{}
	out := make([]string, 0, len(ops)+1)
	for _, op := range ops {
		out = append(out, m.apply(op))
	}
	out = append(out, m.final())
	return out, m.orderEvents > 0
}

// ---------------------------------------------------------------- public maps

// omap abstracts the two public generated types.
type omap interface {
	Set(k string, v int)
	Update(k string)
	Delete(k string)
	Filter(fn func(k string, v int) bool)
	Map(fn func(k string, v int) int)
	Find(fn func(k string, v int) bool) (string, int, bool)
	Get(k string) (int, bool)
	GetValue(k string) int
	Has(k string) bool
	Len() int
	Each(fn func(k string, v int))
	EachSafe(fn func(k string, v int))
	JSON() ([]byte, error)
	ValueJSON(k string, v int) string // encoding/json text of the value stored for (k, v)
}

func atoi(s string) int {
	if s == "" {
		return -1
	}
	n, err := strconv.Atoi(s)
	if err != nil {
		return -999
	}
	return n
}

// --- ASTNodes (value ASTNode; the number lives in .Value, the key in .Key)

type astMap struct{ m *jschema.ASTNodes }

func astVal(k string, v int) jschema.ASTNode {
	return jschema.ASTNode{TokenType: jschema.TokenTypeNumber, SchemaType: "integer", Key: k, Value: strconv.Itoa(v)}
}
func (a astMap) Set(k string, v int) { a.m.Set(k, astVal(k, v)) }
func (a astMap) Update(k string) {
	a.m.Update(k, func(n jschema.ASTNode) jschema.ASTNode { return astVal(k, atoi(n.Value)+10) })
}
func (a astMap) Delete(k string) { a.m.Delete(k) }
func (a astMap) Filter(fn func(string, int) bool) {
	a.m.Filter(func(k string, n jschema.ASTNode) bool { return fn(k, atoi(n.Value)) })
}
func (a astMap) Map(fn func(string, int) int) {
	_ = a.m.Map(func(k string, n jschema.ASTNode) (jschema.ASTNode, error) {
		return astVal(k, fn(k, atoi(n.Value))), nil
	})
}
func (a astMap) Find(fn func(string, int) bool) (string, int, bool) {
	it, ok := a.m.Find(func(k string, n jschema.ASTNode) bool { return fn(k, atoi(n.Value)) })
	return it.Key, atoi(it.Value.Value), ok
}
func (a astMap) Get(k string) (int, bool) { n, ok := a.m.Get(k); return atoi(n.Value), ok }
func (a astMap) GetValue(k string) int    { return atoi(a.m.GetValue(k).Value) }
func (a astMap) Has(k string) bool        { return a.m.Has(k) }
func (a astMap) Len() int                 { return a.m.Len() }
func (a astMap) Each(fn func(string, int)) {
	_ = a.m.Each(func(k string, n jschema.ASTNode) error { fn(k, atoi(n.Value)); return nil })
}
func (a astMap) EachSafe(fn func(string, int)) {
	a.m.EachSafe(func(k string, n jschema.ASTNode) { fn(k, atoi(n.Value)) })
}
func (a astMap) JSON() ([]byte, error) { return a.m.MarshalJSON() }

var valJSONCache sync.Map

func (a astMap) ValueJSON(k string, v int) string {
	type ck struct {
		k string
		v int
	}
	if s, ok := valJSONCache.Load(ck{k, v}); ok {
		return s.(string)
	}
	b, _ := json.Marshal(astVal(k, v))
	valJSONCache.Store(ck{k, v}, string(b))
	return string(b)
}

// --- RuleASTNodes

type ruleMap struct{ m *jschema.RuleASTNodes }

func ruleVal(v int) jschema.RuleASTNode {
	return jschema.RuleASTNode{TokenType: jschema.TokenTypeNumber, Value: strconv.Itoa(v), Source: jschema.RuleASTNodeSourceManual}
}
func (a ruleMap) Set(k string, v int) { a.m.Set(k, ruleVal(v)) }
func (a ruleMap) Update(k string) {
	a.m.Update(k, func(n jschema.RuleASTNode) jschema.RuleASTNode { return ruleVal(atoi(n.Value) + 10) })
}
func (a ruleMap) Delete(k string) { a.m.Delete(k) }
func (a ruleMap) Filter(fn func(string, int) bool) {
	a.m.Filter(func(k string, n jschema.RuleASTNode) bool { return fn(k, atoi(n.Value)) })
}
func (a ruleMap) Map(fn func(string, int) int) {
	_ = a.m.Map(func(k string, n jschema.RuleASTNode) (jschema.RuleASTNode, error) {
		return ruleVal(fn(k, atoi(n.Value))), nil
	})
}
func (a ruleMap) Find(fn func(string, int) bool) (string, int, bool) {
	it, ok := a.m.Find(func(k string, n jschema.RuleASTNode) bool { return fn(k, atoi(n.Value)) })
	return it.Key, atoi(it.Value.Value), ok
}
func (a ruleMap) Get(k string) (int, bool) { n, ok := a.m.Get(k); return atoi(n.Value), ok }
func (a ruleMap) GetValue(k string) int    { return atoi(a.m.GetValue(k).Value) }
func (a ruleMap) Has(k string) bool        { return a.m.Has(k) }
func (a ruleMap) Len() int                 { return a.m.Len() }
func (a ruleMap) Each(fn func(string, int)) {
	_ = a.m.Each(func(k string, n jschema.RuleASTNode) error { fn(k, atoi(n.Value)); return nil })
}
func (a ruleMap) EachSafe(fn func(string, int)) {
	a.m.EachSafe(func(k string, n jschema.RuleASTNode) { fn(k, atoi(n.Value)) })
}
func (a ruleMap) JSON() ([]byte, error) { return a.m.MarshalJSON() }
func (a ruleMap) ValueJSON(_ string, v int) string {
	if s, ok := valJSONCache.Load(v); ok {
		return s.(string)
	}
	b, _ := json.Marshal(ruleVal(v))
	valJSONCache.Store(v, string(b))
	return string(b)
}

// Kinds of map under test. The RuleASTNodes type has three public constructors.
var mapKinds = []string{"ASTNodes", "RuleASTNodes/zero", "RuleASTNodes/Make0", "RuleASTNodes/Make8", "RuleASTNodes/New"}

func newMap(kind string) omap {
	switch kind {
	case "ASTNodes":
		return astMap{&jschema.ASTNodes{}}
	case "RuleASTNodes/zero":
		return ruleMap{&jschema.RuleASTNodes{}}
	case "RuleASTNodes/Make0":
		return ruleMap{jschema.MakeRuleASTNodes(0)}
	case "RuleASTNodes/Make8":
		return ruleMap{jschema.MakeRuleASTNodes(8)}
	default:
		return ruleMap{jschema.NewRuleASTNodes(map[string]jschema.RuleASTNode{}, nil)}
	}
}

var keyStrs = [...]string{"k0", "k1", "k2", "k3", "k4", "k5", "k6", "k7"}

func keyStr(k int) string {
	if k >= 0 && k < len(keyStrs) {
		return keyStrs[k]
	}
	return "k" + strconv.Itoa(k)
}
func keyInt(s string) int {
	if len(s) < 2 || s[0] != 'k' {
		return -999
	}
	return atoi(s[1:])
}

// expectedJSON renders the JSON object the reference demands: keys in
// insertion order, values marshalled by encoding/json.
func expectedJSON(m omap, ref string) string {
	// ref is "k=v,k=v"
	var sb strings.Builder
	sb.WriteByte('{')
	if ref != "" {
		for i, e := range strings.Split(ref, ",") {
			if i > 0 {
				sb.WriteByte(',')
			}
			p := strings.SplitN(e, "=", 2)
			k, _ := strconv.Atoi(p[0])
			v, _ := strconv.Atoi(p[1])
			kb, _ := json.Marshal(keyStr(k))
			sb.Write(kb)
			sb.WriteByte(':')
			sb.WriteString(m.ValueJSON(keyStr(k), v))
		}
	}
	sb.WriteByte('}')
	return sb.String()
}

// decodeJSON lists "k=v" pairs of a marshalled map in the order of the text.
func decodeJSON(b []byte) string {
	dec := json.NewDecoder(bytes.NewReader(b))
	t, err := dec.Token()
	if err != nil || t != json.Delim('{') {
		return "BAD-JSON " + string(b)
	}
	var out []string
	for dec.More() {
		kt, err := dec.Token()
		if err != nil {
			return "BAD-JSON " + string(b)
		}
		var val struct{ Value string }
		if err := dec.Decode(&val); err != nil {
			return "BAD-JSON " + string(b)
		}
		ks, _ := kt.(string)
		out = append(out, kv(keyInt(ks), atoi(val.Value)))
	}
	if _, err := dec.Token(); err != nil {
		return "BAD-JSON " + string(b)
	}
	if dec.More() {
		return "BAD-JSON trailing " + string(b)
	}
	return strings.Join(out, ",")
}

// runPublic drives one public map. jsonRaw[i] holds, for J ops, a non-empty
// complaint when the raw bytes differ from the demanded JSON text.
func runPublic(kind string, ops []string, deep bool, ref []string) (out []string) {
	out = make([]string, 0, len(ops)+1)
	defer func() {
		if r := recover(); r != nil {
			out = append(out, fmt.Sprintf("CRASH %v", r))
		}
	}()
	m := newMap(kind)
	trace := func(each func(fn func(string, int))) string {
		var tr []string
		each(func(k string, v int) { tr = append(tr, kv(keyInt(k), v)) })
		return strings.Join(tr, ",")
	}
	for opi, op := range ops {
		po := parseOp(op)
		arg := func(i int) int {
			if i == 1 {
				return po.a
			}
			return po.b
		}
		switch string(po.c) {
		case "S":
			m.Set(keyStr(arg(1)), arg(2))
			out = append(out, "-")
		case "U":
			m.Update(keyStr(arg(1)))
			out = append(out, "-")
		case "D":
			m.Delete(keyStr(arg(1)))
			out = append(out, "-")
		case "F":
			p := arg(1)
			var tr []string
			m.Filter(func(k string, v int) bool {
				tr = append(tr, kv(keyInt(k), v))
				return pred(p, keyInt(k), v)
			})
			out = append(out, "visit "+strings.Join(tr, ","))
		case "M":
			var tr []string
			m.Map(func(k string, v int) int {
				tr = append(tr, kv(keyInt(k), v))
				return v + 1
			})
			out = append(out, "visit "+strings.Join(tr, ","))
		case "Q":
			p := arg(1)
			k, v, ok := m.Find(func(k string, v int) bool { return pred(p, keyInt(k), v) })
			if ok {
				out = append(out, "found "+kv(keyInt(k), v))
			} else {
				out = append(out, "none")
			}
		case "G":
			v, ok := m.Get(keyStr(arg(1)))
			if ok {
				out = append(out, "some "+strconv.Itoa(v))
			} else {
				out = append(out, "none")
			}
		case "V":
			out = append(out, "val "+strconv.Itoa(m.GetValue(keyStr(arg(1)))))
		case "H":
			if m.Has(keyStr(arg(1))) {
				out = append(out, "has true")
			} else {
				out = append(out, "has false")
			}
		case "L":
			out = append(out, "len "+strconv.Itoa(m.Len()))
		case "E":
			out = append(out, "each "+trace(m.Each))
		case "A":
			out = append(out, "each "+trace(m.EachSafe))
		case "J":
			b, err := m.JSON()
			if err != nil {
				out = append(out, "json ERR "+err.Error())
				break
			}
			if !deep && opi < len(ref) && strings.HasPrefix(ref[opi], "json ") {
				// fast path: the raw text must be exactly the JSON object the
				// reference state demands (keys in insertion order)
				if want := expectedJSON(m, ref[opi][5:]); want == string(b) {
					out = append(out, ref[opi])
				} else {
					out = append(out, "json RAW "+string(b)+" WANT "+want)
				}
				break
			}
			dec := decodeJSON(b)
			// the raw text must be exactly the insertion-ordered object
			if want := expectedJSON(m, dec); !strings.HasPrefix(dec, "BAD-JSON") && want != string(b) {
				out = append(out, "json RAW "+string(b)+" WANT "+want)
				break
			}
			// and encoding/json must accept it through the Marshaler interface, too
			if b2, err := json.Marshal(m.(interface{ inner() json.Marshaler }).inner()); err != nil || !bytes.Equal(b, b2) {
				out = append(out, fmt.Sprintf("json MARSHALER %s vs %s (%v)", b, b2, err))
				break
			}
			out = append(out, "json "+dec)
		default:
			out = append(out, "bad-op")
		}
	}
	out = append(out, "final "+trace(m.EachSafe)+"|"+strconv.Itoa(m.Len()))
	return out
}

func (a astMap) inner() json.Marshaler  { return a.m }
func (a ruleMap) inner() json.Marshaler { return a.m }

// ---------------------------------------------------------------- streams

var obsSuffix = []string{"Q 0", "Q 1", "Q 2", "Q 3", "G 0", "G 1", "G 2", "V 0", "V 1", "V 2", "H 0", "H 1", "H 2", "L", "E", "A", "J"}

func mutOps() []string {
	var ops []string
	for k := 0; k < 3; k++ {
		for v := 0; v < 2; v++ {
			ops = append(ops, fmt.Sprintf("S %d %d", k, v))
		}
	}
	for k := 0; k < 3; k++ {
		ops = append(ops, fmt.Sprintf("U %d", k))
	}
	for k := 0; k < 3; k++ {
		ops = append(ops, fmt.Sprintf("D %d", k))
	}
	for p := 0; p < 4; p++ {
		ops = append(ops, fmt.Sprintf("F %d", p))
	}
	return append(ops, "M")
}

func withoutJ(ops []string) []string {
	out := make([]string, 0, len(ops))
	for _, o := range ops {
		if o != "J" {
			out = append(out, o)
		}
	}
	return out
}

type result struct {
	key        string
	nontrivial bool
	diffs      []vh.Diff
	modelReq   string
	modelImpl  string

	exhaustiveLong bool
}

// kinds exercised on the long exhaustive sequences: length 5: one per
// generated type plus the pre-sized RuleASTNodes (append aliasing differs);
// length 6: one per generated type.  (schema.Constraints always.)
var mapKindsLong = []string{"ASTNodes", "RuleASTNodes/zero", "RuleASTNodes/Make8"}
var mapKindsLongest = []string{"ASTNodes", "RuleASTNodes/zero"}

func sameObs(a, b []string) bool {
	if len(a) != len(b) {
		return false
	}
	for i := range a {
		if a[i] != b[i] {
			return false
		}
	}
	return true
}

// evalSeq runs one sequence on all map kinds and compares with the reference.
// nmut = number of leading mutating ops of an exhaustive sequence (-1: random).
func evalSeq(ops []string, wantModel bool, nmut int) result {
	ref, nontrivial := runRef(ops)
	res := result{nontrivial: nontrivial}
	kinds, deep := mapKinds, true
	if nmut >= 6 {
		kinds, deep = mapKindsLongest, false
	} else if nmut >= 5 {
		kinds, deep = mapKindsLong, false
	}
	if nmut < 0 || nmut <= 3 {
		res.key = strings.Join(ops, ";")
	}
	for _, kind := range kinds {
		got := runPublic(kind, ops, deep, ref)
		if !sameObs(got, ref) {
			res.diffs = append(res.diffs, vh.Diff{Component: "C19-ref", Input: kind + ": " + strings.Join(ops, ";"),
				Impl: firstDiff(got, ref, ops), Model: "insertion-ordered association list: " + strings.Join(ref, " | ")})
		}
	}
	// constraint map through the hook (no J there)
	cops := withoutJ(ops)
	cref := ref
	if len(cops) != len(ops) {
		cref, _ = runRef(cops)
	}
	cgot := nj.VerifConstraintsOps(cops)
	if !sameObs(cgot, cref) {
		res.diffs = append(res.diffs, vh.Diff{Component: "C19-ref", Input: "schema.Constraints (hook VerifConstraintsOps): " + strings.Join(cops, ";"),
			Impl: firstDiff(cgot, cref, cops), Model: "insertion-ordered association list: " + strings.Join(cref, " | ")})
	}
	if wantModel {
		res.modelReq = "omap " + strings.Join(cops, ";")
		// real observations (ASTNodes is the representative; all kinds were
		// just compared with the same reference)
		res.modelImpl = strings.Join(runPublic("ASTNodes", cops, false, nil), "|")
	}
	return res
}

func firstDiff(got, ref, ops []string) string {
	for i := range ref {
		if i >= len(got) {
			return fmt.Sprintf("only %d observations; all: %s", len(got), strings.Join(got, " | "))
		}
		if got[i] != ref[i] {
			op := "final"
			if i < len(ops) {
				op = ops[i]
			}
			return fmt.Sprintf("op #%d (%s): got %q, reference %q; all: %s", i, op, got[i], ref[i], strings.Join(got, " | "))
		}
	}
	return "extra observations: " + strings.Join(got, " | ")
}

// randomSeq draws a sequence of up to maxLen ops over nk keys.
func randomSeq(r *rand.Rand, maxLen, nk int) []string {
	n := 1 + r.Intn(maxLen)
	ops := make([]string, 0, n)
	for i := 0; i < n; i++ {
		k := r.Intn(nk)
		switch x := r.Intn(100); {
		case x < 30:
			ops = append(ops, fmt.Sprintf("S %d %d", k, r.Intn(2)))
		case x < 38:
			ops = append(ops, fmt.Sprintf("U %d", k))
		case x < 55:
			ops = append(ops, fmt.Sprintf("D %d", k))
		case x < 65:
			ops = append(ops, fmt.Sprintf("F %d", r.Intn(4)))
		case x < 70:
			ops = append(ops, "M")
		default:
			o := obsSuffix[r.Intn(len(obsSuffix))]
			if f := strings.Fields(o); len(f) == 2 && f[0] != "Q" {
				o = fmt.Sprintf("%s %d", f[0], k)
			}
			ops = append(ops, o)
		}
	}
	return ops
}

// Run is the command c19-omap.  The comparison with the Lean driver's `omap`
// command is ON by default (--no-model switches it off; --model-full also
// sends the length-6 sequences of the thorough tier to the model).  Request:
// `omap <op>;<op>;…` (hook op syntax, no J); expected reply: the per-op
// observations joined by '|' followed by `|final <k=v,…>|<len>`.
func Run(args []string) {
	if pf := os.Getenv("C19_CPUPROFILE"); pf != "" {
		f, _ := os.Create(pf)
		pprof.StartCPUProfile(f)
		defer pprof.StopCPUProfile()
	}
	debug.SetGCPercent(400) // allocation-heavy, tiny live heap
	useModel, modelFull := true, false
	for _, a := range args {
		switch a {
		case "--no-model":
			useModel = false
		case "--model":
			useModel = true
		case "--model-full":
			useModel, modelFull = true, true
		}
	}
	rep := vh.NewReport("c19-omap",
		"EXHAUSTIVE: every sequence of mutating ops (S k v, U k, D k, F p, M; 3 keys, 2 values, 4 predicates = 17 ops) of length <= L "+
			"(quick 4, thorough 6) followed by the full observation suffix (Q p, G/V/H k, L, E, A, J), run on jschema.ASTNodes, "+
			"jschema.RuleASTNodes (zero value, MakeRuleASTNodes(0|8), NewRuleASTNodes) and schema.Constraints (hook); RANDOM: sequences of "+
			"1..200 mixed ops over 3 or 6 keys. Reference = association list. Non-trivial = the reference saw an order-relevant event "+
			"(re-Set of a live key, Set after Delete/Filter-out, Delete on a non-empty map, Filter dropping an entry)")
	maxLen := vh.Pick(4, 6)
	modelLen := vh.Pick(4, 5)
	if modelFull {
		modelLen = maxLen
	}
	nRandom := vh.Pick(20000, 400000)
	workers := runtime.GOMAXPROCS(0)

	muts := mutOps()
	var mu sync.Mutex
	var modelReq, modelImpl []string
	flushModel := func(force bool) {
		if !useModel || len(modelReq) == 0 || (!force && len(modelReq) < 400000) {
			return
		}
		replies := vh.AskModelSharded(modelReq, workers)
		for i := range modelReq {
			if replies[i] != modelImpl[i] {
				rep.AddDiff(vh.Diff{Component: "C19-model", Level: "correspondence", Input: modelReq[i], Impl: modelImpl[i], Model: replies[i]})
			}
			rep.Stat("model_compared")
		}
		modelReq, modelImpl = modelReq[:0], modelImpl[:0]
	}
	record := func(rs []result) {
		mu.Lock()
		defer mu.Unlock()
		for _, r := range rs {
			if r.exhaustiveLong {
				// keys of the exhaustive stream are distinct by construction:
				// count directly instead of keeping 24M hashes
				rep.Evaluations++
				if r.nontrivial {
					rep.Distinct++
				}
			} else {
				rep.Case(r.key, r.nontrivial)
			}
			for _, d := range r.diffs {
				rep.AddDiff(d)
			}
			if r.modelReq != "" {
				modelReq = append(modelReq, r.modelReq)
				modelImpl = append(modelImpl, r.modelImpl)
			}
		}
	}

	// ---- exhaustive stream, sharded by the first two ops
	type shard struct{ prefix []int }
	var shards []shard
	shards = append(shards, shard{nil}) // the empty sequence and all length-1 sequences
	for a := range muts {
		for b := range muts {
			shards = append(shards, shard{[]int{a, b}})
		}
	}
	jobs := make(chan shard, len(shards))
	for _, s := range shards {
		jobs <- s
	}
	close(jobs)
	var wg sync.WaitGroup
	var statMu sync.Mutex
	lenCount := map[int]int{}
	for w := 0; w < workers; w++ {
		wg.Add(1)
		go func() {
			defer wg.Done()
			for s := range jobs {
				var batch []result
				local := map[int]int{}
				emit := func(idx []int) {
					ops := make([]string, 0, len(idx)+len(obsSuffix))
					for _, i := range idx {
						ops = append(ops, muts[i])
					}
					ops = append(ops, obsSuffix...)
					res := evalSeq(ops, useModel && len(idx) <= modelLen, len(idx))
					res.exhaustiveLong = len(idx) > 3
					batch = append(batch, res)
					local[len(idx)]++
					if len(batch) >= 2000 {
						record(batch)
						batch = batch[:0]
					}
				}
				if s.prefix == nil {
					emit(nil)
					for a := range muts {
						emit([]int{a})
					}
				} else {
					var rec func(idx []int)
					rec = func(idx []int) {
						emit(idx)
						if len(idx) == maxLen {
							return
						}
						for i := range muts {
							rec(append(idx, i))
						}
					}
					rec(append([]int(nil), s.prefix...))
				}
				record(batch)
				statMu.Lock()
				for l, c := range local {
					lenCount[l] += c
				}
				statMu.Unlock()
				mu.Lock()
				flushModel(false)
				mu.Unlock()
			}
		}()
	}
	wg.Wait()
	for l, c := range lenCount {
		rep.Stats[fmt.Sprintf("exhaustive_len_%d", l)] = c
	}

	// ---- random stream
	chunk := (nRandom + workers - 1) / workers
	for w := 0; w < workers; w++ {
		wg.Add(1)
		go func(w int) {
			defer wg.Done()
			var batch []result
			for i := w * chunk; i < (w+1)*chunk && i < nRandom; i++ {
				r := vh.NewRand(1900000 + int64(i)) // per-case PRNG: case i replays alone
				nk := 3
				if i%3 == 2 {
					nk = 6
				}
				maxL := 200
				if i%4 == 0 {
					maxL = 12
				}
				ops := randomSeq(r, maxL, nk)
				batch = append(batch, evalSeq(ops, useModel, -1))
				if len(batch) >= 500 {
					record(batch)
					batch = batch[:0]
				}
			}
			record(batch)
		}(w)
	}
	wg.Wait()
	rep.Stats["random_sequences"] = nRandom
	rep.Extra["maps_per_sequence"] = "length<=4 and random: ASTNodes, RuleASTNodes x4 constructors, Constraints; length 5: 3 public + Constraints; length 6: 2 public + Constraints"
	mu.Lock()
	flushModel(true)
	mu.Unlock()
	rep.Exhaustive = true
	rep.Extra["exhaustive_bound"] = fmt.Sprintf("all mutating sequences of length <= %d over 17 ops, each + %d observations", maxLen, len(obsSuffix))
	if useModel {
		rep.Extra["model"] = fmt.Sprintf("omap requests for exhaustive length <= %d and all random sequences", modelLen)
	} else {
		rep.Extra["model"] = "off (--no-model)"
	}
	rep.Finish()
}
