// Package c19: property C19 — the three generated ordered-map types
// (jschema.ASTNodes, jschema.RuleASTNodes, internal schema.Constraints) behave
// as insertion-ordered maps under any operation sequence.
//
// Textual op protocol (shared with jschema.VerifConstraintsOps, see
// /repo/notations/jschema/verif_hook.go):
//
//	S k v   Set(k, v)                     obs "-"
//	U k     Update(k, +10)                obs "-"
//	D k     Delete(k)                     obs "-"
//	F p     Filter(pred p)                obs "visit k=v,…"  (calls of the callback, in order)
//	M       Map(+1)                       obs "visit k=v,…"  (values before mapping)
//	Q p     Find(pred p)                  obs "found k=v" | "none"
//	G k     Get(k)                        obs "some v" | "none"
//	V k     GetValue(k)                   obs "val v"  (-1 when absent)
//	H k     Has(k)                        obs "has true|false"
//	L       Len()                         obs "len n"
//	E / A   Each / EachSafe               obs "each k=v,…"
//	J       MarshalJSON (public maps only) obs "json k=v,…" (decoded, key order of the text)
//	X n     Each, the callback returns an error from its (n+1)-th call
//	                                      obs "stop k=v,… err|nil"  (calls of the callback, in
//	                                      order; err = Each returned exactly the callback's error)
//	N n     Map(+1), the callback returns an error from its (n+1)-th call
//	                                      obs "mapstop k=v,… err|nil" (the entries before the
//	                                      stop are mapped, the others keep their value)
//	W p     Find(pred p), calls observed  obs "find k=v|none calls k=v,…" (the callback is not
//	                                      called any more after the first match)
//	final line                            "final k=v,…|len"
//
// Early exits (X, N with n < Len; W with a match) leave the map USABLE: every
// op of every history runs under a watchdog (see watchdog.go); an op that does
// not return is the property-level diff "BLOCKED" and ends that history.
//
// predicates: 0 = key≠0, 1 = value even, 2 = always false, 3 = always true.
//
// REFERENCE: a plain association list (refMap below).
//
// STREAMS: exhaustive (3 keys), random (3 / 6 keys, up to 200 ops), big (big.go:
// maps of 15 … 257 live entries, key numbers up to 2^31).  KEY STRINGS: the key
// numbers of a history are spelled as strings for the public maps by a spelling
// (spelling.go: plain k<n>, control characters / DEL / quotes, invalid UTF-8,
// non-BMP and non-printable runes, JSON-like keys); J demands valid JSON whose
// keys, as a JSON reader decodes them, are the reference's keys in order, and
// the exact text encoding/json gives for the insertion-ordered object.
package c19

import (
	"bytes"
	"encoding/json"
	"errors"
	"fmt"
	"math/rand"
	"os"
	"runtime"
	"runtime/debug"
	"runtime/pprof"
	"strconv"
	"strings"
	"sync"
	"sync/atomic"
	"syscall"
	"time"

	jschema "github.com/jsightapi/jsight-schema-go-library"
	nj "github.com/jsightapi/jsight-schema-go-library/notations/jschema"

	"verifharness/vh"
)

// ---------------------------------------------------------------- parsed ops

type pop struct {
	c    byte
	a, b int
}

var popCache sync.Map // op text -> pop

func parseOp(op string) pop {
	if v, ok := popCache.Load(op); ok {
		return v.(pop)
	}
	f := strings.Fields(op)
	p := pop{c: f[0][0]}
	if len(f[0]) != 1 {
		p.c = '?'
	}
	if len(f) > 1 {
		p.a, _ = strconv.Atoi(f[1])
	}
	if len(f) > 2 {
		p.b, _ = strconv.Atoi(f[2])
	}
	popCache.Store(op, p)
	return p
}

// ---------------------------------------------------------------- reference

type refEntry struct{ k, v int }

// refMap is the specification: an insertion-ordered association list.
type refMap struct {
	es []refEntry
	// bookkeeping for the "nontrivial" rule
	orderEvents int
	deleted     map[int]bool
	stopped     bool // an iteration was ended early by its callback (X, N) or by a match (W)
}

// afterStop: a write that follows an early-ended iteration is order-relevant
// (it needs the lock the iteration held).
func (m *refMap) afterStop() {
	if m.stopped {
		m.orderEvents++
	}
}

func traceOf(es []refEntry) string {
	var sb strings.Builder
	for i, e := range es {
		if i > 0 {
			sb.WriteByte(',')
		}
		sb.WriteString(kv(e.k, e.v))
	}
	return sb.String()
}

func (m *refMap) idx(k int) int {
	for i, e := range m.es {
		if e.k == k {
			return i
		}
	}
	return -1
}

func pred(p, k, v int) bool {
	switch p {
	case 0:
		return k != 0
	case 1:
		return v%2 == 0
	case 2:
		return false
	default:
		return true
	}
}

func kv(k, v int) string { return strconv.Itoa(k) + "=" + strconv.Itoa(v) }

func (m *refMap) trace() string { return traceOf(m.es) }

// apply executes one op on the reference and returns its observation.
func (m *refMap) apply(op string) string {
	po := parseOp(op)
	arg := func(i int) int {
		if i == 1 {
			return po.a
		}
		return po.b
	}
	switch po.c {
	case 'S', 'U', 'D', 'F', 'M', 'N':
		m.afterStop()
	}
	switch string(po.c) {
	case "S":
		k, v := arg(1), arg(2)
		if i := m.idx(k); i >= 0 {
			m.es[i].v = v // re-Set of a live key keeps its place
			m.orderEvents++
		} else {
			if m.deleted[k] {
				m.orderEvents++ // Set after Delete appends at the end
			}
			m.es = append(m.es, refEntry{k, v})
		}
		return "-"
	case "U":
		if i := m.idx(arg(1)); i >= 0 {
			m.es[i].v += 10
		}
		return "-"
	case "D":
		k := arg(1)
		if i := m.idx(k); i >= 0 {
			m.es = append(append([]refEntry(nil), m.es[:i]...), m.es[i+1:]...)
			if m.deleted == nil {
				m.deleted = map[int]bool{}
			}
			m.deleted[k] = true
		}
		if len(m.es) > 0 {
			m.orderEvents++ // delete (of a live or an absent key) from a non-empty map
		}
		return "-"
	case "F":
		p := arg(1)
		tr := m.trace()
		var keep []refEntry
		for _, e := range m.es {
			if pred(p, e.k, e.v) {
				keep = append(keep, e)
			} else {
				if m.deleted == nil {
					m.deleted = map[int]bool{}
				}
				m.deleted[e.k] = true
				m.orderEvents++
			}
		}
		m.es = keep
		return "visit " + tr
	case "M":
		tr := m.trace()
		for i := range m.es {
			m.es[i].v++
		}
		return "visit " + tr
	case "Q":
		p := arg(1)
		for _, e := range m.es {
			if pred(p, e.k, e.v) {
				return "found " + kv(e.k, e.v)
			}
		}
		return "none"
	case "G":
		if i := m.idx(arg(1)); i >= 0 {
			return "some " + strconv.Itoa(m.es[i].v)
		}
		return "none"
	case "V":
		if i := m.idx(arg(1)); i >= 0 {
			return "val " + strconv.Itoa(m.es[i].v)
		}
		return "val -1"
	case "H":
		if m.idx(arg(1)) >= 0 {
			return "has true"
		}
		return "has false"
	case "L":
		return "len " + strconv.Itoa(len(m.es))
	case "E", "A":
		return "each " + m.trace()
	case "J":
		return "json " + m.trace()
	case "X":
		// the callback is called for the first n+1 entries; its (n+1)-th call
		// returns the error, which ends the iteration; the state is unchanged
		n := arg(1)
		if n < len(m.es) {
			m.stopped = true
			return "stop " + traceOf(m.es[:n+1]) + " err"
		}
		return "stop " + m.trace() + " nil"
	case "N":
		n := arg(1)
		if n < len(m.es) {
			tr := traceOf(m.es[:n+1])
			for i := 0; i < n; i++ {
				m.es[i].v++
			}
			m.stopped = true
			return "mapstop " + tr + " err"
		}
		tr := m.trace()
		for i := range m.es {
			m.es[i].v++
		}
		return "mapstop " + tr + " nil"
	case "W":
		p := arg(1)
		for i, e := range m.es {
			if pred(p, e.k, e.v) {
				if i+1 < len(m.es) {
					m.stopped = true
				}
				return "find " + kv(e.k, e.v) + " calls " + traceOf(m.es[:i+1])
			}
		}
		return "find none calls " + m.trace()
	}
	return "bad-op"
}

func (m *refMap) final() string { return "final " + m.trace() + "|" + strconv.Itoa(len(m.es)) }

func runRef(ops []string) ([]string, bool) {
	m := &refMap{}
	out := make([]string, 0, len(ops)+1)
	for _, op := range ops {
		out = append(out, m.apply(op))
	}
	out = append(out, m.final())
	return out, m.orderEvents > 0
}

// ---------------------------------------------------------------- public maps

// omap abstracts the two public generated types.
type omap interface {
	Set(k string, v int)
	Update(k string)
	Delete(k string)
	Filter(fn func(k string, v int) bool)
	Map(fn func(k string, v int) int)
	Find(fn func(k string, v int) bool) (string, int, bool)
	Get(k string) (int, bool)
	GetValue(k string) int
	Has(k string) bool
	Len() int
	Each(fn func(k string, v int))
	EachErr(fn func(k string, v int) error) error
	MapErr(fn func(k string, v int) (int, error)) error
	EachSafe(fn func(k string, v int))
	JSON() ([]byte, error)
	ValueJSON(k string, v int) string // encoding/json text of the value stored for (k, v)
}

func atoi(s string) int {
	if s == "" {
		return -1
	}
	n, err := strconv.Atoi(s)
	if err != nil {
		return -999
	}
	return n
}

// --- ASTNodes (value ASTNode; the number lives in .Value, the key in .Key)

type astMap struct{ m *jschema.ASTNodes }

func astVal(k string, v int) jschema.ASTNode {
	return jschema.ASTNode{TokenType: jschema.TokenTypeNumber, SchemaType: "integer", Key: k, Value: strconv.Itoa(v)}
}
func (a astMap) Set(k string, v int) { a.m.Set(k, astVal(k, v)) }
func (a astMap) Update(k string) {
	a.m.Update(k, func(n jschema.ASTNode) jschema.ASTNode { return astVal(k, atoi(n.Value)+10) })
}
func (a astMap) Delete(k string) { a.m.Delete(k) }
func (a astMap) Filter(fn func(string, int) bool) {
	a.m.Filter(func(k string, n jschema.ASTNode) bool { return fn(k, atoi(n.Value)) })
}
func (a astMap) Map(fn func(string, int) int) {
	_ = a.m.Map(func(k string, n jschema.ASTNode) (jschema.ASTNode, error) {
		return astVal(k, fn(k, atoi(n.Value))), nil
	})
}
func (a astMap) Find(fn func(string, int) bool) (string, int, bool) {
	it, ok := a.m.Find(func(k string, n jschema.ASTNode) bool { return fn(k, atoi(n.Value)) })
	return it.Key, atoi(it.Value.Value), ok
}
func (a astMap) Get(k string) (int, bool) { n, ok := a.m.Get(k); return atoi(n.Value), ok }
func (a astMap) GetValue(k string) int    { return atoi(a.m.GetValue(k).Value) }
func (a astMap) Has(k string) bool        { return a.m.Has(k) }
func (a astMap) Len() int                 { return a.m.Len() }
func (a astMap) Each(fn func(string, int)) {
	_ = a.m.Each(func(k string, n jschema.ASTNode) error { fn(k, atoi(n.Value)); return nil })
}
func (a astMap) EachErr(fn func(string, int) error) error {
	return a.m.Each(func(k string, n jschema.ASTNode) error { return fn(k, atoi(n.Value)) })
}
func (a astMap) MapErr(fn func(string, int) (int, error)) error {
	return a.m.Map(func(k string, n jschema.ASTNode) (jschema.ASTNode, error) {
		v, err := fn(k, atoi(n.Value))
		return astVal(k, v), err
	})
}
func (a astMap) EachSafe(fn func(string, int)) {
	a.m.EachSafe(func(k string, n jschema.ASTNode) { fn(k, atoi(n.Value)) })
}
func (a astMap) JSON() ([]byte, error) { return a.m.MarshalJSON() }

var valJSONCache sync.Map

func (a astMap) ValueJSON(k string, v int) string {
	type ck struct {
		k string
		v int
	}
	if s, ok := valJSONCache.Load(ck{k, v}); ok {
		return s.(string)
	}
	b, _ := json.Marshal(astVal(k, v))
	valJSONCache.Store(ck{k, v}, string(b))
	return string(b)
}

// --- RuleASTNodes

type ruleMap struct{ m *jschema.RuleASTNodes }

func ruleVal(v int) jschema.RuleASTNode {
	return jschema.RuleASTNode{TokenType: jschema.TokenTypeNumber, Value: strconv.Itoa(v), Source: jschema.RuleASTNodeSourceManual}
}
func (a ruleMap) Set(k string, v int) { a.m.Set(k, ruleVal(v)) }
func (a ruleMap) Update(k string) {
	a.m.Update(k, func(n jschema.RuleASTNode) jschema.RuleASTNode { return ruleVal(atoi(n.Value) + 10) })
}
func (a ruleMap) Delete(k string) { a.m.Delete(k) }
func (a ruleMap) Filter(fn func(string, int) bool) {
	a.m.Filter(func(k string, n jschema.RuleASTNode) bool { return fn(k, atoi(n.Value)) })
}
func (a ruleMap) Map(fn func(string, int) int) {
	_ = a.m.Map(func(k string, n jschema.RuleASTNode) (jschema.RuleASTNode, error) {
		return ruleVal(fn(k, atoi(n.Value))), nil
	})
}
func (a ruleMap) Find(fn func(string, int) bool) (string, int, bool) {
	it, ok := a.m.Find(func(k string, n jschema.RuleASTNode) bool { return fn(k, atoi(n.Value)) })
	return it.Key, atoi(it.Value.Value), ok
}
func (a ruleMap) Get(k string) (int, bool) { n, ok := a.m.Get(k); return atoi(n.Value), ok }
func (a ruleMap) GetValue(k string) int    { return atoi(a.m.GetValue(k).Value) }
func (a ruleMap) Has(k string) bool        { return a.m.Has(k) }
func (a ruleMap) Len() int                 { return a.m.Len() }
func (a ruleMap) Each(fn func(string, int)) {
	_ = a.m.Each(func(k string, n jschema.RuleASTNode) error { fn(k, atoi(n.Value)); return nil })
}
func (a ruleMap) EachErr(fn func(string, int) error) error {
	return a.m.Each(func(k string, n jschema.RuleASTNode) error { return fn(k, atoi(n.Value)) })
}
func (a ruleMap) MapErr(fn func(string, int) (int, error)) error {
	return a.m.Map(func(k string, n jschema.RuleASTNode) (jschema.RuleASTNode, error) {
		v, err := fn(k, atoi(n.Value))
		return ruleVal(v), err
	})
}
func (a ruleMap) EachSafe(fn func(string, int)) {
	a.m.EachSafe(func(k string, n jschema.RuleASTNode) { fn(k, atoi(n.Value)) })
}
func (a ruleMap) JSON() ([]byte, error) { return a.m.MarshalJSON() }
func (a ruleMap) ValueJSON(_ string, v int) string {
	if s, ok := valJSONCache.Load(v); ok {
		return s.(string)
	}
	b, _ := json.Marshal(ruleVal(v))
	valJSONCache.Store(v, string(b))
	return string(b)
}

// Kinds of map under test. The RuleASTNodes type has three public constructors.
var mapKinds = []string{"ASTNodes", "RuleASTNodes/zero", "RuleASTNodes/Make0", "RuleASTNodes/Make8", "RuleASTNodes/New"}

func newMap(kind string) omap {
	switch kind {
	case "ASTNodes":
		return astMap{&jschema.ASTNodes{}}
	case "RuleASTNodes/zero":
		return ruleMap{&jschema.RuleASTNodes{}}
	case "RuleASTNodes/Make0":
		return ruleMap{jschema.MakeRuleASTNodes(0)}
	case "RuleASTNodes/Make8":
		return ruleMap{jschema.MakeRuleASTNodes(8)}
	default:
		return ruleMap{jschema.NewRuleASTNodes(map[string]jschema.RuleASTNode{}, nil)}
	}
}

var keyStrs = [...]string{"k0", "k1", "k2", "k3", "k4", "k5", "k6", "k7"}

func keyStr(k int) string {
	if k >= 0 && k < len(keyStrs) {
		return keyStrs[k]
	}
	return "k" + strconv.Itoa(k)
}
func keyInt(s string) int {
	if len(s) < 2 || s[0] != 'k' {
		return -999
	}
	return atoi(s[1:])
}

// expectedJSON renders the JSON object the reference demands: keys in
// insertion order, keys and values marshalled by encoding/json.
func expectedJSON(m omap, ref string) string { return expectedJSONSp(m, plainSpelling, ref) }

func expectedJSONSp(m omap, sp *spelling, ref string) string {
	// ref is "k=v,k=v"
	var sb strings.Builder
	sb.WriteByte('{')
	if ref != "" {
		for i, e := range strings.Split(ref, ",") {
			if i > 0 {
				sb.WriteByte(',')
			}
			p := strings.SplitN(e, "=", 2)
			if len(p) != 2 {
				return "NO-EXPECTATION(" + ref + ")"
			}
			k, _ := strconv.Atoi(p[0])
			v, _ := strconv.Atoi(p[1])
			ks := sp.str(k)
			sb.WriteString(sp.jsonKey(k))
			sb.WriteByte(':')
			sb.WriteString(m.ValueJSON(ks, v))
		}
	}
	sb.WriteByte('}')
	return sb.String()
}

// decodeJSON lists "k=v" pairs of a marshalled map in the order of the text.
func decodeJSON(b []byte) string { return decodeJSONSp(b, plainSpelling) }

// decodeJSONSp: the text must be ONE valid JSON object; its keys, as a JSON
// reader sees them, are mapped back to key numbers (-999: not a key of the
// spelling).
func decodeJSONSp(b []byte, sp *spelling) string {
	dec := json.NewDecoder(bytes.NewReader(b))
	t, err := dec.Token()
	if err != nil || t != json.Delim('{') {
		return "BAD-JSON " + string(b)
	}
	var out []string
	for dec.More() {
		kt, err := dec.Token()
		if err != nil {
			return "BAD-JSON " + string(b)
		}
		var val struct{ Value string }
		if err := dec.Decode(&val); err != nil {
			return "BAD-JSON " + string(b)
		}
		ks, _ := kt.(string)
		out = append(out, kv(sp.numDec(ks), atoi(val.Value)))
	}
	if _, err := dec.Token(); err != nil {
		return "BAD-JSON " + string(b)
	}
	if dec.More() {
		return "BAD-JSON trailing " + string(b)
	}
	return strings.Join(out, ",")
}

// errStop is the error the callbacks of X and N end their iteration with.
var errStop = errors.New("c19: the callback stops the iteration")

func errObs(err error) string {
	switch {
	case err == nil:
		return " nil"
	case err == errStop:
		return " err"
	}
	return " OTHER-ERROR(" + err.Error() + ")"
}

// runPublic drives one public map.  progress (may be nil) is called before
// every op (and before the final observation, with i = len(ops)) with the
// observations made so far: the heartbeat the watchdog looks at.
func runPublic(kind string, ops []string, deep bool, ref []string, progress func(i int, out []string)) (out []string) {
	return runPublicSp(kind, plainSpelling, ops, deep, ref, progress)
}

// runPublicSp: the same with the key numbers of the ops spelled by sp.
func runPublicSp(kind string, sp *spelling, ops []string, deep bool, ref []string, progress func(i int, out []string)) (out []string) {
	keyStr, keyInt := sp.str, sp.num
	out = make([]string, 0, len(ops)+1)
	defer func() {
		if r := recover(); r != nil {
			out = append(out, fmt.Sprintf("CRASH %v", r))
		}
	}()
	m := newMap(kind)
	trace := func(each func(fn func(string, int))) string {
		var tr []string
		each(func(k string, v int) { tr = append(tr, kv(keyInt(k), v)) })
		return strings.Join(tr, ",")
	}
	for opi, op := range ops {
		if progress != nil {
			progress(opi, out)
		}
		po := parseOp(op)
		arg := func(i int) int {
			if i == 1 {
				return po.a
			}
			return po.b
		}
		switch string(po.c) {
		case "X":
			n, calls := arg(1), 0
			var tr []string
			err := m.EachErr(func(k string, v int) error {
				tr = append(tr, kv(keyInt(k), v))
				calls++
				if calls == n+1 {
					return errStop
				}
				return nil
			})
			out = append(out, "stop "+strings.Join(tr, ",")+errObs(err))
		case "N":
			n, calls := arg(1), 0
			var tr []string
			err := m.MapErr(func(k string, v int) (int, error) {
				tr = append(tr, kv(keyInt(k), v))
				calls++
				if calls == n+1 {
					return v + 1000, errStop // the value returned along with an error must not be stored
				}
				return v + 1, nil
			})
			out = append(out, "mapstop "+strings.Join(tr, ",")+errObs(err))
		case "W":
			p := arg(1)
			var tr []string
			k, v, ok := m.Find(func(k string, v int) bool {
				tr = append(tr, kv(keyInt(k), v))
				return pred(p, keyInt(k), v)
			})
			if ok {
				out = append(out, "find "+kv(keyInt(k), v)+" calls "+strings.Join(tr, ","))
			} else {
				out = append(out, "find none calls "+strings.Join(tr, ","))
			}
		case "S":
			m.Set(keyStr(arg(1)), arg(2))
			out = append(out, "-")
		case "U":
			m.Update(keyStr(arg(1)))
			out = append(out, "-")
		case "D":
			m.Delete(keyStr(arg(1)))
			out = append(out, "-")
		case "F":
			p := arg(1)
			var tr []string
			m.Filter(func(k string, v int) bool {
				tr = append(tr, kv(keyInt(k), v))
				return pred(p, keyInt(k), v)
			})
			out = append(out, "visit "+strings.Join(tr, ","))
		case "M":
			var tr []string
			m.Map(func(k string, v int) int {
				tr = append(tr, kv(keyInt(k), v))
				return v + 1
			})
			out = append(out, "visit "+strings.Join(tr, ","))
		case "Q":
			p := arg(1)
			k, v, ok := m.Find(func(k string, v int) bool { return pred(p, keyInt(k), v) })
			if ok {
				out = append(out, "found "+kv(keyInt(k), v))
			} else {
				out = append(out, "none")
			}
		case "G":
			v, ok := m.Get(keyStr(arg(1)))
			if ok {
				out = append(out, "some "+strconv.Itoa(v))
			} else {
				out = append(out, "none")
			}
		case "V":
			out = append(out, "val "+strconv.Itoa(m.GetValue(keyStr(arg(1)))))
		case "H":
			if m.Has(keyStr(arg(1))) {
				out = append(out, "has true")
			} else {
				out = append(out, "has false")
			}
		case "L":
			out = append(out, "len "+strconv.Itoa(m.Len()))
		case "E":
			out = append(out, "each "+trace(m.Each))
		case "A":
			out = append(out, "each "+trace(m.EachSafe))
		case "J":
			b, err := m.JSON()
			if err != nil {
				out = append(out, "json ERR "+err.Error())
				break
			}
			if !deep && opi < len(ref) && strings.HasPrefix(ref[opi], "json ") {
				// fast path: the raw text must be exactly the JSON object the
				// reference state demands (keys in insertion order)
				if want := expectedJSONSp(m, sp, ref[opi][5:]); want == string(b) {
					out = append(out, ref[opi])
				} else {
					out = append(out, "json RAW "+string(b)+" WANT "+want)
				}
				break
			}
			// valid JSON whose keys, as a reader decodes them, are the map's keys in order
			dec := decodeJSONSp(b, sp)
			if strings.HasPrefix(dec, "BAD-JSON") {
				out = append(out, "json "+dec)
				break
			}
			// the raw text must be exactly the insertion-ordered object
			if want := expectedJSONSp(m, sp, dec); want != string(b) {
				out = append(out, "json RAW "+string(b)+" WANT "+want)
				break
			}
			// and encoding/json must accept it through the Marshaler interface, too
			if b2, err := json.Marshal(m.(interface{ inner() json.Marshaler }).inner()); err != nil || !bytes.Equal(b, b2) {
				out = append(out, fmt.Sprintf("json MARSHALER %s vs %s (%v)", b, b2, err))
				break
			}
			out = append(out, "json "+dec)
		default:
			out = append(out, "bad-op")
		}
	}
	if progress != nil {
		progress(len(ops), out)
	}
	out = append(out, "final "+trace(m.EachSafe)+"|"+strconv.Itoa(m.Len()))
	return out
}

func (a astMap) inner() json.Marshaler  { return a.m }
func (a ruleMap) inner() json.Marshaler { return a.m }

// ---------------------------------------------------------------- streams

// obsSuffix is appended to every exhaustive sequence of mutating ops: the
// read-only observations, then the early exits of the read-only iterations
// (Find with its calls observed; Each stopped by its callback at every position
// up to 3 keys), then writes that need the lock those iterations held (Map
// stopped at the first / third entry, Update), then the lengths again; the
// final observation (EachSafe + Len) follows.
var obsSuffix = []string{"Q 0", "Q 1", "Q 2", "Q 3", "G 0", "G 1", "G 2", "V 0", "V 1", "V 2", "H 0", "H 1", "H 2", "L", "E", "A", "J",
	"W 0", "W 1", "W 2", "W 3", "X 0", "X 1", "X 2", "N 0", "N 2", "U 0", "L"}

// obsSuffixLong follows the exhaustive sequences of length >= 5 (thorough tier,
// 24M sequences): the read-only observations, one Each stopped by its callback
// and one Map stopped by its callback (a write after the early exit).
var obsSuffixLong = append(append([]string(nil), obsSuffix[:17]...), "X 0", "N 0")

// early-exit ops: understood by the hook / the Lean driver since the protocol
// was extended; probed at start-up (extOK) so that an older hook or driver
// degrades to the histories without them (loudly: rep.Extra / stats).
func isExtOp(op string) bool { return op[0] == 'X' || op[0] == 'N' || op[0] == 'W' }

var hookExt, modelExt = true, true

func stripOps(ops []string, drop func(string) bool) []string {
	n := 0
	for _, o := range ops {
		if drop(o) {
			n++
		}
	}
	if n == 0 {
		return ops
	}
	out := make([]string, 0, len(ops)-n)
	for _, o := range ops {
		if !drop(o) {
			out = append(out, o)
		}
	}
	return out
}

// hookOps: the history as sent to the hook (no J there).
func hookOps(ops []string) []string {
	return stripOps(ops, func(o string) bool { return o == "J" || (!hookExt && isExtOp(o)) })
}

func mutOps() []string {
	var ops []string
	for k := 0; k < 3; k++ {
		for v := 0; v < 2; v++ {
			ops = append(ops, fmt.Sprintf("S %d %d", k, v))
		}
	}
	for k := 0; k < 3; k++ {
		ops = append(ops, fmt.Sprintf("U %d", k))
	}
	for k := 0; k < 3; k++ {
		ops = append(ops, fmt.Sprintf("D %d", k))
	}
	for p := 0; p < 4; p++ {
		ops = append(ops, fmt.Sprintf("F %d", p))
	}
	ops = append(ops, "M")
	// early exits inside the mutating prefix: Each stopped at its first entry
	// (read lock, state unchanged) and Map stopped at its second entry (write
	// lock, first entry mapped, the rest not); the other positions are in the
	// observation suffix and in the random stream
	return append(ops, "X 0", "N 1")
}

type result struct {
	key        string
	nontrivial bool
	diffs      []vh.Diff
	modelReq   string
	modelImpl  string

	exhaustiveLong bool
}

// kinds exercised on the long exhaustive sequences: length 5: one per
// generated type plus the pre-sized RuleASTNodes (append aliasing differs);
// length 6: one per generated type.  (schema.Constraints always.)
var mapKindsLong = []string{"ASTNodes", "RuleASTNodes/zero", "RuleASTNodes/Make8"}
var mapKindsLongest = []string{"ASTNodes", "RuleASTNodes/zero"}

func sameObs(a, b []string) bool {
	if len(a) != len(b) {
		return false
	}
	for i := range a {
		if a[i] != b[i] {
			return false
		}
	}
	return true
}

// evalSeq runs one sequence on all map kinds and compares with the reference.
// nmut = number of leading mutating ops of an exhaustive sequence (-1: random).
// sel selects the key spellings: kind number i runs under catalogue (sel+i) mod 5
// (0 = plain) in rotation sel/5 + i.
func evalSeq(ops []string, wantModel bool, nmut int, hb *slot, sel int) result {
	ref, nontrivial := runRef(ops)
	res := result{nontrivial: nontrivial}
	kinds, deep := mapKinds, true
	if nmut >= 6 {
		kinds, deep = mapKindsLongest, false
	} else if nmut >= 5 {
		kinds, deep = mapKindsLong, false
	}
	if nmut < 0 || nmut <= 3 {
		res.key = strings.Join(ops, ";")
	}
	for ki, kind := range kinds {
		sp := plainSpelling
		if spellingProblem == "" {
			sp = spellingFor(sel+ki, sel/len(allSpellings)+ki)
		}
		hb.begin(kind, ops)
		got := runPublicSp(kind, sp, ops, deep, ref, hb.progressFn())
		hb.end()
		if !sameObs(got, ref) {
			d := vh.Diff{Component: "C19-ref", Input: kind + sp.describe(ops) + ": " + strings.Join(ops, ";"),
				Impl: firstDiff(got, ref, ops), Model: "insertion-ordered association list: " + strings.Join(ref, " | ")}
			res.diffs = append(res.diffs, d)
			kind, sp := kind, sp
			shrinkLater(d.Input, ops, func(c []string, r []string) []string { return runPublicSp(kind, sp, c, true, r, nil) },
				func(c []string) string { return kind + sp.describe(c) })
		}
	}
	// constraint map through the hook (no J there)
	cops := hookOps(ops)
	cref := ref
	if len(cops) != len(ops) {
		cref, _ = runRef(cops)
	}
	hb.begin("schema.Constraints (hook)", ops)
	cgot := nj.VerifConstraintsOps(cops)
	hb.end()
	if !sameObs(cgot, cref) {
		d := vh.Diff{Component: "C19-ref", Input: "schema.Constraints (hook VerifConstraintsOps): " + strings.Join(cops, ";"),
			Impl: firstDiff(cgot, cref, cops), Model: "insertion-ordered association list: " + strings.Join(cref, " | ")}
		res.diffs = append(res.diffs, d)
		shrinkLater(d.Input, cops, func(c []string, _ []string) []string { return nj.VerifConstraintsOps(c) },
			func([]string) string { return "schema.Constraints (hook VerifConstraintsOps)" })
	}
	if wantModel {
		mops := stripOps(ops, func(o string) bool { return o == "J" || (!modelExt && isExtOp(o)) })
		res.modelReq = "omap " + strings.Join(mops, ";")
		// real observations (ASTNodes is the representative; all kinds were
		// just compared with the same reference)
		hb.begin("ASTNodes", mops)
		res.modelImpl = strings.Join(runPublic("ASTNodes", mops, false, nil, hb.progressFn()), "|")
		hb.end()
	}
	return res
}

// phaseLog (C19_TIMING=1): wall and CPU time at the end of a phase, on stderr.
func phaseLog(phase string, t0 time.Time) {
	if os.Getenv("C19_TIMING") != "" {
		fmt.Fprintln(os.Stderr, "c19-omap phase", phase, time.Since(t0).Round(time.Millisecond), cpuNow())
	}
}

func cpuNow() string {
	var a, b syscall.Rusage
	syscall.Getrusage(syscall.RUSAGE_SELF, &a)
	syscall.Getrusage(syscall.RUSAGE_CHILDREN, &b)
	return fmt.Sprintf("cpu self %.1fs children %.1fs", float64(a.Utime.Sec)+float64(a.Utime.Usec)/1e6, float64(b.Utime.Sec)+float64(b.Utime.Usec)/1e6)
}

// askStrided asks the Lean driver with n processes, request i going to process
// i mod n (the requests of one stream are of similar cost and arrive in runs:
// contiguous chunks would leave all big histories to one process).
func askStrided(lines []string, n int) []string {
	if n <= 1 || len(lines) < 4*n {
		return vh.AskModel(lines)
	}
	out := make([]string, len(lines))
	var wg sync.WaitGroup
	for w := 0; w < n; w++ {
		wg.Add(1)
		go func(w int) {
			defer wg.Done()
			var part []string
			for i := w; i < len(lines); i += n {
				part = append(part, lines[i])
			}
			for j, rep := range vh.AskModel(part) {
				out[w+j*n] = rep
			}
		}(w)
	}
	wg.Wait()
	return out
}

func firstDiff(got, ref, ops []string) string {
	for i := range ref {
		if i >= len(got) {
			return fmt.Sprintf("only %d observations; all: %s", len(got), strings.Join(got, " | "))
		}
		if got[i] != ref[i] {
			op := "final"
			if i < len(ops) {
				op = ops[i]
			}
			return fmt.Sprintf("op #%d (%s): got %q, reference %q; all: %s", i, op, got[i], ref[i], strings.Join(got, " | "))
		}
	}
	return "extra observations: " + strings.Join(got, " | ")
}

var randObs = []string{"Q 0", "Q 1", "Q 2", "Q 3", "G 0", "G 1", "G 2", "V 0", "V 1", "V 2", "H 0", "H 1", "H 2", "L", "E", "A", "J"}

// randomSeq draws a sequence of up to maxLen ops over nk keys.
func randomSeq(r *rand.Rand, maxLen, nk int) []string {
	n := 1 + r.Intn(maxLen)
	ops := make([]string, 0, n)
	for i := 0; i < n; i++ {
		k := r.Intn(nk)
		switch x := r.Intn(100); {
		case x < 30:
			ops = append(ops, fmt.Sprintf("S %d %d", k, r.Intn(2)))
		case x < 38:
			ops = append(ops, fmt.Sprintf("U %d", k))
		case x < 55:
			ops = append(ops, fmt.Sprintf("D %d", k))
		case x < 63:
			ops = append(ops, fmt.Sprintf("F %d", r.Intn(4)))
		case x < 67:
			ops = append(ops, "M")
		case x < 71:
			// Map stopped by its callback at any position (nk = ran to the end)
			ops = append(ops, fmt.Sprintf("N %d", r.Intn(nk+1)))
		case x < 77:
			ops = append(ops, fmt.Sprintf("X %d", r.Intn(nk+1)))
		case x < 81:
			ops = append(ops, fmt.Sprintf("W %d", r.Intn(4)))
		default:
			o := randObs[r.Intn(len(randObs))]
			if f := strings.Fields(o); len(f) == 2 && f[0] != "Q" {
				o = fmt.Sprintf("%s %d", f[0], k)
			}
			ops = append(ops, o)
		}
	}
	return ops
}

// Run is the command c19-omap.  The comparison with the Lean driver's `omap`
// command is ON by default (--no-model switches it off; --model-full also
// sends the length-6 sequences of the thorough tier to the model).  Request:
// `omap <op>;<op>;…` (hook op syntax, no J); expected reply: the per-op
// observations joined by '|' followed by `|final <k=v,…>|<len>`.
func Run(args []string) {
	if pf := os.Getenv("C19_CPUPROFILE"); pf != "" {
		f, _ := os.Create(pf)
		pprof.StartCPUProfile(f)
		defer pprof.StopCPUProfile()
	}
	debug.SetGCPercent(400) // allocation-heavy, tiny live heap
	useModel, modelFull := true, false
	for _, a := range args {
		switch a {
		case "--no-model":
			useModel = false
		case "--model":
			useModel = true
		case "--model-full":
			useModel, modelFull = true, true
		}
	}
	t0 := time.Now()
	rep := vh.NewReport("c19-omap",
		"EXHAUSTIVE: every sequence of mutating ops (S k v, U k, D k, F p, M over 3 keys, 2 values, 4 predicates; X 0 / N 1 = Each / Map ended by "+
			"a callback error: 19 ops) of length <= L (quick 4, thorough 6; 5 with X/N) + the observation suffix (Q p, G/V/H k, L, E, A, J, "+
			"then early exits: W p = Find with its calls, X 0..2, N 0, N 2, then U 0, L) on jschema.ASTNodes, RuleASTNodes (4 constructors) and "+
			"schema.Constraints (hook); RANDOM: 1..200 mixed ops over 3 or 6 keys; BIG: rounds of fill-to-size (15 … 257 live entries: around the powers of two, 100) + "+
			"Filter / Map / Find / Each / early exits / Delete / Update / lookups at the positions around the size and the powers of two / MarshalJSON, "+
			"then grow or shrink to the next size; key numbers up to 2^31; the public maps under varying KEY SPELLINGS (control characters, DEL, "+
			"invalid UTF-8, non-BMP / non-printable runes, empty and JSON-like keys). Reference = association list; an iteration ended early made "+
			"the calls up to the stop, returns the callback's error, leaves the map usable. WATCHDOG: an op that does not return = diff BLOCKED. "+
			"Non-trivial = order-relevant event (re-Set of a live key, Set after Delete/Filter-out, Delete on a non-empty map, Filter dropping "+
			"an entry, a write after an iteration ended early)")
	maxLen := vh.Pick(4, 6)
	maxLenExt := vh.Pick(4, 5) // sequences that contain an early-exit op (X 0, N 1)
	modelLen := vh.Pick(4, 5)
	if modelFull {
		modelLen = maxLen
	}
	nRandom := vh.Pick(20000, 400000)
	nBig := vh.Pick(480, 8000)
	workers := runtime.GOMAXPROCS(0)

	muts := mutOps()
	nBase := 0 // muts[:nBase] = the 17 ops without early exit
	for nBase < len(muts) && !isExtOp(muts[nBase]) {
		nBase++
	}
	// does the hook / the driver know the early-exit ops?
	hookExt = func() bool {
		o, where := hookReturns([]string{"X 0", "N 0", "W 0"})
		return where != "" || (len(o) > 0 && o[0] != "bad-op")
	}()
	if !hookExt {
		rep.Extra["hook_early_exit_ops"] = "MISSING: jschema.VerifConstraintsOps answers bad-op to X/N/W; schema.Constraints ran the histories without them"
		rep.Stat("hook_without_early_exit_ops")
	}
	if useModel {
		modelExt = vh.AskModel([]string{"omap X 0;N 0;W 0"})[0] != "bad-op"
		if !modelExt {
			rep.Extra["model_early_exit_ops"] = "MISSING: the Lean driver answers bad-op to X/N/W; the model was asked the histories without them"
			rep.Stat("model_without_early_exit_ops")
		}
	}
	var mu sync.Mutex
	closed := false // set (under mu) when the run was ended by the watchdog: late results are dropped
	var modelReq, modelImpl []string
	wd := newWatchdog(func(ds []vh.Diff, stat string) {
		mu.Lock()
		defer mu.Unlock()
		if closed {
			return
		}
		rep.Stat(stat)
		for _, d := range ds {
			rep.AddDiff(d)
		}
	})
	defer wd.stop()
	// waitWorkers: true = all workers finished (or were given up one by one), false = run ended by the watchdog
	waitWorkers := func(wg *sync.WaitGroup) bool {
		ch := make(chan struct{})
		go func() { wg.Wait(); close(ch) }()
		select {
		case <-ch:
		case <-wd.abortCh:
		}
		if wd.abort.Load() {
			mu.Lock()
			closed = true
			mu.Unlock()
			return false
		}
		return true
	}
	flushModel := func(force bool) {
		if closed || !useModel || len(modelReq) == 0 || (!force && len(modelReq) < 400000) {
			return
		}
		replies := askStrided(modelReq, workers)
		for i := range modelReq {
			if replies[i] != modelImpl[i] {
				rep.AddDiff(vh.Diff{Component: "C19-model", Level: "correspondence", Input: modelReq[i], Impl: modelImpl[i], Model: replies[i]})
			}
			rep.Stat("model_compared")
		}
		modelReq, modelImpl = modelReq[:0], modelImpl[:0]
	}
	record := func(rs []result) {
		mu.Lock()
		defer mu.Unlock()
		if closed {
			return
		}
		for _, r := range rs {
			if r.exhaustiveLong {
				// keys of the exhaustive stream are distinct by construction:
				// count directly instead of keeping 24M hashes
				rep.Evaluations++
				if r.nontrivial {
					rep.Distinct++
				}
			} else {
				rep.Case(r.key, r.nontrivial)
			}
			for _, d := range r.diffs {
				rep.AddDiff(d)
			}
			if r.modelReq != "" {
				modelReq = append(modelReq, r.modelReq)
				modelImpl = append(modelImpl, r.modelImpl)
			}
		}
	}

	// ---- exhaustive stream, sharded by the first two ops
	type shard struct{ prefix []int }
	var shards []shard
	shards = append(shards, shard{nil}) // the empty sequence and all length-1 sequences
	for a := range muts {
		for b := range muts {
			shards = append(shards, shard{[]int{a, b}})
		}
	}
	jobs := make(chan shard, len(shards))
	for _, s := range shards {
		jobs <- s
	}
	close(jobs)
	var wg sync.WaitGroup
	var statMu sync.Mutex
	lenCount := map[int]int{}
	for w := 0; w < workers; w++ {
		wg.Add(1)
		hb := wd.newSlot(wg.Done)
		go func() {
			defer hb.finish()
			for s := range jobs {
				var batch []result
				local := map[int]int{}
				emit := func(idx []int) {
					if wd.abort.Load() || hb.gone.Load() {
						return
					}
					suffix := obsSuffix
					if len(idx) >= 5 {
						suffix = obsSuffixLong
					}
					ops := make([]string, 0, len(idx)+len(suffix))
					for _, i := range idx {
						ops = append(ops, muts[i])
					}
					ops = append(ops, suffix...)
					sel := 0
					for _, i := range idx {
						sel = sel*len(muts) + i + 1 // the number of the sequence
					}
					res := evalSeq(ops, useModel && len(idx) <= modelLen, len(idx), hb, sel)
					res.exhaustiveLong = len(idx) > 3
					batch = append(batch, res)
					local[len(idx)]++
					if len(batch) >= 2000 {
						record(batch)
						batch = batch[:0]
					}
				}
				if s.prefix == nil {
					emit(nil)
					for a := range muts {
						emit([]int{a})
					}
				} else {
					// ext = idx contains an early-exit op: such sequences stop at maxLenExt
					var rec func(idx []int, ext bool)
					rec = func(idx []int, ext bool) {
						emit(idx)
						if len(idx) == maxLen || (ext && len(idx) >= maxLenExt) || wd.abort.Load() {
							return
						}
						for i := range muts {
							if i >= nBase && len(idx) >= maxLenExt {
								continue
							}
							rec(append(idx, i), ext || i >= nBase)
						}
					}
					rec(append([]int(nil), s.prefix...), s.prefix[0] >= nBase || s.prefix[1] >= nBase)
				}
				record(batch)
				statMu.Lock()
				for l, c := range local {
					lenCount[l] += c
				}
				statMu.Unlock()
				mu.Lock()
				flushModel(false)
				mu.Unlock()
			}
		}()
	}
	completed := waitWorkers(&wg)
	phaseLog("exhaustive", t0)
	statMu.Lock()
	for l, c := range lenCount {
		rep.Stats[fmt.Sprintf("exhaustive_len_%d", l)] = c
	}
	statMu.Unlock()

	// ---- random stream
	var wg2 sync.WaitGroup
	chunk := (nRandom + workers - 1) / workers
	for w := 0; w < workers && completed; w++ {
		wg2.Add(1)
		hb := wd.newSlot(wg2.Done)
		go func(w int) {
			defer hb.finish()
			var batch []result
			for i := w * chunk; i < (w+1)*chunk && i < nRandom; i++ {
				if wd.abort.Load() || hb.gone.Load() {
					return
				}
				r := vh.NewRand(1900000 + int64(i)) // per-case PRNG: case i replays alone
				nk := 3
				if i%3 == 2 {
					nk = 6
				}
				maxL := 200
				if i%4 == 0 {
					maxL = 12
				}
				ops := randomSeq(r, maxL, nk)
				batch = append(batch, evalSeq(ops, useModel, -1, hb, i))
				if len(batch) >= 500 {
					record(batch)
					batch = batch[:0]
				}
			}
			record(batch)
		}(w)
	}
	if completed {
		completed = waitWorkers(&wg2)
		phaseLog("random", t0)
		rep.Stats["random_sequences"] = nRandom
	}
	// ---- big stream (big.go): maps with many live entries
	var wg3 sync.WaitGroup
	var bigMu sync.Mutex
	bigStats := map[string]int{}
	var bigNext atomic.Int64 // cases are handed out one by one: their cost varies with the size
	for w := 0; w < workers && completed; w++ {
		wg3.Add(1)
		hb := wd.newSlot(wg3.Done)
		go func(w int) {
			defer hb.finish()
			var batch []result
			local := map[string]int{}
			for {
				i := int(bigNext.Add(1)) - 1
				if i >= nBig || wd.abort.Load() || hb.gone.Load() {
					break
				}
				r := vh.NewRand(1950000 + int64(i)) // per-case PRNG: case i replays alone
				ops, maxLive := bigSeq(r, i)
				local["big_max_live_"+sizeBucket(maxLive)]++
				local["big_ops"] += len(ops)
				batch = append(batch, evalSeq(ops, useModel, -1, hb, i))
				if len(batch) >= 50 {
					record(batch)
					batch = batch[:0]
				}
			}
			record(batch)
			bigMu.Lock()
			for k, c := range local {
				bigStats[k] += c
			}
			bigMu.Unlock()
		}(w)
	}
	if completed {
		completed = waitWorkers(&wg3)
		phaseLog("big", t0)
		rep.Stats["big_sequences"] = nBig
		bigMu.Lock()
		for k, c := range bigStats {
			rep.Stats[k] = c
		}
		bigMu.Unlock()
	}
	if spellingProblem != "" {
		rep.Extra["key_spellings"] = "OFF (harness bug, every history ran under the plain spelling): " + spellingProblem
		rep.Stat("key_spellings_off")
	} else {
		rep.Extra["key_spellings"] = fmt.Sprintf("every history runs on the public maps under key spellings chosen by its number: plain k<n> + %d catalogues (control characters / DEL / quote / backslash / empty key, invalid UTF-8, non-BMP and non-printable runes, JSON-like and look-alike keys), rotated; MarshalJSON must be valid JSON whose decoded keys (U+FFFD for bytes that are not UTF-8) are the reference's keys in order", len(catalogues))
	}
	rep.Extra["maps_per_sequence"] = "length<=4 and random: ASTNodes, RuleASTNodes x4 constructors, Constraints; length 5: 3 public + Constraints; length 6: 2 public + Constraints"
	mu.Lock()
	defer mu.Unlock() // late workers (there are none unless the watchdog ended the run) stay out of the report
	flushModel(true)
	shrinkKept(rep)
	phaseLog("model", t0)
	rep.Exhaustive = completed && wd.blocked.Load() == 0
	if !completed {
		rep.Extra["ended_early"] = fmt.Sprintf("the watchdog confirmed %d histories with an op that does not return (diffs BLOCKED) and ended the run; the streams are incomplete", maxBlocked)
	}
	rep.Extra["watchdog"] = fmt.Sprintf("fast path: heartbeat per op, stall > %v = suspect; suspects replayed on all map kinds with every op in its own goroutine under %v (hook: shortest prefix that does not return); run ended after %d confirmed histories", stallDeadline, opDeadline, maxBlocked)
	rep.Extra["exhaustive_bound"] = fmt.Sprintf("all mutating sequences of length <= %d over 17 ops and of length <= %d over 19 ops (with X 0, N 1), each + %d observations (length >= 5: %d)", maxLen, maxLenExt, len(obsSuffix), len(obsSuffixLong))
	if useModel {
		rep.Extra["model"] = fmt.Sprintf("omap requests for exhaustive length <= %d and all random sequences", modelLen)
	} else {
		rep.Extra["model"] = "off (--no-model)"
	}
	rep.Finish()
}
