package c19

// Key spellings.  The op protocol addresses keys by small integers; the public
// maps are keyed by STRINGS, and the property holds for every string: a spelling
// is an injective map from key numbers to key strings.  Every history on a public
// map runs under one spelling (the kinds of map of one history under different
// ones, the plain spelling "k<n>" always among them when all five kinds run), so
// the association-list reference and the Lean model stay on integers.
//
// Catalogues (Go string = arbitrary bytes, all of them legal keys):
//
//	plain    k0, k1, …
//	control  the empty key, every kind of control character (\a \v 0x01 NUL 0x1f, the
//	         five that JSON has short escapes for), DEL, quote, backslash, slash
//	badutf8  byte sequences that are not UTF-8 (lone 0xff / continuation bytes,
//	         overlong forms, surrogates, truncated sequences, > U+10FFFF)
//	unicode  non-BMP and non-printable runes (emoji, tag characters, U+10FFFF,
//	         U+2028/9, NEL, soft hyphen, ZWSP, BOM, non-characters, private use, U+FFFD
//	         itself), composed / decomposed pairs, the HTML-sensitive < & >
//	textual  keys that look like JSON or like one another (prefixes, case, blanks,
//	         a 300-byte key)
//
// A key number below the length of the catalogue is the catalogue entry (rotated
// by the spelling's rotation, so that the three keys of the exhaustive stream
// meet every entry), a larger one is the catalogue's prefix + the decimal number.
//
// JSON: encoding/json (which the maps must agree with, says the property) writes
// every byte that is not part of a valid UTF-8 sequence as U+FFFD; jsonForm is
// that replacement, spelled out here byte by byte.  The catalogues are injective
// AFTER that replacement, too (checked when the spellings are built), so the keys
// of a decoded JSON text identify the key numbers.

import (
	"encoding/json"
	"fmt"
	"strconv"
	"strings"
	"unicode/utf8"
)

type spelling struct {
	name      string
	small     []string // strings of the key numbers 0 … len(small)-1
	smallJSON []string // their JSON texts (encoding/json)
	prefix    string   // other key numbers: prefix + decimal
	decPrefix string   // jsonForm(prefix)
	inv       map[string]int
	invDec    map[string]int // jsonForm(small[i]) -> i
	plain     bool
}

// jsonForm: the string a JSON reader gets back for key s written by encoding/json.
func jsonForm(s string) string {
	if utf8.ValidString(s) {
		return s
	}
	var sb strings.Builder
	for i := 0; i < len(s); {
		r, n := utf8.DecodeRuneInString(s[i:])
		if r == utf8.RuneError && n == 1 {
			sb.WriteString("\ufffd")
		} else {
			sb.WriteString(s[i : i+n])
		}
		i += n
	}
	return sb.String()
}

func (s *spelling) str(k int) string {
	if k >= 0 && k < len(s.small) {
		return s.small[k]
	}
	return s.prefix + strconv.Itoa(k)
}

// jsonKey: the JSON text encoding/json writes for the key string of k.
func (s *spelling) jsonKey(k int) string {
	if k >= 0 && k < len(s.smallJSON) {
		return s.smallJSON[k]
	}
	b, _ := json.Marshal(s.str(k))
	return string(b)
}

func numAfter(prefix, str string, floor int) int {
	if len(str) <= len(prefix) || str[:len(prefix)] != prefix {
		return -999
	}
	d := str[len(prefix):]
	n, err := strconv.Atoi(d)
	if err != nil || strconv.Itoa(n) != d || (n >= 0 && n < floor) {
		return -999
	}
	return n
}

// num: the key number of a key string handed out by the map (-999: none).
func (s *spelling) num(str string) int {
	if s.plain {
		return keyInt(str)
	}
	if k, ok := s.inv[str]; ok {
		return k
	}
	return numAfter(s.prefix, str, len(s.small))
}

// numDec: the key number of a key string read back from JSON text.
func (s *spelling) numDec(str string) int {
	if s.plain {
		return keyInt(str)
	}
	if k, ok := s.invDec[str]; ok {
		return k
	}
	return numAfter(s.decPrefix, str, len(s.small))
}

// describe: the strings of the key numbers used by ops, for the Input of a diff.
func (s *spelling) describe(ops []string) string {
	if s.plain {
		return ""
	}
	seen := map[int]bool{}
	var parts []string
	more := false
	for _, op := range ops {
		switch op[0] {
		case 'S', 'U', 'D', 'G', 'V', 'H':
			k := parseOp(op).a
			if seen[k] {
				continue
			}
			seen[k] = true
			if k >= len(s.small) {
				more = true
				continue
			}
			if len(parts) < 16 {
				parts = append(parts, fmt.Sprintf("%d=%+q", k, s.small[k]))
			}
		}
	}
	d := " [key strings (Go syntax) " + strings.Join(parts, " ")
	if more {
		d += fmt.Sprintf("; key n >= %d is %+q followed by the decimal n", len(s.small), s.prefix)
	}
	return d + "]"
}

type catalogue struct {
	name   string
	keys   []string
	prefix string
}

var catalogues = []catalogue{
	{"control", []string{"\a", "\v", "\x01", "\x7f", "\"", "\\", "", "\x00", "\x1f", "\b", "\f", "\n", "\r", "\t", "/", "\x1b[0m", "a\x00b", "\\u0007", "\\\"", "'"},
		"\x7f\a\\\"\x01"},
	{"badutf8", []string{"\xff", "\xc0\xaf", "\xed\xa0\x80", "a\xe2\x82", "\x80b", "a\xffb", "\xf4\x90\x80\x80", "\xfe\xff\x00", "é\xe9", "\xf0\x9f\x98z", "\xc2 ", "\xed\xa0\x80\xed\xb0\x80\x80\x80",
		"\xff\xff\xff\xff\xff"}, "\xc3\x28\xff"},
	{"unicode", []string{"\U0001F600", "\U000E0001", "\U0010FFFF", "\u2028", "\u2029", "\u0085", "\u00ad", "\u200b", "\ufeff", "\uffff", "\ufffd", "\u00e9", "e\u0301", "<&>", "\ud7ff", "\ue000",
		"\U000F0000", "\U0001D11E\u0000", "\u202e", "\ufffe"}, "\U000E0001\u2028\U0001F600"},
	{"textual", []string{"", " ", "k", "K", "k0 ", "{\"a\":1}", ":", ",", "null", "0", "key", "keyy", "ke", "\tk", "k\n", strings.Repeat("long-key ", 33) + "end", "[]", "\"\"", "k,k", "k=1"},
		"k 0"},
}

var plainSpelling = &spelling{name: "plain", plain: true, prefix: "k",
	small:     []string{"k0", "k1", "k2", "k3", "k4", "k5", "k6", "k7"},
	smallJSON: []string{`"k0"`, `"k1"`, `"k2"`, `"k3"`, `"k4"`, `"k5"`, `"k6"`, `"k7"`}}

// allSpellings[c] = the rotations of catalogue c-1 (allSpellings[0] = {plain}).
var allSpellings = buildSpellings()

// spellingProblem is set when a catalogue is not injective (a bug of this
// package: reported by Run, no history is run under it).
var spellingProblem string

func buildSpellings() [][]*spelling {
	out := [][]*spelling{{plainSpelling}}
	for _, c := range catalogues {
		n := len(c.keys)
		var rots []*spelling
		for rot := 0; rot < n; rot++ {
			s := &spelling{name: fmt.Sprintf("%s+%d", c.name, rot), prefix: c.prefix, decPrefix: jsonForm(c.prefix),
				inv: map[string]int{}, invDec: map[string]int{}}
			for i := 0; i < n; i++ {
				k := c.keys[(i+rot)%n]
				s.small = append(s.small, k)
				kb, _ := json.Marshal(k)
				s.smallJSON = append(s.smallJSON, string(kb))
				if _, dup := s.inv[k]; dup {
					spellingProblem = fmt.Sprintf("catalogue %s lists %+q twice", c.name, k)
				}
				if _, dup := s.invDec[jsonForm(k)]; dup {
					spellingProblem = fmt.Sprintf("catalogue %s: %+q equals another key after the U+FFFD replacement", c.name, k)
				}
				s.inv[k] = i
				s.invDec[jsonForm(k)] = i
				if numAfter(s.prefix, k, 0) != -999 || numAfter(s.decPrefix, jsonForm(k), 0) != -999 {
					spellingProblem = fmt.Sprintf("catalogue %s: %+q reads as prefix + number", c.name, k)
				}
			}
			rots = append(rots, s)
		}
		out = append(out, rots)
	}
	return out
}

// spellingFor: the spelling of slot (catalogue by slot, rotation by sel).
func spellingFor(slot, sel int) *spelling {
	if slot < 0 {
		slot = -slot
	}
	if sel < 0 {
		sel = -sel
	}
	rots := allSpellings[slot%len(allSpellings)]
	return rots[sel%len(rots)]
}
