// Package enumtprod: T-prod (product-state exploration, see package tprodkit) of the enum-rule scanner
// (rules/enum through the verif hook VerifEnumProbe) against the Lean model (EnumScan.dispatch / processFound,
// driver request `ekey E|L <hex> <from>`), events mode and length mode; the end-of-input rule of every state through
// VerifEnumEvents / VerifEnumLen vs `escan E|L`.
//
// The set of values seen so far (duplicate detection) is data, not control state: only its size capped at 2 is in
// the keys of both sides. The duplicate error itself is exercised (every probe runs implementation and model on the
// same bytes) but not exhaustively over value sets; that is enum-diff's and json-diff's job.
package enumtprod

import (
	"fmt"
	"strings"

	"github.com/jsightapi/jsight-schema-go-library/rules/enum"

	"verifharness/vh"
	"verifharness/x/tprodkit"
)

// depth: the enum scanner has one array level; annotations are the only other nesting.
func depth(key string) int {
	i := strings.Index(key, "|s=")
	if i < 0 {
		return 0
	}
	s := key[i+3:]
	if j := strings.Index(s, "|"); j >= 0 {
		s = s[:j]
	}
	return strings.Count(s, "A")
}

func Run(args []string) {
	fullDepth, lightDepth := 5, 5
	wide := vh.Tier() == "thorough" // 118 states per mode: all 256 x 256 two-byte probes are affordable
	two := fmt.Sprintf("two-byte probes over %d x %d byte-class representatives", len(tprodkit.ByteReps), len(tprodkit.ByteReps))
	if wide {
		two = "two-byte probes over all 256 x 256 byte pairs"
	}
	rep := vh.NewReport("enum-tprod", fmt.Sprintf("reachable pairs (implementation control-state key, model state) of the enum-rule scanner, events mode and length mode (the scanner nests one array, so the depth bound %d is not binding: the exploration covers the whole control state space); from every pair: all 256 next bytes, %s (look-ahead), three-byte probes over %q; compared per probe: delivered events with spans, outcome kind, error code+index, Len at a stop; per pair: end-of-input rule (full events / Len); pair relation functional both ways; nontrivial = a distinct pair",
		lightDepth, two, tprodkit.PeekBytes))
	tprodkit.Explore(rep, tprodkit.Machine{
		Name:  "enum-tprod",
		Modes: []string{"E", "L"},
		Impl: func(mode string, data []byte, from int) string {
			return vh.Recover(func() string { return enum.VerifEnumProbe(data, from, mode == "L") })
		},
		Req: func(mode string, data []byte, from int) string {
			return fmt.Sprintf("ekey %s %s %d", mode, vh.Hex(data), from)
		},
		FanCmd: "ekeys",
		Full: func(mode string, data []byte) string {
			return vh.Recover(func() string {
				if mode == "L" {
					return enum.VerifEnumLen(data)
				}
				return enum.VerifEnumEvents(data)
			})
		},
		FullReq: func(mode string, data []byte) string { return "escan " + mode + " " + vh.Hex(data) },
		Canon:   func(k string) string { return k },
		Depth:   depth,
	}, fullDepth, lightDepth, wide)
	rep.Finish()
}
