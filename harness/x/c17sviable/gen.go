package c17sviable

import (
	"math/rand"
	"strings"
)

// Structured generator of schema TEXTS that the schema scanner accepts (the scanner level only: rule names and values
// are not checked there): objects, arrays, scalars, type shortcuts `@a | @b`, key shortcuts, inline annotations
// `// {rule: v} - note`, multi-line annotations `/* … */` (with nested inline ones), user comments `# …` and
// `### … ###`, line breaks LF / CRLF / CR / mixed, single-line and multi-line layouts. The printer mirrors the
// scanner's allowAnnotation flag (no annotation after the `]` of a non-empty array until a `,` + line break or the
// first key of an object). Whatever the real scanner does not accept is counted and dropped by the caller.
type gen struct {
	r      *rand.Rand
	b      []byte
	multi  bool // one member / item per line
	nlKind int  // 0 LF, 1 CRLF, 2 CR, 3 mixed
	allow  bool // mirror of Scanner.allowAnnotation
	pAnn   int  // percent: annotation at a place where one fits
	pCom   int  // percent: user comment at a place where one fits
	feat   map[string]bool
}

var (
	genStrings = []string{`"a"`, `"Tom"`, `""`, `"a b"`, `"x//y"`, `"#tag"`, `"{k}"`, `"q\"q"`, `"é"`, `"\\"`, `"a\nb"`,
		"\"\xc3\xa9\"", `"[1,2]"`, `"/* x */"`, `"@a"`, `"a:b,c"`}
	genNumbers = []string{"0", "1", "42", "-7", "3.14", "-0.5", "100", "0.0", "-0", "12345"}
	genLits    = []string{"true", "false", "null"}
	genKeys    = []string{`"a"`, `"b"`, `"id"`, `"name"`, `"k 1"`, `"x-y"`, `"#"`, `"/"`, `"A"`, `"q\"k"`}
	genNames   = []string{"a", "b", "cat", "T1", "ns-x_1", "Pet", "k"}
	genRules   = []string{"min", "max", "type", "or", "enum", "regex", "optional", "nullable", "minLength", "precision",
		"additionalProperties", "allOf", "const", "minItems", `"min"`, `"type"`, "my_key", "a-b", `"a b"`}
	genWords = []string{"note", "the id", "x", "a {b}", "1/2", "it's", "a * b", "see @cat", "\"q\"", "[x]", "k: v", "a, b", "-"}
)

func (g *gen) s(x string)             { g.b = append(g.b, x...) }
func (g *gen) pick(l []string) string { return l[g.r.Intn(len(l))] }
func (g *gen) pct(p int) bool         { return g.r.Intn(100) < p }

func (g *gen) sp() {
	switch g.r.Intn(6) {
	case 0, 1:
	case 2, 3, 4:
		g.s(" ")
	case 5:
		g.s([]string{"  ", "\t"}[g.r.Intn(2)])
	}
}

func (g *gen) nl() {
	k := g.nlKind
	if k == 3 {
		k = g.r.Intn(3)
		g.feat["nl_mixed"] = true
	}
	switch k {
	case 0:
		g.s("\n")
	case 1:
		g.s("\r\n")
		g.feat["nl_crlf"] = true
	case 2:
		g.s("\r")
		g.feat["nl_cr"] = true
	}
}

func (g *gen) indent(d int) {
	if g.multi {
		g.s(strings.Repeat([]string{"  ", "\t", " ", ""}[g.r.Intn(4)], d))
	}
}

func (g *gen) scalar() {
	switch g.r.Intn(6) {
	case 0, 1:
		g.s(g.pick(genNumbers))
	case 2, 3:
		g.s(g.pick(genStrings))
	case 4:
		g.s(g.pick(genLits))
	case 5:
		g.shortcut()
	}
}

func (g *gen) shortcut() {
	g.feat["type_shortcut"] = true
	n := 1 + g.r.Intn(3)
	for i := 0; i < n; i++ {
		if i > 0 {
			g.s([]string{" | ", "|", " |", "| ", "\t|\t"}[g.r.Intn(5)])
			g.feat["or_shortcut"] = true
		}
		g.s("@" + g.pick(genNames))
	}
}

// value inside an annotation's rule object (no line breaks when inl)
func (g *gen) annValue(d int, inl bool) {
	k := g.r.Intn(10)
	if d >= 2 && k >= 7 {
		k = 0
	}
	switch {
	case k < 6:
		g.scalar()
	case k < 8:
		g.s("[")
		n := g.r.Intn(4)
		for i := 0; i < n; i++ {
			if i > 0 {
				g.s(",")
				g.sp()
			}
			g.annValue(d+1, inl)
		}
		g.s("]")
	default:
		g.annObject(d+1, inl)
	}
}

func (g *gen) annObject(d int, inl bool) {
	g.s("{")
	n := g.r.Intn(4)
	if d == 0 && n == 0 {
		n = 1
	}
	for i := 0; i < n; i++ {
		if i > 0 {
			g.s(",")
		}
		if !inl && g.pct(25) {
			g.nl()
		}
		g.sp()
		g.s(g.pick(genRules))
		if g.pct(15) {
			g.s(" ")
		}
		g.s(":")
		g.sp()
		g.annValue(d, inl)
		if !inl && g.allow && g.pct(12) { // inline annotation nested in a multi-line one
			g.feat["inline_in_multiline"] = true
			g.s(" // " + g.pick(genWords))
			g.nl()
		}
	}
	if n > 0 && g.pct(10) {
		g.s(",") // a comma before the closing brace is allowed in annotations
	}
	g.sp()
	g.s("}")
}

// inline annotation; the caller ends the line afterwards
func (g *gen) inlineAnn() {
	g.feat["inline_annotation"] = true
	g.s("//")
	g.sp()
	switch g.r.Intn(10) {
	case 0, 1, 2, 3:
		g.annObject(0, true)
		g.feat["inline_rules"] = true
	case 4, 5, 6:
		g.annObject(0, true)
		g.sp()
		g.s("-")
		g.sp()
		g.s(g.pick(genWords))
		g.feat["inline_rules_note"] = true
	case 7, 8:
		g.s(g.pick(genWords))
		g.feat["inline_note"] = true
	case 9:
		g.annObject(0, true)
		g.s(" # " + g.pick(genWords))
		g.feat["comment_after_annotation"] = true
	}
}

func (g *gen) multiAnn() {
	g.feat["multiline_annotation"] = true
	g.s("/*")
	brk := func() {
		if g.pct(40) {
			g.nl()
		} else {
			g.sp()
		}
	}
	brk()
	switch g.r.Intn(4) {
	case 0:
		g.annObject(0, false)
		brk()
	case 1, 2:
		g.annObject(0, false)
		brk()
		g.s("-")
		g.sp()
		g.s(g.pick(genWords))
		if g.pct(50) {
			g.nl()
			g.s(" " + g.pick(genWords) + " # not a comment here")
		}
		brk()
	case 3:
		g.s(g.pick(genWords))
		if g.pct(50) {
			g.nl()
			g.s(g.pick(genWords) + " * / ")
		}
		brk()
	}
	g.s("*/")
}

// a user comment that does not need the rest of the line: `### … ###`
func (g *gen) blockComment() {
	g.feat["block_comment"] = true
	g.s("###")
	if g.pct(50) {
		g.nl()
	}
	g.s(" " + g.pick(genWords) + " ")
	if g.pct(50) {
		g.nl()
		g.s(" // {not: an annotation} ")
		g.nl()
	}
	g.s("###")
}

func (g *gen) lineComment() {
	g.feat["line_comment"] = true
	g.s("#")
	if g.pct(85) {
		g.s(" " + g.pick(genWords))
		if g.pct(20) {
			g.s(" # // {x: 1} /* ")
		}
	}
}

// tail of a line after an element (value, `,`, `{`, `[`): optional annotation, optional comment
func (g *gen) tail() {
	if g.allow && g.pct(g.pAnn) {
		if g.multi && g.pct(70) {
			g.sp()
			g.inlineAnn()
			return // the line break that follows ends it
		}
		g.sp()
		g.multiAnn()
		if g.multi && g.allow && g.pct(10) {
			g.s(" ")
			g.inlineAnn()
			return
		}
	}
	if g.pct(g.pCom) {
		g.sp()
		if g.multi && g.pct(70) {
			g.lineComment()
		} else {
			g.blockComment()
		}
	}
}

// own-line comment between members / items
func (g *gen) ownLineComment(d int) {
	if g.multi && g.pct(g.pCom/2) {
		g.indent(d)
		if g.pct(70) {
			g.lineComment()
		} else {
			g.blockComment()
		}
		g.nl()
	}
}

func (g *gen) brk() {
	if g.multi {
		g.nl()
	} else {
		g.sp()
	}
}

func (g *gen) value(d int) {
	k := g.r.Intn(10)
	if d >= 3 {
		k = 0
	}
	switch {
	case k < 5:
		g.scalar()
	case k < 8:
		g.object(d)
	default:
		g.array(d)
	}
}

func (g *gen) object(d int) {
	g.feat["object"] = true
	g.s("{")
	n := g.r.Intn(5)
	if n > 0 || g.multi && g.pct(30) {
		g.tail()
		g.brk()
	}
	g.allow = true // the first key (or the closing brace) re-enables annotations
	for i := 0; i < n; i++ {
		g.ownLineComment(d + 1)
		g.indent(d + 1)
		if g.pct(15) {
			g.s("@" + g.pick(genNames))
			g.feat["key_shortcut"] = true
		} else {
			g.s(g.pick(genKeys))
		}
		g.sp()
		g.s(":")
		g.sp()
		g.value(d + 1)
		if i+1 < n {
			if g.pct(10) && g.multi {
				g.tail() // annotation before the comma
				g.nl()
				g.indent(d + 1)
				g.s(",")
				g.nl()
				g.allow = true
				continue
			}
			g.sp()
			g.s(",")
			if g.multi && !g.allow && g.pct(50) {
				g.nl() // `,` + line break re-enables annotations
				g.allow = true
				continue
			}
		}
		g.tail()
		g.brk()
		if g.multi && i+1 < n {
			g.allow = true
		}
	}
	if n > 0 {
		g.indent(d)
	}
	g.s("}")
}

func (g *gen) array(d int) {
	g.feat["array"] = true
	g.s("[")
	n := g.r.Intn(5)
	has := n > 0
	if n > 0 || g.multi && g.pct(30) {
		l := len(g.b)
		g.tail()
		if strings.Contains(string(g.b[l:]), "/") && !strings.HasPrefix(strings.TrimLeft(string(g.b[l:]), " \t"), "#") {
			has = true // an annotation right after `[` counts as "has item" for the scanner
		}
		g.brk()
	}
	for i := 0; i < n; i++ {
		g.ownLineComment(d + 1)
		g.indent(d + 1)
		g.value(d + 1)
		if i+1 < n {
			g.sp()
			g.s(",")
			if g.multi && !g.allow && g.pct(50) {
				g.nl()
				g.allow = true
				continue
			}
		}
		g.tail()
		g.brk()
		if g.multi && i+1 < n {
			g.allow = true
		}
	}
	if n > 0 {
		g.indent(d)
	}
	g.s("]")
	g.allow = !has
}

func genSchema(r *rand.Rand) ([]byte, map[string]bool) {
	g := &gen{r: r, allow: true, feat: map[string]bool{}}
	g.multi = r.Intn(100) < 75
	g.nlKind = []int{0, 0, 0, 1, 1, 2, 3}[r.Intn(7)]
	g.pAnn = []int{0, 15, 35, 60}[r.Intn(4)]
	g.pCom = []int{0, 10, 25}[r.Intn(3)]
	if g.multi {
		g.feat["layout_multi"] = true
	} else {
		g.feat["layout_single"] = true
	}
	for g.pct(g.pCom) { // leading comments / blank lines
		if g.pct(60) {
			g.lineComment()
			g.nl()
		} else {
			g.blockComment()
			g.sp()
		}
	}
	switch k := r.Intn(10); {
	case k < 2:
		g.scalar()
	case k < 8:
		g.object(0)
	default:
		g.array(0)
	}
	// after the top-level value
	inl := false
	if g.allow && g.pct(g.pAnn) {
		g.sp()
		if g.pct(60) {
			g.inlineAnn()
			inl = true // the rest of the line belongs to it; a line starting with `/` may not follow
			if g.pct(50) {
				g.nl()
				inl = false
			}
		} else {
			g.multiAnn()
		}
	}
	for !inl && g.pct(g.pCom) {
		g.s(" ")
		if g.pct(50) {
			g.lineComment()
			if g.pct(70) {
				g.nl()
			}
		} else {
			g.blockComment()
		}
	}
	if g.pct(20) {
		g.nl()
	}
	return g.b, g.feat
}

// a short valid fragment used as an extension
func genFragment(r *rand.Rand) []byte {
	g := &gen{r: r, allow: true, feat: map[string]bool{}, multi: r.Intn(2) == 0, pAnn: 30, pCom: 10}
	g.value(2)
	return g.b
}
