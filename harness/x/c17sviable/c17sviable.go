// Package c17sviable: property C17 for the SCHEMA scanner — "the position of a parsing error is the offset of the first
// byte that cannot continue the text" — checked on the real scanner (hook VerifSchemaEvents) with the Lean model's
// completion function as the witness (driver request `sviable <hex>`).
//
// Inputs: schema texts from a structured generator (gen.go; only texts the real scanner accepts are kept), DAMAGED at
// one place: one byte replaced (structural alphabet or a random byte), deleted, inserted, or the text truncated.
// For every damaged text on which the real scanner reports an error (code, i):
//
//	(0) the model reports the same (code, i);
//	(a) VIABILITY: the real scanner accepts text[:cut] + completion, where cut = i (codes 301 / 302 / 304) or len(text)
//	    (end of input, 303) and completion is what the Lean function `SchemaScan.completion` computes for the prefix;
//	    the model accepts it as well. So the bytes before the reported position could be continued.
//	(b) PREFIX-DETERMINED (not for 303): with w the model's exact look-ahead window (1 only for `##` not followed by a
//	    third `#`), the real scanner reports the same (code, i) on text[:i+1+w] + ext for every extension ext. So the
//	    byte at the reported position (plus w bytes) cannot be continued, whatever follows.
//
//	(c) CUT OF AN ACCEPTED TEXT (Lean: C17_schema_prefix_of_accepted): a truncated base text that the real scanner rejects
//	    is rejected at its LAST byte.
//	(w) REGRESSION WITNESS of the known finding (Lean: C17_schema_error_prefix_viable_full_false,
//	    C17_schema_witness_reported_at_10, C17_schema_witness_prefix_dead): the real scanner reports `[1 //{#c\n}]` at
//	    offset 10 (code 301) and rejects `[1 //{#c\n}` + ext for every single byte ext, for closing candidates and for
//	    generated / random extensions; the same (not proved in Lean) from the first dead byte on: `[1 //{#` + ext.
//
// Known finding recognised structurally (counted, not a diff): K-C17-comment-in-inline-annotation — the prefix holds
// a user comment `#` inside the rule object of an INLINE annotation; the real scanner forgets that it is inside an
// inline annotation, errors come late and the prefix before them cannot be completed.
package c17sviable

import (
	"fmt"
	"math/rand"
	"os"
	"sort"
	"strconv"
	"strings"
	"sync"

	"github.com/jsightapi/jsight-schema-go-library/notations/jschema"

	"verifharness/vh"
)

const knownClass = "K-C17-comment-in-inline-annotation"

var damageAlphabet = []byte("{}[]:,\"\\/#*@|-x1 \n")

func real(b []byte) string {
	return vh.Recover(func() string { return jschema.VerifSchemaEvents(b) })
}

func isFail(s string) bool {
	return strings.HasPrefix(s, "ERR ") || strings.HasPrefix(s, "CRASH ") || strings.HasPrefix(s, "PANIC ")
}

// parseErr: "ERR code idx" -> (code, idx, true)
func parseErr(s string) (int, int, bool) {
	f := strings.Fields(s)
	if len(f) < 3 || f[0] != "ERR" {
		return 0, 0, false
	}
	c, e1 := strconv.Atoi(f[1])
	i, e2 := strconv.Atoi(f[2])
	return c, i, e1 == nil && e2 == nil
}

func unhex(s string) ([]byte, bool) {
	if len(s)%2 != 0 {
		return nil, false
	}
	out := make([]byte, len(s)/2)
	for i := range out {
		v, err := strconv.ParseUint(s[2*i:2*i+2], 16, 8)
		if err != nil {
			return nil, false
		}
		out[i] = byte(v)
	}
	return out, true
}

// inKnownClass: some line of the prefix has, after a `//` outside strings and comments, a `{` that is still open when
// a `#` outside a string occurs on that line.
func inKnownClass(prefix []byte) bool {
	for _, line := range strings.FieldsFunc(string(prefix), func(r rune) bool { return r == '\n' || r == '\r' }) {
		if lineInKnownClass(line) {
			return true
		}
	}
	return false
}

func lineInKnownClass(line string) bool {
	// every `//` of the line is a candidate start of an inline annotation (the state before it — string, block comment
	// continued from an earlier line, `/**/` just closed — is not tracked); the annotation must start with a rule object
	for p := 0; p+1 < len(line); p++ {
		if line[p] != '/' || line[p+1] != '/' {
			continue
		}
		i := p + 2
		for i < len(line) && (line[i] == ' ' || line[i] == '\t') {
			i++
		}
		if i >= len(line) || line[i] != '{' {
			continue
		}
		// rule object: objects / arrays nest; a key of an annotation object is either quoted or runs up to the `:`
		// (braces, brackets and `#` inside it are key bytes), but a `#` where a key would start is a comment
		var stack []byte
		inStr, expectKey := false, false
	scan:
		for ; i < len(line); i++ {
			c := line[i]
			if inStr {
				if c == '\\' {
					i++
				} else if c == '"' {
					inStr = false
				}
				continue
			}
			if expectKey {
				switch c {
				case ' ', '\t':
					continue
				case '}':
					// handled below as a closer
				case '#':
					return true
				case '"':
					inStr, expectKey = true, false
					continue
				default:
					for i < len(line) && line[i] != ':' {
						i++
					}
					expectKey = false
					continue
				}
			}
			switch c {
			case '"':
				inStr = true
			case '{':
				stack = append(stack, 'o')
				expectKey = true
			case '[':
				stack = append(stack, 'a')
			case '}', ']':
				expectKey = false
				if len(stack) > 0 {
					stack = stack[:len(stack)-1]
				}
				if len(stack) == 0 {
					break scan // the rule object is closed: what follows is the note / a legitimate comment
				}
			case ',':
				if len(stack) > 0 && stack[len(stack)-1] == 'o' {
					expectKey = true
				}
			case '#':
				if len(stack) > 0 {
					return true
				}
			}
		}
	}
	return false
}

type damaged struct {
	text []byte
	kind string
	exts [][]byte
	real string
	// filled after the driver answered
	reply string
	res   result
}

type finding struct {
	comp, impl, model, note string
	ext                     []byte // the failing extension of check (b)
}

type result struct {
	w1, known, knownButViable bool
	aChecks, bChecks          int
	thirdHash                 int // 0 not applicable, 1 changes the outcome, 2 does not
	finds                     []finding
	mismatch                  bool // (0) failed: (a) and (b) are then evaluated at the REAL position (second driver round)
}

func q(b []byte) string { return fmt.Sprintf("%q", b) }

// check evaluates (0), (a), (b) for one damaged text, given the real result, the driver's reply and the extensions.
func check(text []byte, realRes, reply string, exts [][]byte) (res result) {
	code, idx, ok := parseErr(realRes)
	if !ok {
		// a panic that is not a DocumentError
		if !strings.HasPrefix(reply, "CRASH") {
			res.finds = append(res.finds, finding{comp: "c17s-real-crash", impl: realRes, model: reply})
		}
		return
	}
	f := strings.Fields(reply)
	if len(f) != 7 || f[0] != "ERR" {
		res.finds = append(res.finds, finding{comp: "c17s-errpos", impl: realRes, model: reply, note: "errpos: model != real"})
		res.mismatch = true
		return
	}
	mcode, _ := strconv.Atoi(f[1])
	midx, _ := strconv.Atoi(f[2])
	w, _ := strconv.Atoi(f[3])
	cut, _ := strconv.Atoi(f[4])
	if mcode != code || midx != idx {
		res.finds = append(res.finds, finding{comp: "c17s-errpos", impl: realRes, model: reply, note: "errpos: model != real"})
		res.mismatch = true
		return
	}
	wantCut := idx
	if code == 303 {
		wantCut = len(text)
	}
	if cut != wantCut || cut > len(text) || w < 0 || w > 1 {
		res.finds = append(res.finds, finding{comp: "c17s-protocol", impl: realRes, model: reply, note: fmt.Sprintf("cut / window out of range (expected cut %d)", wantCut)})
		return
	}
	res.w1 = w == 1

	// (a) viability of the prefix
	res.aChecks++
	prefix := text[:cut]
	known := inKnownClass(prefix)
	notViable := func(impl, note string) {
		if known {
			res.known = true
			return
		}
		res.finds = append(res.finds, finding{comp: "c17s-viable", impl: impl, model: reply, note: "prefix not viable: " + note})
	}
	if f[5] == "-" {
		notViable(realRes, "the model rejects the prefix "+q(prefix)+" itself")
	} else {
		var comp []byte
		if f[5] != "e" {
			var okh bool
			if comp, okh = unhex(f[5]); !okh {
				res.finds = append(res.finds, finding{comp: "c17s-protocol", impl: realRes, model: reply, note: "bad completion hex"})
				return
			}
		}
		full := append(append([]byte{}, prefix...), comp...)
		r2 := real(full)
		switch {
		case isFail(r2):
			notViable(r2, "the real scanner rejects prefix + completion "+q(full))
		case f[6] != "1":
			res.finds = append(res.finds, finding{comp: "c17s-viable", impl: "accepted", model: reply, note: "the model rejects its own completion " + q(full) + " (the real scanner accepts it)"})
		case known:
			res.knownButViable = true
		}
	}

	// (b) the error is determined by the prefix up to the offending byte plus the window
	if code != 303 {
		n := idx + 1 + w
		base := text
		over := n > len(text) // only with w = 1: the text ends right after `##`
		if !over {
			base = text[:n]
		}
		want := fmt.Sprintf("ERR %d %d", code, idx)
		for _, e := range exts {
			if over && len(e) > 0 && e[0] == '#' {
				e = append([]byte{'x'}, e[1:]...)
			}
			res.bChecks++
			t := append(append([]byte{}, base...), e...)
			if r3 := real(t); r3 != want {
				res.finds = append(res.finds, finding{comp: "c17s-prefix-determined", impl: r3, model: want, ext: e,
					note: "extension repaired / changed the error: " + q(t) + fmt.Sprintf(" (w=%d)", w)})
				break
			}
		}
		// (b') evidence that the window is needed
		if w == 1 && idx < len(text) {
			t := append(append([]byte{}, text[:idx+1]...), "# c ###1"...)
			if real(t) != want {
				res.thirdHash = 1
			} else {
				res.thirdHash = 2
			}
		}
	}
	return
}

// checkAtRealPos: when model and real disagree about the error, the property is still evaluated for the REAL (code, i):
// reply2 is the driver's answer to `sviable <text[:cut]>` (ACC: the prefix is complete, empty completion; ERR 303 with
// cut = its length: the completion of the prefix; anything else: the model rejects the prefix), and (b) runs with w = 0
// (skipped when the offending byte is `#`, where the window may be 1).
func checkAtRealPos(text []byte, realRes, reply2 string, exts [][]byte) (finds []finding) {
	code, idx, ok := parseErr(realRes)
	if !ok {
		return
	}
	cut := idx
	if code == 303 {
		cut = len(text)
	}
	if cut < 0 || cut > len(text) {
		return append(finds, finding{comp: "c17s-viable-at-real-pos", impl: realRes, model: "a position inside the text", note: "error position outside the text"})
	}
	prefix := text[:cut]
	if !inKnownClass(prefix) {
		f := strings.Fields(reply2)
		var comp []byte
		viable := false
		switch {
		case reply2 == "ACC":
			viable = true
		case len(f) == 7 && f[0] == "ERR" && f[1] == "303" && f[4] == strconv.Itoa(len(prefix)) && f[5] != "-":
			viable = true
			if f[5] != "e" {
				comp, viable = unhex(f[5])
			}
		}
		full := append(append([]byte{}, prefix...), comp...)
		if !viable {
			finds = append(finds, finding{comp: "c17s-viable-at-real-pos", impl: realRes, model: "driver on the prefix: " + reply2,
				note: "prefix not viable: the model rejects the prefix " + q(prefix) + " before its end"})
		} else if r2 := real(full); isFail(r2) {
			finds = append(finds, finding{comp: "c17s-viable-at-real-pos", impl: r2, model: "driver on the prefix: " + reply2,
				note: "prefix not viable: the real scanner rejects prefix + completion " + q(full)})
		}
	}
	if code != 303 && idx < len(text) && text[idx] != '#' {
		want := fmt.Sprintf("ERR %d %d", code, idx)
		for _, e := range exts {
			t := append(append([]byte{}, text[:idx+1]...), e...)
			if r3 := real(t); r3 != want {
				finds = append(finds, finding{comp: "c17s-prefix-determined-at-real-pos", impl: r3, model: want, ext: e,
					note: "extension repaired / changed the error: " + q(t)})
				break
			}
		}
	}
	return
}

func randExt(r *rand.Rand) []byte {
	n := 1 + r.Intn(12)
	b := make([]byte, n)
	for i := range b {
		if r.Intn(8) == 0 {
			b[i] = byte(r.Intn(256))
		} else {
			b[i] = damageAlphabet[r.Intn(len(damageAlphabet))]
		}
	}
	return b
}

func damage(r *rand.Rand, t []byte) ([]byte, string) {
	pickByte := func() byte {
		if r.Intn(5) == 0 {
			return byte(r.Intn(256))
		}
		return damageAlphabet[r.Intn(len(damageAlphabet))]
	}
	switch k := r.Intn(10); {
	case k < 5 && len(t) > 0:
		p := r.Intn(len(t))
		c := pickByte()
		for c == t[p] {
			c = pickByte()
		}
		m := append([]byte{}, t...)
		m[p] = c
		return m, "replace"
	case k < 7 && len(t) > 0:
		p := r.Intn(len(t))
		return append(append([]byte{}, t[:p]...), t[p+1:]...), "delete"
	case k < 9:
		p := r.Intn(len(t) + 1)
		m := append(append([]byte{}, t[:p]...), pickByte())
		return append(m, t[p:]...), "insert"
	default:
		if len(t) == 0 {
			return []byte{}, "truncate"
		}
		return append([]byte{}, t[:r.Intn(len(t))]...), "truncate"
	}
}

type baseRec struct {
	text     []byte
	accepted bool
	feat     map[string]bool
	dam      []*damaged
}

// minimise shrinks text by deleting bytes while the same component keeps failing (with the same extension for (b)).
func minimise(text []byte, comp string, ext []byte) ([]byte, string, string, finding) {
	fails := func(cands [][]byte) (int, string, string, finding) {
		reals := make([]string, len(cands))
		var reqs []string
		var at []int
		for i, c := range cands {
			reals[i] = real(c)
			if isFail(reals[i]) {
				reqs = append(reqs, "sviable "+vh.Hex(c))
				at = append(at, i)
			}
		}
		replies := vh.AskModel(reqs)
		var exts [][]byte
		if ext != nil {
			exts = [][]byte{ext}
		}
		results := make([]result, len(at))
		var reqs2 []string
		var at2 []int
		for k, i := range at {
			results[k] = check(cands[i], reals[i], replies[k], exts)
			if code, idx, ok := parseErr(reals[i]); ok && results[k].mismatch {
				cut := idx
				if code == 303 || cut > len(cands[i]) {
					cut = len(cands[i])
				}
				reqs2 = append(reqs2, "sviable "+vh.Hex(cands[i][:cut]))
				at2 = append(at2, k)
			}
		}
		for j, r2 := range vh.AskModel(reqs2) {
			k := at2[j]
			results[k].finds = append(results[k].finds, checkAtRealPos(cands[at[k]], reals[at[k]], r2, exts)...)
		}
		for k, i := range at {
			for _, f := range results[k].finds {
				if f.comp == comp {
					return i, reals[i], replies[k], f
				}
			}
		}
		return -1, "", "", finding{}
	}
	cur := append([]byte{}, text...)
	_, cr, cm, cf := fails([][]byte{cur})
	for _, size := range []int{32, 16, 8, 4, 2, 1} {
		for rounds := 0; rounds < 400; rounds++ {
			var cands [][]byte
			for p := 0; p+size <= len(cur); p++ {
				cands = append(cands, append(append([]byte{}, cur[:p]...), cur[p+size:]...))
			}
			i, r, m, f := fails(cands)
			if i < 0 {
				break
			}
			cur, cr, cm, cf = cands[i], r, m, f
		}
	}
	return cur, cr, cm, cf
}

// witnessStream: the regression witness of K-C17-comment-in-inline-annotation on the real scanner
func witnessStream(rep *vh.Report, nRand int) {
	pre := []byte("[1 //{#c\n}")
	dead6 := []byte("[1 //{#")
	full := append(append([]byte{}, pre...), ']')
	if r := real(full); r != "ERR 301 10" {
		rep.AddDiff(vh.Diff{Component: "c17s-witness", Input: q(full), Impl: "real " + r, Model: "ERR 301 10 (Lean: C17_schema_witness_reported_at_10)",
			Note: "the regression witness of " + knownClass + " is no longer reported at offset 10"})
	}
	rep.Stat("witness_reported_checks")
	var exts [][]byte
	exts = append(exts, []byte{})
	for b := 0; b < 256; b++ {
		exts = append(exts, []byte{byte(b)})
	}
	for _, c := range []string{"]", "\n]", "}]", "}\n]", "\n}]", " - note\n]", "*/]", "\n,2]", ",2]", "\"a\":1}]", "\n\"a\":1}\n]", "###]", "\n###\n]", "//\n]", "// {}\n]", "/* {} */]", "\n]//{}", "]\n\n"} {
		exts = append(exts, []byte(c))
	}
	r := vh.NewRand(170999001)
	for i := 0; i < nRand; i++ {
		if i%2 == 0 {
			exts = append(exts, genFragment(r))
		} else {
			exts = append(exts, randExt(r))
		}
	}
	for _, e := range exts {
		t := append(append([]byte{}, pre...), e...)
		rep.Stat("witness_prefix_ext_checks")
		if r1 := real(t); !isFail(r1) {
			rep.AddDiff(vh.Diff{Component: "c17s-witness", Input: q(t), Impl: "real accepted", Model: "rejected (Lean: C17_schema_witness_prefix_dead)",
				Note: "a continuation of the prefix before the reported byte of the witness is accepted"})
			break
		}
	}
	for _, e := range exts {
		t := append(append([]byte{}, dead6...), e...)
		rep.Stat("witness_dead6_ext_checks")
		if r1 := real(t); !isFail(r1) {
			rep.AddDiff(vh.Diff{Component: "c17s-witness-dead6", Input: q(t), Impl: "real accepted", Model: "rejected (first dead byte of the witness is offset 6)",
				Note: "a continuation of `[1 //{#` is accepted"})
			break
		}
	}
}

func Run(args []string) {
	// `--seed N` / `--tier quick|thorough` override VERIF_SEED / VERIF_TIER (the harness-wide way to pass them)
	for i := 0; i < len(args); i++ {
		a, v := args[i], ""
		if k := strings.IndexByte(a, '='); k > 0 {
			a, v = a[:k], a[k+1:]
		} else if i+1 < len(args) {
			v = args[i+1]
			i++
		}
		switch a {
		case "--seed", "-seed":
			os.Setenv("VERIF_SEED", v)
		case "--tier", "-tier":
			os.Setenv("VERIF_TIER", v)
		}
	}
	nBases := vh.Pick(6000, 60000)
	perBase := vh.Pick(12, 20)
	kExt := vh.Pick(4, 12)
	chunk := 4000
	rep := vh.NewReport("c17-schema-viable", fmt.Sprintf("C17 for the schema scanner: %d generated schema texts accepted by the real scanner (objects, arrays, scalars, type / key shortcuts, inline and multi-line annotations, # and ### comments, LF/CRLF/CR), each damaged %d times at one place (replace by a byte of %q or a random byte / delete / insert / truncate); for every damaged text with a real error (code,i): (0) model error = real error, (a) the real scanner accepts text[:cut]+completion(model) and so does the model, (b) for codes 301/302/304 the real scanner reports the same (code,i) on text[:i+1+w]+ext for %d extensions (empty, a valid fragment, random bytes); nontrivial = distinct damaged text on which the real scanner reports an error",
		nBases, perBase, damageAlphabet, kExt))

	witnessStream(rep, vh.Pick(2000, 20000))

	sigs := map[string]struct{}{}
	var knownExamples []string
	type failure struct {
		d *damaged
		f finding
	}
	var failures []failure
	const workers = 16

	for start := 0; start < nBases; start += chunk {
		end := start + chunk
		if end > nBases {
			end = nBases
		}
		bases := make([]*baseRec, end-start)
		var wg sync.WaitGroup
		for w := 0; w < workers; w++ {
			wg.Add(1)
			go func(w int) {
				defer wg.Done()
				for bi := w; bi < len(bases); bi += workers {
					r := vh.NewRand(int64(170000000 + start + bi)) // per-base PRNG: a base and its damages replay alone
					b := &baseRec{}
					b.text, b.feat = genSchema(r)
					b.accepted = !isFail(real(b.text))
					bases[bi] = b
					if !b.accepted {
						continue
					}
					for k := 0; k < perBase; k++ {
						d := &damaged{}
						d.text, d.kind = damage(r, b.text)
						d.real = real(d.text)
						if isFail(d.real) {
							d.exts = append(d.exts, []byte{}, genFragment(r))
							for len(d.exts) < kExt {
								d.exts = append(d.exts, randExt(r))
							}
						}
						b.dam = append(b.dam, d)
					}
				}
			}(w)
		}
		wg.Wait()

		var reqs []string
		var errs []*damaged
		for _, b := range bases {
			for _, d := range b.dam {
				if isFail(d.real) {
					reqs = append(reqs, "sviable "+vh.Hex(d.text))
					errs = append(errs, d)
				}
			}
		}
		replies := vh.AskModelSharded(reqs, 16)
		for w := 0; w < workers; w++ {
			wg.Add(1)
			go func(w int) {
				defer wg.Done()
				for i := w; i < len(errs); i += workers {
					errs[i].reply = replies[i]
					errs[i].res = check(errs[i].text, errs[i].real, replies[i], errs[i].exts)
				}
			}(w)
		}
		wg.Wait()

		// second round, only for (0) failures: the property at the REAL position
		var reqs2 []string
		var errs2 []*damaged
		for _, d := range errs {
			if code, idx, ok := parseErr(d.real); ok && d.res.mismatch {
				cut := idx
				if code == 303 || cut > len(d.text) {
					cut = len(d.text)
				}
				reqs2 = append(reqs2, "sviable "+vh.Hex(d.text[:cut]))
				errs2 = append(errs2, d)
			}
		}
		for i, r2 := range vh.AskModelSharded(reqs2, 16) {
			d := errs2[i]
			d.res.finds = append(d.res.finds, checkAtRealPos(d.text, d.real, r2, d.exts)...)
		}

		// sequential bookkeeping
		for _, b := range bases {
			if !b.accepted {
				rep.Stat("base_rejected_by_real_scanner")
				continue
			}
			rep.Stat("base_accepted")
			rep.Stat(fmt.Sprintf("base_len_%s", lenBucket(len(b.text))))
			for k := range b.feat {
				rep.Stat("base_has_" + k)
			}
			for _, d := range b.dam {
				fail := isFail(d.real)
				rep.Case(q(d.text), fail)
				rep.Stat("damage_" + d.kind)
				if !fail {
					rep.Stat("accepted_after_damage")
					continue
				}
				rep.Stat("damage_with_error_" + d.kind)
				code, idx, ok := parseErr(d.real)
				if ok {
					rep.Stat(fmt.Sprintf("real_err_%d", code))
					lo := idx - 3
					if lo < 0 {
						lo = 0
					}
					hi := idx + 1
					if hi > len(d.text) {
						hi = len(d.text)
					}
					if lo > hi {
						lo = hi
					}
					sigs[fmt.Sprintf("%d|%s", code, d.text[lo:hi])] = struct{}{}
				} else {
					rep.Stat("real_crash")
				}
				if d.kind == "truncate" && ok {
					// (c) a rejected cut of an accepted text is rejected at its last byte
					rep.Stat("checks_c_cut_last_byte")
					if idx != len(d.text)-1 {
						rep.AddDiff(vh.Diff{Component: "c17s-cut-last-byte", Input: q(d.text), Impl: "real " + d.real,
							Model: fmt.Sprintf("position %d (Lean: C17_schema_prefix_of_accepted)", len(d.text)-1),
							Note: "a cut of an accepted text is rejected before its last byte"})
					} else if code != 303 {
						rep.Stat("cut_rejected_with_invalid_character_at_last_byte")
					}
				}
				res := d.res
				rep.Stats["checks_a_viability"] += res.aChecks
				rep.Stats["checks_b_extensions"] += res.bChecks
				if res.bChecks > 0 {
					rep.Stat("cases_with_b_check")
				}
				if res.w1 {
					rep.Stat("window_w1")
				}
				switch res.thirdHash {
				case 1:
					rep.Stat("w1_third_hash_changes_outcome")
				case 2:
					rep.Stat("w1_third_hash_same_outcome")
				}
				if res.known {
					rep.Stat("known_" + knownClass)
					if len(knownExamples) < 3 && len(d.text) < 120 {
						knownExamples = append(knownExamples, fmt.Sprintf("text %s real %q driver %q", q(d.text), d.real, d.reply))
					}
				}
				if res.knownButViable {
					rep.Stat("known_class_shape_but_viable")
				}
				for _, f := range res.finds {
					failures = append(failures, failure{d, f})
				}
			}
		}
	}

	// failures: minimise a few per component, report all as diffs
	perComp := map[string]int{}
	for _, fl := range failures {
		text, realRes, reply, f := fl.d.text, fl.d.real, fl.d.reply, fl.f
		note := f.note
		if perComp[f.comp] < 4 {
			perComp[f.comp]++
			mt, mr, mm, mf := minimise(text, f.comp, f.ext)
			if mf.comp == f.comp {
				note = mf.note + " | minimised from " + q(text) + " (" + fl.d.kind + ")"
				text, realRes, reply, f = mt, mr, mm, mf
			}
		}
		rep.AddDiff(vh.Diff{Component: f.comp, Input: q(text), Impl: "real " + realRes + " | on the checked text: " + f.impl,
			Model: "driver `sviable`: " + reply + " | demanded: " + f.model, Note: note})
	}

	rep.Extra["distinct_error_signatures(code + 3 bytes before i + byte at i)"] = strconv.Itoa(len(sigs))
	rep.Extra["known_finding_class"] = knownClass
	sort.Strings(knownExamples)
	rep.Extra["known_finding_examples"] = strings.Join(knownExamples, " ;; ")
	rep.Finish()
}

func lenBucket(n int) string {
	switch {
	case n < 16:
		return "lt16"
	case n < 64:
		return "16_63"
	case n < 256:
		return "64_255"
	}
	return "ge256"
}
