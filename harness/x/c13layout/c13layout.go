// Package c13layout: harness command `c13-layout` — the tie of the C13 layout theorems
// (lean/JSight/Props/C13.lean: C13_line_end_style, C13_indentation, C13_user_comments_invisible,
// C13_events_with_comments, C13_text_with_comments_loads_value).
//
// What the theorems quantify over is generated here: random JSON value trees (Lay.JV: scalars of every token
// form the schema scanner admits, arrays, objects with keys that are distinct after decoding) x PAIRS of layouts
// (Lay.LI lists at every place a layout may stand): blanks (space, tab), line breaks in LF / CR / CR LF style,
// `#` line comments (also empty, also with '#', '//', '/*', brackets and quotes in the text), `## body ###` block
// comments (the usual `### text ###`, `#####`, bodies with single and double '#', with line breaks), comments
// directly before a closing bracket, an unterminated last comment at the end of the input. The layout validity
// predicate of the Lean side (Lay.LI.Valid, BTree.Valid: no comment around a ':') is ported (validItem).
//
// Per tree and per spelling:
//   (a) real GetAST (canonical dump, as loader-diff) == dump of the VALUE computed here from the tree alone
//       (Lay.tableOf: what C13_text_with_comments_loads_value says) — hence equal for both spellings;
//   (b) == the Lean loader model's dump of the same text (driver request `load`);
//   (c) real schema scanner events (hook VerifSchemaEvents) == Lay.docEvs computed here from the tree and its
//       layout (the right-hand side of C13_events_with_comments: two new-line events per line comment, none
//       for a block comment) == the Lean scanner model's events (`sscan E`).
// Annotation stream (C13_inline_vs_multiline, C13_trailing_comma): a top-level scalar with a rule object (bare rule
// names, literal values; in half of the cases a note `- text`) spelled `tok // {rules}` and `tok /* {rules} */`, blanks (and, in the multi-line form, line
// breaks) at every place the grammar of Lay.AnnValid allows them, with and without a trailing comma: real GetAST of
// every spelling == `(l v=tok r=[names] c=note)` (Lay.annNode / annNodeN) == the Lean loader model; real scanner events ==
// SchemaScan.annEvs / annEvsN computed here (C13_annotation_events, SchemaScan.annot_emits_note) == the Lean scanner model.
//
// A separate malformed stream moves / injects comment starts into places where no comment may stand (inside
// tokens, around ':', `##x`, unclosed blocks inside containers): only real-vs-model is compared there
// (tree or error code + position).
package c13layout

import (
	stdjson "encoding/json"
	stderrors "errors"
	"fmt"
	"math/rand"
	"strings"

	jlib "github.com/jsightapi/jsight-schema-go-library"
	"github.com/jsightapi/jsight-schema-go-library/notations/jschema"

	"verifharness/vh"
)

func hx(s string) string { return vh.Hex([]byte(s)) }

// ---------------------------------------------------------------------------------------------------------
// layouts (Lay.LI)

type item struct {
	kind byte   // 'b' blank, 'l' line comment, 'k' block comment
	b    byte   // blank byte
	text string // line text / block body
	nl   byte   // line break ending a line comment
}

func (it item) render() string {
	switch it.kind {
	case 'b':
		return string([]byte{it.b})
	case 'l':
		return "#" + it.text + string([]byte{it.nl})
	default:
		return "##" + it.text + "###"
	}
}

func isNl(c byte) bool { return c == 10 || c == 13 }

// validItem ports Lay.LI.Valid.
func validItem(it item) bool {
	switch it.kind {
	case 'b':
		return it.b == 32 || it.b == 9 || it.b == 10 || it.b == 13
	case 'l':
		for i := 0; i < len(it.text); i++ {
			if isNl(it.text[i]) {
				return false
			}
		}
		return !(len(it.text) > 0 && it.text[0] == '#') && isNl(it.nl)
	default:
		s := it.text + "#"
		if s[0] != '#' {
			return false
		}
		return !strings.Contains(it.text+"##", "###")
	}
}

type layout []item

func (w layout) render() string {
	var sb strings.Builder
	for _, it := range w {
		sb.WriteString(it.render())
	}
	return sb.String()
}

type ev struct {
	ty   string
	b, e int
}

// evs ports Lay.layEvs.
func (w layout) evs(o int) []ev {
	var out []ev
	for _, it := range w {
		switch it.kind {
		case 'b':
			if isNl(it.b) {
				out = append(out, ev{"new-line", o, o})
			}
		case 'l':
			n := len(it.text)
			out = append(out, ev{"new-line", o + n, o + n}, ev{"new-line", o + n + 1, o + n + 1})
		}
		o += len(it.render())
	}
	return out
}

// ---------------------------------------------------------------------------------------------------------
// trees (Lay.BTree)

type node struct {
	kind    byte // 's' scalar, 'a' array, 'o' object
	tok     string
	w0      layout
	items   []*node
	keys    []string
	w1, w4  []layout // before item / key; after item / member value
	w2, w3  []layout // around ':' (objects only; blanks only)
	nlit    int
	hasDups bool
}

func (n *node) render(sb *strings.Builder) {
	switch n.kind {
	case 's':
		sb.WriteString(n.tok)
	case 'a':
		sb.WriteByte('[')
		sb.WriteString(n.w0.render())
		for i, c := range n.items {
			sb.WriteString(n.w1[i].render())
			c.render(sb)
			sb.WriteString(n.w4[i].render())
			if i+1 < len(n.items) {
				sb.WriteByte(',')
			}
		}
		sb.WriteByte(']')
	case 'o':
		sb.WriteByte('{')
		sb.WriteString(n.w0.render())
		for i, c := range n.items {
			sb.WriteString(n.w1[i].render())
			sb.WriteString(n.keys[i])
			sb.WriteString(n.w2[i].render())
			sb.WriteByte(':')
			sb.WriteString(n.w3[i].render())
			c.render(sb)
			sb.WriteString(n.w4[i].render())
			if i+1 < len(n.items) {
				sb.WriteByte(',')
			}
		}
		sb.WriteByte('}')
	}
}

func (n *node) text() string {
	var sb strings.Builder
	n.render(&sb)
	return sb.String()
}

// evsAt ports Lay.cEvsAt.
func (n *node) evsAt(o int) []ev {
	switch n.kind {
	case 's':
		return []ev{{"literal-begin", o, o}, {"literal-end", o, o + len(n.tok) - 1}}
	case 'a':
		out := []ev{{"array-begin", o, o}}
		out = append(out, n.w0.evs(o+1)...)
		p := o + 1 + len(n.w0.render())
		for i, c := range n.items {
			out = append(out, n.w1[i].evs(p)...)
			p += len(n.w1[i].render())
			out = append(out, ev{"item-begin", p, p})
			out = append(out, c.evsAt(p)...)
			l := len(c.text())
			out = append(out, ev{"item-end", p, p + l - 1})
			out = append(out, n.w4[i].evs(p+l)...)
			p += l + len(n.w4[i].render())
			if i+1 < len(n.items) {
				p++
			}
		}
		return append(out, ev{"array-end", o, p})
	default:
		out := []ev{{"object-begin", o, o}}
		out = append(out, n.w0.evs(o+1)...)
		p := o + 1 + len(n.w0.render())
		for i, c := range n.items {
			out = append(out, n.w1[i].evs(p)...)
			p += len(n.w1[i].render())
			out = append(out, ev{"key-begin", p, p}, ev{"key-end", p, p + len(n.keys[i]) - 1})
			p += len(n.keys[i])
			out = append(out, n.w2[i].evs(p)...)
			p += len(n.w2[i].render()) + 1
			out = append(out, n.w3[i].evs(p)...)
			p += len(n.w3[i].render())
			out = append(out, ev{"value-begin", p, p})
			out = append(out, c.evsAt(p)...)
			l := len(c.text())
			out = append(out, ev{"value-end", p, p + l - 1})
			out = append(out, n.w4[i].evs(p+l)...)
			p += l + len(n.w4[i].render())
			if i+1 < len(n.items) {
				p++
			}
		}
		return append(out, ev{"object-end", o, p})
	}
}

func showEvs(es []ev) string {
	parts := make([]string, len(es))
	for i, e := range es {
		parts[i] = fmt.Sprintf("%s[%d:%d]", e.ty, e.b, e.e)
	}
	return strings.Join(parts, " ")
}

func unq(tok string) string {
	if len(tok) > 0 && tok[0] == '"' {
		var s string
		if err := stdjson.Unmarshal([]byte(tok), &s); err == nil {
			return s
		}
	}
	return tok
}

// valueDump ports Lay.tableOf, in the dump format of loader-diff: a function of the value only.
func (n *node) valueDump(key string, isMember bool) string {
	var sb strings.Builder
	sb.WriteByte('(')
	switch n.kind {
	case 's':
		sb.WriteByte('l')
	case 'a':
		sb.WriteByte('a')
	default:
		sb.WriteByte('o')
	}
	if isMember {
		fmt.Fprintf(&sb, " k=%s:p", hx(unq(key)))
	}
	if n.kind == 's' {
		fmt.Fprintf(&sb, " v=%s", hx(unq(n.tok)))
	}
	sb.WriteString(" r=[]")
	for i, c := range n.items {
		sb.WriteByte(' ')
		k := ""
		if n.kind == 'o' {
			k = n.keys[i]
		}
		sb.WriteString(c.valueDump(k, n.kind == 'o'))
	}
	sb.WriteByte(')')
	return sb.String()
}

// ---------------------------------------------------------------------------------------------------------
// generators

type style struct {
	le       int  // 0 LF, 1 CR, 2 CRLF, 3 mixed
	tabs     bool // indentation bytes
	comments int  // 0 none, 1 some, 2 many
	dense    bool // no blanks unless needed
}

func genStyle(r *rand.Rand) style {
	return style{le: r.Intn(4), tabs: r.Intn(2) == 0, comments: r.Intn(3), dense: r.Intn(4) == 0}
}

func (st style) lineBreak(r *rand.Rand) []item {
	k := st.le
	if k == 3 {
		k = r.Intn(3)
	}
	switch k {
	case 0:
		return []item{{kind: 'b', b: 10}}
	case 1:
		return []item{{kind: 'b', b: 13}}
	default:
		return []item{{kind: 'b', b: 13}, {kind: 'b', b: 10}}
	}
}

func (st style) nlByte(r *rand.Rand) byte {
	k := st.le
	if k >= 2 {
		k = r.Intn(2)
	}
	if k == 0 {
		return 10
	}
	return 13
}

const cmtAlphabet = " abcXYZ019#/*{}[]\":,@|-_.\\\t'+"

func randText(r *rand.Rand, n int) string {
	b := make([]byte, n)
	for i := range b {
		b[i] = cmtAlphabet[r.Intn(len(cmtAlphabet))]
	}
	return string(b)
}

func (st style) lineComment(r *rand.Rand, rep *vh.Report) item {
	for {
		n := 0
		if r.Intn(4) != 0 {
			n = 1 + r.Intn(8)
		}
		it := item{kind: 'l', text: randText(r, n), nl: st.nlByte(r)}
		if validItem(it) {
			if n == 0 {
				rep.Stat("cmt_line_empty")
			} else {
				rep.Stat("cmt_line")
			}
			return it
		}
	}
}

func (st style) blockComment(r *rand.Rand, rep *vh.Report) item {
	for {
		var body string
		switch r.Intn(6) {
		case 0:
			body = "" // #####
		case 1:
			body = "#" // ######  -> `##` `#` `###`
		default:
			n := r.Intn(10)
			t := randText(r, n)
			if r.Intn(3) == 0 && n > 0 { // a line break inside the block
				p := r.Intn(n)
				t = t[:p] + string([]byte{st.nlByte(r)}) + t[p:]
			}
			body = "#" + t
		}
		it := item{kind: 'k', text: body}
		if validItem(it) {
			if strings.ContainsAny(body, "\n\r") {
				rep.Stat("cmt_block_with_linebreak")
			} else if body == "" {
				rep.Stat("cmt_block_empty_body")
			} else {
				rep.Stat("cmt_block")
			}
			return it
		}
	}
}

// genLayout: a layout for a place of kind `cmtOK` (comments admitted) / blanks only; `wantBreak`: the printer would
// put a line break here.
func (st style) genLayout(r *rand.Rand, rep *vh.Report, cmtOK bool, wantBreak bool, depth int) layout {
	var w layout
	blank := func() {
		if st.tabs {
			w = append(w, item{kind: 'b', b: 9})
		} else {
			w = append(w, item{kind: 'b', b: 32})
		}
	}
	cmtP := 0
	if cmtOK {
		cmtP = []int{0, 12, 40}[st.comments]
	}
	if cmtP > 0 && r.Intn(100) < cmtP {
		// comment(s) here
		k := 1 + r.Intn(2)
		for i := 0; i < k; i++ {
			if r.Intn(3) == 0 {
				blank()
			}
			if r.Intn(2) == 0 {
				w = append(w, st.lineComment(r, rep))
				if r.Intn(3) == 0 { // the replayed line break may be followed by more of a CR LF
					w = append(w, item{kind: 'b', b: 10})
				}
			} else {
				w = append(w, st.blockComment(r, rep))
			}
		}
		if r.Intn(3) == 0 {
			blank()
		}
		return w
	}
	if st.dense {
		if r.Intn(6) == 0 {
			blank()
		}
		return w
	}
	if wantBreak && r.Intn(8) != 0 {
		w = append(w, st.lineBreak(r)...)
		if r.Intn(6) == 0 { // blank line
			w = append(w, st.lineBreak(r)...)
		}
		for i := 0; i < depth*(1+r.Intn(2)); i++ {
			blank()
		}
		return w
	}
	for i := r.Intn(3); i > 0; i-- {
		blank()
	}
	return w
}

var scalarPool = []string{"0", "-0", "1", "-1", "12", "907", "0.5", "-3.50", "10.0", "0.00", "true", "false", "null",
	`""`, `"a"`, `"#"`, `"# no comment"`, `"###"`, `"a // b"`, `"/* x */"`, `"{}"`, `"[1,2]"`, `"a\"b"`, `"\\"`, `"\n"`, `"Aé"`,
	`"\/"`, `"@t"`, `"a.b"`, `"1"`, `"é"`, `" "`, `"\t"`}

var keyPool = []string{`a`, `b`, `id`, `#`, `k k`, `a`, `\"q\"`, `é`, `x/y`, `@t`, `1`, `-`, `a\\b`, `{`, `:`, `,`}

type valueGen struct {
	r   *rand.Rand
	dup bool
}

// genValue: the value only (no layout yet).
func (g *valueGen) genValue(depth int) *node {
	r := g.r
	k := r.Intn(10)
	if depth <= 0 || k < 4 {
		return &node{kind: 's', tok: scalarPool[r.Intn(len(scalarPool))], nlit: 1}
	}
	n := &node{}
	cnt := r.Intn(4)
	if r.Intn(10) == 0 {
		cnt = 0
	}
	if k < 7 {
		n.kind = 'a'
	} else {
		n.kind = 'o'
	}
	seen := map[string]bool{}
	for i := 0; i < cnt; i++ {
		c := g.genValue(depth - 1)
		n.items = append(n.items, c)
		n.nlit += c.nlit
		n.hasDups = n.hasDups || c.hasDups
		if n.kind == 'o' {
			key := `"` + keyPool[r.Intn(len(keyPool))] + `"`
			if seen[unq(key)] {
				if g.dup {
					n.hasDups = true
				} else {
					key = fmt.Sprintf(`"k%d"`, i)
					for seen[unq(key)] {
						key = key[:len(key)-1] + `_"`
					}
				}
			}
			seen[unq(key)] = true
			n.keys = append(n.keys, key)
		}
	}
	return n
}

// layOut gives the value `v` a layout in style `st`: a fresh tree with the same value.
func layOut(r *rand.Rand, rep *vh.Report, st style, v *node, depth int) *node {
	n := &node{kind: v.kind, tok: v.tok, keys: v.keys, nlit: v.nlit, hasDups: v.hasDups}
	if v.kind == 's' {
		return n
	}
	oneLine := r.Intn(4) == 0
	n.w0 = st.genLayout(r, rep, true, !oneLine && len(v.items) > 0, depth+1)
	for i, c := range v.items {
		last := i+1 == len(v.items)
		if i == 0 {
			n.w1 = append(n.w1, st.genLayout(r, rep, true, false, depth+1))
		} else {
			n.w1 = append(n.w1, st.genLayout(r, rep, true, !oneLine, depth+1))
		}
		if v.kind == 'o' {
			n.w2 = append(n.w2, st.genLayout(r, rep, false, false, 0))
			n.w3 = append(n.w3, st.genLayout(r, rep, false, r.Intn(12) == 0, depth+2))
		}
		n.items = append(n.items, layOut(r, rep, st, c, depth+1))
		w4 := st.genLayout(r, rep, true, last && !oneLine, depth)
		if last && len(w4) > 0 && w4[len(w4)-1].kind != 'b' {
			rep.Stat("cmt_directly_before_closing_bracket")
		}
		n.w4 = append(n.w4, w4)
	}
	if len(v.items) == 0 && len(n.w0) > 0 && n.w0[len(n.w0)-1].kind != 'b' {
		rep.Stat("cmt_directly_before_closing_bracket")
	}
	return n
}


// ---------------------------------------------------------------------------------------------------------
// annotations of a top-level scalar (Lay.annTextB)

type rule struct{ name, val string }

var intRules = []rule{{"min", "-1000"}, {"max", "10000"}, {"nullable", "true"}, {"const", "false"}, {"type", `"integer"`}}
var strRules = []rule{{"minLength", "0"}, {"maxLength", "50"}, {"nullable", "false"}, {"const", "false"}, {"type", `"string"`}}
var anyRules = []rule{{"nullable", "true"}, {"const", "false"}}

func annBlanks(r *rand.Rand, multi bool, max int) string {
	n := r.Intn(max + 1)
	b := make([]byte, n)
	for i := range b {
		k := r.Intn(8)
		switch {
		case multi && k == 0:
			b[i] = 10
		case multi && k == 1:
			b[i] = 13
		case k < 4:
			b[i] = 9
		default:
			b[i] = 32
		}
	}
	return string(b)
}

// annText spells `tok <blanks> //|/* <blanks> { rules } <blanks> tail` and computes SchemaScan.annEvs for it.
const noteAlphabet = " \tabcXYZ019/{}[]\":,@|-_.\\'+=<>!?()"

func annText(r *rand.Rand, tok string, rules []rule, multi bool) (text, evs, note string) {
	var sb strings.Builder
	var es []ev
	put := func(s string) { // blanks: one new-line event per line break
		for i := 0; i < len(s); i++ {
			if isNl(s[i]) {
				es = append(es, ev{"new-line", sb.Len(), sb.Len()})
			}
			sb.WriteByte(s[i])
		}
	}
	sb.WriteString(tok)
	es = append(es, ev{"literal-begin", 0, 0}, ev{"literal-end", 0, len(tok) - 1})
	sb.WriteString(annBlanks(r, false, 2))
	y := sb.Len()
	annB, annE := "inline-annotation-begin", "inline-annotation-end"
	if multi {
		sb.WriteString("/*")
		annB, annE = "multi-line-annotation-begin", "multi-line-annotation-end"
	} else {
		sb.WriteString("//")
	}
	es = append(es, ev{annB, y, y + 1})
	put(annBlanks(r, multi, 2))
	o := sb.Len()
	sb.WriteByte('{')
	es = append(es, ev{"object-begin", o, o})
	if len(rules) == 0 {
		put(annBlanks(r, multi, 2))
	}
	for i, ru := range rules {
		put(annBlanks(r, multi, 2))
		p1 := sb.Len()
		sb.WriteString(ru.name)
		n2 := r.Intn(3)
		sb.WriteString(strings.Repeat(" ", n2))
		es = append(es, ev{"key-begin", p1, p1}, ev{"key-end", p1, p1 + len(ru.name) + n2 - 1})
		sb.WriteByte(':')
		put(annBlanks(r, multi, 2))
		q := sb.Len()
		sb.WriteString(ru.val)
		es = append(es, ev{"value-begin", q, q}, ev{"literal-begin", q, q}, ev{"literal-end", q, q + len(ru.val) - 1},
			ev{"value-end", q, q + len(ru.val) - 1})
		put(annBlanks(r, multi, 2))
		if i+1 < len(rules) {
			sb.WriteByte(',')
		} else if r.Intn(2) == 0 { // trailing comma
			sb.WriteByte(',')
			put(annBlanks(r, multi, 2))
		}
	}
	es = append(es, ev{"object-end", o, sb.Len()})
	sb.WriteByte('}')
	put(annBlanks(r, multi, 2))
	note = ""
	q := 0
	if r.Intn(2) == 0 { // a note: `-`, spaces / tabs, text without line break, '#', '*', starting with a non-blank byte
		sb.WriteByte('-')
		sb.WriteString(annBlanks(r, false, 2))
		q = sb.Len()
		n := 1 + r.Intn(8)
		b := make([]byte, n)
		for i := range b {
			b[i] = noteAlphabet[r.Intn(len(noteAlphabet))]
		}
		for b[0] == ' ' || b[0] == '\t' {
			b[0] = noteAlphabet[r.Intn(len(noteAlphabet))]
		}
		note = string(b)
		sb.WriteString(note)
		txtB, txtE := "inline-annotation-text-begin", "inline-annotation-text-end"
		if multi {
			txtB, txtE = "multi-line-annotation-text-begin", "multi-line-annotation-text-end"
		}
		es = append(es, ev{txtB, q, q}, ev{txtE, q, sb.Len() - 1})
	}
	t := sb.Len()
	if multi {
		sb.WriteString("*/")
		es = append(es, ev{annE, y, t + 1})
		put(annBlanks(r, true, 3))
	} else if r.Intn(2) == 0 {
		es = append(es, ev{annE, y, t - 1})
		put(string([]byte{[]byte{10, 13}[r.Intn(2)]}))
		put(annBlanks(r, true, 3))
	} else if note != "" {
		es = append(es, ev{annE, y, t}) // end of input inside the note: one past the last byte
	} else {
		es = append(es, ev{annE, y, t - 1})
	}
	return sb.String(), showEvs(es), note
}

func annCase(r *rand.Rand) (tok string, rules []rule, want string) {
	tok = scalarPool[r.Intn(len(scalarPool))]
	pool := anyRules
	switch {
	case tok[0] == '"':
		pool = strRules
	case tok[0] == '-' || (tok[0] >= '0' && tok[0] <= '9'):
		if !strings.Contains(tok, ".") {
			pool = intRules
		} else {
			pool = []rule{{"min", "-1000"}, {"max", "10000"}, {"nullable", "true"}, {"precision", "2"}}
		}
	}
	perm := r.Perm(len(pool))
	k := r.Intn(4)
	if k > len(pool) {
		k = len(pool)
	}
	var names []string
	for _, j := range perm[:k] {
		rules = append(rules, pool[j])
		names = append(names, hx(pool[j].name))
	}
	want = fmt.Sprintf("(l v=%s r=[%s])", hx(unq(tok)), strings.Join(names, ","))
	return
}

// ---------------------------------------------------------------------------------------------------------
// the real library

func dump(n jlib.ASTNode, isChildOfObject bool) string {
	var sb strings.Builder
	sb.WriteByte('(')
	switch n.TokenType {
	case jlib.TokenTypeObject:
		sb.WriteByte('o')
	case jlib.TokenTypeArray:
		sb.WriteByte('a')
	case jlib.TokenTypeShortcut:
		sb.WriteByte('m')
	default:
		sb.WriteByte('l')
	}
	if isChildOfObject {
		f := "p"
		if n.IsKeyShortcut {
			f = "s"
		}
		fmt.Fprintf(&sb, " k=%s:%s", hx(n.Key), f)
	}
	if n.TokenType != jlib.TokenTypeObject && n.TokenType != jlib.TokenTypeArray {
		fmt.Fprintf(&sb, " v=%s", hx(n.Value))
	}
	var names []string
	if n.Rules != nil {
		n.Rules.EachSafe(func(k string, _ jlib.RuleASTNode) { names = append(names, hx(k)) })
	}
	sb.WriteString(" r=[" + strings.Join(names, ",") + "]")
	if n.Comment != "" {
		fmt.Fprintf(&sb, " c=%s", hx(n.Comment))
	}
	for _, c := range n.Children {
		sb.WriteByte(' ')
		sb.WriteString(dump(c, n.TokenType == jlib.TokenTypeObject))
	}
	sb.WriteByte(')')
	return sb.String()
}

var covered = map[int]bool{402: true, 801: true, 802: true, 803: true, 804: true, 301: true, 302: true, 303: true, 304: true}

// realAST: canonical tree, "ERR code pos" for the error classes the model covers, "" otherwise.
func realAST(text string) string {
	return vh.Recover(func() string {
		s := jschema.New("s", text)
		ast, err := s.GetAST()
		if err != nil {
			var pe jlib.ParsingError
			if stderrors.As(err, &pe) && covered[pe.ErrCode()] {
				return fmt.Sprintf("ERR %d %d", pe.ErrCode(), pe.Position())
			}
			return ""
		}
		if ast.TokenType == "" && len(ast.Children) == 0 && ast.Value == "" {
			return "EMPTY"
		}
		return dump(ast, false)
	})
}

func realEvents(text string) string {
	return vh.Recover(func() string { return jschema.VerifSchemaEvents([]byte(text)) })
}

// ---------------------------------------------------------------------------------------------------------

type spelled struct {
	text    string
	wantEvs string
	st      style
}

func spell(r *rand.Rand, rep *vh.Report, v *node) spelled {
	st := genStyle(r)
	t := layOut(r, rep, st, v, 0)
	w0 := st.genLayout(r, rep, true, r.Intn(6) == 0, 0)
	w1 := st.genLayout(r, rep, true, r.Intn(2) == 0, 0)
	fin := ""
	if st.comments > 0 && r.Intn(4) == 0 {
		for {
			fin = randText(r, r.Intn(7))
			if !(len(fin) > 0 && fin[0] == '#') {
				break
			}
		}
		fin = "#" + fin
		rep.Stat("cmt_unterminated_at_end_of_input")
	}
	pre := w0.render()
	body := t.text()
	text := pre + body + w1.render() + fin
	var es []ev
	es = append(es, w0.evs(0)...)
	es = append(es, t.evsAt(len(pre))...)
	es = append(es, w1.evs(len(pre)+len(body))...)
	switch st.le {
	case 0:
		rep.Stat("style_lf")
	case 1:
		rep.Stat("style_cr")
	case 2:
		rep.Stat("style_crlf")
	default:
		rep.Stat("style_mixed_line_ends")
	}
	if strings.Contains(text, "#") && st.comments > 0 {
		rep.Stat("spelling_with_comments")
	} else {
		rep.Stat("spelling_without_comments")
	}
	return spelled{text: text, wantEvs: showEvs(es), st: st}
}

const malformedAlphabet = "#\n\r \t"

func Run(args []string) {
	rep := vh.NewReport("c13-layout", "random JSON value trees (depth <= 4, scalars of every token form incl. strings holding '#', '//', '/*', keys distinct after decoding) x 2 spellings each (line ends LF / CR / CRLF / mixed, spaces or tabs, dense or indented, user comments none / some / many: `#` line comments incl. empty ones, `## body ###` blocks incl. `#####` and blocks with line breaks, comments directly before a closing bracket, an unterminated last comment); per spelling: real GetAST dump == dump of the VALUE (Lay.tableOf) == Lean loader model (`load`), real scanner events == Lay.docEvs computed from tree + layout == Lean scanner model (`sscan E`); a malformed stream (comment starts moved into tokens / around ':' / `##x` / unclosed blocks, 1-3 byte edits) compares real vs model only; trees with duplicate keys (5%) likewise; nontrivial = spelling with at least one line break or comment and a container; annotation stream: scalar + rule object (0-3 rules valid for the scalar's type, bare names, literal values) as `tok // {…}` and `tok /* … */` with blanks / line breaks / trailing comma / a note: real GetAST == (value, rule names, note) == loader model, real scanner events == annEvs == scanner model")
	r := vh.NewRand(1313)
	n := vh.Pick(40000, 1200000)
	type pending struct {
		text, want, wantEvs, realA, realE string
		strict                            bool // (a) and (c) apply
		annot                             bool // annotation stream: (a) only, want = Lay.annNode
	}
	var cases []pending
	var reqs []string
	add := func(p pending) {
		p.realA = realAST(p.text)
		p.realE = realEvents(p.text)
		cases = append(cases, p)
		reqs = append(reqs, "load "+hx(p.text), "sscan E "+hx(p.text))
	}
	flush := func() {
		model := vh.AskModelSharded(reqs, 16)
		for i, c := range cases {
			mA, mE := model[2*i], model[2*i+1]
			in := fmt.Sprintf("%q", c.text)
			if c.annot {
				rep.Stat("annot_checked")
				if c.realA == "" {
					rep.Stat("annot_real_outside_model")
				} else if c.realA != c.want {
					rep.AddDiff(vh.Diff{Component: "annot-ast-vs-annNode", Input: in, Impl: c.realA, Model: c.want,
						Note: "GetAST of an annotated scalar differs from (value, rule names) (C13_inline_vs_multiline / C13_trailing_comma)"})
				}
				if c.realE != c.wantEvs {
					rep.AddDiff(vh.Diff{Component: "annot-events-vs-annEvs", Input: in, Impl: c.realE, Model: c.wantEvs,
						Level: "correspondence", Note: "real scanner events differ from SchemaScan.annEvs (C13_annotation_events)"})
				}
			}
			if c.strict {
				if c.realA != c.want {
					rep.AddDiff(vh.Diff{Component: "ast-vs-value", Input: in, Impl: c.realA, Model: c.want,
						Note: "GetAST of a spelling differs from the table of its value (C13: layout and comments must be invisible)"})
				}
				if c.realE != c.wantEvs {
					rep.AddDiff(vh.Diff{Component: "events-vs-docEvs", Input: in, Impl: c.realE, Model: c.wantEvs,
						Level: "correspondence", Note: "real scanner events differ from Lay.docEvs (C13_events_with_comments)"})
				}
				rep.Stat("strict_checked")
			}
			if c.realA == "" {
				rep.Stat("real_outside_model")
				if rep.Stats["real_outside_model"] <= 3 {
					rep.Extra[fmt.Sprintf("outside_model_%d", rep.Stats["real_outside_model"])] = in
				}
			} else {
				if strings.HasPrefix(c.realA, "ERR") {
					rep.Stat("real_" + strings.Fields(c.realA)[1])
				} else {
					rep.Stat("real_tree")
				}
				if c.realA != mA {
					rep.AddDiff(vh.Diff{Component: "ast-vs-loader-model", Input: in, Impl: c.realA, Model: mA, Level: "correspondence"})
				}
			}
			if c.realE != mE {
				rep.AddDiff(vh.Diff{Component: "events-vs-scanner-model", Input: in, Impl: c.realE, Model: mE, Level: "correspondence"})
			}
		}
		cases, reqs = cases[:0], reqs[:0]
	}
	for i := 0; i < n; i++ {
		if len(cases) >= 100000 {
			flush()
		}
		g := &valueGen{r: r, dup: r.Intn(8) == 0}
		v := g.genValue(1 + r.Intn(4))
		want := v.valueDump("", false)
		var texts [2]string
		for k := 0; k < 2; k++ {
			sp := spell(r, rep, v)
			texts[k] = sp.text
			if v.hasDups {
				rep.Stat("tree_with_duplicate_keys")
				add(pending{text: sp.text, wantEvs: sp.wantEvs})
			} else {
				add(pending{text: sp.text, want: want, wantEvs: sp.wantEvs, strict: true})
			}
			rep.Case(sp.text, v.kind != 's' && strings.ContainsAny(sp.text, "\n\r#"))
		}
		switch v.kind {
		case 's':
			rep.Stat("root_scalar")
		case 'a':
			rep.Stat("root_array")
		default:
			rep.Stat("root_object")
		}
		if i%4 == 0 {
			tok, rules, wantA := annCase(r)
			for k := 0; k < 2; k++ {
				t, wantE, note := annText(r, tok, rules, k == 1)
				wantA := wantA
				if tn := strings.Trim(note, " \t"); tn != "" {
					wantA = wantA[:len(wantA)-1] + " c=" + hx(tn) + ")"
					rep.Stat("annot_with_note")
				}
				if k == 1 {
					rep.Stat("annot_multi_line")
				} else {
					rep.Stat("annot_inline")
				}
				if strings.Contains(t, ",}") || strings.Contains(t, ", }") || strings.Contains(t, ",\t}") {
					rep.Stat("annot_trailing_comma")
				}
				add(pending{text: t, want: wantA, wantEvs: wantE, annot: true})
				rep.Case(t, len(rules) > 0)
			}
		}
		if i%3 == 0 {
			// malformed stream
			b := []byte(texts[r.Intn(2)])
			switch r.Intn(4) {
			case 0: // a comment start at a random byte position
				p := r.Intn(len(b) + 1)
				ins := []string{"#", "##", "###", "# x\n", "#\n", "### x ###", "####", "##x"}[r.Intn(8)]
				b = append(b[:p], append([]byte(ins), b[p:]...)...)
			case 1: // around a colon
				if p := strings.IndexByte(string(b), ':'); p >= 0 {
					ins := []string{"#c\n", "###c###", " # \n"}[r.Intn(3)]
					if r.Intn(2) == 0 {
						p++
					}
					b = append(b[:p], append([]byte(ins), b[p:]...)...)
				}
			default:
				b = vh.Mutate(r, b, []byte(malformedAlphabet))
			}
			rep.Stat("malformed_stream")
			add(pending{text: string(b)})
			rep.Case(string(b), false)
		}
	}
	flush()
	rep.Finish()
}
