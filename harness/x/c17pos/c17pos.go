// Package c17pos: harness command `c17-valpos` — the tie of the position-carrying validator model
// (`lean/JSight/ValidatePos.lean`, theorem `C17_validation_errpos`) to the real `Validate`.
//
// Schemas of the C01 fragment (scalars of the five kinds with optional min / max / minLength / maxLength, type any,
// arrays with the last-element rule and empty example arrays, objects with unmarked / optional:true / optional:false
// keys, nullable on scalars and containers, both KeysAreOptionalByDefault settings, depth <= 5) with kind-disjoint
// alternatives: one position in five is a type list `@a | @b | @c` of named types (AddType) — scalar types with their
// own rules next to at most one container type (which may itself be nullable) —, one in ten a single reference `@a`. Documents are JSON
// TREES WITH LAYOUT: sampled inhabitants; per-site mutations while sampling (random value, dropped / repeated / added
// key, reordered members); then 0..2 planted violations at random sites of any depth (wrong kind, null where not
// nullable, scalar of another kind, above max / below min, too long / too short string, unknown key, dropped key,
// duplicated key, extra / fewer array elements); unrelated documents. Every whitespace slot of the tree gets a random
// blank string (LF / CRLF / CR files), plus blanks before and after the document.
//
// For EVERY case — accepted ones included — the real outcome, canonicalised to ACC / REJ <code> <position>, must equal
// (1) the Lean model of scanner + validator run on the document's bytes and (2) the spec `firstOffence` evaluated on
// the tree; the driver also returns the bytes it rendered from the tree, which must be the bytes Go validated.
package c17pos

import (
	"fmt"
	"strings"

	"verifharness/vh"
)

func countUnions(n *node, rep *vh.Report) {
	switch {
	case len(n.alts) > 0 && n.kind == "lit":
		rep.Stat("position_union_of_scalars")
	case len(n.alts) > 0:
		rep.Stat("position_union_container_and_scalars")
	case n.viaRef:
		rep.Stat("position_single_reference")
	}
	if n.nullable && n.kind != "lit" {
		rep.Stat("position_nullable_container")
	}
	for _, it := range n.items {
		countUnions(it, rep)
	}
	for _, p := range n.props {
		countUnions(p.val, rep)
	}
}

func Run(args []string) {
	if len(args) >= 2 && args[0] == "probe" {
		probe(args[1:])
		return
	}
	rep := vh.NewReport("c17-valpos", "schemas of the rule-free fragment + min/max/minLength/maxLength on scalars (depth <= 5, arrays <= 3 items incl. empty, "+
		"objects <= 4 props, optional marks, nullable scalars and containers, type lists @a | @b of scalar types next to at most one container type, both key-optionality settings) x documents as JSON trees with random "+
		"layout (inhabitants; mutated while sampled: random value / dropped / repeated / added key / reordered; 0..2 planted violations at random "+
		"depth: wrong kind, null, other scalar kind, bound and length violations, unknown / dropped / duplicated key, extra / fewer elements; unrelated "+
		"documents); real Validate canonicalised to ACC | REJ code position vs Lean scanner+validator model on the bytes AND spec firstOffence on the "+
		"tree, for every case. nontrivial = rejected document, or accepted document of depth >= 2")
	r := vh.NewRand(17017)
	nSchemas := vh.Pick(7000, 120000)
	st := &stats{map[string]int{}}
	var reqs, impl, inputs []string
	for i := 0; i < nSchemas; i++ {
		n := genNode(r, 1+r.Intn(5))
		for try := 0; try < 2 && n.kind != "obj" && n.kind != "arr"; try++ {
			n = genNode(r, 1+r.Intn(5)) // the root is a container most of the time
		}
		optDefault := r.Intn(2) == 0
		var sb strings.Builder
		sp := &sprinter{r: r}
		sp.print(&sb, n, 0, "", "")
		text := sb.String()
		types := sp.types
		showSchema := fmt.Sprintf("schema=%q", text)
		for _, t := range types {
			showSchema += fmt.Sprintf(" AddType(%s, %q)", t[0], t[1])
		}
		if len(types) > 0 {
			rep.Stat("schema_with_named_types")
		}
		countUnions(n, rep)
		if chk := realCheck(text, types, optDefault); chk != "OK" {
			rep.Stat("check_failed")
			rep.AddDiff(vh.Diff{Component: "C17-valpos-check", Input: fmt.Sprintf("%s optDefault=%v", showSchema, optDefault), Impl: chk,
				Model: "a schema of the fragment passes Check", Level: "correspondence"})
			continue
		}
		sx := schemaSx(n, optDefault)
		nl := []string{"\n", "\n", "\r\n", "\r"}[r.Intn(4)]
		for j := 0; j < 12; j++ {
			var d *dnode
			mut := []int{0, 0, 0, 0, 0, 0, 10, 10, 25, 50, 0, 100}[j]
			if j == 10 {
				d = randomDoc(r, 3)
				rep.Stat("doc_unrelated")
			} else {
				d = sample(r, n, optDefault, mut, st)
			}
			holder := &d
			nPlants := []int{0, 1, 1, 1, 2, 2, 0, 1, 0, 0, 0, 0}[j]
			for k := 0; k < nPlants; k++ {
				var plants []plant
				collect(r, n, *holder, func(nd *dnode) { *holder = nd }, 0, optDefault, &plants)
				if len(plants) == 0 {
					break
				}
				// a class first (uniform over the classes present, so that rare classes get their share), then a site of
				// that class, preferring deep ones: weight (depth+1)^2
				var classes []string
				seen := map[string]bool{}
				for _, pl := range plants {
					if !seen[pl.class] {
						seen[pl.class] = true
						classes = append(classes, pl.class)
					}
				}
				cl := classes[r.Intn(len(classes))]
				total, pick := 0, plants[0]
				for _, pl := range plants {
					if pl.class != cl {
						continue
					}
					w := (pl.depth + 1) * (pl.depth + 1)
					total += w
					if r.Intn(total) < w {
						pick = pl
					}
				}
				if pick.depth == 0 && (pick.class == "wrong-kind" || pick.class == "null-where-not-nullable") && r.Intn(3) != 0 {
					continue // replacing the whole document is the least interesting plant: keep one in three
				}
				pick.apply()
				rep.Stat("planted_" + pick.class)
				rep.Stat(fmt.Sprintf("planted_at_depth_%d", pick.depth))
			}
			d = *holder
			layout(r, d, nl)
			pre, post := ws(r, nl), ws(r, nl)
			var db strings.Builder
			db.WriteString(pre)
			render(&db, d)
			db.WriteString(post)
			doc := db.String()
			got := realValidate(text, types, optDefault, []byte(doc))
			var tb strings.Builder
			treeSx(&tb, d)
			reqs = append(reqs, "semp val "+sx+" "+hx(pre)+" "+tb.String()+" "+hx(post))
			impl = append(impl, got+" | "+got+" | "+vh.Hex([]byte(doc)))
			in := fmt.Sprintf("%s optDefault=%v document=%q", showSchema, optDefault, doc)
			inputs = append(inputs, in)
			f := strings.Fields(got)
			switch {
			case got == "ACC":
				rep.Stat("accepted")
			case len(f) == 3 && f[0] == "REJ":
				rep.Stat("rejected_code_" + f[1])
			default:
				rep.Stat("other_outcome")
			}
			rep.Stat(fmt.Sprintf("sample_mutation_%d", mut))
			rep.Stat(fmt.Sprintf("doc_depth_%d", docDepth(d)))
			rep.Case(in, got != "ACC" || docDepth(d) >= 2)
		}
	}
	for k, v := range st.m {
		rep.Stats[k] += v
	}
	// model, spec and rendering are compared separately so that a diff says which of the three disagrees
	replies := vh.AskModelSharded(reqs, 16)
	for i, rp := range replies {
		want := strings.Split(impl[i], " | ")
		got := strings.Split(rp, " | ")
		if len(got) != 3 {
			rep.AddDiff(vh.Diff{Component: "C17-valpos-driver", Input: inputs[i], Impl: want[0], Model: rp, Note: reqs[i], Level: "correspondence"})
			continue
		}
		if got[2] != want[2] {
			rep.AddDiff(vh.Diff{Component: "C17-valpos-render", Input: inputs[i], Impl: want[2], Model: got[2], Note: reqs[i], Level: "correspondence"})
			continue
		}
		if got[0] != want[0] {
			rep.AddDiff(vh.Diff{Component: "C17-valpos-model", Input: inputs[i], Impl: want[0], Model: got[0] + " (VPos.validateBytes on the document)", Note: reqs[i]})
		}
		if got[1] != want[0] {
			rep.AddDiff(vh.Diff{Component: "C17-valpos-spec", Input: inputs[i], Impl: want[0], Model: got[1] + " (VPos.firstOffence on the tree)", Note: reqs[i]})
		}
	}
	rep.Finish()
}
