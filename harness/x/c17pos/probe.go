package c17pos

import (
	stderrors "errors"
	"fmt"
	"strings"

	jdoc "github.com/jsightapi/jsight-schema-go-library/formats/json"
	"github.com/jsightapi/jsight-schema-go-library/notations/jschema"

	"verifharness/vh"
)

type positioned interface{ Position() uint }
type coded interface{ ErrCode() int }

// canon: the real Validate's outcome as "ACC" / "REJ <code> <position>" / other text.
func canon(err error) string {
	if err == nil {
		return "ACC"
	}
	var p positioned
	var c coded
	if stderrors.As(err, &p) && stderrors.As(err, &c) {
		return fmt.Sprintf("REJ %d %d", c.ErrCode(), p.Position())
	}
	return "OTHER " + err.Error()
}

func build(schema string, types [][2]string, optDefault bool) (*jschema.Schema, string) {
	var opts []jschema.Option
	if optDefault {
		opts = append(opts, jschema.KeysAreOptionalByDefault())
	}
	s := jschema.New("s", schema, opts...)
	for _, t := range types {
		if err := s.AddType(t[0], jschema.New(t[0], t[1], opts...)); err != nil {
			return nil, "ADDERR " + t[0] + ": " + err.Error()
		}
	}
	return s, ""
}

func realValidate(schema string, types [][2]string, optDefault bool, doc []byte) string {
	return vh.Recover(func() string {
		s, e := build(schema, types, optDefault)
		if s == nil {
			return e
		}
		return canon(s.Validate(jdoc.New("d", doc)))
	})
}

func realCheck(schema string, types [][2]string, optDefault bool) string {
	return vh.Recover(func() string {
		s, e := build(schema, types, optDefault)
		if s == nil {
			return e
		}
		if err := s.Check(); err != nil {
			return "ERR " + err.Error()
		}
		return "OK"
	})
}

// probe: `vh c17-valpos probe <schema> [@t=<text>…] <doc>…` prints the canonical outcome of the real Validate.
func probe(args []string) {
	var types [][2]string
	rest := args[1:]
	for len(rest) > 0 && strings.HasPrefix(rest[0], "@") && strings.Contains(rest[0], "=") {
		i := strings.Index(rest[0], "=")
		types = append(types, [2]string{rest[0][:i], rest[0][i+1:]})
		rest = rest[1:]
	}
	for _, d := range rest {
		fmt.Printf("%-40q -> %s\n", d, realValidate(args[0], types, false, []byte(d)))
	}
}
