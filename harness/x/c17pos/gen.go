package c17pos

import (
	"fmt"
	"math/rand"
	"strconv"
	"strings"

	"verifharness/vh"
)

// ---- schema IR (the fragment of C01 plus the scalar rules min / max / minLength / maxLength) -------------------

type node struct {
	kind     string // lit any arr obj
	lit      string // i f s b n
	nullable bool
	hasMin   bool
	hasMax   bool
	min, max int
	minLen   int // -1 = none
	maxLen   int
	items    []*node
	props    []*prop
	// alternatives of the position: further SCALAR nodes next to this one (printed as a type list `@a | @b`);
	// viaRef: the position is printed as a reference to a named type even without alternatives
	alts   []*node
	viaRef bool
}

type prop struct {
	key  string // decoded key text
	mark int    // 0 unmarked, 1 optional:true, 2 optional:false
	val  *node
}

var kinds = []string{"i", "f", "s", "b", "n"}
var keyPool = []string{"a", "b", "c", "id", "k 1", "x_y", "Z", "é"}

// genNode: a schema position; one in five gets scalar alternatives (kind-disjoint union: at most one container),
// one in ten is routed through a named type without alternatives.
func genNode(r *rand.Rand, depth int) *node {
	n := genPlain(r, depth)
	if n.kind == "any" {
		return n
	}
	switch r.Intn(10) {
	case 0, 1:
		for i := 1 + r.Intn(2); i > 0; i-- {
			n.alts = append(n.alts, genPlain(r, 0))
			if a := n.alts[len(n.alts)-1]; a.kind != "lit" {
				n.alts = n.alts[:len(n.alts)-1]
			}
		}
	case 2:
		n.viaRef = true
	}
	return n
}

func genPlain(r *rand.Rand, depth int) *node {
	k := r.Intn(20)
	if depth >= 2 && r.Intn(2) == 0 {
		k = 9 + r.Intn(11) // upper levels are containers more often than not
	}
	if depth <= 0 && k >= 9 {
		k = r.Intn(9)
	}
	switch {
	case k <= 6:
		n := &node{kind: "lit", lit: kinds[r.Intn(5)], minLen: -1, maxLen: -1}
		n.nullable = n.lit != "n" && r.Intn(4) == 0
		switch n.lit {
		case "i", "f":
			if r.Intn(3) == 0 {
				n.hasMin, n.min = true, r.Intn(21)-10
			}
			if r.Intn(3) == 0 {
				n.hasMax, n.max = true, n.min+1+r.Intn(10)
			}
		case "s":
			if r.Intn(4) == 0 {
				n.minLen = 1 + r.Intn(3)
			}
			if r.Intn(4) == 0 {
				n.maxLen = 3 + r.Intn(4)
			}
		}
		return n
	case k <= 8:
		return &node{kind: "any"}
	case k <= 13:
		n := &node{kind: "arr", nullable: r.Intn(5) == 0}
		for i := r.Intn(4); i > 0; i-- {
			n.items = append(n.items, genNode(r, depth-1))
		}
		return n
	default:
		n := &node{kind: "obj", nullable: r.Intn(5) == 0}
		perm := r.Perm(len(keyPool))
		for i, cnt := 0, r.Intn(5); i < cnt; i++ {
			n.props = append(n.props, &prop{key: keyPool[perm[i]], mark: r.Intn(3), val: genNode(r, depth-1)})
		}
		return n
	}
}

// a number inside the node's bounds
func (n *node) goodNumber(r *rand.Rand) int {
	lo, hi := -12, 12
	if n.hasMin {
		lo = n.min
		if !n.hasMax {
			hi = lo + 12
		}
	}
	if n.hasMax {
		hi = n.max
		if !n.hasMin {
			lo = hi - 12
		}
	}
	return lo + r.Intn(hi-lo+1)
}

func (n *node) goodLen(r *rand.Rand) int {
	lo, hi := 0, 4
	if n.minLen >= 0 {
		lo = n.minLen
		hi = lo + 3
	}
	if n.maxLen >= 0 {
		hi = n.maxLen
		if lo > hi {
			lo = hi
		}
	}
	return lo + r.Intn(hi-lo+1)
}

var strUnits = []string{"x", "a", " ", "q", `\n`, `A`, `\"`, "-"} // each decodes to ONE byte

func strTok(r *rand.Rand, n int, plain bool) string {
	var sb strings.Builder
	sb.WriteByte('"')
	for i := 0; i < n; i++ {
		if plain {
			sb.WriteString(strUnits[r.Intn(4)])
		} else {
			sb.WriteString(strUnits[r.Intn(len(strUnits))])
		}
	}
	sb.WriteByte('"')
	return sb.String()
}

// spellings of an integer value / of value + 0.5 as JSON numerals
func intTok(r *rand.Rand, v int, plain bool) string {
	if plain || r.Intn(5) != 0 || v == 0 {
		return strconv.Itoa(v)
	}
	switch r.Intn(2) {
	case 0:
		return strconv.Itoa(v) + "0e-1" // still an integer
	default:
		return strconv.Itoa(v) + "e0"
	}
}

func halfTok(r *rand.Rand, v int, plain bool) string { // the value v + 0.5
	s := strconv.FormatFloat(float64(v)+0.5, 'f', 1, 64)
	if plain || r.Intn(5) != 0 {
		return s
	}
	if v == 0 || v == -1 { // 0.5 / -0.5: no leading-zero spelling
		return s + "0"
	}
	switch r.Intn(2) {
	case 0:
		return s + "0"
	default:
		return strings.Replace(s, ".", "", 1) + "e-1"
	}
}

// a token of kind k that satisfies n's rules when k is n's own kind (plain: as written in a schema example)
func (n *node) tokenOfKind(r *rand.Rand, k string, plain bool) string {
	own := n.kind == "lit" && (k == n.lit || (k == "i" && n.lit == "f"))
	switch k {
	case "i":
		if own {
			return intTok(r, n.goodNumber(r), plain)
		}
		return intTok(r, r.Intn(25)-12, plain)
	case "f":
		if own {
			v := n.goodNumber(r)
			if n.hasMax && v == n.max { // v + 0.5 would exceed the bound
				v--
			}
			return halfTok(r, v, plain)
		}
		return halfTok(r, r.Intn(25)-12, plain)
	case "s":
		if own {
			return strTok(r, n.goodLen(r), plain)
		}
		return strTok(r, r.Intn(5), plain)
	case "b":
		return []string{"true", "false"}[r.Intn(2)]
	}
	return "null"
}

// ---- schema text and S-expression ----------------------------------------------------------------------------------

func rules(n *node, mark int) string {
	var rs []string
	if mark == 1 {
		rs = append(rs, "optional: true")
	} else if mark == 2 {
		rs = append(rs, "optional: false")
	}
	if n.kind == "any" {
		rs = append(rs, `type: "any"`)
	}
	if n.nullable {
		rs = append(rs, "nullable: true")
	}
	if n.hasMin {
		rs = append(rs, "min: "+strconv.Itoa(n.min))
	}
	if n.hasMax {
		rs = append(rs, "max: "+strconv.Itoa(n.max))
	}
	if n.kind == "lit" && n.minLen >= 0 {
		rs = append(rs, "minLength: "+strconv.Itoa(n.minLen))
	}
	if n.kind == "lit" && n.maxLen >= 0 {
		rs = append(rs, "maxLength: "+strconv.Itoa(n.maxLen))
	}
	if len(rs) == 0 {
		return ""
	}
	return " // {" + strings.Join(rs, ", ") + "}"
}

// sprinter prints a schema position; alternatives and references become named types collected in `types`.
type sprinter struct {
	r     *rand.Rand
	types [][2]string // name, text — in AddType order
}

func (sp *sprinter) typeOf(n *node) string {
	var sb strings.Builder
	sp.plain(&sb, n, 0, "", "")
	name := "@t" + strconv.Itoa(len(sp.types)+1)
	sp.types = append(sp.types, [2]string{name, sb.String()})
	return name
}

func markRule(mark int) string {
	switch mark {
	case 1:
		return " // {optional: true}"
	case 2:
		return " // {optional: false}"
	}
	return ""
}

func (sp *sprinter) print(sb *strings.Builder, n *node, mark int, ind string, comma string) {
	if len(n.alts) == 0 && !n.viaRef {
		sp.plain(sb, n, mark, ind, comma)
		return
	}
	names := []string{sp.typeOf(n)}
	for _, a := range n.alts {
		names = append(names, sp.typeOf(a))
	}
	sp.r.Shuffle(len(names), func(i, j int) { names[i], names[j] = names[j], names[i] })
	sb.WriteString(strings.Join(names, " | ") + comma + markRule(mark))
}

func (sp *sprinter) plain(sb *strings.Builder, n *node, mark int, ind string, comma string) {
	r := sp.r
	switch n.kind {
	case "lit":
		sb.WriteString(n.tokenOfKind(r, n.lit, true) + comma + rules(n, mark))
	case "any":
		sb.WriteString([]string{"1", `"z"`, "null", "true"}[r.Intn(4)] + comma + rules(n, mark))
	case "arr":
		if len(n.items) == 0 {
			sb.WriteString("[]" + comma + rules(n, mark))
			return
		}
		sb.WriteString("[" + rules(n, mark) + "\n")
		for i, it := range n.items {
			sb.WriteString(ind + "  ")
			c := ","
			if i == len(n.items)-1 {
				c = ""
			}
			sp.print(sb, it, 0, ind+"  ", c)
			sb.WriteString("\n")
		}
		sb.WriteString(ind + "]" + comma)
	case "obj":
		if len(n.props) == 0 {
			sb.WriteString("{}" + comma + rules(n, mark))
			return
		}
		sb.WriteString("{" + rules(n, mark) + "\n")
		for i, p := range n.props {
			sb.WriteString(ind + "  " + strconv.Quote(p.key) + ": ")
			c := ","
			if i == len(n.props)-1 {
				c = ""
			}
			sp.print(sb, p.val, p.mark, ind+"  ", c)
			sb.WriteString("\n")
		}
		sb.WriteString(ind + "}" + comma)
	}
}

func b01(b bool) string {
	if b {
		return "1"
	}
	return "0"
}

func hx(s string) string { return "x" + vh.Hex([]byte(s)) }

func litSx(n *node) string {
	s := "(lit " + n.lit + " " + b01(n.nullable)
	if n.hasMin {
		s += fmt.Sprintf(" (min %d 0)", n.min)
	}
	if n.hasMax {
		s += fmt.Sprintf(" (max %d 0)", n.max)
	}
	if n.minLen >= 0 {
		s += fmt.Sprintf(" (minl %d)", n.minLen)
	}
	if n.maxLen >= 0 {
		s += fmt.Sprintf(" (maxl %d)", n.maxLen)
	}
	return s + ")"
}

// the scalar alternatives of a position as the model's `(lits …)`: the node itself when it is a scalar, the
// null-literal validator of a nullable container `(lit n 0)`, then the alternatives
func litsSx(n *node) string {
	var ls []string
	if n.kind == "lit" {
		ls = append(ls, litSx(n))
	} else if n.nullable {
		ls = append(ls, "(lit n 0)")
	}
	for _, a := range n.alts {
		ls = append(ls, litSx(a))
	}
	if len(ls) == 0 {
		return "(lits)"
	}
	return "(lits " + strings.Join(ls, " ") + ")"
}

func schemaSx(n *node, optDefault bool) string {
	switch n.kind {
	case "lit":
		return litsSx(n)
	case "any":
		return "(any)"
	case "arr":
		var sb strings.Builder
		sb.WriteString("(arr " + litsSx(n))
		for _, it := range n.items {
			sb.WriteString(" " + schemaSx(it, optDefault))
		}
		return sb.String() + ")"
	}
	var sb strings.Builder
	sb.WriteString("(obj " + litsSx(n))
	for _, p := range n.props {
		req := !(p.mark == 1 || (p.mark == 0 && optDefault))
		sb.WriteString(" (P " + hx(p.key) + " " + b01(req) + " " + schemaSx(p.val, optDefault) + ")")
	}
	return sb.String() + ")"
}

func depthOf(n *node) int {
	m := 0
	for _, it := range n.items {
		if d := depthOf(it); d > m {
			m = d
		}
	}
	for _, p := range n.props {
		if d := depthOf(p.val); d > m {
			m = d
		}
	}
	return m + 1
}

// ---- documents: JSON trees with layout ------------------------------------------------------------------------------

type dnode struct {
	kind string // s a o
	tok  string
	ws0  string
	its  []*ditem
}

// array item: w1 val w4; member: w1 key w2 ":" w3 val w4
type ditem struct {
	w1, key, w2, w3 string
	val             *dnode
	w4              string
}

func scalar(tok string) *dnode { return &dnode{kind: "s", tok: tok} }

// key token for a decoded key: plain quoting, sometimes with a \u escape for the first character
func keyTok(r *rand.Rand, key string) string {
	q := strconv.Quote(key)
	if r.Intn(6) == 0 && len(key) > 0 && key[0] < 0x80 {
		return fmt.Sprintf(`"\u%04x`, key[0]) + q[2:]
	}
	if key == "é" && r.Intn(2) == 0 {
		return `"é"` // raw UTF-8 (strconv.Quote keeps it anyway)
	}
	return q
}

func randomDoc(r *rand.Rand, depth int) *dnode {
	k := r.Intn(8)
	if depth <= 0 && k >= 5 {
		k = r.Intn(5)
	}
	switch {
	case k < 5:
		return scalar((&node{}).tokenOfKind(r, kinds[k], false))
	case k < 7:
		d := &dnode{kind: "a"}
		for i := r.Intn(3); i > 0; i-- {
			d.its = append(d.its, &ditem{val: randomDoc(r, depth-1)})
		}
		return d
	default:
		d := &dnode{kind: "o"}
		for i := r.Intn(3); i > 0; i-- {
			d.its = append(d.its, &ditem{key: keyTok(r, keyPool[r.Intn(4)]), val: randomDoc(r, depth-1)})
		}
		return d
	}
}

func (n *node) itemSchema(i int) *node {
	if i >= len(n.items) {
		i = len(n.items) - 1
	}
	return n.items[i]
}

// sample an inhabitant of n; with probability mut% per site something else is produced instead
func sample(r *rand.Rand, n *node, optDefault bool, mut int, st *stats) *dnode {
	if mut > 0 && r.Intn(100) < mut {
		st.hit("mut_random_value")
		return randomDoc(r, 2)
	}
	if n.nullable && r.Intn(4) == 0 {
		return scalar("null")
	}
	if len(n.alts) > 0 && r.Intn(3) == 0 {
		return sample(r, n.alts[r.Intn(len(n.alts))], optDefault, 0, st)
	}
	switch n.kind {
	case "lit":
		k := n.lit
		if k == "f" && r.Intn(3) == 0 {
			k = "i"
		}
		return scalar(n.tokenOfKind(r, k, false))
	case "any":
		return randomDoc(r, 2)
	case "arr":
		d := &dnode{kind: "a"}
		if len(n.items) == 0 {
			return d
		}
		cnt := r.Intn(len(n.items) + 3)
		for i := 0; i < cnt; i++ {
			d.its = append(d.its, &ditem{val: sample(r, n.itemSchema(i), optDefault, mut, st)})
		}
		return d
	}
	d := &dnode{kind: "o"}
	for _, p := range n.props {
		opt := p.mark == 1 || (p.mark == 0 && optDefault)
		if opt && r.Intn(2) == 0 {
			continue
		}
		if mut > 0 && r.Intn(100) < mut/2 {
			st.hit("mut_drop_key")
			continue
		}
		d.its = append(d.its, &ditem{key: keyTok(r, p.key), val: sample(r, p.val, optDefault, mut, st)})
		if mut > 0 && r.Intn(100) < mut/3 {
			st.hit("mut_repeat_key")
			d.its = append(d.its, &ditem{key: keyTok(r, p.key), val: sample(r, p.val, optDefault, mut, st)})
		}
	}
	if mut > 0 && r.Intn(100) < mut/2 {
		st.hit("mut_add_key")
		d.its = append(d.its, &ditem{key: keyTok(r, []string{"zz", "a", "A", "", "id "}[r.Intn(5)]), val: randomDoc(r, 1)})
	}
	r.Shuffle(len(d.its), func(i, j int) { d.its[i], d.its[j] = d.its[j], d.its[i] })
	return d
}

// ---- planting ONE violation at a chosen site ------------------------------------------------------------------------

type plant struct {
	class string
	depth int
	apply func()
}

type stats struct{ m map[string]int }

func (s *stats) hit(k string) { s.m[k]++ }

func otherKindDoc(r *rand.Rand, n *node) *dnode {
	for try := 0; try < 20; try++ {
		d := randomDoc(r, 1)
		switch {
		case n.kind == "any":
			return d
		case n.kind == "arr" && d.kind == "a", n.kind == "obj" && d.kind == "o":
			continue
		case n.kind == "lit" && d.kind == "s":
			continue
		}
		return d
	}
	return scalar("true")
}

// collect the sites of d (a document produced for n) at which one violation can be planted
func collect(r *rand.Rand, n *node, d *dnode, set func(*dnode), depth int, optDefault bool, out *[]plant) {
	add := func(class string, f func()) { *out = append(*out, plant{class, depth, f}) }
	if n.kind != "any" {
		add("wrong-kind", func() { set(otherKindDoc(r, n)) })
		if !n.nullable && !(n.kind == "lit" && n.lit == "n") {
			add("null-where-not-nullable", func() { set(scalar("null")) })
		}
	}
	switch {
	case n.kind == "lit" && d.kind == "s":
		if n.lit != "s" {
			add("scalar-of-other-kind", func() {
				for {
					k := kinds[r.Intn(5)]
					if k != n.lit && !(k == "i" && n.lit == "f") && !(k == "n" && n.nullable) {
						set(scalar(n.tokenOfKind(r, k, false)))
						return
					}
				}
			})
		}
		num := func(v int) string {
			if n.lit == "f" {
				return halfTok(r, v, false)
			}
			return intTok(r, v, false)
		}
		if n.hasMax {
			add("above-max", func() { set(scalar(num(n.max + r.Intn(4)))) }) // for floats max+0.5…; for ints max itself is fine → sometimes a valid case
		}
		if n.hasMin {
			add("below-min", func() { set(scalar(num(n.min - 1 - r.Intn(4)))) })
		}
		if n.maxLen >= 0 {
			add("too-long", func() { set(scalar(strTok(r, n.maxLen+1+r.Intn(3), false))) })
		}
		if n.minLen > 0 {
			add("too-short", func() { set(scalar(strTok(r, r.Intn(n.minLen), false))) })
		}
	case n.kind == "obj" && d.kind == "o":
		add("unknown-key", func() {
			i := r.Intn(len(d.its) + 1)
			it := &ditem{key: keyTok(r, []string{"zz", "unknown", "a ", "A", "", "ID"}[r.Intn(6)]), val: randomDoc(r, 1)}
			d.its = append(d.its[:i:i], append([]*ditem{it}, d.its[i:]...)...)
		})
		if len(d.its) > 0 {
			add("drop-key", func() {
				i := r.Intn(len(d.its))
				d.its = append(d.its[:i:i], d.its[i+1:]...)
			})
			add("duplicate-key", func() {
				i := r.Intn(len(d.its))
				j := r.Intn(len(d.its) + 1)
				v := d.its[i].val
				if r.Intn(2) == 0 {
					v = randomDoc(r, 1)
				}
				it := &ditem{key: d.its[i].key, val: v}
				d.its = append(d.its[:j:j], append([]*ditem{it}, d.its[j:]...)...)
			})
		}
		byKey := map[string]*prop{}
		for _, p := range n.props {
			byKey[p.key] = p
		}
		for i := range d.its {
			it := d.its[i]
			key, err := strconv.Unquote(it.key)
			if err != nil {
				continue
			}
			if p := byKey[key]; p != nil {
				collect(r, p.val, it.val, func(nd *dnode) { it.val = nd }, depth+1, optDefault, out)
			}
		}
	case n.kind == "arr" && d.kind == "a":
		add("extra-elements", func() {
			for i := 1 + r.Intn(2); i > 0; i-- {
				var v *dnode
				if len(n.items) > 0 && r.Intn(2) == 0 {
					v = sample(r, n.itemSchema(len(d.its)), optDefault, 0, &stats{map[string]int{}})
				} else {
					v = randomDoc(r, 1)
				}
				d.its = append(d.its, &ditem{val: v})
			}
		})
		if len(d.its) > 0 {
			add("fewer-elements", func() { d.its = d.its[:r.Intn(len(d.its))] })
		}
		if len(n.items) > 0 {
			for i := range d.its {
				it := d.its[i]
				collect(r, n.itemSchema(i), it.val, func(nd *dnode) { it.val = nd }, depth+1, optDefault, out)
			}
		}
	}
}

// ---- layout and rendering -------------------------------------------------------------------------------------------

func ws(r *rand.Rand, nl string) string {
	switch r.Intn(9) {
	case 0, 1, 2, 3:
		return ""
	case 4:
		return " "
	case 5:
		return nl
	case 6:
		return nl + strings.Repeat(" ", r.Intn(5))
	case 7:
		return "\t"
	}
	return strings.Repeat(" ", 1+r.Intn(3))
}

func layout(r *rand.Rand, d *dnode, nl string) {
	if d.kind == "s" {
		return
	}
	d.ws0 = ws(r, nl)
	for _, it := range d.its {
		it.w1, it.w4 = ws(r, nl), ws(r, nl)
		if d.kind == "o" {
			it.w2, it.w3 = ws(r, nl), ws(r, nl)
		}
		layout(r, it.val, nl)
	}
}

func render(sb *strings.Builder, d *dnode) {
	switch d.kind {
	case "s":
		sb.WriteString(d.tok)
	case "a":
		sb.WriteString("[" + d.ws0)
		for i, it := range d.its {
			sb.WriteString(it.w1)
			render(sb, it.val)
			sb.WriteString(it.w4)
			if i < len(d.its)-1 {
				sb.WriteString(",")
			}
		}
		sb.WriteString("]")
	default:
		sb.WriteString("{" + d.ws0)
		for i, it := range d.its {
			sb.WriteString(it.w1 + it.key + it.w2 + ":" + it.w3)
			render(sb, it.val)
			sb.WriteString(it.w4)
			if i < len(d.its)-1 {
				sb.WriteString(",")
			}
		}
		sb.WriteString("}")
	}
}

func treeSx(sb *strings.Builder, d *dnode) {
	switch d.kind {
	case "s":
		sb.WriteString("(s " + hx(d.tok) + ")")
	case "a":
		sb.WriteString("(a " + hx(d.ws0))
		for _, it := range d.its {
			sb.WriteString(" (i " + hx(it.w1) + " ")
			treeSx(sb, it.val)
			sb.WriteString(" " + hx(it.w4) + ")")
		}
		sb.WriteString(")")
	default:
		sb.WriteString("(o " + hx(d.ws0))
		for _, it := range d.its {
			sb.WriteString(" (m " + hx(it.w1) + " " + hx(it.key) + " " + hx(it.w2) + " " + hx(it.w3) + " ")
			treeSx(sb, it.val)
			sb.WriteString(" " + hx(it.w4) + ")")
		}
		sb.WriteString(")")
	}
}

func docDepth(d *dnode) int {
	m := 0
	for _, it := range d.its {
		if x := docDepth(it.val); x > m {
			m = x
		}
	}
	return m + 1
}
