// Package formatsdiff: T-diff of the string formats the library decides itself — `uuid` (in-repo
// parser) and `date` (time.Parse with the layout 2006-01-02) — through the verif hook
// jschema.VerifFormat(kind, quoted token) against the Lean model (driver requests `fmt U <hex>` /
// `fmt D <hex>`, hex of the string content without the quotes; replies OK / ERR).
package formatsdiff

import (
	"fmt"
	"math/rand"

	"github.com/jsightapi/jsight-schema-go-library/notations/jschema"

	"verifharness/vh"
)

var alpha = []byte("0123456789abcdefABCDEFgG-{}:urnid xX")

// mut applies 1..3 edits (replace, insert, delete, swap) — the prototype's mutator.
func mut(r *rand.Rand, s string) string {
	b := []byte(s)
	for i := r.Intn(3); i >= 0; i-- {
		switch r.Intn(4) {
		case 0:
			if len(b) > 0 {
				b[r.Intn(len(b))] = alpha[r.Intn(len(alpha))]
			}
		case 1:
			p := r.Intn(len(b) + 1)
			b = append(b[:p], append([]byte{alpha[r.Intn(len(alpha))]}, b[p:]...)...)
		case 2:
			if len(b) > 0 {
				p := r.Intn(len(b))
				b = append(b[:p], b[p+1:]...)
			}
		case 3:
			if len(b) > 1 {
				i, j := r.Intn(len(b)), r.Intn(len(b))
				b[i], b[j] = b[j], b[i]
			}
		}
	}
	return string(b)
}

func Run(args []string) {
	nDate, nUuid := vh.Pick(20000, 400000), vh.Pick(20000, 400000)
	rep := vh.NewReport("formats-diff", fmt.Sprintf("uuid and date format constraints (hook VerifFormat on the quoted token) vs model; dates: 11 boundary years x months 0..13 x days 0..32, Feb 28/29/30, Apr 31 and Dec 31 of every year 0..9999 (leap rule), %d 1-3-edit mutations of random valid-looking dates; uuids: %d random ones in the four accepted layouts (plain 36, urn:uuid: prefix in 4 spellings, braces, 32 hex digits) each also with a 1-3-edit mutation, and every single-byte replacement of one uuid per layout by 10 probe bytes; nontrivial = content has an accepted length (date: 10; uuid: 32, 36, 38, 45)",
		nDate, nUuid))
	r := vh.NewRand(24)
	var reqs, impl, inputs []string
	flush := func() {
		model := vh.AskModelSharded(reqs, 16)
		for i := range reqs {
			if impl[i] != model[i] {
				rep.AddDiff(vh.Diff{Component: "format-" + reqs[i][4:5], Input: inputs[i], Impl: impl[i], Model: model[i], Level: "correspondence", Note: reqs[i]})
			}
		}
		reqs, impl, inputs = reqs[:0], impl[:0], inputs[:0]
	}
	emit := func(kind, stream, s string) {
		name := map[string]string{"U": "uuid", "D": "date"}[kind]
		token := []byte(`"` + s + `"`)
		res := vh.Recover(func() string {
			if jschema.VerifFormat(name, token) {
				return "OK"
			}
			return "ERR"
		})
		reqs = append(reqs, "fmt "+kind+" "+vh.Hex([]byte(s)))
		impl = append(impl, res)
		inputs = append(inputs, fmt.Sprintf("%s %q", name, s))
		n := len(s)
		rep.Case(kind+" "+s, (kind == "D" && n == 10) || (kind == "U" && (n == 32 || n == 36 || n == 38 || n == 45)))
		rep.Stat(name + "_" + res)
		rep.Stat("in_" + name + "_" + stream)
		if kind == "U" && res == "OK" {
			rep.Stat(fmt.Sprintf("uuid_OK_len%d", n))
		}
		if len(reqs) >= 400000 {
			flush()
		}
	}

	emit("D", "seed", "2020-02-29")
	emit("D", "seed", "2021-02-29")
	emit("U", "seed", "550e8400-e29b-41d4-a716-446655440000")
	emit("U", "seed", "urn:uuid:550E8400-e29b-41d4-a716-446655440000")
	emit("U", "seed", "{550e8400-e29b-41d4-a716-446655440000}")
	emit("U", "seed", "550e8400e29b41d4a716446655440000")
	emit("U", "seed", "550e8400-e29b-41d4-a716-44665544000g")

	// dates
	for _, y := range []string{"0000", "0001", "0004", "0100", "0400", "1900", "2000", "2020", "2021", "2100", "9999"} {
		for m := 0; m <= 13; m++ {
			for d := 0; d <= 32; d++ {
				emit("D", "grid", fmt.Sprintf("%s-%02d-%02d", y, m, d))
			}
		}
	}
	for y := 0; y <= 9999; y++ {
		for _, md := range []string{"02-28", "02-29", "02-30", "04-31", "12-31"} {
			emit("D", "leap", fmt.Sprintf("%04d-%s", y, md))
		}
	}
	for _, s := range []string{"", "2020-1-01", "2020-01-1", "20200101", "2020-01-01T00:00:00Z", " 2020-01-01", "2020-01-01 ", "2020/01/01", "２０２０-01-01", "2020-01-0١", "+020-01-01", "-020-01-01", "2020-01-01\x00"} {
		emit("D", "odd", s)
	}
	for i := 0; i < nDate; i++ {
		emit("D", "mutation", mut(r, fmt.Sprintf("%04d-%02d-%02d", r.Intn(3000), 1+r.Intn(12), 1+r.Intn(31))))
	}

	// uuids
	hexd := "0123456789abcdefABCDEF"
	gen := func(n int) string {
		b := make([]byte, n)
		for i := range b {
			b[i] = hexd[r.Intn(len(hexd))]
		}
		return string(b)
	}
	std := func() string { return gen(8) + "-" + gen(4) + "-" + gen(4) + "-" + gen(4) + "-" + gen(12) }
	for i := 0; i < nUuid; i++ {
		var s string
		switch r.Intn(4) {
		case 0:
			s = std()
		case 1:
			s = []string{"urn:uuid:", "URN:UUID:", "Urn:Uuid:", "urn:uuid-"}[r.Intn(4)] + std()
		case 2:
			s = "{" + std() + "}"
		default:
			s = gen(32)
		}
		emit("U", "random", s)
		emit("U", "mutation", mut(r, s))
	}
	for _, s := range []string{std(), "urn:uuid:" + std(), "{" + std() + "}", gen(32)} {
		for p := 0; p < len(s); p++ {
			for _, c := range []byte("-g0aF{}: \x00") {
				b := []byte(s)
				b[p] = c
				emit("U", "replace1", string(b))
			}
		}
	}
	for _, s := range []string{"", "{" + gen(32) + "}", "urn:uuid:" + gen(32), "{" + std(), std() + "}", "{" + std() + "}}", gen(36), gen(38), gen(45), std() + " ", " " + std()} {
		emit("U", "odd", s)
	}
	flush()
	rep.Finish()
}
