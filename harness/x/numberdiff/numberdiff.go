// Package numberdiff: T-diff of internal/json Number (NewNumber / String / LengthOfFractionalPart / Cmp,
// through package verifhook) against the Lean model (driver requests `num N <tok>` / `num C <a> <b>`),
// plus the property-level cross-check of C10 against exact arithmetic (math/big): every RFC 8259
// numeral must be recognised, its normal form must denote the exact value, LengthOfFractionalPart must
// be the smallest p with value*10^p integral, and Cmp must order exact values.
package numberdiff

import (
	"fmt"
	"math/big"
	"math/rand"
	"regexp"
	"strconv"
	"strings"
	"sync"

	jdoc "github.com/jsightapi/jsight-schema-go-library/formats/json"
	"github.com/jsightapi/jsight-schema-go-library/notations/jschema"
	"github.com/jsightapi/jsight-schema-go-library/verifhook"

	"verifharness/vh"
)

var (
	rfcNumeral = regexp.MustCompile(`^(-?)(0|[1-9][0-9]*)(?:\.([0-9]+))?(?:[eE]([+-]?[0-9]+))?$`)
	zeroExp    = regexp.MustCompile(`^-?0[eE][+-]?[0-9]+$`)
	longExp    = regexp.MustCompile(`[eE][+-]?[0-9]{4}`)
	digitRun   = regexp.MustCompile(`[0-9]+`)
	ten        = big.NewInt(10)
)

// exact is the exact value of an RFC 8259 numeral.
type exact struct {
	val     *big.Rat
	fracLen int // smallest p >= 0 such that val*10^p is an integer
}

func pow10(n int) *big.Int { return new(big.Int).Exp(ten, big.NewInt(int64(n)), nil) }

// parseExact returns nil if s is not an RFC 8259 numeral.
func parseExact(s string) *exact {
	m := rfcNumeral.FindStringSubmatch(s)
	if m == nil {
		return nil
	}
	e := 0
	if m[4] != "" {
		e, _ = strconv.Atoi(m[4]) // base 10 whatever the leading zeros
	}
	digits := m[2] + m[3]
	k := e - len(m[3]) // value = digits * 10^k
	mant, _ := new(big.Int).SetString(digits, 10)
	if m[1] == "-" {
		mant.Neg(mant)
	}
	x := &exact{}
	if k >= 0 {
		x.val = new(big.Rat).SetInt(new(big.Int).Mul(mant, pow10(k)))
	} else {
		x.val = new(big.Rat).SetFrac(mant, pow10(-k))
	}
	if mant.Sign() != 0 {
		z := len(digits) - len(strings.TrimRight(digits, "0"))
		if -(k + z) > 0 {
			x.fracLen = -(k + z)
		}
	}
	return x
}

func num(s string) (n *verifhook.Number, ok bool) {
	defer func() {
		if r := recover(); r != nil {
			n, ok = nil, false
		}
	}()
	return verifhook.NewNumber(s)
}

// normal form in the format of DNum.showN: String() followed by |fracLen
func normalForm(s string) string {
	return vh.Recover(func() string {
		n, ok := num(s)
		if !ok {
			return "ERR"
		}
		return fmt.Sprintf("%s|%d", n.String(), n.LengthOfFractionalPart())
	})
}

func cmp(a, b string) string {
	return vh.Recover(func() string {
		na, oka := num(a)
		nb, okb := num(b)
		if !oka || !okb {
			return "ERR"
		}
		return fmt.Sprint(na.Cmp(nb))
	})
}

type runner struct {
	rep    *vh.Report
	known  []vh.Diff // diffs of a known-finding class: listed after the unclassified ones
	stream string
	toks   []string
	pairs  [][2]string
	good   []string // numerals accepted by the implementation (for the Cmp streams)
	keep   bool
}

func (x *runner) diff(d vh.Diff) {
	if d.Class != "" {
		x.known = append(x.known, d)
		return
	}
	x.rep.AddDiff(d)
}

func (x *runner) addTok(s string) {
	x.toks = append(x.toks, s)
	if len(x.toks) >= 400000 {
		x.flushToks()
	}
}

func (x *runner) flushToks() {
	n := len(x.toks)
	if n == 0 {
		return
	}
	impl := make([]string, n)
	reqs := make([]string, n)
	var wg sync.WaitGroup
	const workers = 16
	for w := 0; w < workers; w++ {
		wg.Add(1)
		go func(w int) {
			defer wg.Done()
			for i := w; i < n; i += workers {
				reqs[i] = "num N " + x.toks[i]
				impl[i] = normalForm(x.toks[i])
			}
		}(w)
	}
	wg.Wait()
	model := vh.AskModelSharded(reqs, 16)
	for i, s := range x.toks {
		ok := impl[i] != "ERR"
		ex := parseExact(s)
		x.rep.Case(s, ok || ex != nil)
		x.rep.Stat("tok_" + x.stream)
		if ok {
			x.rep.Stat("recognised")
			if x.keep {
				x.good = append(x.good, s)
			}
		} else {
			x.rep.Stat("rejected")
		}
		if impl[i] != model[i] {
			x.diff(vh.Diff{Component: "number-normal-form", Input: s, Impl: impl[i], Model: model[i], Level: "correspondence", Note: reqs[i]})
		}
		// property level (C10): recognised <=> RFC 8259 numeral; normal form and fracLen exact
		switch {
		case ex != nil && !ok:
			d := vh.Diff{Component: "C10-prop", Input: s, Impl: impl[i], Model: "RFC 8259 numeral, exact value " + ratStr(ex.val)}
			if zeroExp.MatchString(s) {
				d.Class = "K-C10-zeroexp"
				x.rep.Stat("known_zeroexp")
			}
			x.diff(d)
		case ex == nil && ok:
			// NewNumber is only ever handed tokens a scanner has already delimited; it (and the model, see the
			// number-normal-form comparison) also takes a few incomplete numerals such as "1." "1e" "1e+". C10 speaks
			// about RFC numerals only: counted by shape, not reported as a difference.
			x.rep.Stat("nonrfc_accepted")
			x.rep.Stat("nonrfc_accepted_shape_" + digitRun.ReplaceAllString(s, "d"))
			if ex := x.rep.Extra["nonrfc_accepted_examples"]; len(ex) < 200 {
				x.rep.Extra["nonrfc_accepted_examples"] = ex + s + " => " + impl[i] + "; "
			}
		case ex != nil && ok:
			x.rep.Stat("rfc_numeral_checked_exactly")
			bar := strings.LastIndexByte(impl[i], '|')
			nf, fl := impl[i][:bar], impl[i][bar+1:]
			nfx := parseExact(nf)
			if nfx == nil || nfx.val.Cmp(ex.val) != 0 {
				x.diff(vh.Diff{Component: "C10-prop", Input: s, Impl: "String() = " + nf, Model: "exact value " + ratStr(ex.val)})
			}
			if fl != fmt.Sprint(ex.fracLen) {
				x.diff(vh.Diff{Component: "C10-prop", Input: s, Impl: "LengthOfFractionalPart() = " + fl, Model: fmt.Sprintf("exact value %s needs %d fractional digits", ratStr(ex.val), ex.fracLen)})
			}
			if ex.val.IsInt() {
				x.rep.Stat("exact_integer")
			} else {
				x.rep.Stat("exact_fraction")
			}
		}
	}
	x.toks = x.toks[:0]
}

func ratStr(r *big.Rat) string {
	s := r.RatString()
	if len(s) > 80 {
		return s[:80] + "…"
	}
	return s
}

func (x *runner) addPair(a, b string) {
	x.pairs = append(x.pairs, [2]string{a, b})
	if len(x.pairs) >= 400000 {
		x.flushPairs()
	}
}

func (x *runner) flushPairs() {
	n := len(x.pairs)
	if n == 0 {
		return
	}
	impl := make([]string, n)
	want := make([]string, n)
	reqs := make([]string, n)
	var wg sync.WaitGroup
	const workers = 16
	for w := 0; w < workers; w++ {
		wg.Add(1)
		go func(w int) {
			defer wg.Done()
			for i := w; i < n; i += workers {
				a, b := x.pairs[i][0], x.pairs[i][1]
				reqs[i] = "num C " + a + " " + b
				impl[i] = cmp(a, b)
				ea, eb := parseExact(a), parseExact(b)
				if ea != nil && eb != nil {
					want[i] = fmt.Sprint(ea.val.Cmp(eb.val))
				}
			}
		}(w)
	}
	wg.Wait()
	model := vh.AskModelSharded(reqs, 16)
	for i, p := range x.pairs {
		in := p[0] + " " + p[1]
		x.rep.Case(in, true)
		x.rep.Stat("cmp_" + x.stream)
		x.rep.Stat("cmp_result_" + impl[i])
		if impl[i] != model[i] {
			x.diff(vh.Diff{Component: "number-cmp", Input: in, Impl: impl[i], Model: model[i], Level: "correspondence", Note: reqs[i]})
		}
		if want[i] != "" && impl[i] != "ERR" && impl[i] != want[i] {
			x.diff(vh.Diff{Component: "C10-prop", Input: in, Impl: "Cmp = " + impl[i], Model: "exact comparison = " + want[i]})
		}
	}
	x.pairs = x.pairs[:0]
}

func digits(r *rand.Rand, n int) string {
	b := make([]byte, n)
	for i := range b {
		b[i] = byte('0' + r.Intn(10))
		if r.Intn(3) == 0 {
			b[i] = '0'
		}
	}
	return string(b)
}

// randomNumeral: mostly RFC numerals (leading zeros now and then), <= 60 mantissa digits, |exponent| < 400.
func randomNumeral(r *rand.Rand) string {
	s := ""
	if r.Intn(2) == 0 {
		s = "-"
	}
	long := r.Intn(4) == 0
	il, fl := 1+r.Intn(12), 1+r.Intn(12)
	if long {
		il, fl = 1+r.Intn(30), 1+r.Intn(30)
	}
	ip := digits(r, il)
	if r.Intn(8) != 0 { // RFC: no leading zeros
		ip = strings.TrimLeft(ip, "0")
		if ip == "" {
			ip = "0"
		}
	}
	s += ip
	if r.Intn(2) == 0 {
		s += "." + digits(r, fl)
	}
	if r.Intn(2) == 0 {
		max := 30
		if r.Intn(3) == 0 {
			max = 400
		}
		s += []string{"e", "E", "e+", "e-", "E-", "E+"}[r.Intn(6)] + fmt.Sprint(r.Intn(max))
	}
	return s
}

// render writes the value (-1)^neg * d * 10^k (d a digit string) in a random RFC form.
func render(r *rand.Rand, neg bool, d string, k int) string {
	if r.Intn(3) == 0 {
		z := r.Intn(4)
		d += strings.Repeat("0", z)
		k -= z
	}
	f := r.Intn(len(d) + 1) // digits behind the point
	ip := strings.TrimLeft(d[:len(d)-f], "0")
	if ip == "" {
		ip = "0"
	}
	s := ip
	if f > 0 {
		s += "." + d[len(d)-f:]
	}
	if e := k + f; e != 0 || r.Intn(4) == 0 {
		if ip == "0" && f == 0 {
			s += ".0" // 0e5 is the known finding K-C10-zeroexp: not wanted in this stream
		}
		sign := ""
		if e < 0 {
			sign = "-"
			e = -e
		} else if r.Intn(3) == 0 {
			sign = "+"
		}
		s += string("eE"[r.Intn(2)]) + sign + fmt.Sprint(e)
	}
	if neg {
		s = "-" + s
	}
	return s
}

// ---- reused caller buffers (public API): a document is what its bytes SAY when it is validated. A caller may read one
// document after another into one []byte (json.New does not copy): the verdict for numeral y must be the verdict of a
// fresh y although the same memory held numeral x (same length, same address) a moment ago. Schemas put a bound between
// x and y, ask for precision, const or the integer / float kind, so that x and y get different verdicts.
func plainDecimal(r *rand.Rand, n int) string {
	for {
		b := []byte(digits(r, n))
		if n >= 3 && r.Intn(2) == 0 {
			b[1+r.Intn(n-2)] = '.'
		}
		if r.Intn(3) == 0 {
			b[0] = '-'
			if len(b) > 1 && b[1] == '.' {
				continue
			}
		}
		s := string(b)
		if rfcNumber.MatchString(s) {
			return s
		}
	}
}

var rfcNumber = regexp.MustCompile(`^-?(0|[1-9][0-9]*)(\.[0-9]+)?$`)

func reuseStream(rep *vh.Report, r *rand.Rand, n int) {
	verdict := func(s *jschema.Schema, content []byte) string {
		return vh.Recover(func() string {
			if err := s.Validate(jdoc.New("d", content)); err != nil {
				return "REJ"
			}
			return "ACC"
		})
	}
	for i := 0; i < n; i++ {
		l := 1 + r.Intn(9)
		x, y := plainDecimal(r, l), plainDecimal(r, l)
		ex, ey := parseExact(x), parseExact(y)
		if ex == nil || ey == nil || len(x) != len(y) {
			continue
		}
		hi, lo := x, y
		if ex.val.Cmp(ey.val) < 0 {
			hi, lo = y, x
		}
		schemas := []string{
			hi + " // {min: " + hi + "}",
			lo + " // {max: " + hi + ", exclusiveMaximum: true}",
			x + " // {const: true}",
			y + " // {const: true}",
			"1 // {type: \"integer\"}",
			"1.5 // {type: \"decimal\", precision: 1}",
			"[" + x + ", " + y + "] // {type: \"enum\"}",
		}
		schemas[6] = x + " // {enum: [" + x + "]}"
		for _, st := range schemas {
			s := jschema.New("s", st)
			if err := s.Check(); err != nil {
				rep.Stat("reuse_schema_rejected")
				continue
			}
			buf := []byte(x)
			vx := verdict(s, buf)
			copy(buf, y) // the caller reads the next document into the same memory
			vy := verdict(s, buf)
			fresh := verdict(jschema.New("s", st), []byte(y))
			rep.Stat("reuse_cases")
			if vx != fresh {
				rep.Stat("reuse_verdicts_differ")
			}
			rep.Case("reuse:"+st+"|"+x+"|"+y, vx != fresh)
			if vy != fresh {
				rep.AddDiff(vh.Diff{Component: "C10-reused-buffer", Input: fmt.Sprintf("schema %q; buf := []byte(%q); Validate(json.New(buf)); copy(buf, %q); Validate(json.New(buf))", st, x, y),
					Impl: "second verdict " + vy + " (first: " + vx + ")", Model: "verdict of " + y + " on fresh objects: " + fresh})
			}
		}
	}
}

func Run(args []string) {
	maxLen := vh.Pick(5, 7)
	nRnd, nPairs, nNear, sample := vh.Pick(60000, 600000), vh.Pick(150000, 1500000), vh.Pick(60000, 600000), vh.Pick(400, 2000)
	rep := vh.NewReport("number-diff", fmt.Sprintf("internal/json Number vs model and vs exact arithmetic (math/big): all non-empty strings <=%d chars over \"-0159.eE+\" (exponents of more than 3 digits skipped) and %d random numerals (<=60 mantissa digits, |exponent|<400): recognised-or-not and normal form String()|LengthOfFractionalPart(); Cmp on %d random pairs of recognised numerals, on all ordered pairs of a %d-element sample of the exhaustive numerals, and on %d pairs of two random renderings (point position, exponent, padding zeros) of equal or adjacent values; every RFC 8259 numeral additionally against its exact value (C10-prop); nontrivial = token recognised by the implementation or an RFC numeral; every Cmp pair",
		maxLen, nRnd, nPairs, sample, nNear))
	r := vh.NewRand(23)
	x := &runner{rep: rep, keep: true}

	x.stream = "seed"
	for _, s := range []string{"0", "-0", "1.50", "1e2", "0.001e3", "12.5E-1", "-0.0", "100e-2", "0.10", "-12.340e+1", "1E400", "1e-400",
		"0.000", "5", "-5", "0.5", "0.50e1", "9.99e2", "999", "1.", "1e", ".5", "01", "1e+", "1e-", "+1", "1.5.1", "1e1e1", "0e1", "-0E5"} {
		x.addTok(s)
	}
	x.flushToks()
	x.stream = "exhaustive"
	vh.AllStrings([]byte("-0159.eE+"), maxLen, func(b []byte) {
		if len(b) == 0 {
			return
		}
		s := string(b)
		if longExp.MatchString(s) { // the implementation allocates |exponent| zeros; the model answer grows alike
			rep.Stat("skipped_exponent_over_3_digits")
			return
		}
		x.addTok(s)
	})
	x.flushToks()
	exhGood := append([]string(nil), x.good...)
	x.stream = "random"
	for i := 0; i < nRnd; i++ {
		x.addTok(randomNumeral(r))
	}
	x.flushToks()
	x.keep = false

	x.stream = "random_pairs"
	for i := 0; i < nPairs; i++ {
		x.addPair(x.good[r.Intn(len(x.good))], x.good[r.Intn(len(x.good))])
	}
	x.flushPairs()
	// every spelling of zero (incl. negative zero with fractional / exponent parts) against the plain ones: C10 says
	// negative zero equals zero whatever its spelling
	x.stream = "zero_spellings"
	for _, z := range exhGood {
		if ex := parseExact(z); ex != nil && ex.val.Sign() == 0 {
			for _, w := range []string{"0", "-0", "0.0", "-0.00", "0e0"} {
				x.addPair(z, w)
				x.addPair(w, z)
			}
		}
	}
	x.flushPairs()
	x.stream = "sample_all_pairs"
	smp := make([]string, 0, sample)
	for _, i := range r.Perm(len(exhGood)) {
		if len(smp) == sample {
			break
		}
		smp = append(smp, exhGood[i])
	}
	for _, a := range smp {
		for _, b := range smp {
			x.addPair(a, b)
		}
	}
	x.flushPairs()
	x.stream = "near_pairs"
	for i := 0; i < nNear; i++ {
		n := 1 + r.Intn(12)
		if r.Intn(4) == 0 {
			n = 1 + r.Intn(50)
		}
		d := digits(r, n)
		k := r.Intn(41) - 20
		if r.Intn(5) == 0 {
			k = r.Intn(601) - 300
		}
		neg := r.Intn(2) == 0
		a := render(r, neg, d, k)
		d2, neg2 := d, neg
		switch r.Intn(4) {
		case 0: // adjacent value: last digit changed
			bs := []byte(d)
			bs[len(bs)-1] = byte('0' + (int(bs[len(bs)-1]-'0')+1+r.Intn(9))%10)
			d2 = string(bs)
		case 1: // a digit somewhere changed
			bs := []byte(d)
			bs[r.Intn(len(bs))] = byte('0' + r.Intn(10))
			d2 = string(bs)
		case 2:
			if r.Intn(3) == 0 {
				neg2 = !neg
			}
		}
		b := render(r, neg2, d2, k)
		x.addTok(a)
		x.addTok(b)
		x.addPair(a, b)
	}
	x.flushToks()
	x.flushPairs()

	rep.Stats["recognised_exhaustive_numerals"] = len(exhGood)
	for _, d := range x.known {
		rep.AddDiff(d)
	}
	reuseStream(rep, vh.NewRand(29), vh.Pick(4000, 40000))
	rep.Finish()
}
