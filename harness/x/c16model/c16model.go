// Package c16model: harness command `c16-model` — correspondence of the Lean model `Ast.schemaType` /
// `Ast.collectRules` (lean/JSight/Ast.lean; theorems C16_enum_first … C16_rules_order) with the real
// `astNodeFromNode` (notations/jschema/internal/schema/ast.go) as observed through GetAST().
//
// One TARGET node per case — a literal of every JSON kind, an empty object / array, or a reference shortcut —
// placed as root, as object property or as array item, with a random VALID rule set in random order: ordinary
// rules (min, max, exclusive*, minLength, maxLength, regex, const, nullable, optional, minItems, maxItems,
// additionalProperties, allOf), `type` (builtin names, "any", format names, `@t` with the type added, "mixed",
// "enum", "decimal"), `precision`, `enum` (inline), `or` (type names and rule-sets).
//
// Driver request: `ast <jsonKind> <ck> …` with the node's constraints IN CONSTRAINT-MAP ORDER, which is the
// order the rules are written; a written `or` puts `types` and then `or` into the map (ruleLoader.ruleValue adds
// the types list first), a `@t` shortcut puts `type:@t` first, a `@t | @u` shortcut `types`, `or` first.
// Reply `<schemaType>|<rule names in AST order>` is compared with SchemaType and the keys of Rules of the real
// AST node. Cases on which GetAST fails are skipped (counted). Disagreements: Component "C16-model", Level
// "correspondence".
package c16model

import (
	"fmt"
	"math/rand"
	"strconv"
	"strings"

	jlib "github.com/jsightapi/jsight-schema-go-library"
	"github.com/jsightapi/jsight-schema-go-library/notations/jschema"

	"verifharness/vh"
)

type rule struct {
	name string // rule name as written
	text string // value text
	ck   string // driver tokens this rule contributes (space separated)
}

func lr(name, text string) rule { return rule{name, text, "o:" + name} }
func typ(name string) rule      { return rule{"type", strconv.Quote(name), "type:" + name} }

var userTypes = [][2]string{{"@ti", "12"}, {"@tf", "1.5"}, {"@ts", `"str"`}, {"@tb", "true"}, {"@tn", "null"}, {"@to", "{\n \"z\": 1\n}"}, {"@to2", "{\n \"y\": 2\n}"}}
var refOf = map[string]string{"integer": "@ti", "float": "@tf", "string": "@ts", "boolean": "@tb", "null": "@tn"}

type target struct {
	kind    string // JSON kind name as the AST shows it: integer float string boolean null object array; "ref" for shortcuts
	example string
	pre     []string // constraints the library synthesises before the written rules (shortcuts)
	rules   []rule
}

func common(r *rand.Rand, rs []rule, inObj, allowConst bool) []rule {
	if inObj && r.Intn(3) == 0 {
		rs = append(rs, lr("optional", []string{"true", "false"}[r.Intn(2)]))
	}
	if r.Intn(3) == 0 {
		rs = append(rs, lr("nullable", []string{"true", "false"}[r.Intn(2)]))
	}
	if allowConst && r.Intn(5) == 0 {
		rs = append(rs, lr("const", []string{"true", "false"}[r.Intn(2)]))
	}
	return rs
}

func bounds(r *rand.Rand, v int, rs []rule) []rule {
	if r.Intn(2) == 0 {
		ex := r.Intn(3) == 0
		d := r.Intn(4)
		if ex && d == 0 {
			d = 1
		}
		rs = append(rs, lr("min", strconv.Itoa(v-d)))
		if ex || r.Intn(4) == 0 {
			rs = append(rs, lr("exclusiveMinimum", strconv.FormatBool(ex)))
		}
	}
	if r.Intn(2) == 0 {
		ex := r.Intn(3) == 0
		d := r.Intn(4)
		if ex && d == 0 {
			d = 1
		}
		rs = append(rs, lr("max", strconv.Itoa(v+d)))
		if ex || r.Intn(4) == 0 {
			rs = append(rs, lr("exclusiveMaximum", strconv.FormatBool(ex)))
		}
	}
	return rs
}

// orRule: the first alternative accepts the example; the others are arbitrary.
func orRule(r *rand.Rand, t *target) rule {
	var alts []string
	switch {
	case t.kind == "object" || t.kind == "array":
		alts = append(alts, strconv.Quote(t.kind))
	case r.Intn(3) == 0 && refOf[t.kind] != "":
		alts = append(alts, []string{strconv.Quote(refOf[t.kind]), `{type: "` + refOf[t.kind] + `"}`}[r.Intn(2)])
	case r.Intn(2) == 0:
		alts = append(alts, strconv.Quote(t.kind))
	default:
		alts = append(alts, `{type: "`+t.kind+`"}`)
	}
	others := []string{`"string"`, `"integer"`, `"boolean"`, `"null"`, `"float"`, `{type: "string", maxLength: 3}`, `{min: 1, type: "integer"}`, `{enum: [1, "a"]}`, `"uuid"`, `"@ts"`, `{type: "@ti"}`, `"object"`, `"array"`}
	for n := 1 + r.Intn(3); n > 0; n-- {
		o := others[r.Intn(len(others))]
		if (t.kind == "object" || t.kind == "array") && strings.Contains(o, "@") {
			continue
		}
		dup := false
		for _, a := range alts {
			dup = dup || a == o || strings.Contains(a, o[1:len(o)-1]) && strings.HasPrefix(o, `"`)
		}
		if !dup {
			alts = append(alts, o)
		}
	}
	if len(alts) < 2 {
		alts = append(alts, `"date"`)
	}
	if r.Intn(2) == 0 {
		alts[0], alts[len(alts)-1] = alts[len(alts)-1], alts[0]
	}
	return rule{"or", "[" + strings.Join(alts, ", ") + "]", "types or"}
}

func genTarget(r *rand.Rand, inObj bool) *target {
	t := &target{}
	var v int
	switch r.Intn(12) {
	case 0, 1, 2:
		v = r.Intn(40) - 10
		t.kind, t.example = "integer", strconv.Itoa(v)
	case 3, 4:
		v = r.Intn(40) - 10
		t.kind, t.example = "float", strconv.Itoa(v)+[]string{".5", ".25", ".0"}[r.Intn(3)]
	case 5, 6, 7:
		t.kind, t.example = "string", strconv.Quote([]string{"abc", "a.b", "", "x y", "1.5", "true", "é"}[r.Intn(7)])
	case 8:
		t.kind, t.example = "boolean", []string{"true", "false"}[r.Intn(2)]
	case 9:
		t.kind, t.example = "null", "null"
	case 10:
		if r.Intn(2) == 0 {
			t.kind, t.example = "object", "{}"
		} else {
			t.kind, t.example = "array", "[]"
		}
	default: // reference shortcut: the library synthesises the leading constraints
		t.kind = "ref"
		if r.Intn(2) == 0 {
			t.example, t.pre = "@ti", []string{"type:@ti"}
		} else {
			t.example, t.pre = []string{"@ti | @ts", "@tb|@to|@tn"}[r.Intn(2)], []string{"types", "or"}
		}
		t.rules = common(r, nil, inObj, false)
		r.Shuffle(len(t.rules), func(i, j int) { t.rules[i], t.rules[j] = t.rules[j], t.rules[i] })
		return t
	}
	var rs []rule
	scalar := t.kind != "object" && t.kind != "array"
	switch mode := r.Intn(10); {
	case mode == 0 && scalar: // enum
		items := []string{t.example, `"zz"`, "77", "null", "1.25"}
		n := 1 + r.Intn(len(items))
		its := dedupe(items[:n])
		r.Shuffle(len(its), func(i, j int) { its[i], its[j] = its[j], its[i] })
		rs = append(rs, rule{"enum", "[" + strings.Join(its, ", ") + "]", "enum"})
		if r.Intn(2) == 0 {
			rs = append(rs, typ("enum"))
		}
		rs = common(r, rs, inObj, true)
	case mode == 1: // or
		rs = append(rs, orRule(r, t))
		if r.Intn(2) == 0 {
			rs = append(rs, typ("mixed"))
		}
		rs = common(r, rs, inObj, false)
	case mode == 2: // any
		rs = common(r, append(rs, typ("any")), inObj, false)
	case mode == 3 && scalar && t.kind != "null" && t.kind != "float": // reference through the type rule
		rs = common(r, append(rs, typ(refOf[t.kind])), inObj, false)
	default:
		switch t.kind {
		case "integer":
			rs = bounds(r, v, rs)
			if r.Intn(2) == 0 {
				rs = append(rs, typ("integer"))
			}
		case "float":
			rs = bounds(r, v+1, nil)
			for i := range rs { // keep the bounds clear of the fraction
				if rs[i].name == "min" {
					n, _ := strconv.Atoi(rs[i].text)
					rs[i].text = strconv.Itoa(n - 2)
				}
			}
			switch r.Intn(4) {
			case 0:
				rs = append(rs, typ("float"))
			case 1:
				rs = append(rs, lr("precision", strconv.Itoa(2+r.Intn(3))))
				rs[len(rs)-1].ck = "precision"
			case 2:
				rs = append(rs, lr("precision", strconv.Itoa(2+r.Intn(3))), typ("decimal"))
				rs[len(rs)-2].ck = "precision"
			}
		case "string":
			ex, _ := strconv.Unquote(t.example)
			switch r.Intn(4) {
			case 0:
				f := []string{"email", "uri", "uuid", "date", "datetime"}[r.Intn(5)]
				t.example = map[string]string{"email": `"a@b.cc"`, "uri": `"http://x.org/a"`, "uuid": `"550e8400-e29b-41d4-a716-446655440000"`, "date": `"2021-01-31"`, "datetime": `"2021-01-02T07:23:12+03:00"`}[f]
				rs = append(rs, typ(f))
			default:
				if r.Intn(2) == 0 {
					rs = append(rs, lr("minLength", strconv.Itoa(r.Intn(len([]rune(ex))+1))))
				}
				if r.Intn(2) == 0 {
					rs = append(rs, lr("maxLength", strconv.Itoa(len(ex)+r.Intn(3))))
				}
				if r.Intn(3) == 0 {
					rs = append(rs, lr("regex", `".*"`))
				}
				if r.Intn(3) == 0 {
					rs = append(rs, typ("string"))
				}
			}
		case "boolean", "null":
			if r.Intn(2) == 0 {
				rs = append(rs, typ(t.kind))
			}
		case "object":
			if r.Intn(2) == 0 {
				rs = append(rs, lr("additionalProperties", []string{"true", "false", `"string"`, `"@ti"`, `"any"`}[r.Intn(5)]))
			}
			if r.Intn(3) == 0 {
				rs = append(rs, lr("allOf", []string{`"@to"`, `["@to", "@to2"]`}[r.Intn(2)]))
			}
			if r.Intn(3) == 0 {
				rs = append(rs, typ("object"))
			}
		case "array":
			if r.Intn(2) == 0 {
				rs = append(rs, lr("minItems", "0"))
			}
			if r.Intn(2) == 0 {
				rs = append(rs, lr("maxItems", "0"))
			}
			if r.Intn(3) == 0 {
				rs = append(rs, typ("array"))
			}
		}
		rs = common(r, rs, inObj, scalar)
	}
	r.Shuffle(len(rs), func(i, j int) { rs[i], rs[j] = rs[j], rs[i] })
	t.rules = rs
	return t
}

func dedupe(a []string) []string {
	seen := map[string]bool{}
	var out []string
	for _, x := range a {
		if !seen[x] {
			seen[x] = true
			out = append(out, x)
		}
	}
	return out
}

func (t *target) line(comma string, r *rand.Rand) string {
	s := t.example + comma
	if len(t.rules) > 0 {
		var parts []string
		for _, x := range t.rules {
			n := x.name
			if r.Intn(4) == 0 {
				n = strconv.Quote(n)
			}
			parts = append(parts, n+": "+x.text)
		}
		s += " // {" + strings.Join(parts, ", ") + "}"
	}
	return s
}

func (t *target) request() string {
	toks := append([]string(nil), t.pre...)
	for _, x := range t.rules {
		toks = append(toks, strings.Fields(x.ck)...)
	}
	k := t.kind
	if k == "ref" {
		k = "mixed" // JSON kind of a shortcut node as the library types it; never reached: a shortcut always carries type / or
	}
	return strings.TrimSpace("ast " + k + " " + strings.Join(toks, " "))
}

func Run(args []string) {
	rep := vh.NewReport("c16-model", "one target node per case (literal of each JSON kind, empty object/array, @t and @t|@u shortcuts) as root / object "+
		"property / array item with a random valid rule set in random order (ordinary rules, type incl. builtin/format/@t/mixed/enum/decimal/any, precision, "+
		"inline enum, or with type names and rule-sets): real GetAST SchemaType and Rules keys vs Lean Ast.schemaType / Ast.collectRules; GetAST errors skipped. "+
		"nontrivial = target with >= 2 rules")
	r := vh.NewRand(16101)
	var reqs, impl, inputs []string
	for i := vh.Pick(20000, 400000); i > 0; i-- {
		place := r.Intn(3)
		t := genTarget(r, place == 1)
		var schema string
		path := []int{}
		switch place {
		case 0:
			schema = t.line("", r)
		case 1:
			before, after := r.Intn(2), r.Intn(2)
			var lines []string
			if before == 1 {
				lines = append(lines, `  "p": 1,`)
			}
			c := ""
			if after == 1 {
				c = ","
			}
			lines = append(lines, `  "k": `+t.line(c, r))
			if after == 1 {
				lines = append(lines, `  "q": "s"`)
			}
			schema = "{\n" + strings.Join(lines, "\n") + "\n}"
			path = []int{before}
		case 2:
			before, after := r.Intn(2), r.Intn(2)
			var lines []string
			if before == 1 {
				lines = append(lines, `  true,`)
			}
			c := ""
			if after == 1 {
				c = ","
			}
			lines = append(lines, "  "+t.line(c, r))
			if after == 1 {
				lines = append(lines, `  null`)
			}
			schema = "[\n" + strings.Join(lines, "\n") + "\n]"
			path = []int{before}
		}
		var got string
		var gerr error
		p := vh.Recover(func() string {
			s := jschema.New("root", schema)
			for _, ut := range userTypes {
				if err := s.AddType(ut[0], jschema.New(ut[0], ut[1])); err != nil {
					gerr = err
					return ""
				}
			}
			n, err := s.GetAST()
			if err != nil {
				gerr = err
				return ""
			}
			for _, ix := range path {
				n = n.Children[ix]
			}
			var names []string
			if n.Rules != nil {
				_ = n.Rules.Each(func(k string, _ jlib.RuleASTNode) error {
					names = append(names, k)
					return nil
				})
			}
			got = n.SchemaType + "|" + strings.Join(names, ",")
			return ""
		})
		rep.Case(schema, len(t.rules) >= 2)
		rep.Stat([]string{"place_root", "place_property", "place_item"}[place])
		rep.Stat("kind_" + t.kind)
		if p != "" {
			got = p
		} else if gerr != nil {
			rep.Stat("getast_error_skipped")
			continue
		}
		rep.Stat("compared")
		reqs = append(reqs, t.request())
		impl = append(impl, got)
		inputs = append(inputs, fmt.Sprintf("jschema.New(\"root\", %q) + AddType of @ti=12 @tf=1.5 @ts=\"str\" @tb=true @tn=null @to={\"z\":1} @to2={\"y\":2}; GetAST() node at path %v", schema, path))
	}
	if len(args) > 0 && args[0] == "show" { // debug aid: the first request / real answer pairs
		for i := 0; i < 12 && i < len(reqs); i++ {
			fmt.Printf("%s\n  => %s\n", reqs[i], impl[i])
		}
	}
	rep.Compare(reqs, impl, inputs, 8)
	for i := range rep.Diffs {
		rep.Diffs[i].Component, rep.Diffs[i].Level = "C16-model", "correspondence"
	}
	rep.Finish()
}
