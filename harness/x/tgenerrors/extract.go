// Package tgenerrors: T-gen extractor for property C07, part 1 — re-reads the
// library's current source with go/parser (no type checker, no network) and
// regenerates the Lean table of error templates and error construction sites.
//
//	vh tgen-errors [out.lean [source-root]]
//
// The extractor fails closed: whatever it cannot attribute to a constant error
// code is written to the Lean list `unresolved`, and the tie theorem
// `Gen.C07_nothing_unresolved` demands that list to be empty.
//
// What is recognised
//   - the code constants (`const X ErrorCode = n` in package errors) and the
//     template table `errorFormat`;
//   - `errors.Format(errors.ErrX, args…)` (resolved through the file's imports);
//   - wrapper functions: a parameter of type errors.ErrorCode that is the first
//     argument of Format (or of another wrapper at its code position); every
//     call of the wrapper with a constant code is a site with the wrapper's
//     number of extra arguments;
//   - field flow: `Format(x.f, args…)` where f is a struct field of type
//     errors.ErrorCode of a struct declared in the same package, and every
//     composite literal of that struct sets f from a constant or from a
//     parameter of the enclosing function (which thereby is a wrapper);
//   - bare uses `errors.ErrX` as a value (argument, return, panic, assignment,
//     …) — everything that is not a comparison operand (`==`, `!=`), not a
//     `case` label, and not the code position of Format / a wrapper.
//
// Skipped files: *_test.go, files with a `//go:build verif` line, and the
// directories testdata/ and test/ (test support package used by _test files only).
package tgenerrors

import (
	"fmt"
	"go/ast"
	"go/parser"
	"go/token"
	"os"
	"path/filepath"
	"sort"
	"strconv"
	"strings"

	"verifharness/vh"
)

type fmtSite struct {
	file  string
	line  int
	col   int
	code  string
	nargs int
	via   string
}

type bareSite struct {
	file string
	line int
	col  int
	code string
}

type unres struct {
	file   string
	line   int
	col    int
	reason string
}

type srcFile struct {
	rel      string
	dir      string // package directory, relative
	ast      *ast.File
	errNames map[string]bool // local names of the library's errors package in this file
	inErrors bool            // the file belongs to package errors itself
	dotErr   bool            // the errors package is dot-imported (not supported: reported as unresolved)
	imports  map[string]string
}

// wrapper: function whose parameter #param (type errors.ErrorCode) reaches Format with `extra` further arguments.
type wrapper struct {
	dir      string
	name     string
	param    int
	extra    int
	exported bool
	decl     *ast.FuncDecl
	why      string
}

type extractor struct {
	root      string
	module    string
	fset      *token.FileSet
	files     []*srcFile
	consts    map[string]bool
	constPos  map[string]token.Position
	templates map[string]string
	tmplSeen  bool

	fsites   []fmtSite
	bsites   []bareSite
	unres    []unres
	wrappers []*wrapper

	// expressions already accounted for (code positions of Format / wrapper calls, declarations)
	consumed map[ast.Expr]bool
	// mentions of the type ErrorCode that are accounted for
	typeOK map[ast.Expr]bool
}

func (f *srcFile) usesErrors() bool { return f.inErrors || len(f.errNames) > 0 }

func (x *extractor) pos(n ast.Node) token.Position { return x.fset.Position(n.Pos()) }

func (x *extractor) unresolved(f *srcFile, n ast.Node, reason string) {
	p := x.pos(n)
	x.unres = append(x.unres, unres{f.rel, p.Line, p.Column, reason})
}

func (x *extractor) load() error {
	mod, err := os.ReadFile(filepath.Join(x.root, "go.mod"))
	if err != nil {
		return err
	}
	for _, l := range strings.Split(string(mod), "\n") {
		if strings.HasPrefix(l, "module ") {
			x.module = strings.TrimSpace(l[7:])
		}
	}
	if x.module == "" {
		return fmt.Errorf("no module line in go.mod")
	}
	var paths []string
	err = filepath.WalkDir(x.root, func(path string, d os.DirEntry, err error) error {
		if err != nil {
			return err
		}
		rel, _ := filepath.Rel(x.root, path)
		if d.IsDir() {
			if rel == "testdata" || rel == "test" || rel == "vendor" || (strings.HasPrefix(d.Name(), ".") && rel != ".") || d.Name() == "testdata" {
				return filepath.SkipDir
			}
			return nil
		}
		if strings.HasSuffix(path, ".go") && !strings.HasSuffix(path, "_test.go") {
			paths = append(paths, path)
		}
		return nil
	})
	if err != nil {
		return err
	}
	sort.Strings(paths)
	for _, p := range paths {
		b, err := os.ReadFile(p)
		if err != nil {
			return err
		}
		verifOnly := false
		for _, l := range strings.Split(string(b), "\n") {
			t := strings.TrimSpace(l)
			if strings.HasPrefix(t, "package ") {
				break
			}
			if strings.HasPrefix(t, "//go:build") && strings.Contains(t, "verif") || strings.HasPrefix(t, "// +build") && strings.Contains(t, "verif") {
				verifOnly = true
			}
		}
		if verifOnly {
			continue
		}
		af, err := parser.ParseFile(x.fset, p, b, parser.SkipObjectResolution)
		if err != nil {
			return err
		}
		rel, _ := filepath.Rel(x.root, p)
		sf := &srcFile{rel: filepath.ToSlash(rel), dir: filepath.ToSlash(filepath.Dir(rel)), ast: af, imports: map[string]string{}, errNames: map[string]bool{}}
		for _, im := range af.Imports {
			ipath, _ := strconv.Unquote(im.Path.Value)
			name := ipath[strings.LastIndex(ipath, "/")+1:]
			if im.Name != nil {
				name = im.Name.Name
			}
			if ipath == x.module+"/errors" {
				if name == "." {
					sf.dotErr = true
				} else if name != "_" {
					sf.errNames[name] = true
				}
				continue
			}
			sf.imports[name] = ipath
		}
		sf.inErrors = sf.dir == "errors"
		x.files = append(x.files, sf)
	}
	return nil
}

// isErrorCodeType: does the type expression denote errors.ErrorCode in this file?
func (x *extractor) isErrorCodeType(f *srcFile, e ast.Expr) bool {
	switch t := e.(type) {
	case *ast.Ident:
		return f.inErrors && t.Name == "ErrorCode"
	case *ast.SelectorExpr:
		if id, ok := t.X.(*ast.Ident); ok {
			return f.errNames[id.Name] && t.Sel.Name == "ErrorCode"
		}
	}
	return false
}

// codeConst: is the expression a constant error code? Returns its name.
func (x *extractor) codeConst(f *srcFile, e ast.Expr) (string, bool) {
	switch t := e.(type) {
	case *ast.ParenExpr:
		return x.codeConst(f, t.X)
	case *ast.Ident:
		if f.inErrors && x.consts[t.Name] {
			return t.Name, true
		}
	case *ast.SelectorExpr:
		if id, ok := t.X.(*ast.Ident); ok && f.errNames[id.Name] && x.consts[t.Sel.Name] {
			return t.Sel.Name, true
		}
	}
	return "", false
}

func (x *extractor) isFormatCall(f *srcFile, c *ast.CallExpr) bool {
	switch fn := c.Fun.(type) {
	case *ast.Ident:
		return f.inErrors && fn.Name == "Format"
	case *ast.SelectorExpr:
		if id, ok := fn.X.(*ast.Ident); ok {
			return f.errNames[id.Name] && fn.Sel.Name == "Format"
		}
	}
	return false
}

// ---- pass 1: constants and templates ----

func (x *extractor) checkImports() {
	for _, f := range x.files {
		if f.dotErr {
			x.unresolved(f, f.ast.Name, "the errors package is dot-imported: its names cannot be told apart syntactically")
		}
	}
}

func (x *extractor) readTable() {
	for _, f := range x.files {
		if f.dir != "errors" {
			continue
		}
		for _, d := range f.ast.Decls {
			gd, ok := d.(*ast.GenDecl)
			if !ok {
				continue
			}
			for _, sp := range gd.Specs {
				vs, ok := sp.(*ast.ValueSpec)
				if !ok {
					continue
				}
				if gd.Tok == token.CONST {
					if vs.Type != nil && x.isErrorCodeType(f, vs.Type) {
						x.typeOK[vs.Type] = true
						for _, nm := range vs.Names {
							x.consts[nm.Name] = true
							x.constPos[nm.Name] = x.pos(nm)
						}
					} else if vs.Type == nil && len(vs.Values) == 0 {
						// implicit repetition (iota style) inside a const block: cannot tell the type syntactically
						for _, nm := range vs.Names {
							if strings.HasPrefix(nm.Name, "Err") {
								x.unresolved(f, nm, "constant "+nm.Name+" declared without an explicit ErrorCode type")
							}
						}
					}
				}
				for i, nm := range vs.Names {
					if nm.Name != "errorFormat" || i >= len(vs.Values) {
						continue
					}
					cl, ok := vs.Values[i].(*ast.CompositeLit)
					if !ok {
						x.unresolved(f, nm, "errorFormat is not a composite literal")
						continue
					}
					x.tmplSeen = true
					for _, el := range cl.Elts {
						kv, ok := el.(*ast.KeyValueExpr)
						if !ok {
							x.unresolved(f, el, "errorFormat element is not key: value")
							continue
						}
						x.consumed[kv.Key] = true
						k, ok := kv.Key.(*ast.Ident)
						if !ok {
							x.unresolved(f, kv.Key, "errorFormat key is not a constant name")
							continue
						}
						v, ok := stringConst(kv.Value)
						if !ok {
							x.unresolved(f, kv.Value, "template of "+k.Name+" is not a string literal")
							continue
						}
						if _, dup := x.templates[k.Name]; dup {
							x.unresolved(f, kv.Key, "two templates for "+k.Name)
						}
						x.templates[k.Name] = v
					}
				}
			}
		}
	}
}

func stringConst(e ast.Expr) (string, bool) {
	switch t := e.(type) {
	case *ast.BasicLit:
		if t.Kind == token.STRING {
			s, err := strconv.Unquote(t.Value)
			return s, err == nil
		}
	case *ast.ParenExpr:
		return stringConst(t.X)
	case *ast.BinaryExpr:
		if t.Op == token.ADD {
			a, ok1 := stringConst(t.X)
			b, ok2 := stringConst(t.Y)
			return a + b, ok1 && ok2
		}
	}
	return "", false
}

// placeholders counts the formatting verbs of a template; other reports verbs that the
// library's own arity check (which counts only %s and %q) does not see.
func placeholders(t string) (n int, other []string) {
	for i := 0; i < len(t); i++ {
		if t[i] != '%' {
			continue
		}
		j := i + 1
		for j < len(t) && strings.IndexByte("+-# 0123456789.*[]", t[j]) >= 0 {
			j++
		}
		if j >= len(t) {
			other = append(other, "%<end>")
			break
		}
		if t[j] == '%' && j == i+1 {
			i = j
			continue
		}
		n++
		if !((t[j] == 's' || t[j] == 'q') && j == i+1) {
			other = append(other, t[i:j+1])
		}
		i = j
	}
	return n, other
}

// ---- pass 2: Format calls, wrappers, field flow ----

type funcCtx struct {
	decl   *ast.FuncDecl
	params map[string]int // name -> index of the parameters of type ErrorCode
}

func (x *extractor) funcParams(f *srcFile, fd *ast.FuncDecl) map[string]int {
	m := map[string]int{}
	idx := 0
	if fd.Type.Params == nil {
		return m
	}
	for _, fl := range fd.Type.Params.List {
		isCode := x.isErrorCodeType(f, fl.Type)
		if len(fl.Names) == 0 {
			idx++
			continue
		}
		for _, nm := range fl.Names {
			if isCode {
				m[nm.Name] = idx
			}
			idx++
		}
	}
	return m
}

// shadowed: is the parameter name re-declared or assigned inside the body? (then the flow is not the plain one)
func paramTouched(fd *ast.FuncDecl, name string) bool {
	touched := false
	ast.Inspect(fd.Body, func(n ast.Node) bool {
		switch t := n.(type) {
		case *ast.AssignStmt:
			for _, l := range t.Lhs {
				if id, ok := l.(*ast.Ident); ok && id.Name == name {
					touched = true
				}
			}
		case *ast.ValueSpec:
			for _, id := range t.Names {
				if id.Name == name {
					touched = true
				}
			}
		case *ast.IncDecStmt:
			if id, ok := t.X.(*ast.Ident); ok && id.Name == name {
				touched = true
			}
		case *ast.UnaryExpr:
			if t.Op == token.AND {
				if id, ok := t.X.(*ast.Ident); ok && id.Name == name {
					touched = true
				}
			}
		case *ast.FuncLit:
			for _, fl := range t.Type.Params.List {
				for _, id := range fl.Names {
					if id.Name == name {
						touched = true
					}
				}
			}
		}
		return true
	})
	return touched
}

func (x *extractor) addWrapper(f *srcFile, fd *ast.FuncDecl, param, extra int, why string) {
	for _, w := range x.wrappers {
		if w.decl == fd && w.param == param {
			if w.extra != extra {
				x.unresolved(f, fd, fmt.Sprintf("wrapper %s forwards its code with %d and with %d arguments", fd.Name.Name, w.extra, extra))
			}
			return
		}
	}
	x.wrappers = append(x.wrappers, &wrapper{dir: f.dir, name: fd.Name.Name, param: param, extra: extra, exported: ast.IsExported(fd.Name.Name), decl: fd, why: why})
}

// structFields: struct types of the package directory with their fields of type ErrorCode.
type codeField struct {
	dir, typ, field string
}

func (x *extractor) codeFields() []codeField {
	var out []codeField
	for _, f := range x.files {
		ast.Inspect(f.ast, func(n ast.Node) bool {
			ts, ok := n.(*ast.TypeSpec)
			if !ok {
				return true
			}
			st, ok := ts.Type.(*ast.StructType)
			if !ok {
				return true
			}
			for _, fl := range st.Fields.List {
				if x.isErrorCodeType(f, fl.Type) {
					if f.dir != "errors" {
						x.typeOK[fl.Type] = true // accounted for by the field-flow analysis below
					}
					for _, nm := range fl.Names {
						out = append(out, codeField{f.dir, ts.Name.Name, nm.Name})
					}
					if len(fl.Names) == 0 {
						x.unresolved(f, fl, "embedded ErrorCode field in struct "+ts.Name.Name)
					}
				}
			}
			return true
		})
	}
	return out
}

func (x *extractor) scanFormatCalls() {
	fields := x.codeFields()
	formatFields := map[codeField]int{} // field that reaches Format -> number of extra arguments
	for _, f := range x.files {
		if !f.usesErrors() {
			continue
		}
		for _, d := range f.ast.Decls {
			fd, ok := d.(*ast.FuncDecl)
			if !ok || fd.Body == nil {
				continue
			}
			if f.dir == "errors" && fd.Name.Name == "Format" && fd.Recv == nil {
				continue // the definition of Format itself
			}
			params := x.funcParams(f, fd)
			ast.Inspect(fd.Body, func(n ast.Node) bool {
				c, ok := n.(*ast.CallExpr)
				if !ok || !x.isFormatCall(f, c) {
					return true
				}
				if len(c.Args) == 0 {
					x.unresolved(f, c, "Format call without arguments")
					return true
				}
				first := c.Args[0]
				x.consumed[first] = true
				extra := len(c.Args) - 1
				if c.Ellipsis.IsValid() {
					x.unresolved(f, c, "Format call forwards a variadic argument list")
					return true
				}
				if code, ok := x.codeConst(f, first); ok {
					p := x.pos(c)
					x.fsites = append(x.fsites, fmtSite{f.rel, p.Line, p.Column, code, extra, "direct"})
					return true
				}
				if id, ok := first.(*ast.Ident); ok {
					if pi, ok := params[id.Name]; ok {
						if paramTouched(fd, id.Name) {
							x.unresolved(f, c, "Format("+id.Name+", …): the code parameter is modified inside "+fd.Name.Name)
						} else {
							x.addWrapper(f, fd, pi, extra, "Format")
						}
						return true
					}
				}
				if sel, ok := first.(*ast.SelectorExpr); ok {
					var hit *codeField
					n := 0
					for i := range fields {
						if fields[i].dir == f.dir && fields[i].field == sel.Sel.Name {
							hit = &fields[i]
							n++
						}
					}
					if n == 1 {
						if prev, ok := formatFields[*hit]; ok && prev != extra {
							x.unresolved(f, c, fmt.Sprintf("field %s.%s reaches Format with %d and with %d arguments", hit.typ, hit.field, prev, extra))
						}
						formatFields[*hit] = extra
						return true
					}
				}
				x.unresolved(f, c, "first argument of Format is neither a constant code nor a recognised code parameter/field: "+exprText(first))
				return true
			})
		}
	}
	// Format calls outside function bodies (package-level initialisers)
	for _, f := range x.files {
		if !f.usesErrors() {
			continue
		}
		for _, d := range f.ast.Decls {
			gd, ok := d.(*ast.GenDecl)
			if !ok {
				continue
			}
			ast.Inspect(gd, func(n ast.Node) bool {
				if _, ok := n.(*ast.FuncLit); ok {
					return true
				}
				c, ok := n.(*ast.CallExpr)
				if !ok || !x.isFormatCall(f, c) {
					return true
				}
				if len(c.Args) > 0 {
					if code, ok := x.codeConst(f, c.Args[0]); ok && !c.Ellipsis.IsValid() {
						x.consumed[c.Args[0]] = true
						p := x.pos(c)
						x.fsites = append(x.fsites, fmtSite{f.rel, p.Line, p.Column, code, len(c.Args) - 1, "direct"})
						return true
					}
				}
				x.unresolved(f, c, "Format call in a package-level initialiser with a non-constant code")
				return true
			})
		}
	}
	// field flow: every write of a field that reaches Format
	var ffs []codeField
	for cf := range formatFields {
		ffs = append(ffs, cf)
	}
	sort.Slice(ffs, func(i, j int) bool { return ffs[i].dir+ffs[i].typ+ffs[i].field < ffs[j].dir+ffs[j].typ+ffs[j].field })
	for _, cf := range ffs {
		x.fieldFlow(cf, formatFields[cf])
	}
	// fields of type ErrorCode (outside package errors) that never reach Format are harmless, but say so
	for _, cf := range fields {
		if _, ok := formatFields[cf]; !ok && cf.dir != "errors" {
			for _, f := range x.files {
				if f.dir == cf.dir {
					x.unres = append(x.unres, unres{f.rel, 0, 0, "struct field " + cf.typ + "." + cf.field + " of type ErrorCode: its use is not analysed"})
					break
				}
			}
		}
	}
}

func exprText(e ast.Expr) string {
	switch t := e.(type) {
	case *ast.Ident:
		return t.Name
	case *ast.SelectorExpr:
		return exprText(t.X) + "." + t.Sel.Name
	case *ast.CallExpr:
		return exprText(t.Fun) + "(…)"
	case *ast.ParenExpr:
		return "(" + exprText(t.X) + ")"
	}
	return fmt.Sprintf("%T", e)
}

// fieldFlow: all writes of the struct field cf (which reaches Format with `extra` arguments).
func (x *extractor) fieldFlow(cf codeField, extra int) {
	for _, f := range x.files {
		sameDir := f.dir == cf.dir
		// local names under which the struct type can be written in this file
		var pkgAlias string
		if !sameDir {
			for name, ipath := range f.imports {
				if ipath == x.module+"/"+cf.dir {
					pkgAlias = name
				}
			}
			if pkgAlias == "" {
				continue
			}
		}
		isType := func(e ast.Expr) bool {
			switch t := e.(type) {
			case *ast.Ident:
				return sameDir && t.Name == cf.typ
			case *ast.SelectorExpr:
				id, ok := t.X.(*ast.Ident)
				return ok && !sameDir && id.Name == pkgAlias && t.Sel.Name == cf.typ
			case *ast.StarExpr:
				return false
			}
			return false
		}
		var visit func(n ast.Node, fd *ast.FuncDecl, blank bool)
		visit = func(root ast.Node, fd *ast.FuncDecl, blank bool) {
			var params map[string]int
			if fd != nil {
				params = x.funcParams(f, fd)
			}
			ast.Inspect(root, func(n ast.Node) bool {
				switch t := n.(type) {
				case *ast.CompositeLit:
					if t.Type == nil || !isType(t.Type) {
						return true
					}
					if blank {
						return true // `var _ I = T{}`: interface satisfaction check, the value is discarded
					}
					var val ast.Expr
					keyed := true
					for _, el := range t.Elts {
						kv, ok := el.(*ast.KeyValueExpr)
						if !ok {
							keyed = false
							continue
						}
						if k, ok := kv.Key.(*ast.Ident); ok && k.Name == cf.field {
							val = kv.Value
						}
					}
					if !keyed {
						x.unresolved(f, t, "positional composite literal of "+cf.typ+" (field "+cf.field+" reaches Format)")
						return true
					}
					if val == nil {
						x.unresolved(f, t, "composite literal of "+cf.typ+" leaves "+cf.field+" zero (field reaches Format)")
						return true
					}
					x.flowValue(f, fd, params, t, val, extra, cf.typ+"."+cf.field)
				case *ast.AssignStmt:
					for i, l := range t.Lhs {
						sel, ok := l.(*ast.SelectorExpr)
						if !ok || sel.Sel.Name != cf.field || !sameDir {
							continue
						}
						if len(t.Rhs) == len(t.Lhs) {
							x.flowValue(f, fd, params, t, t.Rhs[i], extra, cf.typ+"."+cf.field)
						} else {
							x.unresolved(f, t, "multi-value assignment to field "+cf.field)
						}
					}
				case *ast.UnaryExpr:
					if t.Op == token.AND && sameDir {
						if sel, ok := t.X.(*ast.SelectorExpr); ok && sel.Sel.Name == cf.field {
							x.unresolved(f, t, "address of field "+cf.field+" taken")
						}
					}
				case *ast.CallExpr:
					// new(T): zero value
					if id, ok := t.Fun.(*ast.Ident); ok && id.Name == "new" && len(t.Args) == 1 && isType(t.Args[0]) {
						x.unresolved(f, t, "new("+cf.typ+") leaves "+cf.field+" zero (field reaches Format)")
					}
				case *ast.ValueSpec:
					// var v T: zero value
					if t.Type != nil && isType(t.Type) && len(t.Values) == 0 {
						x.unresolved(f, t, "variable of type "+cf.typ+" starts with "+cf.field+" zero (field reaches Format)")
					}
				}
				return true
			})
		}
		for _, d := range f.ast.Decls {
			switch t := d.(type) {
			case *ast.FuncDecl:
				if t.Body != nil {
					visit(t.Body, t, false)
				}
			case *ast.GenDecl:
				for _, sp := range t.Specs {
					vs, ok := sp.(*ast.ValueSpec)
					if !ok {
						continue
					}
					blank := true
					for _, nm := range vs.Names {
						if nm.Name != "_" {
							blank = false
						}
					}
					for _, v := range vs.Values {
						visit(v, nil, blank)
					}
					if len(vs.Values) == 0 && !blank && vs.Type != nil && isType(vs.Type) {
						x.unresolved(f, vs, "package variable of type "+cf.typ+" starts with "+cf.field+" zero (field reaches Format)")
					}
				}
			}
		}
	}
}

// flowValue: `val` is stored where it will reach Format with `extra` arguments.
func (x *extractor) flowValue(f *srcFile, fd *ast.FuncDecl, params map[string]int, at ast.Node, val ast.Expr, extra int, what string) {
	if code, ok := x.codeConst(f, val); ok {
		x.consumed[val] = true
		p := x.pos(at)
		x.fsites = append(x.fsites, fmtSite{f.rel, p.Line, p.Column, code, extra, "field " + what})
		return
	}
	if id, ok := val.(*ast.Ident); ok && fd != nil {
		if pi, ok := params[id.Name]; ok && !paramTouched(fd, id.Name) {
			x.addWrapper(f, fd, pi, extra, "field "+what)
			return
		}
	}
	x.unresolved(f, at, what+" (reaches Format) is set from "+exprText(val))
}

// ---- pass 3: calls of wrappers (to a fixed point: a wrapper may call a wrapper) ----

func (x *extractor) scanWrapperCalls() {
	done := map[*ast.CallExpr]bool{}
	for changed := true; changed; {
		changed = false
		nw := len(x.wrappers)
		// ambiguity: same directory and name, different shape
		for _, f := range x.files {
			for _, d := range f.ast.Decls {
				fd, ok := d.(*ast.FuncDecl)
				if !ok || fd.Body == nil {
					continue
				}
				params := x.funcParams(f, fd)
				ast.Inspect(fd.Body, func(n ast.Node) bool {
					c, ok := n.(*ast.CallExpr)
					if !ok || done[c] {
						return true
					}
					w := x.matchWrapper(f, c)
					if w == nil {
						return true
					}
					done[c] = true
					if w.param >= len(c.Args) || c.Ellipsis.IsValid() {
						x.unresolved(f, c, "call of wrapper "+w.name+" without a plain code argument")
						return true
					}
					arg := c.Args[w.param]
					x.consumed[arg] = true
					if code, ok := x.codeConst(f, arg); ok {
						p := x.pos(c)
						x.fsites = append(x.fsites, fmtSite{f.rel, p.Line, p.Column, code, w.extra, "wrapper " + w.name})
						return true
					}
					if id, ok := arg.(*ast.Ident); ok {
						if pi, ok := params[id.Name]; ok && !paramTouched(fd, id.Name) {
							x.addWrapper(f, fd, pi, w.extra, "wrapper "+w.name)
							return true
						}
					}
					x.unresolved(f, c, "wrapper "+w.name+" called with a code that is neither a constant nor a code parameter: "+exprText(arg))
					return true
				})
			}
		}
		if len(x.wrappers) != nw {
			changed = true
		}
	}
	// the wrappers' parameters are accounted-for mentions of the type
	for _, w := range x.wrappers {
		idx := 0
		for _, fl := range w.decl.Type.Params.List {
			k := len(fl.Names)
			if k == 0 {
				k = 1
			}
			if w.param >= idx && w.param < idx+k {
				x.typeOK[fl.Type] = true
			}
			idx += k
		}
	}
	// two wrappers that a call could not tell apart
	for i, a := range x.wrappers {
		for _, b := range x.wrappers[i+1:] {
			if a.name == b.name && (a.dir == b.dir || (a.exported && b.exported && a.decl.Recv != nil && b.decl.Recv != nil)) && (a.param != b.param || a.extra != b.extra) && a.decl != b.decl {
				for _, f := range x.files {
					if f.dir == a.dir {
						x.unresolved(f, a.decl, "ambiguous wrapper name "+a.name)
						break
					}
				}
			}
		}
	}
}

// matchWrapper: does the call target a known wrapper? (by name: package-local for plain and method
// calls, through the import alias for exported functions of other packages)
func (x *extractor) matchWrapper(f *srcFile, c *ast.CallExpr) *wrapper {
	switch fn := c.Fun.(type) {
	case *ast.Ident:
		for _, w := range x.wrappers {
			if w.dir == f.dir && w.decl.Recv == nil && w.name == fn.Name {
				return w
			}
		}
	case *ast.SelectorExpr:
		if id, ok := fn.X.(*ast.Ident); ok {
			if ipath, ok := f.imports[id.Name]; ok {
				for _, w := range x.wrappers {
					if w.decl.Recv == nil && w.exported && w.name == fn.Sel.Name && ipath == x.module+"/"+w.dir {
						return w
					}
				}
			}
		}
		// method call: same package for unexported methods, any package for exported ones
		for _, w := range x.wrappers {
			if w.decl.Recv != nil && w.name == fn.Sel.Name && (w.dir == f.dir || w.exported) {
				return w
			}
		}
	}
	return nil
}

// ---- pass 4: bare uses and unaccounted mentions of the type ----

func (x *extractor) scanBare() {
	for _, f := range x.files {
		if !f.usesErrors() {
			continue
		}
		excluded := map[ast.Expr]bool{}
		ast.Inspect(f.ast, func(n ast.Node) bool {
			switch t := n.(type) {
			case *ast.BinaryExpr:
				if t.Op == token.EQL || t.Op == token.NEQ {
					excluded[unparen(t.X)] = true
					excluded[unparen(t.Y)] = true
				}
			case *ast.CaseClause:
				for _, e := range t.List {
					excluded[unparen(e)] = true
				}
			case *ast.TypeSwitchStmt:
				for _, cc := range t.Body.List {
					for _, e := range cc.(*ast.CaseClause).List {
						if x.isErrorCodeType(f, e) {
							x.typeOK[e] = true
						}
					}
				}
			case *ast.ValueSpec:
				// declarations of the constants themselves
				if f.dir == "errors" && t.Type != nil && x.isErrorCodeType(f, t.Type) {
					for _, v := range t.Values {
						excluded[unparen(v)] = true
					}
				}
			}
			return true
		})
		ast.Inspect(f.ast, func(n ast.Node) bool {
			e, ok := n.(ast.Expr)
			if !ok {
				return true
			}
			if x.consumed[e] {
				return false
			}
			if code, ok := x.codeConst(f, e); ok {
				if _, isParen := e.(*ast.ParenExpr); isParen {
					return true
				}
				if id, isIdent := e.(*ast.Ident); isIdent {
					// inside package errors: skip the declaring identifiers
					if p := x.constPos[id.Name]; p == x.pos(id) {
						return false
					}
				}
				if !excluded[e] {
					p := x.pos(e)
					x.bsites = append(x.bsites, bareSite{f.rel, p.Line, p.Column, code})
				}
				return false
			}
			if x.isErrorCodeType(f, e) && f.dir != "errors" && !x.typeOK[e] {
				x.unresolved(f, e, "use of the type errors.ErrorCode that is not a wrapper parameter, an analysed struct field or a type-switch case")
				return false
			}
			return true
		})
	}
}

func unparen(e ast.Expr) ast.Expr {
	for {
		p, ok := e.(*ast.ParenExpr)
		if !ok {
			return e
		}
		e = p.X
	}
}

// ---- output ----

func leanStr(s string) string {
	var sb strings.Builder
	sb.WriteByte('"')
	for _, r := range s {
		switch {
		case r == '"':
			sb.WriteString(`\"`)
		case r == '\\':
			sb.WriteString(`\\`)
		case r == '\n':
			sb.WriteString(`\n`)
		case r == '\t':
			sb.WriteString(`\t`)
		case r < 0x20 || r == 0x7f:
			fmt.Fprintf(&sb, `\x%02x`, r)
		default:
			sb.WriteRune(r)
		}
	}
	sb.WriteByte('"')
	return sb.String()
}

func (x *extractor) render() string {
	var sb strings.Builder
	sb.WriteString("-- generated by `vh tgen-errors` from the library's source: do not edit\n")
	sb.WriteString("namespace Gen\n\n")
	codes := make([]string, 0, len(x.consts))
	for c := range x.consts {
		codes = append(codes, c)
	}
	sort.Strings(codes)
	list := func(name, typ, comment string, items []string) {
		fmt.Fprintf(&sb, "def %s : List %s := [   -- %s\n", name, typ, comment)
		for i, it := range items {
			sb.WriteString("  " + it)
			if i < len(items)-1 {
				sb.WriteString(",")
			}
			sb.WriteString("\n")
		}
		sb.WriteString("]\n\n")
	}
	var items []string
	for _, c := range codes {
		items = append(items, leanStr(c))
	}
	list("codes", "String", "every constant of type ErrorCode (errors/code.go)", items)

	keys := make([]string, 0, len(x.templates))
	for k := range x.templates {
		keys = append(keys, k)
	}
	sort.Strings(keys)
	items = nil
	for _, k := range keys {
		n, _ := placeholders(x.templates[k])
		items = append(items, fmt.Sprintf("(%s, %d)", leanStr(k), n))
	}
	list("templates", "(String × Nat)", "code name, number of placeholders of its template in errorFormat", items)

	items = nil
	for _, s := range x.fsites {
		items = append(items, fmt.Sprintf("(%s, %d, %s, %d)", leanStr(s.file), s.line, leanStr(s.code), s.nargs))
	}
	list("formatSites", "(String × Nat × String × Nat)", "file, line, code, number of arguments reaching errors.Format (direct calls, wrapper calls, field flow)", items)

	items = nil
	for _, s := range x.bsites {
		items = append(items, fmt.Sprintf("(%s, %d, %s)", leanStr(s.file), s.line, leanStr(s.code)))
	}
	list("bareSites", "(String × Nat × String)", "file, line, code: a bare code used as an error value (needs a template without placeholders)", items)

	items = nil
	for _, u := range x.unres {
		items = append(items, fmt.Sprintf("(%s, %d, %s)", leanStr(u.file), u.line, leanStr(u.reason)))
	}
	list("unresolved", "(String × Nat × String)", "file, line, reason: what the extractor could not attribute to a constant code (must be empty)", items)
	sb.WriteString("end Gen\n")
	return sb.String()
}

func (x *extractor) sortAll() {
	sort.SliceStable(x.fsites, func(i, j int) bool {
		a, b := x.fsites[i], x.fsites[j]
		if a.file != b.file {
			return a.file < b.file
		}
		if a.line != b.line {
			return a.line < b.line
		}
		if a.col != b.col {
			return a.col < b.col
		}
		return a.code < b.code
	})
	sort.SliceStable(x.bsites, func(i, j int) bool {
		a, b := x.bsites[i], x.bsites[j]
		if a.file != b.file {
			return a.file < b.file
		}
		if a.line != b.line {
			return a.line < b.line
		}
		if a.col != b.col {
			return a.col < b.col
		}
		return a.code < b.code
	})
	sort.SliceStable(x.unres, func(i, j int) bool {
		a, b := x.unres[i], x.unres[j]
		if a.file != b.file {
			return a.file < b.file
		}
		if a.line != b.line {
			return a.line < b.line
		}
		if a.col != b.col {
			return a.col < b.col
		}
		return a.reason < b.reason
	})
}

// Run is the `tgen-errors` command.
func Run(args []string) {
	out := "/verif/lean/JSight/Generated/ErrorTable.lean"
	root := vh.RepoRoot()
	if len(args) > 0 && args[0] != "" {
		out = args[0]
	}
	if len(args) > 1 && args[1] != "" {
		root = args[1]
	}
	rep := vh.NewReport("tgen-errors", "every error code constant and its template (errors/code.go), every errors.Format call (direct, through wrapper functions, through struct fields of type ErrorCode) and every bare use of a code as an error value in the non-test, non-verif .go files of "+root+" parsed with go/parser; fail closed: unattributable flows go to `unresolved`; evaluations = number of sites")
	x := &extractor{root: root, fset: token.NewFileSet(), consts: map[string]bool{}, constPos: map[string]token.Position{}, templates: map[string]string{},
		consumed: map[ast.Expr]bool{}, typeOK: map[ast.Expr]bool{}}
	if err := x.load(); err != nil {
		rep.AddDiff(vh.Diff{Component: "C07-tgen", Input: root, Impl: "cannot read the source tree: " + err.Error(), Model: "parsable source tree"})
		rep.Finish()
		return
	}
	x.checkImports()
	x.readTable()
	if len(x.consts) == 0 || !x.tmplSeen {
		x.unres = append(x.unres, unres{"errors/code.go", 0, 0, "code constants or the errorFormat table not found"})
	}
	x.scanFormatCalls()
	x.scanWrapperCalls()
	x.scanBare()
	// codes without template, templates without code, verbs the library's arity check does not count
	codes := make([]string, 0, len(x.consts))
	for c := range x.consts {
		codes = append(codes, c)
	}
	sort.Strings(codes)
	for _, c := range codes {
		t, ok := x.templates[c]
		p := x.constPos[c]
		rel, _ := filepath.Rel(root, p.Filename)
		if !ok {
			x.unres = append(x.unres, unres{filepath.ToSlash(rel), p.Line, p.Column, "code constant " + c + " has no template in errorFormat"})
			continue
		}
		if _, other := placeholders(t); len(other) > 0 {
			x.unres = append(x.unres, unres{filepath.ToSlash(rel), p.Line, p.Column, "template of " + c + " uses " + strings.Join(other, " ") + " which the arity check of Errorf.Error (counts %s and %q only) does not see"})
		}
	}
	for k := range x.templates {
		if !x.consts[k] {
			x.unres = append(x.unres, unres{"errors/code.go", 0, 0, "template key " + k + " is not a declared code constant"})
		}
	}
	x.sortAll()

	text := x.render()
	if err := os.MkdirAll(filepath.Dir(out), 0o755); err != nil {
		rep.AddDiff(vh.Diff{Component: "C07-tgen", Input: out, Impl: err.Error(), Model: "writable output"})
	}
	if err := os.WriteFile(out, []byte(text), 0o644); err != nil {
		rep.AddDiff(vh.Diff{Component: "C07-tgen", Input: out, Impl: err.Error(), Model: "writable output"})
	}

	// the same checks as the tie theorems, for an immediate report
	ph := func(code string) (int, bool) {
		t, ok := x.templates[code]
		if !ok {
			return 0, false
		}
		n, _ := placeholders(t)
		return n, true
	}
	for _, s := range x.fsites {
		key := fmt.Sprintf("%s:%d errors.Format(%s, %d args) via %s", s.file, s.line, s.code, s.nargs, s.via)
		n, ok := ph(s.code)
		rep.Case(key, s.nargs > 0 || s.via != "direct")
		rep.Stat("format_site:" + strings.SplitN(s.via, " ", 2)[0])
		if !ok || n != s.nargs {
			rep.AddDiff(vh.Diff{Component: "C07-tgen", Input: key, Impl: fmt.Sprintf("%d arguments", s.nargs), Model: fmt.Sprintf("template has %d placeholders (found=%v)", n, ok)})
		}
	}
	for _, s := range x.bsites {
		key := fmt.Sprintf("%s:%d bare %s", s.file, s.line, s.code)
		rep.Case(key, false)
		rep.Stat("bare_site")
		if n, ok := ph(s.code); !ok || n != 0 {
			rep.AddDiff(vh.Diff{Component: "C07-tgen", Input: key, Impl: "bare code used as an error value", Model: fmt.Sprintf("template has %d placeholders (found=%v)", n, ok)})
		}
	}
	for _, u := range x.unres {
		rep.AddDiff(vh.Diff{Component: "C07-tgen", Input: fmt.Sprintf("%s:%d", u.file, u.line), Impl: "unresolved: " + u.reason, Model: "every flow of an error code is attributed to a constant"})
	}
	rep.Stats["codes"] = len(x.consts)
	rep.Stats["templates"] = len(x.templates)
	rep.Stats["format_sites"] = len(x.fsites)
	rep.Stats["bare_sites"] = len(x.bsites)
	rep.Stats["unresolved"] = len(x.unres)
	rep.Stats["wrappers"] = len(x.wrappers)
	rep.Stats["files"] = len(x.files)
	for _, w := range x.wrappers {
		rep.Extra["wrapper "+w.dir+"."+w.name] = fmt.Sprintf("param %d, %d extra arguments, through %s", w.param, w.extra, w.why)
	}
	rep.Extra["output"] = out
	rep.Extra["source_root"] = root
	fmt.Printf("tgen-errors: %d files, %d codes, %d templates, %d format sites, %d bare sites, %d wrappers, %d unresolved -> %s\n",
		len(x.files), len(x.consts), len(x.templates), len(x.fsites), len(x.bsites), len(x.wrappers), len(x.unres), out)
	rep.Finish()
}
