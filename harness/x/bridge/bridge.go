// Package bridge: harness command `bridge-models` — a Lean-vs-Lean tie.
//
// Three Lean models cover overlapping parts of the library and are tied to the code by separate differential runs:
// (A) `Compile` (constraint creation, CompileBasic, CheckRootSchema; tie e2e-text), (B) `CR.checkRules` (the rules of
// one annotated node; tie c08-model), (C) `CK.checkSchema` (the checker over a dump of the compiled tree; tie
// c04-model). The bridge theorems (`C08_models_agree`, `C04_models_agree`) say that on the class all of them express
// the models give the same verdict and the same first error code. This command validates their hypotheses and
// conclusions at run time on realistic inputs: the schema TEXTS of the generators of e2e-text, c08-model and c04-model
// go to the driver word `bridge`, which runs scanner model -> loader model -> each model on the SAME text and answers
//
//	A <out> | B <nodes> <compared> AGREE|DISAGREE …|OUTSIDE why | W AGREE|DISAGREE|OUTSIDE | C <out> AGREE|DISAGREE …|OUTSIDE why
//
// Any DISAGREE is a diff (two models of one piece of code contradict each other: at least one is wrong; the verdict of
// the real Check() on the same texts is printed next to it and tells which). A case is OUTSIDE when neither the
// (A)∩(B) nor the (A)∩(C) comparison applies to it.
package bridge

import (
	stderrors "errors"
	"fmt"
	"math/rand"
	"runtime"
	"strings"
	"sync"

	"github.com/jsightapi/jsight-schema-go-library/notations/jschema"

	"verifharness/vh"
	c04 "verifharness/x/c04"
	c04model "verifharness/x/c04model"
	c08model "verifharness/x/c08model"
	e2e "verifharness/x/e2e"
)

const command = "bridge-models"

type one struct {
	root         string
	names, texts []string
	stream       string
	stats        []string
}

type coder interface{ ErrCode() int }

// realCheck: AddType (in order) + Check of a fresh schema object, under recover.
func realCheck(c one) string {
	return vh.Recover(func() string {
		s := jschema.New("root", c.root)
		for i, n := range c.names {
			if err := s.AddType(n, jschema.New(n, c.texts[i])); err != nil {
				return errClass(err)
			}
		}
		if err := s.Check(); err != nil {
			return errClass(err)
		}
		return "OK"
	})
}

func errClass(err error) string {
	var pe coder
	if stderrors.As(err, &pe) {
		return fmt.Sprintf("ERR %d", pe.ErrCode())
	}
	if strings.Contains(err.Error(), "Infinity recursion detected") {
		return "ERR 104"
	}
	return "ERR other " + err.Error()
}

func hx(s string) string {
	if s == "" {
		return "-"
	}
	return vh.Hex([]byte(s))
}

func request(c one) string {
	var sb strings.Builder
	sb.WriteString("bridge " + hx(c.root))
	fmt.Fprintf(&sb, " %d", len(c.names))
	for i, n := range c.names {
		sb.WriteString(" " + hx(n) + " " + hx(c.texts[i]))
	}
	return sb.String()
}

func input(c one) string {
	var sb strings.Builder
	sb.WriteString("[" + c.stream + "]\nSCHEMA:\n" + c.root + "\nTYPES (AddType name = text):")
	for i, n := range c.names {
		sb.WriteString("\n" + n + " = " + c.texts[i])
	}
	return sb.String()
}

var mutAlphabet = []byte("{}[],:\"@/#*|- \n\\ae1.5tn")

// targeted: small texts around the places where the models were written from different readings of the code
// (key shortcuts of several defects in one object, every type name `additionalProperties` takes, rule values at
// the edge of the constructors).
func targeted(r *rand.Rand) one {
	pick := func(xs ...string) string { return xs[r.Intn(len(xs))] }
	c := one{stream: "targeted"}
	c.names = []string{"@s", "@i", "@o", "@m", "@c"}
	c.texts = []string{`"abc" // {minLength: 1}`, "7", "{}", "@s | @i", "@c"}
	switch r.Intn(4) {
	case 0: // an object with key shortcuts
		var lines []string
		n := 1 + r.Intn(3)
		for i := 0; i < n; i++ {
			k := pick("@s", "@i", "@o", "@m", "@c", "@zz", "@s")
			comma := ","
			if i == n-1 {
				comma = ""
			}
			lines = append(lines, "  "+k+": "+pick("1", `"v"`, "@i", "[]")+comma)
		}
		ann := ""
		if r.Intn(2) == 0 {
			ann = ` // {additionalProperties: ` + pick(`"@zz"`, `"@s"`, `"string"`, "true", "false", `"comment"`, `"any"`, `"mixed"`, `"enum"`, `"decimal"`, `"wrong"`) + "}"
		}
		c.root = "{" + ann + "\n" + strings.Join(lines, "\n") + "\n}"
	case 1: // additionalProperties: every name
		v := pick(`"any"`, "true", "false", `"object"`, `"array"`, `"string"`, `"integer"`, `"float"`, `"decimal"`, `"boolean"`, `"null"`,
			`"email"`, `"uri"`, `"uuid"`, `"date"`, `"datetime"`, `"enum"`, `"mixed"`, `"comment"`, `"@s"`, `"@zz"`, `"@"`, `"Any"`, `""`, "1", "null")
		ex := pick("{}", "{}", "[]", "1", `"s"`)
		c.root = ex + " // {additionalProperties: " + v + "}"
	case 2: // a scalar with rule values at the edge of the constructors
		rules := []string{"minLength: " + pick("0", "1", "00", "18446744073709551616", "99999999999999999999", "1.0", "-1", `"1"`),
			"maxLength: " + pick("3", "0", "18446744073709551615", "4294967296"),
			"precision: " + pick("1", "0", "00", "2", "18446744073709551616"),
			"min: " + pick("1", "1e0", "-0", "0.0", "1.", ".5", "01", `"1"`, "1e", "true"),
			"max: " + pick("1", "1e0", "-0", "2.50", "1E1"),
			"exclusiveMinimum: " + pick("true", "false", "1", `"true"`), "exclusiveMaximum: " + pick("true", "false"),
			"const: " + pick("true", "false", "null"), "nullable: " + pick("true", "false", "0"),
			"type: " + pick(`"integer"`, `"float"`, `"string"`, `"decimal"`, `"enum"`, `"mixed"`, `"any"`, `"uuid"`, `"date"`, `"null"`, `"boolean"`, `"@s"`, `"@"`, `"x"`, "1", `"object"`),
			"enum: " + pick("[1, 2]", `["a", "b"]`, "[1, 1.0]", `[1, "1"]`, "[]", "[null, true]", `["abc", "abc"]`),
			"or: " + pick(`["@s", "@i"]`, `["@s"]`, "[]", `["@s", "@s"]`, `["@s", 1]`, `["@zz", "@i"]`, `["wrong", 1]`, `["integer", 1, "@s"]`, `[1, "wrong"]`, `["@s", "decimal", 1]`, `["enum", true]`),
			"optional: " + pick("true", "false")}
		r.Shuffle(len(rules), func(i, j int) { rules[i], rules[j] = rules[j], rules[i] })
		ex := pick("1", "2.5", `"abc"`, "true", "null", "1.0", "-0", "1e2")
		body := ex + " // {" + strings.Join(rules[:1+r.Intn(3)], ", ") + "}"
		switch r.Intn(3) {
		case 0:
			c.root = body
		case 1:
			c.root = "{\n  \"p\": " + body + "\n}"
		default:
			c.root = "[\n  " + body + "\n]"
		}
	default: // a reference node with rules
		rules := []string{"nullable: " + pick("true", "false"), "optional: " + pick("true", "false"), "const: " + pick("true", "false"),
			"min: 1", `enum: [1]`, `additionalProperties: true`}
		r.Shuffle(len(rules), func(i, j int) { rules[i], rules[j] = rules[j], rules[i] })
		ex := pick("@s", "@s | @i", "@zz", "@m", "@c", "@s | @zz")
		body := ex + " // {" + strings.Join(rules[:1+r.Intn(2)], ", ") + "}"
		if r.Intn(2) == 0 {
			c.root = "{\n  \"p\": " + body + "\n}"
		} else {
			c.root = body
		}
	}
	return c
}

// chains: reference chains and cycles through named types whose root is itself a node with a types list (typed
// literals `EX // {type: "@t"}`, `or` lists with repeated names, aliases `@al = @i`, or-shortcuts inside named types) —
// the reference-following loops of the checker (collectAllowedJsonTypes, buildList) as (A) and (C) model them; the
// repeated names make the loops long: (A) must never answer "out of fuel" (C04_text_checker_never_out_of_fuel).
func chains(r *rand.Rand) one {
	pick := func(xs ...string) string { return xs[r.Intn(len(xs))] }
	c := one{stream: "chains"}
	k := r.Intn(14)
	if r.Intn(4) == 0 {
		k = 20 + r.Intn(40) // long lists of one repeated name: the loops read every occurrence
	}
	or := strings.Repeat(`"@x", `, k) + pick(`"@a"`, `"@a"`, `"@i"`, `"@s"`, `"@zz"`)
	c.names = []string{"@s", "@i", "@x", "@T", "@a", "@al", "@o", "@w", "@ks", "@kc"}
	c.texts = []string{`"abc" // {minLength: 1}`, "7 // {min: 3}", "3",
		"1 // {or: [" + or + "]}",
		"2 // {type: " + pick(`"@T"`, `"@T"`, `"@i"`, `"@al"`, `"@a"`) + "}",
		pick("@i", "@s | @i", "@a", "@al", "@T", "@zz"),
		pick("@s | @i", "@s | @zz", "@T | @s", "@al | @i"),
		"{\n  \"p\": " + pick("@s | @i", "@s | @zz", "@o", "@al") + ",\n  \"q\": [\n    " + pick("@i | @x", "@zz | @x", "4 // {type: \"@a\"}") + "\n  ]\n}",
		// key types that are aliases / or-shortcuts (C04_models_agree_compiled_keys): actualRootType follows them
		pick("@s", "@s", "@s", "@s", "@kc", "@kc", "@kc", "@al", "@s | @kc", "@s | @i", "@kc | @s", "@zz", "@ks"),
		pick("@s", "@s", "@s", "@s", "@ks", "@ks | @s", "@s | @s", "@kc", "@i", `"k" // {type: "@s"}`)}
	ex := pick("5", "1", `"q"`, "2.5", "true")
	switch r.Intn(8) {
	case 5, 6, 7: // an object whose key shortcuts name aliases, or-shortcuts, cycles of them
		var lines []string
		keys := []string{"@ks", "@kc", "@s", "@al", "@o", "@i", "@T", "@a", "@w", "@zz"}
		r.Shuffle(len(keys), func(i, j int) { keys[i], keys[j] = keys[j], keys[i] })
		if r.Intn(3) != 0 { // mostly the alias key types first
			keys = append([]string{"@ks", "@kc", "@s"}[:1+r.Intn(3)], keys[:1]...)
		}
		n := 1 + r.Intn(3)
		seen := map[string]bool{}
		for i := 0; i < n && i < len(keys); i++ {
			if seen[keys[i]] {
				continue
			}
			seen[keys[i]] = true
			lines = append(lines, "  "+keys[i]+": "+pick(ex, "@i", "@ks"))
		}
		for i := range lines {
			if i < len(lines)-1 {
				lines[i] += ","
			}
		}
		c.root = "{\n" + strings.Join(lines, "\n") + "\n}"
		c.stats = []string{"chains_alias_keys"}
	case 0:
		c.root = ex + " // {type: " + pick(`"@T"`, `"@a"`, `"@al"`, `"@o"`, `"@i"`, `"@w"`) + "}"
	case 1:
		c.root = ex + " // {or: [" + strings.Repeat(`"@al", `, r.Intn(4)) + pick(`"@T"`, `"@s"`, `"@a"`) + ", " + pick(`"@i"`, `"@s"`, `"@zz"`, `"@o"`) + "]}"
	case 2:
		c.root = "{\n  \"p\": " + ex + ", // {type: " + pick(`"@T"`, `"@a"`, `"@al"`) + "}\n  \"q\": " + pick("@o", "@al", "@s | @al", "@w") + "\n}"
	case 3:
		c.root = "[\n  " + pick("@T", "@a | @s", "@al | @o", "@zz | @s") + ",\n  " + ex + " // {type: " + pick(`"@a"`, `"@i"`) + "}\n]"
	default:
		c.root = pick("@T", "@a", "@al", "@o", "@al | @o", "@w")
	}
	return c
}

// gen: case number i.
func gen(i int) []one {
	r := vh.NewRand(int64(i)*1000033 + 777)
	var out []one
	switch i % 8 {
	case 0, 1, 2:
		noise := 0
		if r.Intn(2) == 0 {
			noise = 3 + r.Intn(8)
		}
		t := e2e.BridgeTexts(r.Int63(), noise)
		c := one{root: t.Root, names: t.Names, texts: t.Texts, stream: "e2e", stats: t.Stats}
		if t.Noisy {
			c.stats = append(c.stats, "e2e_with_noise_rule")
		}
		out = append(out, c)
		if r.Intn(6) == 0 { // malformed stream
			m := c
			m.stream = "e2e-malformed"
			m.stats = nil
			m.root = string(vh.Mutate(r, []byte(c.root), mutAlphabet))
			out = append(out, m)
		}
	case 3, 4:
		b := c08model.BridgeGen(r, i/8)
		out = append(out, one{root: b.Root, names: b.Names, texts: b.Texts, stream: "c08-" + b.Stream, stats: []string{"c08_ctx_" + b.Ctx}})
	case 5:
		stream := 1 + r.Intn(2)
		for _, mc := range c04.ModelCases(stream, i/8, 1, 2, func(c04.ModelCase) bool { return true }) {
			out = append(out, one{root: mc.Root, names: mc.Names, texts: mc.Texts, stream: fmt.Sprintf("c04-s%d", stream),
				stats: []string{fmt.Sprintf("c04_corruptions_%d", mc.Ncorr)}})
		}
	case 6:
		root, names, texts := c04model.BridgeWild(i / 8)
		out = append(out, one{root: root, names: names, texts: texts, stream: "c04-wild"})
	default:
		if r.Intn(3) == 0 {
			out = append(out, chains(r))
		} else {
			out = append(out, targeted(r))
		}
	}
	return out
}

type result struct {
	c    one
	real string
}

func part(reply, tag string) string {
	for _, p := range strings.Split(reply, " | ") {
		if strings.HasPrefix(p, tag+" ") {
			return p[len(tag)+1:]
		}
	}
	return ""
}

func verdictWord(p string) (string, string) {
	for _, w := range []string{"AGREE", "DISAGREE", "OUTSIDE"} {
		if k := strings.Index(p, w); k >= 0 && !(w == "AGREE" && strings.Contains(p, "DISAGREE")) {
			return w, strings.TrimSpace(p[k+len(w):])
		}
	}
	return "?", p
}

func Run(args []string) {
	rep := vh.NewReport(command, "Lean-vs-Lean: the schema texts of the generators of e2e-text (random type tables: root + 4 named types + 4 key types, half of them with noise rules; 1 in 6 also byte-mutated), c08-model (one annotated node in a context: random / duplicate / or-member / malformed-value / shortcut streams), c04-model (streams 1, 2 with chains of corruptions; wild) and a targeted stream (objects with several key shortcuts, every additionalProperties type name, rule values at the edge of the constructors, reference nodes with rules; chains: typed literals, or lists with repeated names, aliases and or-shortcuts through named types, cycles included, key shortcuts whose type is an alias / or-shortcut) go to the driver word `bridge`: scanner model -> loader model -> (A) Compile, (B) CR.checkRules per node through crNodeOf, (C) CK.checkSchema through dumpOf; DISAGREE in any of the three comparisons (B: per node code; W: per-node reading of (A) against (A); C: checker code) is a diff, and so is an (A) that answers out-of-fuel; the real Check() of the same texts is shown next to it; nontrivial = some annotated node compared or the checker stage reached")
	n := vh.Pick(24000, 400000)
	const batch = 4000
	total, outside := 0, 0
	for done := 0; done < n; done += batch {
		m := batch
		if n-done < m {
			m = n - done
		}
		results := make([][]result, m)
		var wg sync.WaitGroup
		next := make(chan int, m)
		for i := 0; i < m; i++ {
			next <- i
		}
		close(next)
		for w := runtime.NumCPU(); w > 0; w-- {
			wg.Add(1)
			go func() {
				defer wg.Done()
				for i := range next {
					for _, c := range gen(done + i) {
						results[i] = append(results[i], result{c, realCheck(c)})
					}
				}
			}()
		}
		wg.Wait()
		var reqs []string
		var rs []result
		for _, g := range results {
			for _, x := range g {
				reqs = append(reqs, request(x.c))
				rs = append(rs, x)
			}
		}
		for i, reply := range vh.AskModelSharded(reqs, 16) {
			x := rs[i]
			total++
			rep.Stat("stream_" + x.c.stream)
			for _, s := range x.c.stats {
				rep.Stat(s)
			}
			a := part(reply, "A")
			bw, bd := verdictWord(part(reply, "B"))
			ww, wd := verdictWord(part(reply, "W"))
			cw, cd := verdictWord(part(reply, "C"))
			if a == "" || bw == "?" || ww == "?" || cw == "?" {
				rep.Case(reqs[i], false)
				rep.AddDiff(vh.Diff{Component: command + ":reply", Input: input(x.c), Impl: x.real, Model: reply, Note: reqs[i]})
				continue
			}
			rep.Case(reqs[i], bw == "AGREE" || cw == "AGREE")
			for _, s := range x.c.stats {
				if s == "chains_alias_keys" { // the class of C04_models_agree_compiled_keys: verdicts of (C) against (A), and (A)'s code
					rep.Stat("chains_alias_keys_C_" + cw)
					rep.Stat("chains_alias_keys_A_" + strings.Join(strings.Fields(a + " - -")[:2], "_"))
				}
			}
			if strings.HasPrefix(a, "UNSUP fuel") {
				// C04_text_checker_never_out_of_fuel: Compile.checkFuel is enough on every tree and every type table
				rep.Stat("diff_A_fuel")
				rep.AddDiff(vh.Diff{Component: command + ":A-fuel", Input: input(x.c), Impl: "real Check() = " + x.real,
					Model: reply, Note: reqs[i], Level: "correspondence"})
			}
			rep.Stat("A_" + strings.Join(strings.Fields(a + " -")[:1], ""))
			rep.Stat("B_" + bw)
			rep.Stat("W_" + ww)
			rep.Stat("C_" + cw)
			if bw == "OUTSIDE" {
				rep.Stat("B_OUTSIDE_" + bd)
			}
			if cw == "OUTSIDE" {
				rep.Stat("C_OUTSIDE_" + strings.Join(strings.Fields(cd + " -")[:1], ""))
			}
			if ww == "OUTSIDE" {
				rep.Stat("W_OUTSIDE_" + wd)
			}
			if bw == "OUTSIDE" && cw == "OUTSIDE" {
				outside++
				rep.Stat("case_OUTSIDE")
				rep.Stat("case_OUTSIDE_" + x.c.stream)
			}
			// the real library next to (A): not a diff here (that is e2e-text's comparison), a statistic
			if !strings.HasPrefix(a, "UNSUP") {
				if a == x.real {
					rep.Stat("A_equals_real_Check")
				} else {
					rep.Stat("A_differs_from_real_Check")
					if x.c.stream == "chains" {
						// the class of C04_models_agree_compiled against the code: on the chains stream (A) = (C) is a theorem,
						// so a real Check() that differs from (A) contradicts both models
						rep.Stat("diff_chains_real")
						rep.AddDiff(vh.Diff{Component: command + ":chains-real", Input: input(x.c), Impl: "real Check() = " + x.real,
							Model: reply, Note: reqs[i]})
					}
				}
			}
			for _, d := range []struct{ tag, w, detail string }{{"B", bw, bd}, {"W", ww, wd}, {"C", cw, cd}} {
				if d.w == "DISAGREE" {
					rep.Stat("diff_" + d.tag)
					rep.AddDiff(vh.Diff{Component: command + ":" + d.tag, Input: input(x.c), Impl: "real Check() = " + x.real,
						Model: reply, Note: reqs[i], Level: "correspondence"})
				}
			}
		}
	}
	if total > 0 {
		rep.Extra["outside_pct"] = fmt.Sprintf("%.1f", 100*float64(outside)/float64(total))
	}
	rep.Finish()
}
