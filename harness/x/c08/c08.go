// Package c08: property C08 — Check enforces rule applicability and mutual
// consistency, order-independently.
//
// For node contexts {root, object property, array item} x {integer, float,
// string, boolean, null, empty object, object, empty array, array, type
// reference `@t`; the degenerate examples `0`, `0.0`, `""` and `@e` (a reference
// to the empty object type)} and rule sets over the 19 rule names (15 literal-valued rules
// of NewConstraintFromRule + or, enum, allOf + one unknown name) with in-range
// and out-of-range parameters:
//
//	(1) the verdict of Check (nil or not) is the same for every ordering of
//	    the rules inside the annotation            (diff "C08-order")
//	(2) the verdict equals rulesOK(ctx, rules), a predicate written from the
//	    property statement                          (diff "C08-spec")
//	(3) rule names are spelled bare (min), quoted ("min"), quoted with JSON escapes
//	    ("m\u0069n" — the tree unquotes the name, [C23]) or mixed, also inside or rule-sets;
//	    rulesOK does not see the spelling, and every set is re-checked with all names bare
//	    and all names quoted: same verdict               (diff "C08-spelling")
//	    NEAR-MISS names are the opposite: spellings that are NOT the rule (blanks inside
//	    the quotes, other case, a junk / missing / doubled letter, an escaped blank or tab,
//	    an escape in a bare name, the empty name, quotes inside the quotes): the set then
//	    holds an unknown rule and rulesOK rejects it.
//	(4) every case runs under both configurations — default and KeysAreOptionalByDefault()
//	    (all orderings under one of them, alternating; the first and one more ordering
//	    under the other): the option decides what a missing `optional` means, never the
//	    verdict of Check                                   (diff "C08-option")
//	(5) the verdict is a function of the schema text, not of the object's past: the first
//	    ordering is checked again on an object that has seen a short random history of
//	    other calls (UsedUserTypes, AddType of the used / of an unrelated type, Len, GetAST,
//	    Example, Validate, Build, Check; results ignored): the final Check — and every
//	    intermediate Check / Build / GetAST — must give the verdict and error code of a
//	    fresh object's Check                               (diff "C08-history")
//	(6) the rule-sets of `or` members are annotations too: generated `or` values hold an
//	    anchor member of the example's kind plus rule-set members over the companion
//	    matrix (pairs ordered / equal / reversed, exclusive flags with and without bound,
//	    precision with and without decimal, format types with length / regex, any / @t /
//	    enum with foreign rules, unknown, near-miss, duplicated and misplaced rules); the
//	    example matches the anchor, so nothing but the consistency conditions themselves
//	    (memberOK) decides; the rules inside the members are reordered as well.
//	(7) DEGENERATE COMPANIONS: every applicability cell (rule x node kind x position) is generated with the
//	    values that give a rule nothing to do — zero bounds (min / max / minLength / maxLength / minItems /
//	    maxItems / precision: 0), the empty pattern, empty lists (enum: [], or: [], allOf: []), the empty name
//	    (type / additionalProperties / allOf: ""), false flags — on ordinary and on degenerate examples (0, 0.0,
//	    "", {}, []), alone and next to a rule that decides nothing (cellStream). allOf names every shape of a
//	    type (allOfParams): non-empty objects, the empty object `{}` (two spellings), the empty object with a
//	    rule, the object that is empty but inherits, several of them mixed, the same one twice, a scalar, the
//	    empty array, an unknown name, no name — on every node kind at every position. A rule that does not
//	    apply to the kind of the node is rejected however little it would do.
//
// CALIBRATION DECISIONS — where the statement is silent or ambiguous the
// unchanged tree was asked by experiment; every decision is a rule-level
// statement (see rulesOK, each decision is marked [Cn] in the code):
//
//	[C1]  A false-valued `nullable` or `const` is equivalent to the rule being absent
//	      (for companions, applicability and kind checks) — but it still counts
//	      for "appears once".
//	[C2]  `nullable` applies to every node kind (scalars, objects, arrays, references).
//	[C3]  `const` applies to scalar kinds only (not object / array).
//	[C4]  `optional` (true or false) is accepted only on an object property, whatever
//	      else the node is (scalar, container, reference).
//	[C5]  Companions allowed next to `or`: optional, nullable, type: "mixed".
//	      Companions next to `enum`: optional, nullable, const, type: "enum".
//	      Companions next to type: "any": optional, nullable (const: true is rejected,
//	      const: false is absent by [C1]).
//	      Companions next to a type reference ({type: "@t"} rule or `@t` example):
//	      optional, nullable.
//	[C6]  `or` / {type: "@t"} / type: "any" on containers: only an EMPTY object/array may
//	      carry `or` or type "any" (the `or` then without a user type member "@t" / {type: "@t"};
//	      a reference member with a companion, {type: "@t", nullable: true}, is an anonymous
//	      type and passes); no container may carry {type: "@t"}. A `@t`
//	      example node may carry neither `or`, `enum`, nor a `type` rule.
//	[C7]  The example must be admitted by an `or` set: some member has exactly the
//	      example's JSON kind (integer is not admitted by a "float" member) and the
//	      example obeys that member's rules. A {type: "@t"} rule / "@t" member has the
//	      kind of the type's root example.
//	[C8]  A declared scalar/container type must be exactly the example's kind
//	      ("float" on an integer example is rejected). type: "enum" needs an enum rule,
//	      type: "mixed" needs an or rule, type: "decimal" needs precision and a float example.
//	[C9]  `precision` applies to float examples only, with no type rule or with type "decimal"
//	      ("precision only with decimal": a bare precision implies decimal); precision 0 is
//	      not a legal parameter.
//	[C10] Exclusive flags need their bound whatever their value (exclusiveMinimum: false
//	      without min is rejected).
//	[C11] On an empty array example item-count rules are accepted only with value 0.
//	[C12] enum membership is textual equality of the example token with an item.
//	[C13] `enum` applies to scalar kinds only.
//	[C14] String length is counted in bytes of the token between the quotes (the
//	      example string used here is ASCII without escapes, so every reading agrees).
//	[C15] additionalProperties accepts true / false / a JSON type name / the name of a KNOWN user type
//	      (of any kind); not the empty name.
//	[C16] allOf accepts a single type name or a non-empty list of names of known types whose root is an
//	      object; no restriction on companions other than applicability (objects only).
//	[C17] With type: "any" the example's kind is irrelevant.
//	[C18] rules inapplicable to a `null` example stay inapplicable even with
//	      nullable: true.
//	[C19] A `null` example with nullable: true obeys every VALUE-level rule (enum
//	      membership); kind-level requirements (or member kinds, declared type) still apply.
//	[C20] `or` on a `@t` example node is a feature of the tree (MixedValueNode.addOrConstraint):
//	      accepted when every member is a bare JSON type name (no rule-sets, no user
//	      types), companions optional / nullable / type: "mixed"; it widens the
//	      reference, and there is no admission check (the node has no example value).
//	[C21] An enum rule-set member of an `or` ({enum: [...]}, optionally with type: "enum" /
//	      nullable) has no JSON kind: it admits a scalar example iff the example token is one
//	      of its items (or the example is null and the member says nullable: true). It also
//	      admits an EMPTY object/array example — that is the behaviour recorded under C04 as
//	      known finding K-C04-or-container (a member of undetermined JSON type admits any
//	      empty container); C08 follows the tree here and does not re-report it.
//	      Inside a member rule-set enum excludes foreign rules and scalar types as at top level.
//
//	[C22] Rule x kind applicability is not demanded inside an `or` member rule-set (see memberOK).
//	[C23] A rule name is the JSON string between the quotes after unquoting (escapes resolved),
//	      blanks around the quoted or bare name do not count; blanks inside the quotes do. A bare
//	      name is taken literally (no escapes). The same holds for or / enum / allOf and inside members.
//	[C24] What allOf inherits must fit the node: the property names of the node and of all named types are
//	      pairwise different (so a non-empty type named twice is rejected, the empty one is not), and the
//	      additionalProperties rules of the node and of the named types name the same type — true / false /
//	      "any" name none and agree with each other (AdditionalProperties.IsEqual; the statement is silent).
//	[C25] An `or` list has at least two members; a type rule / type reference names a known type ("" and an
//	      unknown `@name` are none); `enum: []` is a legal list that no example is a member of (a null
//	      example with nullable: true obeys it by [C19]; as an `or` member it admits what [C21] says).
//
// KNOWN FINDING recognised structurally: K-C08-ref-type-or — on a `@t` example node
// a user-written `type` rule bypasses the duplicate check: the rules {type: "@t" (the
// node's own reference), or: [bare type names]} are accepted when `type` is written
// before `or` and rejected (501 Duplicate "type") otherwise, and a repeated `type`
// rule ("@t" / "mixed") next to such an `or` is accepted although it appears twice. For a set whose verdict depends on the order only the C08-order diff
// is emitted (the spec comparison needs a well-defined verdict).
package c08

import (
	stderrors "errors"
	"fmt"
	"math/big"
	"math/rand"
	"os"
	"regexp"
	"runtime"
	"runtime/debug"
	"sort"
	"strings"
	"sync"
	"time"

	jlib "github.com/jsightapi/jsight-schema-go-library"
	jsonfmt "github.com/jsightapi/jsight-schema-go-library/formats/json"
	js "github.com/jsightapi/jsight-schema-go-library/notations/jschema"

	"verifharness/vh"
)

// ---------------------------------------------------------------------------
// contexts
// ---------------------------------------------------------------------------

type ctx struct {
	pos string // root | prop | item
	val string // int float str bool null obj0 obj arr0 arr ref
}

var positions = []string{"root", "prop", "item"}
var values = []string{"int", "float", "str", "bool", "null", "obj0", "obj", "arr0", "arr", "ref", "int0", "float0", "str0", "refe"}

// The DEGENERATE examples int0 (`0`), float0 (`0.0`), str0 (`""`) stand next to the ordinary ones the way the
// empty containers obj0 / arr0 stand next to obj / arr: same node kind, but every bound that holds for them is a
// zero bound and every length is zero. refe (`@e`) is the reference to the empty object type next to ref (`@t`, a scalar type).

// refType: the type named by a reference example ("" = the example is no reference).
func refType(v string) string {
	switch v {
	case "ref":
		return "@t"
	case "refe":
		return "@e"
	}
	return ""
}

// strExampleOf: the string example between the quotes. "a@b.cc": 6 bytes, a valid email, not a date.
func strExampleOf(v string) string {
	if v == "str0" {
		return ""
	}
	return "a@b.cc"
}

// fracDigits: the number of fraction digits of the float examples.
func fracDigits(v string) int64 {
	if v == "float0" {
		return 1
	}
	return 2
}

// exampleToken: the example value as written in the schema (one-line values).
func exampleToken(v string) string {
	switch v {
	case "int":
		return "5"
	case "float":
		return "2.25"
	case "str", "str0":
		return `"` + strExampleOf(v) + `"`
	case "int0":
		return "0"
	case "float0":
		return "0.0"
	case "bool":
		return "true"
	case "null":
		return "null"
	case "obj0":
		return "{}"
	case "arr0":
		return "[]"
	case "ref", "refe":
		return refType(v)
	}
	return ""
}

// utype: a user type that a schema may name, and what the specification needs to know about it.
type utype struct {
	name, text string
	kind       string   // the JSON kind of the root of the type
	object     bool     // … it is an object
	keys       []string // its property names
	ap         string   // its additionalProperties rule ("" = none)
}

// addedTypes: the types named by a schema text are attached to it (see check). The table holds every SHAPE of a type
// that allOf / a reference can name: a scalar (@t), a non-empty object (@o, @o2; @ok shares its key with the `obj`
// example), the empty object in two spellings (@e, @e2), the empty object that carries a rule (@er), the empty array
// (@a), the object that is empty in itself but inherits a property (@oz). "@nope" is never added: the unknown type.
var addedTypes = []utype{
	{name: "@t", text: "7", kind: "integer"},
	{name: "@o", text: "{\n  \"z\": 1\n}", kind: "object", object: true, keys: []string{"z"}},
	{name: "@o2", text: "{\n  \"y\": \"s\"\n}", kind: "object", object: true, keys: []string{"y"}},
	{name: "@ok", text: "{\n  \"k\": 2\n}", kind: "object", object: true, keys: []string{"k"}},
	{name: "@e", text: "{}", kind: "object", object: true},
	{name: "@e2", text: "{\n}", kind: "object", object: true},
	{name: "@er", text: "{} // {additionalProperties: true}", kind: "object", object: true, ap: "true"},
	{name: "@a", text: "[]", kind: "array"},
	{name: "@oz", text: "{} // {allOf: \"@o\"}", kind: "object", object: true, keys: []string{"z"}},
}

const unknownType = "@nope"

func typeByName(n string) (utype, bool) {
	for _, t := range addedTypes {
		if t.name == n {
			return t, true
		}
	}
	return utype{}, false
}

// namedTypes: the types of the table whose name occurs in the text (a name that is a prefix of the one written is
// attached too — an unrelated type more, which changes nothing).
func namedTypes(text string) []utype {
	all := text
	for _, t := range addedTypes { // the types named by a named type (the table lists a type after the types it names)
		if strings.Contains(text, t.name) {
			all += " " + t.text
		}
	}
	var out []utype
	for _, t := range addedTypes {
		if strings.Contains(all, t.name) {
			out = append(out, t)
		}
	}
	return out
}

// schemaText prints the schema of context c with annotation ann ("" = none).
func schemaText(c ctx, ann string) string {
	a := ""
	if ann != "" {
		a = " // {" + ann + "}"
	}
	var val string // the value with its annotation, possibly several lines; ind = indentation of continuation lines
	build := func(ind string) string {
		switch c.val {
		case "obj":
			return "{" + a + "\n" + ind + "  \"k\": 1\n" + ind + "}"
		case "arr":
			return "[" + a + "\n" + ind + "  1,\n" + ind + "  2\n" + ind + "]"
		}
		return exampleToken(c.val) + a
	}
	switch c.pos {
	case "root":
		val = build("")
		return val
	case "prop":
		return "{\n  \"p\": " + build("  ") + "\n}"
	default:
		return "[\n  " + build("  ") + "\n]"
	}
}

// ---------------------------------------------------------------------------
// rules and parameters
// ---------------------------------------------------------------------------

type oalt struct {
	typ     string // type name of the member ("integer", "@t", …)
	ruleSet bool   // written as a rule-set {type: …} rather than a bare name
	hasMin  bool
	// an enum rule-set member {enum: [...]}: it has no JSON kind of its own
	enum      bool
	emptyEnum bool // {enum: []}
	items     []string
	nullable  bool  // the member also says nullable: true
	min       int64 // scaled by 100
	// a GENERATED rule-set member (see genOr): its consistency is judged by memberOK; for the
	// admission of the example it is never needed, because a generated `or` always holds an
	// anchor member of exactly the example's kind without further rules.
	opaque     bool
	companions bool // a generated member with more rules than its type rule
}

// member is one member of a generated `or` value: a bare type name or a rule-set.
type member struct {
	bare  string // "integer" … ("" = a rule-set)
	rules []rl
}

type param struct {
	text  string
	qtext string // the same value with the rule names inside rule-sets quoted ("" = same as text)
	num   int64  // min/max scaled by 100; lengths, counts, precision as is
	b     bool
	s     string
	alts  []oalt
	bad   bool // or: a member rule-set is inconsistent in itself (enum next to a foreign rule / a scalar type, or !memberOK)
	items []string
	names []string // allOf: the named types
	list  bool     // allOf: written as a list
	mem   []member // or: generated members (the text is rendered from them, each inner rule with its own spelling)
}

// Spellings of a rule name that ARE the rule (the unchanged tree trims blanks around the
// name, then unquotes it as a JSON string — calibration decision [C23]).
const (
	spBare    = 0 // min
	spQuoted  = 1 // "min"
	spEscOne  = 2 // "m\u0069n": one character written as a JSON \u escape inside the quotes
	spEscAll  = 3 // every character escaped
	nSpelling = 4
)

// Near-miss names: spellings that are NOT the rule (an unknown rule, 601 or a parse error) —
// rl.miss != 0. They are visible to the specification: the rule set then holds an unknown rule.
var missNames = []string{"", "lead_blank_in_quotes", "trail_blank_in_quotes", "both_blanks_in_quotes", "capitalised", "upper_case",
	"lower_case", "trailing_junk", "leading_junk", "empty_name", "escaped_blank_in_quotes", "escape_in_bare_name",
	"truncated", "inner_blank_in_quotes", "tab_in_quotes", "doubled_last_letter", "escaped_tab_in_quotes", "quoted_twice"}

type rl struct {
	name string
	p    param
	sp   int // spelling of the name (spBare …) — a spelling, not part of the rule set
	miss int // near-miss variant of the name (index of missNames, 0 = the real name)
}

const bs = string(rune(92)) // one backslash

func uEsc(c byte) string { return bs + fmt.Sprintf("u%04x", c) }

// missName builds the near-miss variant v of the rule name n; "" if the variant does not
// exist for n (it would be n itself or another rule name).
func missName(n string, v int, quoted bool) string {
	q := func(s string) string { return `"` + s + `"` }
	opt := func(s string) string { // a variant that exists bare and quoted
		if quoted {
			return q(s)
		}
		return s
	}
	var core, out string
	switch missNames[v] {
	case "lead_blank_in_quotes":
		core, out = " "+n, q(" "+n)
	case "trail_blank_in_quotes":
		core, out = n+" ", q(n+" ")
	case "both_blanks_in_quotes":
		core, out = " "+n+" ", q(" "+n+" ")
	case "capitalised":
		core = strings.ToUpper(n[:1]) + n[1:]
		out = opt(core)
	case "upper_case":
		core = strings.ToUpper(n)
		out = opt(core)
	case "lower_case":
		core = strings.ToLower(n)
		out = opt(core)
	case "trailing_junk":
		core = n + "_"
		out = opt(core)
	case "leading_junk":
		core = "x" + n
		out = opt(core)
	case "empty_name":
		core, out = "", q("")
	case "escaped_blank_in_quotes":
		core, out = n+" ", q(n+uEsc(' '))
	case "escape_in_bare_name":
		i := len(n) / 2
		core = n[:i] + uEsc(n[i]) + n[i+1:]
		out = core
	case "truncated":
		core = n[:len(n)-1]
		out = opt(core)
	case "inner_blank_in_quotes":
		i := (len(n) + 1) / 2
		core = n[:i] + " " + n[i:]
		out = q(core)
	case "tab_in_quotes":
		core, out = n+"\t", q(n+"\t")
	case "doubled_last_letter":
		core = n + n[len(n)-1:]
		out = opt(core)
	case "escaped_tab_in_quotes":
		core, out = "\t"+n, q(bs+"t"+n)
	case "quoted_twice":
		core, out = `"`+n+`"`, q(bs+`"`+n+bs+`"`)
	default:
		panic("missName")
	}
	if core == n {
		return ""
	}
	for _, k := range ruleNames {
		if k == core && k != "foo" {
			return ""
		}
	}
	return out
}

// nameText: the rule name as written.
func (r rl) nameText() string {
	if r.miss != 0 {
		if t := missName(r.name, r.miss, r.sp != spBare); t != "" {
			return t
		}
		return `" ` + r.name + `"`
	}
	switch r.sp {
	case spQuoted:
		return `"` + r.name + `"`
	case spEscOne:
		i := len(r.name) / 2
		return `"` + r.name[:i] + uEsc(r.name[i]) + r.name[i+1:] + `"`
	case spEscAll:
		var sb strings.Builder
		for i := 0; i < len(r.name); i++ {
			sb.WriteString(uEsc(r.name[i]))
		}
		return `"` + sb.String() + `"`
	}
	return r.name
}

func (m member) String() string {
	if m.bare != "" {
		return `"` + m.bare + `"`
	}
	return "{" + annotation(m.rules) + "}"
}

// String prints the rule; a quoted rule also quotes the names inside the rule-sets of a fixed `or` value
// (the rules of generated members carry their own spelling).
func (r rl) String() string {
	t := r.p.text
	if r.p.mem != nil {
		parts := make([]string, len(r.p.mem))
		for i, m := range r.p.mem {
			parts[i] = m.String()
		}
		t = "[" + strings.Join(parts, ", ") + "]"
	} else if r.sp != spBare && r.p.qtext != "" {
		t = r.p.qtext
	}
	return r.nameText() + ": " + t
}

// spelled returns the rules with every name bare (q=false) or quoted (q=true), also inside generated members;
// near-miss names keep their spelling (it is what makes them a different name).
func spelled(rs []rl, q bool) []rl {
	out := make([]rl, len(rs))
	for i, r := range rs {
		out[i] = r
		if r.miss == 0 {
			out[i].sp = spBare
			if q {
				out[i].sp = spQuoted
			}
		}
		if r.p.mem != nil {
			ms := make([]member, len(r.p.mem))
			for j, m := range r.p.mem {
				ms[j] = member{bare: m.bare, rules: spelled(m.rules, q)}
			}
			out[i].p.mem = ms
		}
	}
	return out
}

// innerReordered returns the rules with the rules inside every generated member rule-set permuted.
func innerReordered(r *rand.Rand, rs []rl, reverse bool) []rl {
	out := make([]rl, len(rs))
	for i, x := range rs {
		out[i] = x
		if x.p.mem == nil {
			continue
		}
		ms := make([]member, len(x.p.mem))
		for j, m := range x.p.mem {
			n := len(m.rules)
			rr := make([]rl, n)
			if reverse {
				for k := range rr {
					rr[k] = m.rules[n-1-k]
				}
			} else {
				for k, pk := range r.Perm(n) {
					rr[k] = m.rules[pk]
				}
			}
			ms[j] = member{bare: m.bare, rules: rr}
		}
		out[i].p.mem = ms
	}
	return out
}

func hasGeneratedMembers(rs []rl) bool {
	for _, x := range rs {
		for _, m := range x.p.mem {
			if len(m.rules) > 1 {
				return true
			}
		}
	}
	return false
}

var ruleNames = []string{"minLength", "maxLength", "min", "max", "exclusiveMinimum", "exclusiveMaximum", "type", "precision",
	"optional", "minItems", "maxItems", "additionalProperties", "nullable", "regex", "const", "or", "enum", "allOf", "foo"}

func numParam(t string, scaled int64) param { return param{text: t, num: scaled} }
func cntParam(n int) param                  { return param{text: fmt.Sprint(n), num: int64(n)} }
func boolParams() []param {
	return []param{{text: "true", b: true}, {text: "false", b: false}}
}
func strParam(s string) param { return param{text: `"` + s + `"`, s: s} }

// params lists the parameter choices of a rule in context c; in-range choices first.
func params(name string, c ctx) []param {
	switch name {
	case "min": // the zero bound is a choice for every kind of node
		switch c.val {
		case "float":
			return []param{numParam("2", 200), numParam("2.25", 225), numParam("0", 0), numParam("3", 300)}
		case "int0", "float0":
			return []param{numParam("-1", -100), numParam("0", 0), numParam("0.0", 0), numParam("1", 100)}
		}
		return []param{numParam("4", 400), numParam("5", 500), numParam("0", 0), numParam("6", 600)}
	case "max":
		switch c.val {
		case "float":
			return []param{numParam("3", 300), numParam("2.25", 225), numParam("2", 200), numParam("0", 0)}
		case "int0", "float0":
			return []param{numParam("1", 100), numParam("0", 0), numParam("0.0", 0), numParam("-1", -100)}
		}
		return []param{numParam("6", 600), numParam("5", 500), numParam("4", 400), numParam("0", 0)}
	case "exclusiveMinimum", "exclusiveMaximum", "optional", "nullable", "const":
		return boolParams()
	case "minLength":
		if c.val == "str0" {
			return []param{cntParam(0), cntParam(1)}
		}
		return []param{cntParam(0), cntParam(6), cntParam(7)}
	case "maxLength":
		if c.val == "str0" {
			return []param{cntParam(0), cntParam(1)}
		}
		return []param{cntParam(7), cntParam(6), cntParam(5), cntParam(0)}
	case "regex": // "" is the empty pattern: it matches every string
		if c.val == "str0" {
			return []param{strParam(""), strParam(".*"), strParam("^$"), strParam("^a")}
		}
		return []param{strParam("^a"), strParam(".*"), strParam(""), strParam("^z")}
	case "precision":
		if c.val == "float0" {
			return []param{cntParam(1), cntParam(2), cntParam(0)}
		}
		return []param{cntParam(2), cntParam(3), cntParam(1), cntParam(0)}
	case "minItems":
		return []param{cntParam(0), cntParam(2), cntParam(3)}
	case "maxItems":
		return []param{cntParam(3), cntParam(2), cntParam(1), cntParam(0)}
	case "additionalProperties":
		return []param{{text: "true", b: true, s: "true"}, {text: "false", s: "false"}, strParam("string"), strParam("@t"),
			strParam("@e"), strParam(unknownType), strParam("")}
	case "type":
		own := kindName(c.val)
		if rt, ok := typeByName(refType(c.val)); ok {
			own = rt.kind
		}
		out := []param{strParam(own)}
		for _, t := range []string{"integer", "float", "string", "boolean", "null", "object", "array", "any", "decimal", "email", "date", "enum", "mixed", "@t",
			"@e", unknownType, ""} {
			if t != own {
				out = append(out, strParam(t))
			}
		}
		return out
	case "or":
		bad := func(p param) param { p.bad = true; return p }
		mk := func(text string, alts ...oalt) param {
			q := strings.NewReplacer("type:", `"type":`, "min:", `"min":`, "enum:", `"enum":`, "nullable:", `"nullable":`).Replace(text)
			return param{text: text, qtext: q, alts: alts}
		}
		return []param{
			mk(`["integer", "string"]`, oalt{typ: "integer"}, oalt{typ: "string"}),
			mk(`["float", "boolean"]`, oalt{typ: "float"}, oalt{typ: "boolean"}),
			mk(`["null", "object"]`, oalt{typ: "null"}, oalt{typ: "object"}),
			mk(`[{type: "array"}, "string"]`, oalt{typ: "array", ruleSet: true}, oalt{typ: "string"}),
			mk(`[{type: "integer", min: 6}, "string"]`, oalt{typ: "integer", ruleSet: true, hasMin: true, min: 600}, oalt{typ: "string"}),
			mk(`[{min: 5, type: "integer"}, {type: "float", min: 2.25}]`, oalt{typ: "integer", ruleSet: true, hasMin: true, min: 500}, oalt{typ: "float", ruleSet: true, hasMin: true, min: 225}),
			mk(`["@t", "string"]`, oalt{typ: "@t"}, oalt{typ: "string"}),
			mk(`[{type: "@t"}, {type: "boolean"}]`, oalt{typ: "@t", ruleSet: true}, oalt{typ: "boolean", ruleSet: true}),
			// enum rule-set members
			mk(`[{enum: [5, "a@b.cc", null, 2.25]}, "boolean"]`, oalt{ruleSet: true, enum: true, items: []string{"5", `"a@b.cc"`, "null", "2.25"}}, oalt{typ: "boolean"}),
			mk(`[{enum: [6, "x"]}, "string"]`, oalt{ruleSet: true, enum: true, items: []string{"6", `"x"`}}, oalt{typ: "string"}),
			mk(`[{type: "enum", enum: [5, 2.25]}, {type: "null"}]`, oalt{ruleSet: true, enum: true, items: []string{"5", "2.25"}}, oalt{typ: "null", ruleSet: true}),
			mk(`[{enum: [6, true], nullable: true}, "string"]`, oalt{ruleSet: true, enum: true, nullable: true, items: []string{"6", "true"}}, oalt{typ: "string"}),
			bad(mk(`[{enum: [5, true], min: 1}, "string"]`, oalt{ruleSet: true, enum: true, items: []string{"5", "true"}}, oalt{typ: "string"})),
			bad(mk(`[{type: "integer", enum: [5]}, "string"]`, oalt{ruleSet: true, enum: true, items: []string{"5"}}, oalt{typ: "string"})),
			// the degenerate examples and the degenerate lists: one member, no member, a member with an empty enum
			mk(`["integer", "float", "string"]`, oalt{typ: "integer"}, oalt{typ: "float"}, oalt{typ: "string"}),
			mk(`[{type: "integer", min: 0}, {type: "float", min: 0}]`, oalt{typ: "integer", ruleSet: true, hasMin: true, min: 0}, oalt{typ: "float", ruleSet: true, hasMin: true, min: 0}),
			mk(`[{enum: [0, 0.0, ""]}, "boolean"]`, oalt{ruleSet: true, enum: true, items: []string{"0", "0.0", `""`}}, oalt{typ: "boolean"}),
			mk(`[{enum: []}, "boolean"]`, oalt{ruleSet: true, enum: true, emptyEnum: true}, oalt{typ: "boolean"}),
			mk(`["string"]`, oalt{typ: "string"}),
			mk(`[]`),
		}
	case "enum":
		return []param{
			{text: `[5, 2.25, "a@b.cc", true, null, 0, 0.0, ""]`, items: []string{"5", "2.25", `"a@b.cc"`, "true", "null", "0", "0.0", `""`}},
			{text: `[true, "a@b.cc", 5, ""]`, items: []string{"true", `"a@b.cc"`, "5", `""`}},
			{text: `[6, "x", false]`, items: []string{"6", `"x"`, "false"}},
			{text: `[]`},
		}
	case "allOf":
		return allOfParams()
	case "foo":
		return []param{{text: "1"}, {text: "true"}, {text: `"x"`}}
	}
	panic(name)
}

// allOfParams: the value of allOf over every shape of the named types, written as a single name or as a list:
// one parent / several parents; non-empty objects, the empty object, the empty object with a rule, mixed; then the
// values the statement rejects on every node — a parent that is not an object (scalar, empty array), an unknown
// parent, the same non-empty parent twice (its keys collide), no parent at all, the empty name.
// (@ok is in range on the empty object only: its key collides with the key of the `obj` example.)
func allOfParams() []param {
	one := func(n string) param { return param{text: `"` + n + `"`, names: []string{n}} }
	list := func(ns ...string) param {
		q := make([]string, len(ns))
		for i, n := range ns {
			q[i] = `"` + n + `"`
		}
		return param{text: "[" + strings.Join(q, ", ") + "]", names: append([]string{}, ns...), list: true}
	}
	return []param{
		one("@o"), list("@o"), one("@e"), list("@e"), one("@e2"), one("@er"), list("@e", "@e2"), list("@e", "@e"),
		list("@e", "@o"), list("@o2", "@e", "@o"), list("@er", "@e"), list("@o", "@er", "@o2"),
		one("@oz"), list("@e", "@oz"), one("@ok"), list("@e", "@ok"),
		list(), one("@t"), list("@t"), list("@e", "@t"), list("@t", "@e"), one("@a"), list("@e", "@a"),
		one(unknownType), list("@e", unknownType), list(unknownType, "@e"), list("@o", "@o"), list("@o", "@e", "@o"), list("@oz", "@o"), one(""), list("@e", ""),
	}
}

func annotation(rs []rl) string {
	parts := make([]string, len(rs))
	for i, r := range rs {
		parts[i] = r.String()
	}
	return strings.Join(parts, ", ")
}

// ---------------------------------------------------------------------------
// the specification
// ---------------------------------------------------------------------------

func kindName(v string) string {
	return map[string]string{"int": "integer", "float": "float", "str": "string", "bool": "boolean", "null": "null",
		"obj0": "object", "obj": "object", "arr0": "array", "arr": "array", "ref": "mixed", "refe": "mixed",
		"int0": "integer", "float0": "float", "str0": "string"}[v]
}

func exampleNum(v string) (int64, bool) {
	switch v {
	case "int":
		return 500, true
	case "float":
		return 225, true
	case "int0", "float0":
		return 0, true
	}
	return 0, false
}

var formatTypes = map[string]bool{"email": true, "uri": true, "uuid": true, "date": true, "datetime": true}

// formatValid: does the string example satisfy the format? (only the formats used as parameters)
func formatValid(f, example string) bool {
	switch f {
	case "email":
		return regexp.MustCompile(`^[^@\s]+@[^@\s]+\.[^@\s]+$`).MatchString(example)
	case "date":
		_, err := time.Parse("2006-01-02", example)
		return err == nil
	}
	return false
}

// rulesOK is the C08 statement: should Check accept the schema in which the node
// of context c carries the rules rs (in any order)?
func rulesOK(c ctx, rs []rl) bool {
	// every rule is known …
	for _, r := range rs {
		if r.name == "foo" || r.miss != 0 { // a near-miss spelling is another, unknown name
			return false
		}
	}
	// … appears once …
	seen := map[string]bool{}
	for _, r := range rs {
		if seen[r.name] {
			return false
		}
		seen[r.name] = true
	}
	// [C1] false-valued nullable / const are as good as absent
	m := map[string]param{}
	for _, r := range rs {
		if (r.name == "nullable" || r.name == "const") && !r.p.b {
			continue
		}
		m[r.name] = r.p
	}
	has := func(n string) bool { _, ok := m[n]; return ok }
	// only: no rules other than the listed ones
	only := func(names ...string) bool {
		for n := range m {
			ok := false
			for _, a := range names {
				if n == a {
					ok = true
				}
			}
			if !ok {
				return false
			}
		}
		return true
	}
	kind := kindName(c.val)
	container := c.val == "obj0" || c.val == "obj" || c.val == "arr0" || c.val == "arr"
	empty := c.val == "obj0" || c.val == "arr0"
	typ := ""
	if has("type") {
		typ = m["type"].s
		if typ == "" { // the empty name is no type
			return false
		}
	}
	if has("or") && len(m["or"].alts) < 2 { // [C25] a choice has at least two members
		return false
	}

	// optional only on object properties [C4]
	if has("optional") && c.pos != "prop" {
		return false
	}

	// --- enum, or, any and type references are not combined with foreign rules ---
	switch {
	case refType(c.val) != "": // a type reference node [C5][C6]
		if has("or") { // [C20]
			for _, a := range m["or"].alts {
				if a.ruleSet || strings.HasPrefix(a.typ, "@") {
					return false
				}
			}
			return only("or", "optional", "nullable", "type") && (!has("type") || typ == "mixed")
		}
		return only("optional", "nullable")
	case has("or"):
		if !only("or", "optional", "nullable", "type") || (has("type") && typ != "mixed") { // [C5]
			return false
		}
		if container && !empty { // [C6]
			return false
		}
		if m["or"].bad { // enum inside a member rule-set is not combined with foreign rules either
			return false
		}
		if empty { // [C6] no user type member ("@t" or {type: "@t"}) next to an empty container
			for _, a := range m["or"].alts {
				if strings.HasPrefix(a.typ, "@") && !a.companions {
					return false
				}
			}
		}
		for _, a := range m["or"].alts { // [C7]
			if a.opaque { // a generated member: the anchor member decides the admission
				continue
			}
			if a.enum { // [C21]
				switch {
				case empty:
					return true
				case kind == "null" && a.nullable:
					return true
				}
				for _, it := range a.items {
					if it == exampleToken(c.val) {
						return true
					}
				}
				continue
			}
			ak := a.typ
			if ak == "@t" {
				ak = "integer" // kind of the root example of @t
			}
			if ak != kind {
				continue
			}
			if a.hasMin {
				if v, ok := exampleNum(c.val); !ok || v < a.min {
					continue
				}
			}
			return true
		}
		return false
	case has("enum"):
		if !only("enum", "optional", "nullable", "const", "type") || (has("type") && typ != "enum") { // [C5]
			return false
		}
		if container { // [C13]
			return false
		}
		if kind == "null" && has("nullable") { // [C19]
			return true
		}
		for _, it := range m["enum"].items { // [C12]
			if it == exampleToken(c.val) {
				return true
			}
		}
		return false
	case typ == "any":
		if !only("type", "optional", "nullable") { // [C5] (const: true is foreign, const: false is absent)
			return false
		}
		return !container || empty // [C6][C17]
	case strings.HasPrefix(typ, "@"):
		if !only("type", "optional", "nullable") { // [C5]
			return false
		}
		if container { // [C6]
			return false
		}
		t, known := typeByName(typ)
		return known && kind == t.kind // [C7] @t = 7
	case typ == "enum" || typ == "mixed": // [C8] need their rule
		return false
	}

	// --- a plain rule set: applicability to the kind of the node ---
	numeric := kind == "integer" || kind == "float"
	if typ != "" {
		switch {
		case typ == "decimal": // [C8]
			if kind != "float" || !has("precision") {
				return false
			}
		case formatTypes[typ]:
			if kind != "string" || !formatValid(typ, strExampleOf(c.val)) {
				return false
			}
			// format types exclude length / regex rules
			if has("minLength") || has("maxLength") || has("regex") {
				return false
			}
		default: // [C8]
			if typ != kind {
				return false
			}
		}
	}
	for n, p := range m {
		switch n {
		case "min", "max", "exclusiveMinimum", "exclusiveMaximum":
			if !numeric {
				return false
			}
		case "precision": // [C9]
			if kind != "float" || (typ != "" && typ != "decimal") || p.num == 0 {
				return false
			}
		case "minLength", "maxLength", "regex":
			if kind != "string" {
				return false
			}
		case "minItems", "maxItems":
			if kind != "array" {
				return false
			}
			if c.val == "arr0" && p.num != 0 { // [C11]
				return false
			}
		case "additionalProperties":
			if kind != "object" {
				return false
			}
			if !apValueOK(p.s) {
				return false
			}
		case "allOf":
			if kind != "object" {
				return false
			}
			own := ""
			if has("additionalProperties") {
				own = m["additionalProperties"].s
			}
			if !allOfOK(c, p.names, own) {
				return false
			}
		case "const": // [C3]
			if container {
				return false
			}
		case "nullable", "optional", "type": // [C2][C4]
		}
	}
	// exclusive flags have their bound [C10] (the flag itself was not filtered by [C1])
	if has("exclusiveMinimum") && !has("min") {
		return false
	}
	if has("exclusiveMaximum") && !has("max") {
		return false
	}
	// paired bounds are ordered
	if has("min") && has("max") {
		strict := (has("exclusiveMinimum") && m["exclusiveMinimum"].b) || (has("exclusiveMaximum") && m["exclusiveMaximum"].b)
		if m["min"].num > m["max"].num || (strict && m["min"].num == m["max"].num) {
			return false
		}
	}
	if has("minLength") && has("maxLength") && m["minLength"].num > m["maxLength"].num {
		return false
	}
	if has("minItems") && has("maxItems") && m["minItems"].num > m["maxItems"].num {
		return false
	}
	// the example itself obeys its rules
	if v, ok := exampleNum(c.val); ok {
		if has("min") {
			if v < m["min"].num || (has("exclusiveMinimum") && m["exclusiveMinimum"].b && v == m["min"].num) {
				return false
			}
		}
		if has("max") {
			if v > m["max"].num || (has("exclusiveMaximum") && m["exclusiveMaximum"].b && v == m["max"].num) {
				return false
			}
		}
		if has("precision") && kind == "float" && m["precision"].num < fracDigits(c.val) { // 2.25 has two fraction digits, 0.0 one
			return false
		}
	}
	if kind == "string" {
		l := int64(len(strExampleOf(c.val))) // [C14]
		if has("minLength") && l < m["minLength"].num {
			return false
		}
		if has("maxLength") && l > m["maxLength"].num {
			return false
		}
		if has("regex") && !regexp.MustCompile(m["regex"].s).MatchString(strExampleOf(c.val)) {
			return false
		}
	}
	if c.val == "arr" {
		if has("minItems") && 2 < m["minItems"].num {
			return false
		}
		if has("maxItems") && 2 > m["maxItems"].num {
			return false
		}
	}
	return true
}

// apValueOK [C15]: additionalProperties accepts true / false / a JSON type name / the name of a known user type.
func apValueOK(v string) bool {
	if strings.HasPrefix(v, "@") {
		_, ok := typeByName(v)
		return ok
	}
	return v != ""
}

// allOfOK [C16]: allOf on an object node names at least one type, every named type is known and its root is an
// object; [C24] what is inherited must fit: the property names of the node and of all the named types are pairwise
// different (a type named twice collides with itself unless it has no property), and the additionalProperties rules
// of the node (own) and of the named types all name the same type — true, false and "any" name none and agree with
// each other (the reading the unchanged tree satisfies: AdditionalProperties.IsEqual compares the named schema type /
// user type only; the statement is silent about inherited rules).
func allOfOK(c ctx, names []string, own string) bool {
	if len(names) == 0 {
		return false
	}
	keys := map[string]bool{}
	if c.val == "obj" {
		keys["k"] = true
	}
	ap := own
	for _, n := range names {
		t, ok := typeByName(n)
		if !ok || !t.object {
			return false
		}
		for _, k := range t.keys {
			if keys[k] {
				return false
			}
			keys[k] = true
		}
		if t.ap != "" {
			if ap != "" && apClass(ap) != apClass(t.ap) {
				return false
			}
			ap = t.ap
		}
	}
	return true
}

func apClass(v string) string {
	if v == "true" || v == "false" || v == "any" {
		return "*"
	}
	return v
}

// memberOK is the C08 statement for the rule-set of one `or` member: is the set consistent
// in itself? The rule-set describes an alternative, not the annotated node, so nothing here
// depends on the example: every rule is known and appears once, optional is out of place
// (a member is not an object property) [C4], paired bounds are ordered, exclusive flags have
// their bound [C10], precision only with decimal [C9], format types exclude length / regex,
// enum / any / type references are not combined with foreign rules [C5], enum / mixed / decimal
// types have their rule [C8].
// [C22] Rule x kind applicability is NOT demanded inside a member: the statement speaks of "the kind
// of node it annotates" and an or member has no node kind of its own (the reading the unchanged
// tree satisfies: {type: "integer", minLength: 1} is a legal member). Such members are generated
// (stat member_rule_foreign_to_declared_type); all companion conditions stay compared.
func memberOK(rs []rl) bool {
	for _, r := range rs {
		if r.name == "foo" || r.miss != 0 {
			return false
		}
		if r.name == "or" || r.name == "allOf" { // not generated inside members
			return false
		}
	}
	seen := map[string]bool{}
	for _, r := range rs {
		if seen[r.name] {
			return false
		}
		seen[r.name] = true
	}
	if len(rs) == 0 {
		return false
	}
	m := map[string]param{}
	for _, r := range rs {
		if (r.name == "nullable" || r.name == "const") && !r.p.b { // [C1]
			continue
		}
		m[r.name] = r.p
	}
	has := func(n string) bool { _, ok := m[n]; return ok }
	only := func(names ...string) bool {
		for n := range m {
			ok := false
			for _, a := range names {
				if n == a {
					ok = true
				}
			}
			if !ok {
				return false
			}
		}
		return true
	}
	typ := ""
	if has("type") {
		typ = m["type"].s
	}
	if has("optional") { // [C4]
		return false
	}
	switch {
	case has("enum"): // [C5][C21]
		return only("enum", "nullable", "const", "type") && (typ == "" || typ == "enum")
	case typ == "any":
		return only("type", "nullable")
	case strings.HasPrefix(typ, "@"):
		return only("type", "nullable")
	case typ == "enum" || typ == "mixed": // [C8]
		return false
	}
	if typ == "decimal" && !has("precision") { // [C8]
		return false
	}
	if has("precision") && ((typ != "" && typ != "decimal") || m["precision"].num == 0) { // [C9]
		return false
	}
	if formatTypes[typ] && (has("minLength") || has("maxLength") || has("regex")) {
		return false
	}
	if has("exclusiveMinimum") && !has("min") { // [C10]
		return false
	}
	if has("exclusiveMaximum") && !has("max") {
		return false
	}
	if has("min") && has("max") {
		strict := (has("exclusiveMinimum") && m["exclusiveMinimum"].b) || (has("exclusiveMaximum") && m["exclusiveMaximum"].b)
		if m["min"].num > m["max"].num || (strict && m["min"].num == m["max"].num) {
			return false
		}
	}
	if has("minLength") && has("maxLength") && m["minLength"].num > m["maxLength"].num {
		return false
	}
	if has("minItems") && has("maxItems") && m["minItems"].num > m["maxItems"].num {
		return false
	}
	return true
}

// ---------------------------------------------------------------------------
// generated `or` values: an anchor member + rule-set members over the consistency matrix
// ---------------------------------------------------------------------------

func randomSpelling(r *rand.Rand) int {
	switch x := r.Intn(10); {
	case x < 4:
		return spBare
	case x < 8:
		return spQuoted
	case x < 9:
		return spEscOne
	}
	return spEscAll
}

// memberParams: parameter choices of a rule inside a member rule-set (not related to the example):
// ordered / equal / reversed pairs arise from the first / last choices.
func memberParams(name string) []param {
	switch name {
	case "min":
		return []param{numParam("0", 0), numParam("1", 100), numParam("5", 500), numParam("2.5", 250), numParam("10", 1000)}
	case "max":
		return []param{numParam("10", 1000), numParam("5", 500), numParam("2.5", 250), numParam("1", 100), numParam("0", 0)}
	case "exclusiveMinimum", "exclusiveMaximum", "optional", "nullable", "const":
		return boolParams()
	case "minLength":
		return []param{cntParam(0), cntParam(2), cntParam(4)}
	case "maxLength":
		return []param{cntParam(4), cntParam(2), cntParam(0)}
	case "regex":
		return []param{strParam("^a"), strParam(".*"), strParam("")}
	case "precision":
		return []param{cntParam(2), cntParam(1), cntParam(2), cntParam(0)}
	case "minItems":
		return []param{cntParam(0), cntParam(1), cntParam(3)}
	case "maxItems":
		return []param{cntParam(3), cntParam(1), cntParam(0)}
	case "additionalProperties":
		return []param{{text: "true", b: true, s: "true"}, {text: "false", s: "false"}, strParam("string"), strParam("@t")}
	case "enum":
		return []param{
			{text: `[5, 2.25, "a@b.cc", true, null]`, items: []string{"5", "2.25", `"a@b.cc"`, "true", "null"}},
			{text: `[6, "x", false]`, items: []string{"6", `"x"`, "false"}},
			{text: `[]`},
		}
	case "foo":
		return []param{{text: "1"}, {text: "true"}}
	}
	panic(name)
}

var memberTypes = []string{"integer", "integer", "float", "float", "decimal", "string", "string", "email", "date", "boolean", "null",
	"object", "array", "array", "any", "@t", "enum", "mixed", "", "", ""}

// memberPool: the rules applicable to a member of declared type t [C22] (for a member without
// a type rule: one family of rules), plus — marked by the caller as noise — rules that the
// statement forbids next to t for a reason other than the node kind.
func memberPool(r *rand.Rand, t string) []string {
	switch t {
	case "integer", "float":
		return []string{"min", "max", "exclusiveMinimum", "exclusiveMaximum", "nullable", "const"}
	case "decimal":
		return []string{"min", "max", "exclusiveMinimum", "exclusiveMaximum", "precision", "precision", "nullable", "const"}
	case "string":
		return []string{"minLength", "maxLength", "regex", "nullable", "const"}
	case "email", "date":
		return []string{"nullable", "const"}
	case "boolean", "null":
		return []string{"nullable", "const"}
	case "object":
		return []string{"additionalProperties", "nullable"}
	case "array":
		return []string{"minItems", "maxItems", "nullable"}
	case "any", "@t":
		return []string{"nullable"}
	case "enum":
		return []string{"enum", "enum", "nullable", "const"}
	case "mixed":
		return []string{"nullable"}
	}
	switch r.Intn(5) { // no type rule
	case 0:
		return []string{"min", "max", "exclusiveMinimum", "exclusiveMaximum", "nullable"}
	case 1:
		return []string{"minLength", "maxLength", "regex", "nullable"}
	case 2:
		return []string{"minItems", "maxItems", "nullable"}
	case 3:
		return []string{"precision", "min", "max", "nullable"}
	}
	return []string{"enum", "nullable"}
}

// foreignFor: rules that the statement forbids next to the declared type t of a member whatever the kind
// (companion conditions, not applicability).
func foreignFor(t string) []string {
	switch t {
	case "integer", "float":
		return []string{"precision"} // precision only with decimal
	case "email", "date":
		return []string{"minLength", "maxLength", "regex"} // format types exclude length / regex
	case "any", "@t":
		return []string{"min", "minLength", "const", "regex"} // not combined with foreign rules
	case "enum":
		return []string{"min", "regex"}
	}
	return nil
}

func genMember(r *rand.Rand) member {
	t := memberTypes[r.Intn(len(memberTypes))]
	pool := memberPool(r, t)
	k := r.Intn(4)
	if k > len(pool) {
		k = len(pool)
	}
	if t == "" && k == 0 {
		k = 1
	}
	var rs []rl
	if t != "" {
		rs = append(rs, rl{name: "type", p: strParam(t)})
	}
	used := map[string]bool{}
	for _, i := range r.Perm(len(pool)) {
		if len(used) == k {
			break
		}
		n := pool[i]
		if used[n] {
			continue
		}
		used[n] = true
		ps := memberParams(n)
		rs = append(rs, rl{name: n, p: ps[r.Intn(len(ps))]})
	}
	// noise: a rule the statement forbids here
	switch x := r.Intn(20); {
	case x == 0:
		ps := memberParams("foo")
		rs = append(rs, rl{name: "foo", p: ps[r.Intn(len(ps))]})
	case x == 1:
		rs = append(rs, rl{name: "optional", p: boolParams()[r.Intn(2)]})
	case x == 2: // a duplicated rule
		d := rs[r.Intn(len(rs))]
		if d.name != "type" && r.Intn(2) == 0 {
			ps := memberParams(d.name)
			d.p = ps[r.Intn(len(ps))]
		}
		rs = append(rs, d)
	case x == 3: // a near-miss name
		i := r.Intn(len(rs))
		rs[i].miss = 1 + r.Intn(len(missNames)-1)
	case x <= 5: // [C22] a rule of another kind's family: applicability is not demanded inside a member
		all := []string{"min", "max", "exclusiveMinimum", "minLength", "maxLength", "regex", "minItems", "maxItems", "additionalProperties"}
		nm := all[r.Intn(len(all))]
		if !used[nm] && t != "any" && t != "@t" && t != "enum" && t != "mixed" {
			ps := memberParams(nm)
			rs = append(rs, rl{name: nm, p: ps[r.Intn(len(ps))]})
		}
	case x <= 8:
		if f := foreignFor(t); f != nil {
			n := f[r.Intn(len(f))]
			if !used[n] {
				ps := memberParams(n)
				rs = append(rs, rl{name: n, p: ps[r.Intn(len(ps))]})
			}
		}
	}
	r.Shuffle(len(rs), func(i, j int) { rs[i], rs[j] = rs[j], rs[i] })
	for i := range rs {
		rs[i].sp = randomSpelling(r)
	}
	return member{rules: rs}
}

// genOr builds an `or` value for context c: one ANCHOR member of exactly the example's kind
// without further rules (a bare type name or {type: kind}) — it admits the example — and one
// or two generated rule-set members, which the example need not (and mostly does not) match.
// The value is consistent iff every generated member is (memberOK).
func genOr(r *rand.Rand, c ctx) param {
	kind := kindName(c.val)
	if rt, ok := typeByName(refType(c.val)); ok {
		kind = rt.kind
	}
	anchor := member{bare: kind}
	if r.Intn(2) == 0 {
		anchor = member{rules: []rl{{name: "type", p: strParam(kind), sp: randomSpelling(r)}}}
	}
	n := 1
	if r.Intn(4) == 0 {
		n = 2
	}
	ms := make([]member, 0, n+1)
	for i := 0; i < n; i++ {
		ms = append(ms, genMember(r))
	}
	at := r.Intn(len(ms) + 1)
	ms = append(ms[:at], append([]member{anchor}, ms[at:]...)...)
	p := param{mem: ms}
	for i, m := range ms {
		if i == at {
			p.alts = append(p.alts, oalt{typ: kind, ruleSet: m.bare == ""})
			continue
		}
		t := ""
		for _, x := range m.rules {
			if x.name == "type" && x.miss == 0 {
				t = x.p.s
			}
		}
		p.alts = append(p.alts, oalt{typ: t, ruleSet: true, opaque: true, companions: len(m.rules) > 1})
		if !memberOK(m.rules) {
			p.bad = true
		}
	}
	return p
}

// memberCase: a case of the generated-`or` stream: the `or` rule plus (sometimes) its companions.
func memberCase(r *rand.Rand) rcase {
	vals := []string{"int", "float", "str", "bool", "null", "obj0", "arr0", "int0", "float0", "str0"}
	c := ctx{positions[r.Intn(3)], vals[r.Intn(len(vals))]}
	if r.Intn(12) == 0 {
		c.val = values[r.Intn(len(values))]
	}
	rs := []rl{{name: "or", p: genOr(r, c), sp: randomSpelling(r)}}
	switch x := r.Intn(10); {
	case x < 2:
		rs = append(rs, rl{name: "nullable", p: boolParams()[r.Intn(2)], sp: randomSpelling(r)})
	case x < 3:
		rs = append(rs, rl{name: "type", p: strParam("mixed"), sp: randomSpelling(r)})
	case x < 4:
		rs = append(rs, rl{name: "optional", p: boolParams()[r.Intn(2)], sp: randomSpelling(r)})
	}
	r.Shuffle(len(rs), func(i, j int) { rs[i], rs[j] = rs[j], rs[i] })
	return rcase{c, rs}
}

// nearMissStream: for every rule name a rule set that the statement accepts (the rule in a context
// it applies to, with an in-range parameter and the companion it needs) — and the same set with the
// name of that rule replaced by each of its near-miss spellings, bare and quoted where both exist.
func nearMissStream() []rcase {
	one := func(n string, c ctx, i int) rl { return rl{name: n, p: params(n, c)[i]} }
	type base struct {
		c  ctx
		rs []rl
	}
	var bases []base
	for _, pos := range positions {
		ci, cf, cs := ctx{pos, "int"}, ctx{pos, "float"}, ctx{pos, "str"}
		co, ca := ctx{pos, "obj"}, ctx{pos, "arr"}
		bases = append(bases,
			base{cs, []rl{one("minLength", cs, 0)}}, base{cs, []rl{one("maxLength", cs, 0)}}, base{cs, []rl{one("regex", cs, 0)}},
			base{ci, []rl{one("min", ci, 0)}}, base{ci, []rl{one("max", ci, 0)}},
			base{ci, []rl{one("exclusiveMinimum", ci, 0), one("min", ci, 0)}}, base{ci, []rl{one("exclusiveMaximum", ci, 1), one("max", ci, 0)}},
			base{ci, []rl{one("type", ci, 0)}}, base{cf, []rl{one("precision", cf, 0)}},
			base{ca, []rl{one("minItems", ca, 0)}}, base{ca, []rl{one("maxItems", ca, 0), one("minItems", ca, 1)}},
			base{co, []rl{one("additionalProperties", co, 0)}}, base{co, []rl{one("allOf", co, 0)}},
			base{ci, []rl{one("nullable", ci, 0)}}, base{ci, []rl{one("const", ci, 0), one("min", ci, 1)}},
			base{ci, []rl{one("or", ci, 0)}}, base{ci, []rl{one("enum", ci, 0), one("nullable", ci, 0)}},
			base{cs, []rl{one("minLength", cs, 1), one("maxLength", cs, 1)}},
		)
		if pos == "prop" {
			bases = append(bases, base{ci, []rl{one("optional", ci, 0)}}, base{cs, []rl{one("optional", cs, 1), one("regex", cs, 0)}})
		}
	}
	var out []rcase
	for _, b := range bases {
		if !rulesOK(b.c, b.rs) {
			panic("nearMissStream: base set not accepted by the specification: " + annotation(b.rs))
		}
		out = append(out, rcase{b.c, b.rs})
		for v := 1; v < len(missNames); v++ {
			for sp := 0; sp < 2; sp++ {
				t := missName(b.rs[0].name, v, sp == 1)
				if t == "" || (sp == 1 && t == missName(b.rs[0].name, v, false)) {
					continue
				}
				rs := append([]rl{}, b.rs...)
				rs[0].miss, rs[0].sp = v, sp
				out = append(out, rcase{b.c, rs})
			}
		}
		// … and the real name in each of its spellings
		for sp := 1; sp < nSpelling; sp++ {
			rs := append([]rl{}, b.rs...)
			rs[0].sp = sp
			out = append(out, rcase{b.c, rs})
		}
	}
	return out
}

// cellStream: the applicability matrix with a companion. The single-rule stream holds every cell (rule x parameter
// x node kind x position) alone; here every cell stands next to ONE rule that is legal on every node and decides
// nothing — nullable: true / false, const: false, the node's own type, optional on a property — so that the verdict
// of the cell is also observed when the annotation holds something else (both orders). The companions rotate over the
// cells; the cells of allOf (every shape of the named types) get all of them.
func cellStream() []rcase {
	var out []rcase
	k := 0
	for _, pos := range positions {
		for _, v := range values {
			c := ctx{pos, v}
			comps := []rl{
				{name: "nullable", p: boolParams()[0]},
				{name: "nullable", p: boolParams()[1]},
				{name: "const", p: boolParams()[1]},
				{name: "type", p: params("type", c)[0]},
			}
			if pos == "prop" {
				comps = append(comps, rl{name: "optional", p: boolParams()[0]}, rl{name: "optional", p: boolParams()[1]})
			}
			for _, n := range ruleNames {
				for _, pa := range params(n, c) {
					for i, cp := range comps {
						if n != "allOf" && i != k%len(comps) {
							continue
						}
						if cp.name == n {
							continue
						}
						if k%2 == 0 {
							out = append(out, rcase{c, []rl{{name: n, p: pa}, cp}})
						} else {
							out = append(out, rcase{c, []rl{cp, {name: n, p: pa}}})
						}
					}
					k++
				}
			}
		}
	}
	return out
}

// ---------------------------------------------------------------------------
// running the library
// ---------------------------------------------------------------------------

type verdict struct {
	ok      bool
	code    int
	timeout bool
	text    string
}

func verdictOf(err error) verdict {
	if err == nil {
		return verdict{ok: true, text: "OK"}
	}
	var pe jlib.ParsingError
	if stderrors.As(err, &pe) {
		return verdict{code: pe.ErrCode(), text: fmt.Sprintf("ERR %d %s", pe.ErrCode(), pe.Message())}
	}
	return verdict{code: -1, text: "OTHER " + err.Error()}
}

func newSchema(text string, opt bool) *js.Schema {
	if opt {
		return js.New("root", text, js.KeysAreOptionalByDefault())
	}
	return js.New("root", text)
}

// usesTypes: does the schema text refer to one of the added types?
func usesTypes(text string) bool { return len(namedTypes(text)) > 0 }

func withDeadline(f func() verdict) verdict {
	ch := make(chan verdict, 1)
	go func() {
		var v verdict
		defer func() {
			if r := recover(); r != nil {
				v = verdict{code: -2, text: fmt.Sprintf("PANIC %v", r)}
			}
			ch <- v
		}()
		v = f()
	}()
	tm := time.NewTimer(20 * time.Second)
	defer tm.Stop()
	select {
	case v := <-ch:
		return v
	case <-tm.C:
		return verdict{timeout: true, text: "TIMEOUT"}
	}
}

// check: the verdict of Check() on a FRESH schema object created with / without the option
// KeysAreOptionalByDefault. The types of the table that the text names are added first
// (there is no other way to supply them); the verdict is the return value of Check alone.
func check(text string, opt bool) verdict {
	return withDeadline(func() verdict {
		s := newSchema(text, opt)
		for _, t := range namedTypes(text) {
			_ = s.AddType(t.name, js.New(t.name, t.text))
		}
		return verdictOf(s.Check())
	})
}

func jsonDoc(text string) jlib.Document { return jsonfmt.New("doc", text) }

// ---------------------------------------------------------------------------
// call histories
// ---------------------------------------------------------------------------

// The calls that may precede the final Check() on the same object. Their results are ignored
// (as a caller that only collects or logs errors would do), except where noted in checkHistory.
const (
	opUsedUserTypes = iota
	opAddUnrelated  // AddType("@u", …): a type the schema does not refer to
	opAddT          // AddType("@t", …)
	opAddO          // AddType("@o", …)
	opAddNamed      // AddType of every other type of the table that the text names
	opLen
	opGetAST
	opExample
	opCheck
	opValidate
	opBuild
	nOps
)

var opNames = []string{"UsedUserTypes()", `AddType("@u", New("@u", "u" in quotes))`, `AddType("@t", …)`, `AddType("@o", …)`, "AddType(every other TYPE listed above)", "Len()", "GetAST()", "Example()", "Check()",
	`Validate(json "1")`, "Build()"}

// randomHistory: 1-5 calls. Calls that compile the schema (GetAST, Example, Check, Validate, Build) come
// only after the types the text refers to have been added — a type added later cannot be seen by
// a compilation that has already happened, so such a history would legitimately differ.
func randomHistory(r *rand.Rand, text string) []int {
	var pre []int
	if usesTypes(text) || r.Intn(3) == 0 {
		pre = append(pre, opAddT, opAddO, opAddNamed)
	}
	for k := r.Intn(3); k > 0; k-- {
		pre = append(pre, []int{opUsedUserTypes, opAddUnrelated, opLen, opUsedUserTypes, opAddUnrelated}[r.Intn(5)])
	}
	r.Shuffle(len(pre), func(i, j int) { pre[i], pre[j] = pre[j], pre[i] })
	var post []int
	n := r.Intn(3)
	if len(pre) == 0 && n == 0 {
		n = 1
	}
	for k := n; k > 0; k-- {
		post = append(post, []int{opGetAST, opExample, opCheck, opValidate, opBuild, opLen, opUsedUserTypes, opAddUnrelated, opCheck, opUsedUserTypes}[r.Intn(10)])
	}
	return append(pre, post...)
}

func historyText(h []int) string {
	parts := make([]string, len(h))
	for i, o := range h {
		parts[i] = opNames[o]
	}
	return strings.Join(parts, "; ") + "; Check()"
}

// checkHistory runs the history on one object and returns the verdict of the final Check().
// note != "" reports an intermediate result that contradicts the final one: an intermediate
// Check / Build / GetAST on the same object must give the verdict of the final Check.
func checkHistory(text string, opt bool, h []int) (verdict, string) {
	note := ""
	v := withDeadline(func() verdict {
		s := newSchema(text, opt)
		var inter []verdict
		var interOp []int
		for _, o := range h {
			switch o {
			case opUsedUserTypes:
				_, _ = s.UsedUserTypes()
			case opAddUnrelated:
				_ = s.AddType("@u", js.New("@u", `"u"`))
			case opAddT:
				_ = s.AddType(addedTypes[0].name, js.New(addedTypes[0].name, addedTypes[0].text))
			case opAddO:
				_ = s.AddType(addedTypes[1].name, js.New(addedTypes[1].name, addedTypes[1].text))
			case opAddNamed:
				for _, t := range namedTypes(text) {
					if t.name != addedTypes[0].name && t.name != addedTypes[1].name {
						_ = s.AddType(t.name, js.New(t.name, t.text))
					}
				}
			case opLen:
				_, _ = s.Len()
			case opGetAST:
				_, err := s.GetAST()
				inter, interOp = append(inter, verdictOf(err)), append(interOp, o)
			case opExample:
				_, _ = s.Example()
			case opCheck:
				inter, interOp = append(inter, verdictOf(s.Check())), append(interOp, o)
			case opValidate:
				_ = s.Validate(jsonDoc("1"))
			case opBuild:
				inter, interOp = append(inter, verdictOf(s.Build())), append(interOp, o)
			}
		}
		v := verdictOf(s.Check())
		for i, iv := range inter {
			if iv.ok != v.ok || iv.code != v.code {
				note = fmt.Sprintf("intermediate %s returned %s, the final Check() %s", opNames[interOp[i]], iv.text, v.text)
				break
			}
		}
		return v
	})
	return v, note
}

// ---------------------------------------------------------------------------
// case generation
// ---------------------------------------------------------------------------

type rcase struct {
	c  ctx
	rs []rl
}

func relevant(c ctx) []string {
	switch c.val {
	case "int", "int0":
		return []string{"min", "max", "exclusiveMinimum", "exclusiveMaximum", "type", "const", "nullable", "optional", "enum", "or"}
	case "float", "float0":
		return []string{"min", "max", "exclusiveMinimum", "exclusiveMaximum", "type", "precision", "const", "nullable", "optional", "enum", "or"}
	case "str", "str0":
		return []string{"minLength", "maxLength", "regex", "type", "const", "nullable", "optional", "enum", "or"}
	case "bool", "null":
		return []string{"type", "const", "nullable", "optional", "enum", "or"}
	case "obj0", "obj":
		return []string{"type", "additionalProperties", "allOf", "nullable", "optional", "or"}
	case "arr0", "arr":
		return []string{"type", "minItems", "maxItems", "nullable", "optional", "or"}
	}
	return []string{"nullable", "optional", "type", "or"}
}

func pickParam(r *rand.Rand, name string, c ctx, inRange bool) param {
	if name == "or" && r.Intn(2) == 0 {
		return genOr(r, c)
	}
	ps := params(name, c)
	if name == "type" && (inRange || r.Intn(10) < 3) {
		if inRange && r.Intn(4) == 0 {
			return ps[1+r.Intn(len(ps)-1)]
		}
		return ps[0]
	}
	if inRange || r.Intn(10) < 3 {
		return ps[r.Intn((len(ps)+1)/2)] // the in-range half
	}
	return ps[r.Intn(len(ps))]
}

func randomCase(r *rand.Rand, size int, dup bool) rcase {
	c := ctx{positions[r.Intn(3)], values[r.Intn(len(values))]}
	pool := ruleNames
	rel := r.Intn(10) < 7
	if rel {
		// the rules relevant to the node kind; or / enum (which exclude nearly everything else) thinned out
		pool = nil
		for _, n := range relevant(c) {
			if n == "optional" && c.pos != "prop" && r.Intn(4) != 0 {
				continue
			}
			if (n == "or" || n == "enum") && r.Intn(3) != 0 {
				continue
			}
			pool = append(pool, n)
		}
	}
	if size > len(pool) {
		pool = ruleNames
	}
	idx := r.Perm(len(pool))[:size]
	rs := make([]rl, 0, size+1)
	for _, i := range idx {
		rs = append(rs, rl{name: pool[i], p: pickParam(r, pool[i], c, rel && r.Intn(10) < 7)})
	}
	// spelling of the rule names: bare, all quoted, or mixed (bare / quoted / quoted with \u escapes)
	switch r.Intn(5) {
	case 0:
		rs = spelled(rs, true)
	case 1, 2:
		for i := range rs {
			rs[i].sp = randomSpelling(r)
		}
	}
	// a near-miss name: one rule is written with a name that is NOT the rule
	if r.Intn(12) == 0 {
		i := r.Intn(len(rs))
		rs[i].miss = 1 + r.Intn(len(missNames)-1)
		rs[i].sp = r.Intn(2)
	}
	if size >= 3 && r.Intn(8) == 0 {
		// both false-valued booleans that the compiler filters out, next to other rules
		keep := rs[:0]
		for _, x := range rs {
			if x.name != "nullable" && x.name != "const" {
				keep = append(keep, x)
			}
		}
		for len(keep) > size-2 {
			keep = keep[:len(keep)-1]
		}
		rs = append(keep, rl{name: "nullable", p: boolParams()[1]}, rl{name: "const", p: boolParams()[1]})
		r.Shuffle(len(rs), func(i, j int) { rs[i], rs[j] = rs[j], rs[i] })
	}
	if dup {
		d := rs[r.Intn(len(rs))]
		if r.Intn(2) == 0 {
			d.p = pickParam(r, d.name, c, false)
		}
		p := r.Intn(len(rs) + 1)
		rs = append(rs[:p], append([]rl{d}, rs[p:]...)...)
	}
	return rcase{c, rs}
}

func permutations(n int) [][]int {
	var out [][]int
	a := make([]int, n)
	for i := range a {
		a[i] = i
	}
	var rec func(k int)
	rec = func(k int) {
		if k == n {
			out = append(out, append([]int(nil), a...))
			return
		}
		for i := k; i < n; i++ {
			a[k], a[i] = a[i], a[k]
			rec(k + 1)
			a[k], a[i] = a[i], a[k]
		}
	}
	rec(0)
	return out
}

var permCache = map[int][][]int{}

func init() {
	for n := 0; n <= 4; n++ {
		permCache[n] = permutations(n)
	}
}

func permsFor(r *rand.Rand, n int) [][]int {
	if n <= 4 {
		return permCache[n]
	}
	out := [][]int{}
	id := make([]int, n)
	rev := make([]int, n)
	for i := range id {
		id[i] = i
		rev[i] = n - 1 - i
	}
	out = append(out, id, rev)
	for i := 0; i < 22; i++ {
		out = append(out, r.Perm(n))
	}
	return out
}

// knownRefTypeOr: the structure of known finding K-C08-ref-type-or: a `@t` example
// node whose rules are an `or` of bare type names, user-written `type` rules with the
// value "@t" (the node's own reference) or "mixed", and optional / nullable / const: false — with
// either a type: "@t" or a repeated type rule among them. (MixedValueNode.addTypeConstraint
// lets a `type` rule replace the existing one instead of applying the duplicate check.)
func knownRefTypeOr(rc rcase) string {
	own := refType(rc.c.val)
	if own == "" {
		return ""
	}
	hasOr, ownType, nType := false, false, 0
	for _, r := range rc.rs {
		if r.miss != 0 {
			return ""
		}
		switch r.name {
		case "or":
			if hasOr {
				return ""
			}
			for _, a := range r.p.alts {
				if a.ruleSet || strings.HasPrefix(a.typ, "@") {
					return ""
				}
			}
			hasOr = true
		case "type":
			if r.p.s != own && r.p.s != "mixed" {
				return ""
			}
			if r.p.s == own {
				ownType = true
			}
			nType++
		case "nullable", "optional":
		case "const": // const: false is as good as absent [C1]
			if r.p.b {
				return ""
			}
		default:
			return ""
		}
	}
	if hasOr && (ownType || nType >= 2) {
		return "K-C08-ref-type-or"
	}
	return ""
}

// knownStream: a small dedicated stream that exercises K-C08-ref-type-or in every run.
func knownStream() []rcase {
	var out []rcase
	ty := func(s string) rl { return rl{name: "type", p: strParam(s)} }
	seqs := [][]rl{{ty("@t")}, {ty("mixed"), ty("mixed")}, {ty("@t"), ty("@t")}, {ty("@t"), ty("mixed")}}
	k := 0
	for _, pos := range positions {
		c := ctx{pos, "ref"}
		ors := params("or", c)[:3]
		for _, sq := range seqs {
			rs := append([]rl{}, sq...)
			rs = append(rs, rl{name: "or", p: ors[k%3]})
			if k%2 == 1 {
				rs = append(rs, rl{name: "nullable", p: boolParams()[k%4/2]})
			}
			out = append(out, rcase{c, rs})
			k++
		}
	}
	return out
}

type outcome struct {
	group      string
	key        string
	nontrivial bool
	stats      []string
	diffs      []vh.Diff
	fatal      bool
}

func replay(c ctx, text string, opt bool) string {
	var sb strings.Builder
	sb.WriteString("ROOT:\n" + text)
	if opt {
		sb.WriteString("\nOPTION: jschema.KeysAreOptionalByDefault()")
	}
	for _, t := range namedTypes(text) {
		sb.WriteString("\nTYPE " + t.name + " =\n" + t.text)
	}
	sb.WriteString(fmt.Sprintf("\n(context %s/%s)", c.pos, c.val))
	return sb.String()
}

func optText(opt bool) string {
	if opt {
		return "with KeysAreOptionalByDefault"
	}
	return "default options"
}

func evalCase(r *rand.Rand, rc rcase) outcome {
	n := len(rc.rs)
	o := outcome{key: rc.c.pos + "/" + rc.c.val + " {" + annotation(rc.rs) + "}"}
	add := func(s string) { o.stats = append(o.stats, s) }
	{
		var ns []string
		for _, x := range rc.rs {
			ns = append(ns, x.name)
		}
		sort.Strings(ns)
		o.group = rc.c.val + " " + strings.Join(ns, "+")
	}
	o.nontrivial = n >= 2 || hasGeneratedMembers(rc.rs)
	want := rulesOK(rc.c, rc.rs)
	perms := permsFor(r, n)
	// every case runs under both configurations: all orderings under one of them (alternating),
	// the first and one more ordering under the other.
	opt := r.Intn(2) == 0
	add("all_orderings_" + strings.ReplaceAll(optText(opt), " ", "_"))
	timeout := func(comp, text string, op bool) outcome {
		o.diffs = append(o.diffs, vh.Diff{Component: comp, Input: replay(rc.c, text, op), Impl: "TIMEOUT", Model: "Check terminates"})
		o.fatal = true
		return o
	}
	var firstV verdict
	firstText := ""
	codes := map[int]bool{}
	orderDiff := false
	texts := make([]string, 0, len(perms))
	for pi, p := range perms {
		rs := make([]rl, n)
		for i, j := range p {
			rs[i] = rc.rs[j]
		}
		text := schemaText(rc.c, annotation(rs))
		texts = append(texts, text)
		v := check(text, opt)
		if v.timeout {
			return timeout("C08-order", text, opt)
		}
		codes[v.code] = true
		if pi == 0 {
			firstV, firstText = v, text
			continue
		}
		if v.ok != firstV.ok && !orderDiff {
			orderDiff = true
			o.diffs = append(o.diffs, vh.Diff{Component: "C08-order", Class: knownRefTypeOr(rc),
				Input: replay(rc.c, firstText, opt) + "\n--- versus the same rules reordered ---\n" + text,
				Impl:  fmt.Sprintf("first order: %s; reordered: %s", firstV.text, v.text),
				Model: "the verdict of Check is the same for every ordering of the rules"})
		}
	}
	// the orderings of the rules INSIDE the rule-sets of generated or members
	if !orderDiff && hasGeneratedMembers(rc.rs) {
		for k := 0; k < 3; k++ {
			text := schemaText(rc.c, annotation(innerReordered(r, rc.rs, k == 0)))
			if text == firstText {
				continue
			}
			v := check(text, opt)
			if v.timeout {
				return timeout("C08-order", text, opt)
			}
			add("member_orderings_checked")
			if v.ok != firstV.ok {
				orderDiff = true
				o.diffs = append(o.diffs, vh.Diff{Component: "C08-order",
					Input: replay(rc.c, firstText, opt) + "\n--- versus the same rules with the rule-sets of the or members reordered ---\n" + text,
					Impl:  fmt.Sprintf("first order: %s; reordered: %s", firstV.text, v.text),
					Model: "the verdict of Check is the same for every ordering of the rules inside a rule-set"})
				break
			}
		}
	}
	// the other configuration: the option decides what a missing `optional` rule means, never the verdict of Check
	if !orderDiff {
		others := []string{firstText}
		if len(texts) > 1 {
			others = append(others, texts[1+r.Intn(len(texts)-1)])
		}
		for _, text := range others {
			v := check(text, !opt)
			if v.timeout {
				return timeout("C08-option", text, !opt)
			}
			add("other_configuration_checked")
			if v.ok != firstV.ok {
				o.diffs = append(o.diffs, vh.Diff{Component: "C08-option",
					Input: replay(rc.c, text, !opt) + "\n--- versus the same rules (first ordering) created " + optText(opt) + " ---\n" + firstText,
					Impl:  fmt.Sprintf("%s: %s; %s: %s", optText(opt), firstV.text, optText(!opt), v.text),
					Model: "the verdict of Check on a rule set does not depend on the option KeysAreOptionalByDefault"})
				break
			}
		}
	}
	// spelling independence: the same rules in the first order with every name bare / every name quoted
	if !orderDiff {
		for _, q := range []bool{false, true} {
			text := schemaText(rc.c, annotation(spelled(rc.rs, q)))
			if text == firstText {
				continue
			}
			v := check(text, opt)
			if v.timeout {
				return timeout("C08-spelling", text, opt)
			}
			add("spelling_variants_checked")
			if v.ok != firstV.ok {
				o.diffs = append(o.diffs, vh.Diff{Component: "C08-spelling",
					Input: replay(rc.c, firstText, opt) + "\n--- versus the same rules with other spellings of the rule names ---\n" + text,
					Impl:  fmt.Sprintf("as generated: %s; respelled: %s", firstV.text, v.text),
					Model: `the verdict does not depend on whether a rule name is written bare (min), quoted ("min") or quoted with JSON escapes`})
				break
			}
		}
	}
	// call history: the same text on an object that has seen other calls before Check
	if !orderDiff {
		hopt, base := opt, firstV // the configuration of the case (it alternates between the cases)
		h := randomHistory(r, firstText)
		v, note := checkHistory(firstText, hopt, h)
		if v.timeout || base.timeout {
			return timeout("C08-history", firstText, hopt)
		}
		add("histories_checked")
		add(fmt.Sprintf("history_length_%d", len(h)))
		for _, op := range h {
			add("history_op_" + strings.SplitN(opNames[op], "(", 2)[0])
		}
		if v.ok != base.ok || v.code != base.code || note != "" {
			impl := fmt.Sprintf("fresh object: Check() = %s; after the history: Check() = %s", base.text, v.text)
			if note != "" {
				impl += "; " + note
			}
			o.diffs = append(o.diffs, vh.Diff{Component: "C08-history",
				Input: replay(rc.c, firstText, hopt) + "\nCALLS on one object (results ignored): " + historyText(h),
				Impl:  impl,
				Model: "the verdict and error code of Check are a function of the schema text: the same after any history of other calls on the object as on a fresh object"})
		}
	}
	if firstV.ok != want && !orderDiff {
		w := "reject"
		if want {
			w = "accept"
		}
		o.diffs = append(o.diffs, vh.Diff{Component: "C08-spec", Class: knownRefTypeOr(rc), Input: replay(rc.c, firstText, opt), Impl: firstV.text,
			Model: "rulesOK(" + o.key + ") = " + w})
	}
	add("ctx_" + rc.c.pos)
	add("kind_" + rc.c.val)
	add(fmt.Sprintf("size_%d", n))
	add(fmt.Sprintf("perms_%d", len(perms)))
	if firstV.ok {
		add("verdict_accept")
		add("accept_kind_" + rc.c.val)
	} else {
		add("verdict_reject")
		add(fmt.Sprintf("code_%d", firstV.code))
	}
	if len(codes) > 1 {
		add("error_code_differs_across_orderings")
	}
	names := map[string]bool{}
	for _, x := range rc.rs {
		if names[x.name] {
			add("has_duplicate_rule")
		}
		names[x.name] = true
	}
	for nm := range names {
		add("rule_" + nm)
	}
	for _, x := range rc.rs {
		if x.miss != 0 {
			add("near_miss_name_" + missNames[x.miss])
			continue
		}
		switch x.sp {
		case spQuoted:
			add("quoted_rule_" + x.name)
		case spEscOne, spEscAll:
			add("quoted_rule_" + x.name)
			add("escaped_rule_name")
		}
		for _, m := range x.p.mem {
			if m.bare == "" {
				add("generated_or_member")
				add(fmt.Sprintf("generated_or_member_rules_%d", len(m.rules)))
				if memberOK(m.rules) {
					add("generated_or_member_consistent")
				} else {
					add("generated_or_member_inconsistent")
				}
				for _, y := range m.rules {
					add("member_rule_" + y.name)
					if y.miss != 0 {
						add("member_near_miss_name")
					}
				}
			}
		}
	}
	return o
}

const ruleText = "node contexts {root, object property, array item} x {integer, float, string, boolean, null, empty object, object, empty array, array, `@t` reference, and the degenerate examples 0, 0.0, \"\", `@e` = reference to the empty object type} x rule sets over 19 rule names " +
	"(15 literal rules + or + enum + allOf + an unknown name) with 2-31 parameter choices each (in-range, boundary, out-of-range relative to the example; false-valued booleans; ordered/equal/reversed pairs; " +
	"degenerate values: zero bounds, empty pattern, empty lists, empty names; allOf over every shape of the named types: non-empty / empty / empty-with-a-rule / empty-but-inheriting objects, several mixed, one twice, scalar, empty array, unknown, none); " +
	"quick: all single rules x all parameters x all contexts, the same cells next to one rule that decides nothing (nullable, const: false, own type, optional on a property; allOf with all of them), sampled sets of size 2-3 (60% drawn from the rules relevant to the node kind), sampled sets with one duplicated rule; " +
	"thorough: also sizes 4-6 and random larger; every set is checked in ALL orderings (<=4 rules) or 24 sampled orderings; " +
	"rule names spelled bare, quoted, quoted with JSON escapes or mixed, also inside or rule-sets; near-miss names (17 ways to write a name that is not the rule: inner blanks, case, junk/missing/doubled letter, escaped blank/tab, escape in a bare name, empty, quoted twice) " +
	"for every rule name in an otherwise accepted set and on 8% of the sampled sets; generated or values = anchor member of the example's kind + 1-2 rule-set members over the companion matrix (pairs, exclusive flags, precision/decimal, format types, any/@t/enum with foreign rules, unknown/near-miss/duplicated/misplaced rules), member rules reordered too; " +
	"every case under both configurations (default / KeysAreOptionalByDefault) and once more after a random history of 1-6 other API calls on the same object; " +
	"checks: verdict equal across orderings, spellings, configurations and call histories (history: also the error code), and equal to the specification predicate rulesOK (which does not see spelling, option or history); nontrivial = at least 2 rules, or an or value with a multi-rule member (orderings exist)"

// Run is the entry point of `vh c08-rules`.
// ---------------------------------------------------------------------------
// paired bounds on numerals around machine-word boundaries
// ---------------------------------------------------------------------------

// "paired bounds are ordered (min<=max, strictly when either is exclusive)" holds for every numeral the schema language
// can write, whatever its size: bounds and examples from a pool around 2^31, 2^32, 2^53, 2^63, 2^64, 10^19, 10^20, 10^21
// (both signs, with fraction digits), every ordered pair, exclusive flags, at root / as property / as array item / inside
// an or rule-set member; the expectation is exact arithmetic (math/big).
func bigBoundsStream(rep *vh.Report) {
	var pool []string
	pow := func(b, e int64) *big.Int { return new(big.Int).Exp(big.NewInt(b), big.NewInt(e), nil) }
	for _, c := range []*big.Int{pow(2, 31), pow(2, 32), pow(2, 53), pow(2, 63), pow(2, 64), pow(10, 19), pow(10, 20), pow(10, 21), pow(2, 96)} {
		for _, d := range []int64{-2, -1, 0, 1, 5} {
			v := new(big.Int).Add(c, big.NewInt(d))
			pool = append(pool, v.String())
		}
		pool = append(pool, "-"+c.String(), c.String()+".5", new(big.Int).Sub(c, big.NewInt(1)).String()+".25")
	}
	pool = append(pool, "0", "5", "-5")
	val := func(s string) *big.Rat { r, _ := new(big.Rat).SetString(s); return r }
	kindOf := func(s string) string {
		if strings.Contains(s, ".") {
			return "float"
		}
		return "integer"
	}
	r := vh.NewRand(8821)
	n := vh.Pick(2500, 40000)
	for i := 0; i < n; i++ {
		a, b, ex := pool[r.Intn(len(pool))], pool[r.Intn(len(pool))], pool[r.Intn(len(pool))]
		if i%3 == 0 { // example inside [a, b] when possible: the pair ordering alone decides
			ex = a
		}
		exMin, exMax := r.Intn(4) == 0, r.Intn(4) == 0
		rules := []string{"min: " + a, "max: " + b}
		if exMin {
			rules = append(rules, "exclusiveMinimum: true")
		}
		if exMax {
			rules = append(rules, "exclusiveMaximum: true")
		}
		r.Shuffle(len(rules), func(i, j int) { rules[i], rules[j] = rules[j], rules[i] })
		ann := "{" + strings.Join(rules, ", ") + "}"
		va, vb, ve := val(a), val(b), val(ex)
		ordered := va.Cmp(vb) < 0 || (va.Cmp(vb) == 0 && !exMin && !exMax)
		inside := (ve.Cmp(va) > 0 || (ve.Cmp(va) == 0 && !exMin)) && (ve.Cmp(vb) < 0 || (ve.Cmp(vb) == 0 && !exMax))
		var text string
		form := r.Intn(4)
		want := ordered && inside
		switch form {
		case 0:
			text = ex + " // " + ann
		case 1:
			text = "{\n  \"k\": " + ex + " // " + ann + "\n}"
		case 2:
			text = "[\n  " + ex + " // " + ann + "\n]"
		default: // or rule-set member: the example is not matched against the member's bounds, only their order counts
			text = "\"s\" // {or: [{type: \"" + kindOf(a+b) + "\", " + strings.TrimSuffix(strings.TrimPrefix(ann, "{"), "}") + "}, \"string\"]}"
			want = ordered
		}
		got := check(text, false)
		rep.Case("bigbounds:"+text, true)
		rep.Stat("big_bounds")
		if want {
			rep.Stat("big_bounds_accepted")
		}
		if (got.text == "OK") != want {
			rep.AddDiff(vh.Diff{Component: "C08-big-bounds", Input: text, Impl: "Check() = " + got.text,
				Model: fmt.Sprintf("exact arithmetic: bounds ordered = %v, example inside = %v => accept = %v", ordered, inside, want)})
		}
	}
}

func Run(args []string) {
	rep := vh.NewReport("c08-rules", ruleText)
	debug.SetGCPercent(400) // many short-lived schema objects: the collector otherwise takes a quarter of the run
	dump := len(args) > 0 && args[0] == "dump"
	if len(args) > 1 && args[0] == "probe" { // replay by hand: vh c08-rules probe '<schema text>' …
		for _, text := range args[1:] {
			fmt.Printf("%q: %s | with KeysAreOptionalByDefault: %s\n", text, check(text, false).text, check(text, true).text)
		}
		return
	}

	type job struct {
		i  int
		rc *rcase // fixed case, or nil: generate from i
	}
	jobs := make(chan job, 512)
	results := make(chan outcome, 512)
	var wg sync.WaitGroup
	workers := runtime.NumCPU()
	if workers > 16 {
		workers = 16
	}
	thorough := vh.Tier() == "thorough"
	nRandom := vh.Pick(34000, 1000000)
	nDup := vh.Pick(3600, 72000)
	nMember := vh.Pick(9000, 170000)
	gen := func(i int) rcase {
		r := vh.NewRand((8_000_000_011 + int64(i)) * 2000029)
		if i >= nRandom+nDup {
			return memberCase(r)
		}
		if i >= nRandom {
			return randomCase(r, 1+r.Intn(3), true)
		}
		size := 2 + r.Intn(2)
		if thorough {
			switch x := r.Intn(100); {
			case x < 25:
				size = 2
			case x < 55:
				size = 3
			case x < 75:
				size = 4
			case x < 87:
				size = 5
			case x < 95:
				size = 6
			default:
				size = 7 + r.Intn(6)
			}
		}
		return randomCase(r, size, false)
	}
	for w := 0; w < workers; w++ {
		wg.Add(1)
		go func() {
			defer wg.Done()
			for j := range jobs {
				r := vh.NewRand((9_000_000_011 + int64(j.i)) * 2000029)
				if j.rc != nil {
					results <- evalCase(r, *j.rc)
				} else {
					results <- evalCase(r, gen(j.i))
				}
			}
		}()
	}
	go func() {
		// all single rules x all parameters x all contexts, and the bare example
		k := 0
		for _, p := range positions {
			for _, v := range values {
				c := ctx{p, v}
				jobs <- job{-1 - k, &rcase{c, nil}}
				k++
				for _, n := range ruleNames {
					for _, pa := range params(n, c) {
						jobs <- job{-1 - k, &rcase{c, []rl{{name: n, p: pa}}}}
						k++
					}
				}
			}
		}
		for _, rc := range knownStream() {
			rc := rc
			jobs <- job{-1 - k, &rc}
			k++
		}
		for _, rc := range nearMissStream() {
			rc := rc
			jobs <- job{-1 - k, &rc}
			k++
		}
		for _, rc := range cellStream() {
			rc := rc
			jobs <- job{-1 - k, &rc}
			k++
		}
		for i := 0; i < nRandom+nDup+nMember; i++ {
			jobs <- job{i, nil}
		}
		close(jobs)
		wg.Wait()
		close(results)
	}()
	groups := map[string][]string{}
	for o := range results {
		rep.Case(o.key, o.nontrivial)
		for _, s := range o.stats {
			rep.Stat(s)
		}
		for _, d := range o.diffs {
			cl := d.Class
			if cl == "" {
				cl = "UNCLASSIFIED"
			}
			rep.Stat("diff_" + d.Component + "_" + cl)
			rep.AddDiff(d)
			if dump {
				g := d.Component + " | " + d.Impl + " | " + o.group
				groups[g] = append(groups[g], o.key)
			}
		}
		if o.fatal {
			rep.Finish()
			return
		}
	}
	if dump {
		var gs []string
		for g := range groups {
			gs = append(gs, g)
		}
		sort.Slice(gs, func(i, j int) bool { return len(groups[gs[i]]) > len(groups[gs[j]]) })
		for _, g := range gs {
			fmt.Fprintf(os.Stderr, "== %d x %s\n", len(groups[g]), g)
			ks := groups[g]
			sort.Strings(ks)
			for i, k := range ks {
				if i >= 4 {
					break
				}
				fmt.Fprintf(os.Stderr, "     %s\n", k)
			}
		}
	}
	bigBoundsStream(rep)
	rep.Finish()
}
