// Package c18routes: harness command `c18-routes` — tie of the Lean model `EnumRoute` (lean/JSight/EnumRoute.lean,
// theorems C18_named_eq_inline, C18_enum_comments_ignored, C18_enum_exponents in lean/JSight/Props/C18.lean) with the
// real code on BOTH routes by which an `enum` constraint gets its items:
//
//	route A (named):  rule := enum.New("@E", <rule text>); schema := jschema.New("named", "<EX> // {enum: @E}");
//	                  schema.AddRule("@E", rule); schema.Check(); schema.Validate(probe)
//	route B (inline): schema := jschema.New("inline", "<EX> // {enum: [ … ]}") (one-line or /* */ annotation);
//	                  Check(); GetAST() (the rule's items); Validate(probe)
//
// Driver requests (lean/Driver/C18R.lean): `c18r V <rule>` (what rule.Values() lists, or the error of rule.Check())
// and `c18r R <rule | -> <schema> <probe>*` (items of the node's enum constraint, rule name, membership of the
// example, one verdict per probe — or `ERR A|S code index`).
//
// Compared per case (Level "correspondence" unless stated):
//
//	values        rule.Check() error (code, index) / rule.Values() (type, raw value, comment — comment entries included)
//	              == `c18r V`
//	named         AddRule error (code, index) / Check error of the named schema (code, index for loader errors;
//	              example not a member: rejected) / AST rule = reference "@E" / probe verdicts == `c18r R rule named …`
//	inline        Check error / AST items (token type, decoded value, comment) / probe verdicts == `c18r R - inline …`
//	routes        (Level "property") when the item texts are the same on both routes: both rejected or both accepted,
//	              and then every probe document gets the same verdict from both — and from the model.
//
// Generators: item lists of 0–6 tokens — strings from a pool of texts that look like other kinds ("1", "true", "1e5",
// "a.b", "", "[1]" …) spelled with random escape forms, numbers in odd spellings (-0, 1.0, 1.50, 1e2, 1E+2, 0e1, 1.5e3,
// leading zeros, a bare dot), true / false / null, rarely a non-literal (@E, [1], {}, tru); planted duplicates: exact,
// same value in another spelling, same text of another kind ("1" / 1), same number in another spelling (1.0 / 1.00).
// Rule text layout: blanks (space, tab, LF, CR, CRLF) and `// …` / `/* … */` comments at every place the grammar has
// layout (also before `[`, where the scanner rejects them, and a trailing comment with or without a final line break).
// Inline layout: blanks; inside a /* */ annotation also line breaks and `// …` comments between items, in 1 of 12 cases
// also BEFORE the first item (fix F-32: before it the sub-loader indexed an empty item slice and Check() leaked a
// runtime error; the form is part of the named-vs-inline comparison, the old tree is reported by it).
// A separate malformed stream applies 1–3 byte edits to the rule text and to the inline annotation.
// nontrivial = at least two items, or a comment, or an exponent, or a duplicate.
//
// Known-finding classes met here: K-C10-enumtext is part of the model (numbers are compared by source text), so no
// diff arises from it; K-C10-zeroexp (`0e1` as a probe document is not recognised as a number): such probes are not
// generated as documents (they are generated as ITEMS, where every exponent is a scanner error on both routes).
package c18routes

import (
	stderrors "errors"
	"fmt"
	"math/rand"
	"os"
	"strings"
	"sync"
	"time"

	jlib "github.com/jsightapi/jsight-schema-go-library"
	jdoc "github.com/jsightapi/jsight-schema-go-library/formats/json"
	"github.com/jsightapi/jsight-schema-go-library/notations/jschema"
	"github.com/jsightapi/jsight-schema-go-library/rules/enum"

	"verifharness/vh"
)

// ---------------------------------------------------------------------------------------------------------------
// real side, in the model's vocabulary

func errStr(err error) string {
	var pe jlib.ParsingError
	if stderrors.As(err, &pe) {
		return fmt.Sprintf("%d %d", pe.ErrCode(), pe.Position())
	}
	return "BARE " + err.Error()
}

func hexOrDash(b []byte) string {
	if len(b) == 0 {
		return "-"
	}
	return vh.Hex(b)
}

// realValues: `c18r V`.
func realValues(rule string) string {
	return vh.Recover(func() string {
		e := enum.New("@E", rule)
		if err := e.Check(); err != nil {
			return "ERR " + errStr(err)
		}
		vv, err := e.Values()
		if err != nil {
			return "ERR(Values) " + errStr(err)
		}
		var sb strings.Builder
		sb.WriteString("VALUES")
		for _, v := range vv {
			val := "-"
			if v.Value != nil {
				val = hexOrDash(v.Value)
			}
			sb.WriteString(" " + string(v.Type) + ":" + val + ":" + hexOrDash([]byte(v.Comment)))
		}
		return sb.String()
	})
}

type routeOut struct {
	err    string // "ERR A code idx" / "ERR S code idx" / "" when Check succeeded
	items  string // inline: AST items "tokenType:hexvalue:hexcomment,…"; named: "@" + rule name of the AST reference
	bits   string // one verdict per probe
	panick string
}

func tokenTypeOfKind(k string) string {
	switch k {
	case "integer", "float":
		return "number"
	}
	return k
}

// realRoute: `c18r R`. rule == nil: inline.
func realRoute(rule *string, schema string, probes []string) (o routeOut) {
	o.panick = vh.Recover(func() string {
		name := "inline"
		if rule != nil {
			name = "named"
		}
		s := jschema.New(name, schema)
		if rule != nil {
			e := enum.New("@E", *rule)
			if err := s.AddRule("@E", e); err != nil {
				o.err = "ERR A " + errStr(err)
				return ""
			}
		}
		if err := s.Check(); err != nil {
			o.err = "ERR S " + errStr(err)
			return ""
		}
		a, err := s.GetAST()
		if err != nil {
			o.err = "ERR(GetAST) " + errStr(err)
			return ""
		}
		if a.Rules != nil {
			if r, ok := a.Rules.Get("enum"); ok {
				if r.TokenType == jlib.TokenTypeShortcut {
					o.items = "@" + r.Value
				} else {
					var parts []string
					for _, it := range r.Items {
						parts = append(parts, it.TokenType+":"+hexOrDash([]byte(it.Value))+":"+hexOrDash([]byte(it.Comment)))
					}
					o.items = strings.Join(parts, ",")
					if len(parts) == 0 {
						o.items = "-"
					}
				}
			}
		}
		var sb strings.Builder
		for _, p := range probes {
			if s.Validate(jdoc.New("doc", p)) == nil {
				sb.WriteByte('1')
			} else {
				sb.WriteByte('0')
			}
		}
		o.bits = sb.String()
		return ""
	})
	return
}

// ---------------------------------------------------------------------------------------------------------------
// model replies

type modelOut struct {
	raw   string
	err   string // "ERR A …" / "ERR S …" / "NOENUM" / ""
	items string // kind:hexvalue:hexcomment,…
	rule  string
	ex    string
	bits  string
}

func parseModel(s string) modelOut {
	m := modelOut{raw: s}
	f := strings.Fields(s)
	if len(f) >= 1 && f[0] == "ITEMS" && len(f) >= 6 {
		m.items, m.rule, m.ex = f[1], f[3], f[5]
		if len(f) >= 8 {
			m.bits = f[7]
		}
		return m
	}
	m.err = s
	return m
}

// modelItemsAsAST: the model's items in the vocabulary of the AST (token type instead of the JSON type).
func modelItemsAsAST(items string) string {
	if items == "-" {
		return "-"
	}
	var out []string
	for _, it := range strings.Split(items, ",") {
		p := strings.SplitN(it, ":", 3)
		out = append(out, tokenTypeOfKind(p[0])+":"+p[1]+":"+p[2])
	}
	return strings.Join(out, ",")
}

// ---------------------------------------------------------------------------------------------------------------
// generators

type item struct {
	raw   string
	kind  string // string integer float boolean null | exp (number with an exponent) | bad (not a literal of the rule grammar)
	dec   string
	ident string // membership identity: kind class + decoded text
}

func mk(raw, kind, dec string) item {
	id := "L" + dec
	if kind == "string" {
		id = "S" + dec
	}
	return item{raw: raw, kind: kind, dec: dec, ident: id}
}

var strPool = []string{"a", "A", "ab", "", " ", "1", "true", "null", "a.b", "1.5", "v1.2", "-0", "1e5", "false", "{", "[", ".", "e", "0.0", "1.",
	".5", "-1.50", "1E+2", "{}", "[1]", "x.", "3.14", "é", "😀", "a\"b", "a\\b", "a/b", "x\ny", "\t", "red", "//", "/* c */", "a,b", "]", "@E", "0", "1.0", "100", "1e2"}

var intPool = []string{"0", "1", "-1", "7", "42", "-0", "100", "10", "12345678901234567890", "-100"}
var floatPool = []string{"1.0", "1.5", "-2.25", "0.5", "1.50", "0.0", "100.001", "-0.0", "1.00", "10.0", "100.0", "0.10"}
var expPool = []string{"1e2", "1E2", "1e+2", "1.5e3", "1e-2", "1.0e0", "0e1", "-1e2", "1E+2", "100e-2", "1.0E1", "0.1e1"}
var badPool = []string{"@E", "[1]", "{}", "tru", "nul", "TRUE", "01", "1.", ".5", "+1", "- 1", "'a'", "a", "\"a", "1 2", "", "-", "\"\\x\"", "\"\\u12\"", "\"a\nb\""}

func pick(r *rand.Rand, alt bool, a, b string) string {
	if alt {
		return b
	}
	return a
}

// encodeJSONString: a JSON string literal for s, every character in a random admissible form.
func encodeJSONString(r *rand.Rand, s string, fancy bool) string {
	var sb strings.Builder
	sb.WriteByte('"')
	for _, c := range s {
		alt := fancy && r.Intn(4) == 0
		switch {
		case c == '"':
			sb.WriteString(pick(r, alt, `\"`, `\u0022`))
		case c == '\\':
			sb.WriteString(pick(r, alt, `\\`, `\u005c`))
		case c == '/':
			sb.WriteString(pick(r, alt, `/`, `\/`))
		case c == '\n':
			sb.WriteString(pick(r, alt, `\n`, `\u000a`))
		case c == '\t':
			sb.WriteString(pick(r, alt, `\t`, `\u0009`))
		case c == '\r':
			sb.WriteString(pick(r, alt, `\r`, `\u000D`))
		case c < 0x20:
			sb.WriteString(fmt.Sprintf(`\u%04x`, c))
		case alt && c < 0x10000:
			sb.WriteString(fmt.Sprintf(`\u%04X`, c))
		default:
			sb.WriteRune(c)
		}
	}
	sb.WriteByte('"')
	return sb.String()
}

func genItem(r *rand.Rand) item {
	switch r.Intn(20) {
	case 0, 1, 2, 3, 4, 5:
		s := strPool[r.Intn(len(strPool))]
		return mk(encodeJSONString(r, s, true), "string", s)
	case 6, 7, 8, 9:
		s := intPool[r.Intn(len(intPool))]
		return mk(s, "integer", s)
	case 10, 11, 12, 13:
		s := floatPool[r.Intn(len(floatPool))]
		return mk(s, "float", s)
	case 14, 15:
		s := []string{"true", "false"}[r.Intn(2)]
		return mk(s, "boolean", s)
	case 16:
		return mk("null", "null", "null")
	case 17, 18:
		s := expPool[r.Intn(len(expPool))]
		return mk(s, "exp", s)
	}
	s := badPool[r.Intn(len(badPool))]
	return mk(s, "bad", s)
}

// twinOf: an item that collides with / nearly collides with prev.
func twinOf(r *rand.Rand, prev item) item {
	switch r.Intn(5) {
	case 0: // exact duplicate
		return prev
	case 1: // same value, other spelling
		if prev.kind == "string" {
			return mk(encodeJSONString(r, prev.dec, true), "string", prev.dec)
		}
		return prev
	case 2: // same text, other kind
		if prev.kind == "string" {
			switch {
			case isPlainNumber(prev.dec) && strings.Contains(prev.dec, "."):
				return mk(prev.dec, "float", prev.dec)
			case isPlainNumber(prev.dec):
				return mk(prev.dec, "integer", prev.dec)
			case prev.dec == "true" || prev.dec == "false":
				return mk(prev.dec, "boolean", prev.dec)
			case prev.dec == "null":
				return mk("null", "null", "null")
			}
			return mk(encodeJSONString(r, prev.dec+"!", false), "string", prev.dec+"!")
		}
		return mk(encodeJSONString(r, prev.raw, r.Intn(3) == 0), "string", prev.raw)
	case 3: // same number, other spelling (another text: not a duplicate for the code)
		switch prev.kind {
		case "integer":
			return mk(prev.raw+".0", "float", prev.raw+".0")
		case "float":
			return mk(prev.raw+"0", "float", prev.raw+"0")
		}
		return prev
	}
	if prev.kind == "integer" || prev.kind == "float" { // the number with an exponent: a scanner error on both routes
		return mk(prev.raw+"e0", "exp", prev.raw+"e0")
	}
	return genItem(r)
}

func isPlainNumber(s string) bool {
	if s == "" {
		return false
	}
	t := strings.TrimPrefix(s, "-")
	if t == "" || t[0] < '0' || t[0] > '9' {
		return false
	}
	if len(t) > 1 && t[0] == '0' && t[1] != '.' {
		return false
	}
	dot := false
	for i, c := range t {
		switch {
		case c >= '0' && c <= '9':
		case c == '.' && !dot && i > 0 && i < len(t)-1:
			dot = true
		default:
			return false
		}
	}
	return true
}

var commentWords = []string{"the", "first", "value", "1", "x,y", "]", "[", "\"q\"", "é", "// again", "/ *", "a - b", "{enum}", "@E", "*", "#", "**", "* /", "\"", "'", "\\"}

func commentText(r *rand.Rand, multi bool) string {
	n := r.Intn(4)
	var w []string
	for i := 0; i < n; i++ {
		w = append(w, commentWords[r.Intn(len(commentWords))])
	}
	s := strings.Join(w, " ")
	if multi && r.Intn(3) == 0 {
		s = strings.Replace(s, " ", "\n  ", 1)
	}
	return s
}

type layout struct {
	r        *rand.Rand
	sb       strings.Builder
	comments int
	lineOnly bool // only spaces and tabs (one-line annotation)
	noCmt    bool
}

func (l *layout) ws() {
	if l.lineOnly {
		l.sb.WriteString([]string{"", "", " ", "  ", "\t"}[l.r.Intn(5)])
		return
	}
	switch l.r.Intn(9) {
	case 0, 1, 2:
	case 3:
		l.sb.WriteByte(' ')
	case 4:
		l.sb.WriteString("\n")
	case 5:
		l.sb.WriteString("\n\t")
	case 6:
		l.sb.WriteString("  ")
	case 7:
		l.sb.WriteString("\r\n ")
	case 8:
		l.sb.WriteString("\r")
	}
}

// lay: blanks and 0..2 comments.
func (l *layout) lay() {
	l.ws()
	if l.noCmt || l.lineOnly {
		return
	}
	for k := 0; k < 2; k++ {
		switch l.r.Intn(9) {
		case 0:
			l.comments++
			l.sb.WriteString("//" + []string{"", " ", "  ", "\t"}[l.r.Intn(4)] + commentText(l.r, false) + []string{"", " "}[l.r.Intn(2)] + []string{"\n", "\n", "\r", "\r\n"}[l.r.Intn(4)])
			l.ws()
		case 1:
			l.comments++
			l.sb.WriteString("/*" + []string{"", " ", "\n ", "\r\n\t"}[l.r.Intn(4)] + commentText(l.r, true) + []string{"", " ", "\n"}[l.r.Intn(3)] + "*/")
			l.ws()
		default:
			return
		}
	}
}

// ruleText: the named rule's text.
func ruleText(r *rand.Rand, items []item) (text string, comments int, commentBeforeBracket bool) {
	l := &layout{r: r}
	switch r.Intn(12) {
	case 0:
		l.lay() // a comment before `[` is not layout of the rule grammar: the scanner answers 1600
		commentBeforeBracket = l.comments > 0
	default:
		l.ws()
	}
	l.sb.WriteByte('[')
	l.lay()
	for i, it := range items {
		l.sb.WriteString(it.raw)
		l.lay()
		if i < len(items)-1 {
			l.sb.WriteByte(',')
			l.lay()
		}
	}
	l.sb.WriteByte(']')
	l.lay()
	switch r.Intn(8) {
	case 0: // trailing comment without a final line break
		l.comments++
		l.sb.WriteString("//" + []string{"", " "}[r.Intn(2)] + commentText(r, false))
	case 1:
		l.comments++
		l.sb.WriteString("/* " + commentText(r, true)) // unterminated
	}
	return l.sb.String(), l.comments, commentBeforeBracket
}

// inlineSchema: `<EX> // {enum: [ … ]}` or the multi-line form.
func inlineSchema(r *rand.Rand, example string, items []item, leading bool) (string, int) {
	multi := leading || r.Intn(3) == 0
	l := &layout{r: r, lineOnly: !multi, noCmt: true}
	l.sb.WriteString(example)
	l.sb.WriteString([]string{" ", "  ", "\t"}[r.Intn(3)])
	if multi {
		l.sb.WriteString("/*")
	} else {
		l.sb.WriteString("//")
	}
	l.ws()
	l.sb.WriteByte('{')
	l.ws()
	l.sb.WriteString([]string{"enum", "\"enum\""}[r.Intn(2)])
	l.sb.WriteString([]string{"", " "}[r.Intn(2)] + ":")
	l.ws()
	l.sb.WriteByte('[')
	cm := 0
	afterItem := false
	inner := func() {
		l.ws()
		if multi && ((afterItem && r.Intn(6) == 0) || (leading && !afterItem)) {
			cm++
			ct := commentText(r, false)
			for strings.HasPrefix(ct, "{") { // `// {…` is a rule object for the schema scanner, not a comment
				ct = commentText(r, false)
			}
			l.sb.WriteString("//" + []string{"", " "}[r.Intn(2)] + ct + "\n")
			l.ws()
		}
	}
	inner()
	for i, it := range items {
		l.sb.WriteString(it.raw)
		afterItem = true
		inner()
		if i < len(items)-1 {
			l.sb.WriteByte(',')
			inner()
		}
	}
	l.sb.WriteByte(']')
	l.ws()
	l.sb.WriteByte('}')
	l.ws()
	if multi {
		l.sb.WriteString("*/")
	}
	return l.sb.String(), cm
}

func probesFor(r *rand.Rand, items []item) []string {
	var ps []string
	for _, it := range items {
		if it.kind == "bad" {
			continue
		}
		if it.kind != "exp" || !strings.HasPrefix(strings.TrimPrefix(it.raw, "-"), "0e") {
			ps = append(ps, it.raw)
		}
		switch it.kind {
		case "string":
			ps = append(ps, encodeJSONString(r, it.dec, true))
			if isPlainNumber(it.dec) || it.dec == "true" || it.dec == "false" || it.dec == "null" {
				ps = append(ps, it.dec)
			}
			ps = append(ps, encodeJSONString(r, it.dec+"x", false))
		case "integer":
			ps = append(ps, it.raw+".0", encodeJSONString(r, it.raw, false))
			if !strings.HasPrefix(strings.TrimPrefix(it.raw, "-"), "0") {
				ps = append(ps, it.raw+"e0", it.raw+"E+0", it.raw+"0e-1")
			}
		case "float":
			ps = append(ps, it.raw+"0", strings.TrimSuffix(strings.TrimSuffix(it.raw, "0"), "."), encodeJSONString(r, it.raw, false))
			if !strings.HasPrefix(strings.TrimPrefix(it.raw, "-"), "0") {
				ps = append(ps, it.raw+"e0")
			}
		default:
			ps = append(ps, encodeJSONString(r, it.raw, false))
		}
	}
	ps = append(ps, "true", "false", "null", `""`, `"zzz"`, "0", "1", "{}", "[]", "[1]", `{"a": 1}`, " 1 ", "\n\"a\"\t")
	seen := map[string]bool{}
	var out []string
	for _, p := range ps {
		if !seen[p] && validJSONDoc(p) {
			seen[p] = true
			out = append(out, p)
		}
	}
	r.Shuffle(len(out), func(i, j int) { out[i], out[j] = out[j], out[i] })
	if len(out) > 16 {
		out = out[:16]
	}
	return out
}

// validJSONDoc: the probe is a JSON text the library's document scanner accepts (checked with the library itself).
func validJSONDoc(p string) bool {
	ok := false
	vh.Recover(func() string {
		ok = jdoc.New("doc", p).Check() == nil
		return ""
	})
	if !ok {
		return false
	}
	t := strings.TrimSpace(p)
	t = strings.TrimPrefix(t, "-")
	// K-C10-zeroexp: integer part 0 directly followed by an exponent is not recognised as a number
	return !(strings.HasPrefix(t, "0e") || strings.HasPrefix(t, "0E"))
}

// ---------------------------------------------------------------------------------------------------------------

type caseT struct {
	rule, named, inline string
	probes              []string
	sameTexts           bool // the inline list holds the same item texts as the rule text (property-level comparison applies)
	nontrivial          bool
	mutated             bool // malformed stream
}

type result struct {
	values string
	named  routeOut
	inl    routeOut
}

var alphabet = []byte("[],\"\\/* \n\r\t1a0etrufalsn.-+eE@{}:")

func hexs(ps []string) string {
	var sb strings.Builder
	for _, p := range ps {
		sb.WriteString(" " + vh.Hex([]byte(p)))
	}
	return sb.String()
}

func Run(args []string) {
	if len(args) >= 1 && args[0] == "probe" {
		probe(args[1:])
		return
	}
	rep := vh.NewReport("c18-routes", "enum item lists (0-6 tokens: look-alike strings with random escapes, numbers in odd spellings incl. exponents, "+
		"true/false/null, rare non-literals; planted duplicates: exact / other spelling / same text of another kind / same number other spelling) as a NAMED rule "+
		"text (blanks incl. CR, CRLF; // and /* */ comments at every layout place, before '[', trailing with and without final line break, unterminated) and INLINE "+
		"(one-line or /* */ annotation, there also // comments between items); per case: rule.Values()/Check() vs `c18r V`; named and inline schema: AddRule / Check "+
		"error (code, index), AST items, <=16 probe documents (members, re-spellings, twins of another kind, exponent spellings, containers, blanks around) vs "+
		"`c18r R`; the two routes against each other (Level property). A malformed stream applies 1-3 byte edits to the rule text and to the inline schema. "+
		"nontrivial = >= 2 items, or a comment, or an exponent, or a duplicate")
	r := vh.NewRand(18018)
	batches := vh.Pick(3, 60)
	n := 15000   // per batch
	nMal := 7500 // per batch
	for b := 0; b < batches; b++ {
		var cases []caseT
		for i := 0; i < n; i++ {
			cnt := r.Intn(7)
			if r.Intn(3) > 0 && cnt == 0 {
				cnt = 1 + r.Intn(4)
			}
			var items []item
			for len(items) < cnt {
				it := genItem(r)
				if len(items) > 0 && r.Intn(5) == 0 {
					it = twinOf(r, items[r.Intn(len(items))])
				}
				items = append(items, it)
			}
			dup, hasExp, hasBad := false, false, false
			seen := map[string]bool{}
			for _, it := range items {
				dup = dup || seen[it.ident]
				seen[it.ident] = true
				hasExp = hasExp || it.kind == "exp"
				hasBad = hasBad || it.kind == "bad"
			}
			example := `"no such value"`
			if len(items) > 0 && r.Intn(8) != 0 {
				example = items[r.Intn(len(items))].raw
				if k := items[0].kind; (k == "bad" || k == "exp") && r.Intn(2) == 0 {
					example = "1"
				}
			}
			if strings.TrimSpace(example) == "" {
				example = "1"
			}
			rt, nc, cbb := ruleText(r, items)
			// a `// …` comment BEFORE the first item of an inline list (fix F-32: before it, the sub-loader indexed an empty
			// item slice and Check() leaked "runtime error: index out of range"): 1 of 12 cases
			leading := r.Intn(12) == 0
			inl, ncI := inlineSchema(r, example, items, leading)
			named := example + []string{" ", "\t", "  "}[r.Intn(3)] + "// {enum: @E}"
			if r.Intn(4) == 0 {
				named = example + " /* {\"enum\" : @E } */"
			}
			c := caseT{rule: rt, named: named, inline: inl, probes: probesFor(r, items), sameTexts: !cbb && !hasBad, // a non-literal may swallow the layout behind it: the two texts then differ
				nontrivial: len(items) >= 2 || nc+ncI > 0 || hasExp || dup}
			rep.Stat(fmt.Sprintf("items_%d", len(items)))
			if nc > 0 {
				rep.Stat("rule_with_comments")
			}
			if cbb {
				rep.Stat("rule_comment_before_bracket")
			}
			if leading {
				rep.Stat("inline_comment_before_first_item")
			}
			if ncI > 0 {
				rep.Stat("inline_with_comments")
			}
			if dup {
				rep.Stat("with_duplicates")
			}
			if hasExp {
				rep.Stat("with_exponent")
			}
			if hasBad {
				rep.Stat("with_non_literal")
			}
			cases = append(cases, c)
		}
		for i := 0; i < nMal; i++ {
			base := cases[r.Intn(n)]
			c := base
			c.sameTexts = false
			c.mutated = true
			c.nontrivial = true
			switch r.Intn(3) {
			case 0:
				c.rule = string(vh.Mutate(r, []byte(base.rule), alphabet))
			case 1:
				c.inline = string(vh.Mutate(r, []byte(base.inline), alphabet))
			case 2:
				c.named = string(vh.Mutate(r, []byte(base.named), alphabet))
			}
			rep.Stat("malformed_stream")
			cases = append(cases, c)
		}
		runCases(rep, cases)
	}
	rep.Finish()
}

func runCases(rep *vh.Report, cases []caseT) {
	N := len(cases)
	res := make([]result, N)
	reqs := make([]string, 3*N)
	var wg sync.WaitGroup
	const workers = 16
	timedOut := make([]bool, N)
	for w := 0; w < workers; w++ {
		wg.Add(1)
		go func(w int) {
			defer wg.Done()
			for i := w; i < N; i += workers {
				c := cases[i]
				reqs[3*i] = "c18r V " + vh.Hex([]byte(c.rule))
				reqs[3*i+1] = "c18r R " + vh.Hex([]byte(c.rule)) + " " + vh.Hex([]byte(c.named)) + hexs(c.probes)
				reqs[3*i+2] = "c18r R - " + vh.Hex([]byte(c.inline)) + hexs(c.probes)
				done := make(chan result, 1)
				go func() {
					var x result
					x.values = realValues(c.rule)
					rt := c.rule
					x.named = realRoute(&rt, c.named, c.probes)
					x.inl = realRoute(nil, c.inline, c.probes)
					done <- x
				}()
				select {
				case x := <-done:
					res[i] = x
				case <-time.After(30 * time.Second):
					timedOut[i] = true
				}
			}
		}(w)
	}
	wg.Wait()
	model := vh.AskModelSharded(reqs, 16)
	for i, c := range cases {
		in := fmt.Sprintf("rule := enum.New(\"@E\", %q); named := jschema.New(\"named\", %q) + AddRule(\"@E\", rule); inline := jschema.New(\"inline\", %q); probes %q",
			c.rule, c.named, c.inline, c.probes)
		rep.Case(in, c.nontrivial)
		if timedOut[i] {
			rep.AddDiff(vh.Diff{Component: "C18-routes", Input: in, Impl: "TIMEOUT", Model: "terminates"})
			continue
		}
		x := res[i]
		// 1. Values
		if x.values != model[3*i] {
			rep.AddDiff(vh.Diff{Component: "C18-routes-values", Input: fmt.Sprintf("enum.New(\"@E\", %q): Check() / Values()", c.rule), Impl: x.values, Model: model[3*i],
				Level: "correspondence", Note: reqs[3*i]})
		}
		if strings.HasPrefix(x.values, "ERR") {
			rep.Stat("rule_" + strings.Join(strings.Fields(x.values)[:2], "_"))
		} else {
			rep.Stat("rule_ok")
		}
		// 2. the routes against the model
		mN, mI := parseModel(model[3*i+1]), parseModel(model[3*i+2])
		compareRoute(rep, "named", in, reqs[3*i+1], x.named, mN, c.mutated)
		compareRoute(rep, "inline", in, reqs[3*i+2], x.inl, mI, c.mutated)
		// 3. the routes against each other
		if c.sameTexts && x.named.panick == "" && x.inl.panick == "" {
			okN, okI := x.named.err == "", x.inl.err == ""
			switch {
			case okN != okI:
				rep.AddDiff(vh.Diff{Component: "C18-routes", Input: in, Impl: "named: " + orOK(x.named.err) + "; inline: " + orOK(x.inl.err),
					Model: "the same verdict of AddRule+Check (named) and Check (inline)"})
			case okN && x.named.bits != x.inl.bits:
				rep.AddDiff(vh.Diff{Component: "C18-routes", Input: in, Impl: "Validate verdicts per probe: named " + x.named.bits + ", inline " + x.inl.bits,
					Model: "the same verdict for every probe document (model: " + mN.bits + ")"})
			case okN:
				rep.Stat("routes_both_accepted")
				for _, b := range x.named.bits {
					if b == '1' {
						rep.Stat("probe_member")
					} else {
						rep.Stat("probe_nonmember")
					}
				}
			default:
				rep.Stat("routes_both_rejected")
			}
		}
	}
}

func orOK(s string) string {
	if s == "" {
		return "accepted"
	}
	return s
}

// coveredCodes: the error classes of loading a schema text that the model covers — schema scanner (301-304), loader
// (402, 801-804), enum-value sub-loader (806, 807, 810, 1602, generic 0), the checker's "example is not a member" (610).
// Anything else (e.g. 601: a rule name the constraint constructors do not know, possible only in the malformed stream)
// is raised by code outside the model (see the header of lean/JSight/Loader.lean).
var coveredCodes = map[string]bool{"0": true, "301": true, "302": true, "303": true, "304": true, "402": true, "801": true, "802": true, "803": true,
	"804": true, "806": true, "807": true, "810": true, "1602": true, "610": true, "1600": true}

// compareRoute: one route of the real code against the model's reply.
func compareRoute(rep *vh.Report, route, in, req string, o routeOut, m modelOut, mutated bool) {
	diff := func(impl, model string) {
		rep.AddDiff(vh.Diff{Component: "C18-routes-" + route, Input: in, Impl: impl, Model: model, Level: "correspondence", Note: req})
	}
	if o.panick != "" {
		diff(o.panick, m.raw)
		return
	}
	if f := strings.Fields(o.err); mutated && len(f) >= 3 && f[1] == "S" && !coveredCodes[f[2]] {
		rep.Stat(route + "_outside_model_" + f[2])
		return
	}
	switch {
	case m.err == "NOENUM":
		// the annotation holds no enum rule (mutated away): nothing of C18 to compare
		rep.Stat(route + "_noenum")
	case m.err != "":
		rep.Stat(route + "_" + strings.Join(strings.Fields(m.err)[:min(3, len(strings.Fields(m.err)))], "_"))
		if o.err != m.err {
			diff(orOK(o.err), m.err)
		}
	case m.ex == "0":
		// the example is not a member: Check must reject (the error belongs to the checker, outside this model)
		rep.Stat(route + "_example_not_member")
		if o.err == "" {
			diff("accepted", "rejected: the example is not among the items ("+m.raw+")")
		}
	case m.ex == "-":
		rep.Stat(route + "_root_not_literal")
	default:
		if o.err != "" {
			diff(o.err, m.raw)
			return
		}
		rep.Stat(route + "_accepted")
		if route == "named" {
			if want := "@" + string(unhexOrDash(m.rule)); o.items != want {
				diff("AST enum rule "+o.items, "AST enum rule "+want)
			}
		} else if want := modelItemsAsAST(m.items); o.items != want {
			diff("AST items "+o.items, "AST items "+want)
		}
		if o.bits != m.bits {
			diff("verdicts "+o.bits, "verdicts "+m.bits+" ("+m.raw+")")
		}
	}
}

func unhexOrDash(s string) []byte {
	if s == "-" {
		return nil
	}
	out := make([]byte, len(s)/2)
	for i := range out {
		fmt.Sscanf(s[2*i:2*i+2], "%02x", &out[i])
	}
	return out
}

func min(a, b int) int {
	if a < b {
		return a
	}
	return b
}

// probe: `vh c18-routes probe <rule text | -> <schema text> <probe>*` prints both sides for one case.
func probe(args []string) {
	if len(args) < 2 {
		fmt.Println("usage: c18-routes probe <rule|-> <schema> <probe>*")
		os.Exit(2)
	}
	var rule *string
	reqRule := "-"
	if args[0] != "-" {
		rule = &args[0]
		reqRule = vh.Hex([]byte(args[0]))
		fmt.Println("real  V:", realValues(args[0]))
		fmt.Println("model V:", vh.AskModel([]string{"c18r V " + reqRule})[0])
	}
	o := realRoute(rule, args[1], args[2:])
	fmt.Printf("real  R: err=%q items=%q bits=%q panic=%q\n", o.err, o.items, o.bits, o.panick)
	fmt.Println("model R:", vh.AskModel([]string{"c18r R " + reqRule + " " + vh.Hex([]byte(args[1])) + hexs(args[2:])})[0])
}
