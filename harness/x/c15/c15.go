// Package c15: property C15 — Example() emits well-formed JSON that its own schema accepts; for a
// schema whose example is plain JSON the result is that example in compact form.
//
// Cases: (A) random type graphs over ≤ 3 user types (aliases, or-shortcuts, arrays, nullable, optional
// recursion, key shortcuts, enum rules, allOf, additionalProperties; jschema.KeysAreOptionalByDefault() drawn per schema
// OBJECT: root and every type independently, properties unmarked / optional: true / optional: false), each compiled as root schema +
// every type as its own root (itself registered under its own name, as TestSchema_Example does);
// every schema Check() accepts is examined. (B) plain-JSON schemas with random layout, annotations,
// notes and rules. (C) histories of Check / Example / Validate calls over 2-4 root schemas that share type OBJECTS
// and bind the names these refer to differently (shared.go).
//
// Known-finding classes are recognised STRUCTURALLY by replaying the example builder on the IR
// (sim.go): a class is attached only when the builder provably meets the situation of the finding.
package c15

import (
	"encoding/json"
	"fmt"
	"math/rand"
	"runtime"
	"strings"
	"sync"

	"verifharness/vh"
	"verifharness/x/c09"
	tg "verifharness/x/tgraph"
)

const command = "c15-example"

type kase struct {
	g     *tg.Graph
	roots []*tg.Node
	names []string
	plain bool   // family (B)
	text  string // (B): schema text as sent
	want  string // (B): expected compact form
}

func replay(k *kase, i int) string {
	if k.plain {
		return "jschema.New(\"plain\", text).Example() with text =\n" + k.text
	}
	var sb strings.Builder
	fmt.Fprintf(&sb, "s := jschema.New(%q, text%s) with text =\n%s\n", k.names[i], optArg(schemaOpt(k.g, k.names[i], i > 0)), k.roots[i].Text())
	sb.WriteString("AddRule: @e0 = [\"ab\", \"cd\"], @e1 = [1, 2, 3] (enum.New) on s and on every type; AddType (fresh jschema.New(name, text) each; [opt] = that object is created with jschema.KeysAreOptionalByDefault(), the others without")
	if i > 0 {
		sb.WriteString("; " + k.names[i] + " = s itself")
	}
	sb.WriteString("):")
	for _, t := range k.g.Types {
		sb.WriteString("\n" + t.Name + optMark(t.Opt) + " = " + t.Body.Text())
	}
	sb.WriteString("\nthen s.Check(), ex := s.Example(), s.Validate(json.New(\"example\", ex))")
	return sb.String()
}

// optArg / optMark: how the option of one schema object shows in the replay text.
func optArg(opt bool) string {
	if opt {
		return ", jschema.KeysAreOptionalByDefault()"
	}
	return ""
}

func optMark(opt bool) string {
	if opt {
		return " [opt]"
	}
	return ""
}

// debugging aid: `vh c15-example --skip=K-C15-or,C15-plain-gen,…` drops the diffs of these classes / components
var skip = map[string]bool{}

// addDiff: vh.Report keeps a few witnesses per (component, level, class) and counts every diff per class.
func addDiff(rep *vh.Report, d vh.Diff) {
	if skip[d.Component] || (d.Class != "" && skip[d.Class]) {
		return
	}
	rep.AddDiff(d)
}

func Run(args []string) {
	if len(args) > 0 && args[0] == "--child" {
		tg.ChildMain()
		return
	}
	if len(args) > 0 && args[0] == "--hchild" {
		hChildMain()
		return
	}
	for _, a := range args {
		if strings.HasPrefix(a, "--skip=") {
			for _, c := range strings.Split(a[7:], ",") {
				skip[c] = true
			}
		}
	}
	rep := vh.NewReport(command, "(A) random type graphs over 1..3 user types (every third graph is of family A2: a string type with the full rule set is added where there is none and every object of the root and the type bodies gets a key shortcut with probability 1/2, required or optional, at a random position): object / array / alias / or-shortcut / literal bodies, required, optional and nullable references, array items, {type} and {or} rules, key shortcuts (string types with regex / length / enum rules, every second one redrawn from everything a string type can carry: no rule / regex / minLength / maxLength / enum inline or by name / a format type email, uri, uuid, date, datetime; the explicit type rule string or enum; const and nullable true or false; rules in random order; rarely aliased), enum rules via AddRule, allOf, additionalProperties, rarely or-rules on empty containers; the option jschema.KeysAreOptionalByDefault() drawn per schema OBJECT (root and every added type independently; properties unmarked / optional: true / optional: false), also in (C) where a shared object keeps its own setting under every root; root + every type as its own root; only schemas accepted by Check are examined. (B) plain-JSON schemas (depth <= 4, all literal forms, keys with every escape spelling: control characters, DEL, \\u0041, \\/, surrogate pairs; the same spellings occur in property names of (A)) with random layout, rules and notes. (C) histories: 2-4 root schemas sharing type OBJECTS (a chain of 1-3 shared types: objects with required / optional / nullable references, key shortcuts, optional recursion; arrays; aliases; or-shortcuts; scalars ruled by a scalar type; scalars with rules) whose type tables bind the names the shared types mention to different definitions (any kind / shape; integer and string scalar types with different rules, the string one being the key type: per history a family of plain words or of one format email / uri / uuid / date / datetime, its bindings over no rule / regex / length / enum / explicit type rules incl. the format / const / nullable), equal definitions pooled into one object; all roots built first or one by one; random Check / Example / Validate calls on random roots, finally Example on every root in random order: every Example() of a root Check accepts must be well-formed, accepted by that root's Validate, and (as every other call) give what the same root gives when assembled from completely fresh objects. nontrivial = (A) the example builder enters at least one user type, (B) the schema has at least one container, (C) some shared object is entered by the builder for two accepted roots under which its example differs")
	seed := vh.Seed()
	workers := runtime.NumCPU()
	if workers > 16 {
		workers = 16
	}
	reqs := make(chan *tg.Req, 4*workers)
	cases := map[int]*kase{}
	var mu sync.Mutex
	no := 0
	emit := func(k *kase, req *tg.Req) {
		req.ID = no
		no++
		mu.Lock()
		cases[req.ID] = k
		mu.Unlock()
		reqs <- req
	}
	go func() {
		defer close(reqs)
		nA, nA2 := vh.Pick(10000, 600000), vh.Pick(5000, 150000)
		for i := 0; i < nA+nA2; i++ {
			r := rand.New(rand.NewSource(seed*1000003 + 1515 + int64(i)*7919))
			g := c09.RandomGraph(r, 3, c09.Options{Enums: true, OrContainer: true, StringRules: true, ManyKeys: true, ExoticKeys: true})
			widenStringTypes(r, g) // keytypes.go: the string types (key types of the shortcuts) with the full rule set
			if i >= nA {
				addKeyShortcuts(r, g) // family (A2): key shortcuts in most objects, a string type with the full rule set
			}
			k := &kase{g: g, roots: []*tg.Node{g.Root}, names: []string{"root"}}
			req := &tg.Req{Example: true, Rules: c09.EnumRules}
			req.Schemas = append(req.Schemas, tg.SchemaReq{Name: "root", Text: g.Root.Text(), Opt: g.RootOpt})
			for _, t := range g.Types {
				k.roots = append(k.roots, t.Body)
				k.names = append(k.names, t.Name)
				req.Schemas = append(req.Schemas, tg.SchemaReq{Name: t.Name, Text: t.Body.Text(), SelfAdd: true, Opt: t.Opt})
				req.Types = append(req.Types, [2]string{t.Name, t.Body.Text()})
				req.TypeOpts = append(req.TypeOpts, t.Opt)
			}
			emit(k, req)
		}
		nB := vh.Pick(4000, 200000)
		for i := 0; i < nB; i++ {
			r := rand.New(rand.NewSource(seed*1000003 + 1516 + int64(i)*7919))
			text, want := plainSchema(r)
			k := &kase{plain: true, text: text, want: want}
			emit(k, &tg.Req{Example: true, Schemas: []tg.SchemaReq{{Name: "plain", Text: text}}})
		}
	}()
	tg.RunPool(command, workers, reqs, func(req *tg.Req, res tg.Res) bool {
		mu.Lock()
		k := cases[req.ID]
		delete(cases, req.ID)
		mu.Unlock()
		return evaluate(rep, k, res)
	})
	runHistories(rep, seed, workers)
	rep.Finish()
}

// runHistories: family (C), see shared.go.
func runHistories(rep *vh.Report, seed int64, workers int) {
	hreqs := make(chan *hReq, 4*workers)
	hists := map[int]*history{}
	var mu sync.Mutex
	go func() {
		defer close(hreqs)
		nC := vh.Pick(6000, 200000)
		for i := 0; i < nC; i++ {
			r := rand.New(rand.NewSource(seed*1000003 + 1517 + int64(i)*7919))
			h := genHistory(r)
			mu.Lock()
			hists[i] = h
			mu.Unlock()
			hreqs <- h.request(i)
		}
	}()
	runHistPool(workers, hreqs, func(req *hReq, res hRes) bool {
		mu.Lock()
		h := hists[req.ID]
		delete(hists, req.ID)
		mu.Unlock()
		return evaluateHistory(rep, h, res)
	})
}

func evaluate(rep *vh.Report, k *kase, res tg.Res) bool {
	if res.Crash != "" {
		rep.Case(replay(k, 0), true)
		addDiff(rep, vh.Diff{Component: "C15-crash", Input: replay(k, 0), Impl: "CRASH " + res.Crash, Model: "no library call may kill the process"})
		return true
	}
	if res.Timeout {
		rep.Case(replay(k, 0), true)
		addDiff(rep, vh.Diff{Component: "C15-termination", Input: replay(k, 0), Impl: "TIMEOUT", Model: fmt.Sprintf("every call returns within %v", tg.CallDeadline)})
		return false
	}
	if k.plain {
		evaluatePlain(rep, k, res.Schemas[0])
		return true
	}
	g := k.g
	inh := g.InhabitedTypes()
	for i, s := range res.Schemas {
		i := i
		if !examine(rep, g, inh, k.roots[i], k.names[i], i > 0, s, func() string { return replay(k, i) }) {
			return true
		}
	}
	return true
}

// examine: one schema (root node `root` over the type table of g) against C15: the result of Check / Example() /
// Validate(Example()) in s. Returns false when the generated text did not even load (harness defect).
func examine(rep *vh.Report, g *tg.Graph, inh map[string]bool, root *tg.Node, name string, self bool, s tg.SchemaRes, input func() string) bool {
	if s.AddErr != "" {
		addDiff(rep, vh.Diff{Component: "C15-harness", Input: input(), Impl: s.AddErr, Model: "generated text loads"})
		return false
	}
	if s.Check != "OK" {
		rep.Stat("check_rejected")
		rep.Case(name+"\n"+g.Canon(), false)
		return true
	}
	rep.Stat("check_accepted")
	sm := simulate(g, root, name, self)
	rep.Case(name+"\n"+g.Canon(), len(sm.entered) > 0)
	for f := range sm.features {
		rep.Stat("builder_" + f)
	}
	structural := sm.class(g, root, inh)
	if structural == "K-C15-uninhabited" {
		// K-C15-uninhabited is "an uninhabited type, possible because of K-C09-cycle": the recursion check lets a required
		// cycle through because it cannot see it (it does not look into the tables of added types). That finding does not
		// explain a schema on which a chain of REQUIRED references returns to a type being expanded in plain sight of the
		// check — required read per schema object: `optional: false`, or no `optional` rule in an object created without
		// KeysAreOptionalByDefault (c09.RootFiniteAsSeen) — and which the recursion check as coded refuses
		// (c09.RecursionAsCoded): if Check accepted it all the same, whatever Example makes of it carries no class.
		if accepts, known := c09.RecursionAsCoded(g, name, root, self, false); known && !accepts &&
			!c09.RootFiniteAsSeen(g, name, root, schemaOpt(g, name, self), self, false) {
			rep.Stat("uninhabited_in_plain_sight_of_the_recursion_check_yet_accepted")
			structural = ""
		}
	}
	if g.AnyOpt() {
		rep.Stat("accepted_with_KeysAreOptionalByDefault_on_some_object")
	}
	if structural == "" {
		rep.Stat("no_known_class_situation")
	} else {
		rep.Stat("situation_" + structural)
	}
	failed := false
	fail := func(comp, impl, model string) {
		failed = true
		d := vh.Diff{Component: comp, Input: input(), Impl: impl, Model: model, Class: structural}
		if structural == "" {
			rep.Stat("FAIL_unclassified_" + comp)
		} else {
			rep.Stat("fail_" + structural)
		}
		addDiff(rep, d)
	}
	ex := s.Example
	switch {
	case s.ExErr != "":
		fail("C15-wellformed", "Example() error: "+s.ExErr, "Example returns well-formed JSON")
	case !json.Valid([]byte(ex)):
		fail("C15-wellformed", fmt.Sprintf("Example() = %q", ex), "encoding/json.Valid")
	case s.ValEx != "OK":
		fail("C15-self-valid", fmt.Sprintf("Example() = %s ; Validate(Example()) = %s", ex, s.ValEx), "Validate(Example()) == nil")
	}
	if !failed {
		rep.Stat("example_ok")
	}
	// correspondence: the builder as coded
	if sm.err == "" && s.ExErr == "" && string(sm.out) != ex {
		addDiff(rep, vh.Diff{Component: "C15-builder-as-coded", Level: "correspondence", Input: input(), Impl: ex, Model: "replayed builder: " + string(sm.out)})
	}
	if (sm.err != "") != (s.ExErr != "") {
		addDiff(rep, vh.Diff{Component: "C15-builder-as-coded", Level: "correspondence", Input: input(), Impl: "error: " + s.ExErr, Model: "replayed builder error: " + sm.err})
	}
	return true
}

func evaluatePlain(rep *vh.Report, k *kase, s tg.SchemaRes) {
	rep.Case(k.text, strings.ContainsAny(k.want, "[{"))
	if s.Check != "OK" {
		// the generator only writes legal plain schemas
		addDiff(rep, vh.Diff{Component: "C15-plain-gen", Input: replay(k, 0), Impl: "Check: " + s.Check, Model: "generated plain-JSON schema is accepted"})
		return
	}
	rep.Stat("plain_accepted")
	switch {
	case s.ExErr != "":
		addDiff(rep, vh.Diff{Component: "C15-wellformed", Input: replay(k, 0), Impl: "Example() error: " + s.ExErr, Model: "Example returns well-formed JSON"})
	case !json.Valid([]byte(s.Example)):
		addDiff(rep, vh.Diff{Component: "C15-wellformed", Input: replay(k, 0), Impl: fmt.Sprintf("Example() = %q", s.Example), Model: "encoding/json.Valid"})
	case s.ValEx != "OK":
		addDiff(rep, vh.Diff{Component: "C15-self-valid", Input: replay(k, 0), Impl: fmt.Sprintf("Example() = %s ; Validate = %s", s.Example, s.ValEx), Model: "Validate(Example()) == nil"})
	}
	if s.ExErr == "" && s.Example != k.want {
		addDiff(rep, vh.Diff{Component: "C15-plain-compact", Input: replay(k, 0), Impl: fmt.Sprintf("%q", s.Example), Model: fmt.Sprintf("byte-for-byte the compact form %q", k.want)})
	}
}
